(* C02_Props.v — the property theorems of C02 and nothing else.
   expected / load        : model of test_case_library.go's expectation generator and loader validations
   ref_server/grpc_server : models of the four handlers of referenceserver/impl.go and grpcserver/impl.go
   ref_client/grpc_client : models of what referenceclient/impl.go and grpcclient/impl.go report
   assert_errs            : C03's model of results.go assert (nil outcome iff the list is empty)
   transport_ok           : the explicit hypotheses on connect-go / grpc-go / net/http (C02_Spec) - assumed, sampled on
                            every check run, NOT proved. *)
From V Require Import C02_Spec C02_Proofs.

(* For every well-formed test case of the deterministic fragment - any stream type, any number of requests, responses,
   headers, trailers, details, any payload bytes, code and message - outside the known class fd-immediate-error-multi,
   and for each of the four peer pairs, the runner's assertion of the derived expectation against what the client
   reports records nothing. *)
Theorem expectation_met :
  forall tr_req tr_rsp, transport_ok tr_req tr_rsp ->
  forall tc e, wf tc = true -> fd_immediate_error_multi tc = false -> expected tc = Ok e ->
  forall sv cl, assert_errs (case_def tc) e (observed tr_req tr_rsp (server_of sv) (client_of cl) tc) = [].
Proof. exact expectation_met_proof. Qed.
Print Assumptions expectation_met.

(* the same against the declarative agreement relation of C03_Spec *)
Theorem expectation_agrees : expectation_met_statement.
Proof. exact expectation_agrees_proof. Qed.
Print Assumptions expectation_agrees.

(* a well-formed case always has a derived expectation (the hypothesis of expectation_met is never vacuous) *)
Theorem expected_defined : forall tc, wf tc = true -> exists e, expected tc = Ok e.
Proof. exact expected_defined_proof. Qed.
Print Assumptions expected_defined.

(* deriving the expectation never crashes, on any shape, well-formed or not *)
Theorem expected_total : forall tc, expected tc <> Crash.
Proof. exact expected_total_proof. Qed.
Print Assumptions expected_total.

(* loading a suite (expandCases' validations + expectations) never crashes: result or error.
   Partial with respect to the property's last sentence: protoyaml parsing, expandRequestData (C19) and the
   config-case expansion (C06/C07) are not part of this model. *)
Theorem load_total_partial : forall tcs, load tcs <> Crash.
Proof. exact load_total_proof. Qed.
Print Assumptions load_total_partial.

(* the grpc-go handlers put the same thing on the wire as the connect-go handlers, for every input *)
Theorem grpc_server_same : forall st hs reqs, grpc_server st hs reqs = ref_server st hs reqs.
Proof. exact grpc_server_same_proof. Qed.
Print Assumptions grpc_server_same.

(* ---------- examples ---------- *)
Definition ex_hdr := mkH (bs "X-Custom") [bs "v1"; bs "v2"].
Definition ex_def (datas : list bytes) (e : option xerr) := mkRD [ex_hdr] [mkH (bs "x-t") [bs "t"]] datas e.
Definition ex_err := mkX 8 (Some (bs "oops")) [(0, bs "abc")].
(* full duplex, two requests, three responses (more responses than requests), error after them *)
Definition ex_full := mkT (bs "fd") 5 [mkH (bs "x-q") [bs "1"]]
  [mkRq 3 true (bs "a") (Some (ex_def [bs "r0"; bs "r1"; bs "r2"] (Some ex_err))); mkRq 3 true (bs "b") None].
(* the known class: full duplex, two requests, no response, an error *)
Definition ex_known := mkT (bs "k") 5 [] [mkRq 3 true (bs "a") (Some (ex_def [] (Some ex_err))); mkRq 3 true (bs "b") None].
(* unary error with a name that is both header and trailer *)
Definition ex_unary := mkT (bs "u") 1 [] [mkRq 0 false (bs "a") (Some (mkRD [ex_hdr] [mkH (bs "x-custom") [bs "t"]] [] (Some ex_err)))].

(* the hypotheses wf / outside-the-class / expected = Ok are inhabited, for a shape the shipped corpus lacks *)
Example wf_inhabited : wf ex_full = true /\ fd_immediate_error_multi ex_full = false /\ exists e, expected ex_full = Ok e.
Proof. split; [vm_compute; reflexivity|]. split; [vm_compute; reflexivity|]. eexists. vm_compute. reflexivity. Qed.

(* with the identity transport the model's own assert is silent on it, for all four pairs (computation) *)
Example ex_full_passes :
  forall sv cl, verdict_errs id_hdrs id_wire (server_of sv) (client_of cl) ex_full = Ok [].
Proof. intros [|] [|]; vm_compute; reflexivity. Qed.
Example ex_unary_passes :
  forall sv cl, verdict_errs id_hdrs id_wire (server_of sv) (client_of cl) ex_unary = Ok [].
Proof. intros [|] [|]; vm_compute; reflexivity. Qed.

(* the Section hypotheses of expectation_met are satisfiable (the theorem is not vacuous in its transport): the
   identity transport satisfies transport_ok, and so does a transport that behaves like an HTTP stack - names arrive in
   lower case, the values of one field joined into one with ", " (C03's canon_join is what makes the joined form agree) *)
Example transport_ok_identity : transport_ok id_hdrs id_wire.
Proof. exact transport_id_proof. Qed.
Example transport_ok_joining : transport_ok join_hdrs join_wire.
Proof. exact transport_join_proof. Qed.
(* ... and the second one really changes what the peers see *)
Example joining_changes_headers :
  join_hdrs [ex_hdr] = [mkH (bs "x-custom") [bs "v1, v2"]].
Proof. vm_compute. reflexivity. Qed.
(* hence the verdict theorem applies to both, e.g. on the full-duplex example with the joining transport, all pairs *)
Example ex_full_passes_joined :
  forall sv cl, verdict_errs join_hdrs join_wire (server_of sv) (client_of cl) ex_full = Ok [].
Proof. intros [|] [|]; vm_compute; reflexivity. Qed.
Example ex_unary_passes_joined :
  forall sv cl, verdict_errs join_hdrs join_wire (server_of sv) (client_of cl) ex_unary = Ok [].
Proof. intros [|] [|]; vm_compute; reflexivity. Qed.

(* only the first message's definition (and full_duplex flag) counts: a client stream whose definition sits on the second
   message only is well-formed, its expectation is the bare echo, and all four pairs meet it; the same for a full-duplex
   stream whose later messages carry other definitions and another full_duplex flag *)
Definition ex_later := mkT (bs "cl") 2 [] [mkRq 1 false (bs "a") None; mkRq 1 false (bs "b") (Some (ex_def [bs "r"] (Some ex_err)))].
Definition ex_several := mkT (bs "fs") 5 []
  [mkRq 3 true (bs "a") (Some (ex_def [bs "r0"; bs "r1"] None)); mkRq 3 false (bs "b") (Some (ex_def [] (Some ex_err)))].
Example later_definition_ignored :
  wf ex_later = true /\ expected ex_later = Ok (mkR [] [] [mkP [] (info [] (reqs_any (t_requests ex_later)))] None None 0) /\
  forall sv cl, verdict_errs id_hdrs id_wire (server_of sv) (client_of cl) ex_later = Ok [].
Proof. split; [vm_compute; reflexivity|]. split; [vm_compute; reflexivity|]. intros [|] [|]; vm_compute; reflexivity. Qed.
Example several_definitions_first_wins :
  wf ex_several = true /\ forall sv cl, verdict_errs id_hdrs id_wire (server_of sv) (client_of cl) ex_several = Ok [].
Proof. split; [vm_compute; reflexivity|]. intros [|] [|]; vm_compute; reflexivity. Qed.

(* the excluded class is not excluded for convenience: there the modelled peers do NOT satisfy the expectation
   (both servers have seen one request when they must fail, the expectation lists two) *)
Example ex_known_fails :
  wf ex_known = true /\ fd_immediate_error_multi ex_known = true /\
  forall sv cl, verdict_errs id_hdrs id_wire (server_of sv) (client_of cl) ex_known = Ok [EReqCount].
Proof. split; [vm_compute; reflexivity|]. split; [vm_compute; reflexivity|]. intros [|] [|]; vm_compute; reflexivity. Qed.

(* the unrepaired generator indexed RequestMessages[idx] without the guard: the shape that crashed it *)
Example more_responses_than_requests_is_handled :
  exists e, expected ex_full = Ok e /\ length (r_payloads e) = 3%nat /\ nth_error (r_payloads e) 2 = Some (mkP (bs "r2") empty_ri).
Proof. eexists. split; [vm_compute; reflexivity|]. split; vm_compute; reflexivity. Qed.

(* malformed shapes are rejected with an error, not a crash *)
Example wrong_message_type_rejected : expected (mkT (bs "x") 4 [] [mkRq 0 false [] None]) = Err.
Proof. vm_compute. reflexivity. Qed.
Example duplicate_names_rejected : load [ex_full; ex_full] = Err.
Proof. vm_compute. reflexivity. Qed.
