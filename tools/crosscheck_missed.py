#!/usr/bin/env python3
"""tools/crosscheck_missed.py [-j N]: for every kept seeded change that its own property's check misses and no other
check is yet recorded to catch, run the checks of the properties whose anchors name the files the patch touches
(tools/recheck_seed.py records the result under detected_by_other)."""
import glob, json, os, re, subprocess, sys
from concurrent.futures import ThreadPoolExecutor
V = "/verif"
FILEMAP = [
 (r"connectconformance/process\.go", ["C11", "C10", "C05"]),
 (r"connectconformance/client_runner\.go", ["C10", "C04", "C05"]),
 (r"connectconformance/server_runner\.go", ["C11", "C05", "C12", "C04", "C19", "C16"]),
 (r"internal/delimited\.go", ["C09", "C10", "C11"]),
 (r"internal/codec\.go", ["C09", "C18"]),
 (r"connectconformance/connectconformance\.go", ["C05", "C04", "C01", "C07", "C08"]),
 (r"connectconformance/results\.go", ["C03", "C04", "C16", "C01"]),
 (r"connectconformance/test_case_library\.go", ["C07", "C02", "C19", "C05", "C01"]),
 (r"connectconformance/test_trie\.go", ["C08", "C01"]),
 (r"connectconformance/config\.go", ["C06", "C07", "C01"]),
 (r"connectconformance/testsuites/", ["C07", "C01", "C02"]),
 (r"cmd/connectconformance/main\.go", ["C08", "C06", "C05"]),
 (r"internal/tracer/", ["C14", "C15", "C16", "C20", "C13"]),
 (r"app/referenceserver/", ["C12", "C17", "C13", "C02", "C19", "C20", "C01"]),
 (r"app/referenceclient/", ["C13", "C17", "C02", "C19", "C09", "C01", "C16"]),
 (r"app/grpcclient/|app/grpcserver/", ["C02", "C01", "C09"]),
 (r"internal/compression/", ["C20", "C17", "C01"]),
 (r"internal/raw_http_body\.go", ["C17", "C20"]),
 (r"internal/headers\.go|internal/errors\.go|internal/grpcutil/", ["C18", "C02", "C13", "C17"]),
 (r"internal/printer\.go", ["C11", "C12"]),
 (r"internal/tls\.go", ["C01", "C05"]),
]
jobs = []
for m in sorted(glob.glob(V + "/seeded/*/meta.json")):
    j = json.load(open(m)); name = m.split("/")[-2]; own = name.split("-")[0]
    d = j.get("detected", {})
    if not (isinstance(d, dict) and d.get("result") == "MISSED"):
        continue
    others = j.get("detected_by_other", {})
    if any(v.get("result") == "VIOLATION" for v in others.values()):
        continue
    patch = open(os.path.dirname(m) + "/patch.diff").read()
    files = re.findall(r"^\+\+\+ b/(\S+)", patch, re.M)
    cands = []
    for f in files:
        for pat, props in FILEMAP:
            if re.search(pat, f):
                for p in props:
                    if p != own and p not in others and p not in cands:
                        cands.append(p)
    for p in cands:
        jobs.append((name, p))
print("%d runs" % len(jobs), flush=True)
def run(job):
    name, p = job
    r = subprocess.run(["python3", V + "/tools/recheck_seed.py", name, p], stdout=subprocess.PIPE, stderr=subprocess.STDOUT, text=True)
    line = [l for l in r.stdout.splitlines() if l.startswith(name)]
    print((line[-1] if line else name + " " + p + " ?")[:200], flush=True)
n = int(sys.argv[2]) if len(sys.argv) > 2 and sys.argv[1] == "-j" else 4
# one seed at a time per meta.json (recheck_seed rewrites it): group jobs by seed
by = {}
for name, p in jobs:
    by.setdefault(name, []).append(p)
def run_seed(item):
    name, ps = item
    for p in ps:
        # stop at the first property that catches it
        j = json.load(open("%s/seeded/%s/meta.json" % (V, name)))
        if any(v.get("result") == "VIOLATION" for v in j.get("detected_by_other", {}).values()):
            break
        run((name, p))
with ThreadPoolExecutor(n) as ex:
    list(ex.map(run_seed, by.items()))
