#!/usr/bin/env python3
"""tools/c07_diff.py [tier] [seed] — correspondence run only (no Coq proof build): builds the extracted
model of C07_Model.v and the Go test binary, evaluates the generated cases on both and prints the
first disagreements.  A development aid; ./check C07 is the real thing."""
import os, sys, time, random, hashlib
sys.path.insert(0, os.path.dirname(os.path.dirname(os.path.abspath(__file__))))
from vlib import core
from vlib.props.c07 import PROP

tier = sys.argv[1] if len(sys.argv) > 1 else "quick"
seed = int(sys.argv[2]) if len(sys.argv) > 2 else 1
t0 = time.time()
ctx = core.Ctx(PROP, tier, seed)
core.regen_consts(ctx)
ok, log = core.build_coq(files=["C07_Consts", "C07_Model"])
if not ok:
    print(log[-3000:]); sys.exit(2)
core.build_model(PROP)
rng = random.Random(seed * 1000003 + int(hashlib.sha1(PROP.id.encode()).hexdigest()[:6], 16))
cases = PROP.corpus() + list(PROP.generate(rng, tier))
print("cases", len(cases), "gen+build %.1fs" % (time.time() - t0))
g, m = ctx.eval_both(cases, "main")
mism = [i for i in range(len(cases)) if g[i] != m[i]]
kinds = {}
for i, c in enumerate(cases):
    k = kinds.setdefault(c[0], [0, 0, 0])
    k[0] += 1
    k[1] += 1 if PROP.nontrivial(c, g[i] or "") else 0
    k[2] += 1 if g[i] != m[i] else 0
print(kinds, ctx.notes, "wall %.1fs" % (time.time() - t0))
for i in mism[:5]:
    print("CASE ", core.sx(cases[i])[:1500]); print(" impl ", (g[i] or "")[:1500]); print(" model", (m[i] or "")[:1500])
sys.exit(1 if mism else 0)
