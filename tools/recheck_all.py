#!/usr/bin/env python3
"""tools/recheck_all.py [-j N]: re-run, against every kept seeded change, the check of its own property, and — when
that misses — the checks recorded as catching it under detected_by_other.  Rewrites the `detected` /
`detected_by_other` records in each meta.json (through tools/recheck_seed.py) so that DESIGN.md section 15 reflects
the checks as they are now."""
import glob, json, os, subprocess, sys
from concurrent.futures import ThreadPoolExecutor
V = "/verif"
n = int(sys.argv[sys.argv.index("-j") + 1]) if "-j" in sys.argv else 4
only = [a for a in sys.argv[1:] if a.startswith("C") and len(a) == 3]      # optional: restrict to these properties
seeds = sorted(os.path.basename(os.path.dirname(m)) for m in glob.glob(V + "/seeded/*/meta.json"))
if only:
    seeds = [x for x in seeds if x.split("-")[0] in only]
def run(name):
    own = name.split("-")[0]
    def one(p):
        r = subprocess.run(["python3", V + "/tools/recheck_seed.py", name, p], stdout=subprocess.PIPE, stderr=subprocess.STDOUT, text=True)
        l = [x for x in r.stdout.splitlines() if x.startswith(name)]
        return (l[-1] if l else name + " " + p + " ?")
    out = [one(own)]
    if " CAUGHT " not in out[0]:
        j = json.load(open("%s/seeded/%s/meta.json" % (V, name)))
        for p in j.get("detected_by_other", {}):
            o = one(p); out.append(o)
            if " CAUGHT " in o:
                break
    for o in out:
        print(o[:160], flush=True)
with ThreadPoolExecutor(n) as ex:
    list(ex.map(run, seeds))
