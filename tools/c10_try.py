#!/usr/bin/env python3
"""tools/c10_try.py [seed] [tier] — C10 differential without shrinking (development aid).
Honours VERIF_REPO / VERIF_BUILD like ./check."""
import sys, random, hashlib, time, collections
sys.path.insert(0, '/verif')
from vlib import core
from vlib.props.c10 import PROP
seed = int(sys.argv[1]) if len(sys.argv) > 1 else 1
tier = sys.argv[2] if len(sys.argv) > 2 else "quick"
ctx = core.Ctx(PROP, tier, seed)
core.build_coq(files=["C10_Model"])
core.build_model(PROP)
rng = random.Random(seed * 1000003 + int(hashlib.sha1(b"C10").hexdigest()[:6], 16))
t0 = time.time()
cases = PROP.corpus() + list(PROP.generate(rng, tier))
print("generated", len(cases), "in %.1fs" % (time.time() - t0))
g, m = ctx.eval_both(cases, "try")
print("notes", ctx.notes)
mism = [i for i in range(len(cases)) if g[i] != m[i]]
bad = [i for i in mism if g[i] and "6261642d63617365" in g[i]]
stuck = [i for i in mism if g[i] and "68616e67" in g[i]]
print("mismatches", len(mism), "bad-case", len(bad), "hang", len(stuck))
nt = sum(1 for i, c in enumerate(cases) if g[i] and PROP.nontrivial(c, g[i]))
print("nontrivial", nt)
for i in (bad[:2] + stuck[:2] + [i for i in mism if i not in bad and i not in stuck][:4]):
    print(core.sx(cases[i])); print("  impl ", g[i]); print("  model", m[i])
