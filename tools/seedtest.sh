#!/bin/bash
# tools/seedtest.sh <property id> <dir with patch.diff [+ demo]> [check args...]
# Applies a seeded change in a scratch worktree of /repo (never in /repo itself: other checks may be
# running against it), runs the property's check against that worktree, removes the worktree.
set -u
PID=$1; DIR=$(cd "$2" && pwd); shift 2
export GOFLAGS=-mod=mod GOPROXY=off GOSUMDB=off GOTOOLCHAIN=local
WT=$(mktemp -d /tmp/seed-$PID-XXXX); rmdir $WT
git -C /repo worktree add --detach $WT HEAD >/dev/null 2>&1 || { echo "worktree failed"; exit 2; }
if ! git -C $WT apply $DIR/patch.diff; then echo "PATCH DOES NOT APPLY"; git -C /repo worktree remove --force $WT; exit 2; fi
BD=$(mktemp -d /tmp/seedbuild-$PID-XXXX)
( cd /verif && VERIF_REPO=$WT VERIF_BUILD=$BD VERIF_EVID=$BD/evidence ./check $PID "$@" 2>&1 | tail -8 )
rc=${PIPESTATUS[0]}
mkdir -p $DIR/replay; cp $BD/replay/$PID-*.case $DIR/replay/ 2>/dev/null
git -C /repo worktree remove --force $WT; rm -rf $BD
