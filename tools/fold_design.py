#!/usr/bin/env python3
"""Folds design-notes/built-Cnn.md (written by the builder of each property) into DESIGN.md section 14,
between the BUILT-BEGIN / BUILT-END markers, and the seeded-change table into section 15."""
import glob, json, os, re
V = os.path.dirname(os.path.dirname(os.path.abspath(__file__)))
d = open(V + "/DESIGN.md").read()
parts = []
for f in sorted(glob.glob(V + "/design-notes/built-C*.md")):
    t = open(f).read().strip()
    t = re.sub(r"^# ", "### ", t, flags=re.M) if not t.startswith("###") else t
    parts.append(t)
built = "\n\n---------------------------------------------------------------------------\n".join(parts)
rows = ["| seeded change | property | what it does (one line) | needs | quick check |", "|---|---|---|---|---|"]
for m in sorted(glob.glob(V + "/seeded/*/meta.json"), key=lambda p: (p.split("/")[-2].split("-")[0], int(re.sub(r"\D", "", p.split("/")[-2].split("-")[1]) or 0))):
    j = json.load(open(m))
    name = m.split("/")[-2]
    det = j.get("detected", {})
    res = det.get("result") if isinstance(det, dict) else str(det)
    if res is None:
        res = j.get("caught_by") or j.get("caught") or "see meta.json"
    clip = lambda s, n: (str(s).replace("\n", " ").replace("|", "/")[:n] + ("…" if len(str(s)) > n else ""))
    rows.append("| %s | %s | %s | %s | %s |" % (name, j.get("property", name.split("-")[0]), clip(j.get("summary", j.get("what", "")), 160), clip(j.get("needs", j.get("needs_to_manifest", "")), 120), clip(res, 60)))
def put(d, a, b, body):
    i, j = d.index(a) + len(a), d.index(b)
    return d[:i] + "\n" + body + "\n" + d[j:]
# ---- section 16: trusted base as built, from the property modules and the last evidence files
import importlib, sys
sys.path.insert(0, V)
tb = ["| property | theorems (Props) | closed under the global context | axioms reported | trusted / modelled-not-verified (from the property module) | assumptions |", "|---|---|---|---|---|---|"]
tot = 0
for i in range(1, 21):
    pid = "C%02d" % i
    try:
        P = importlib.import_module("vlib.props." + pid.lower()).PROP
    except Exception as ex:
        continue
    ev = {}
    try:
        ev = json.load(open("%s/evidence/%s.json" % (V, pid)))["coverage"]
    except Exception:
        pass
    tot += ev.get("obligations", 0)
    cl = lambda xs: "; ".join(str(x).replace("|", "/") for x in xs)
    tb.append("| %s | %s | %s | %s | %s | %s |" % (pid, ev.get("obligations", "?"), ev.get("closed_under_global_context", "?"),
              ", ".join(ev.get("axioms_reported", [])) or "none", cl(P.trusted_base), cl(P.assumptions)))
tb.append("")
tb.append("Total property theorems at the last runs: %d." % tot)
# ---- findings as built (from KNOWN_FINDINGS.txt) and the summary table (from evidence)
fr = ["| kind | property | commit / class | what failed |", "|---|---|---|---|"]
for l in open(V + "/KNOWN_FINDINGS.txt"):
    m = re.match(r"(fixed|known):\s+property=(\S+)\s+(\S+)\s+(.*)", l.strip())
    if m:
        fr.append("| %s | %s | %s | %s |" % (m.group(1), m.group(2), m.group(3), m.group(4).replace("|", "/")[:420]))
d = put(d, "<!-- FINDINGS-BEGIN -->", "<!-- FINDINGS-END -->", "\n".join(fr))
sm = ["| property | theorems | quick cases (last run) | distinct non-trivial | quick wall s | seeded changes kept | caught by own check | caught by another property's check | missed |", "|---|---|---|---|---|---|---|---|---|"]
for i in range(1, 21):
    pid = "C%02d" % i
    try:
        ev = json.load(open("%s/evidence/%s.json" % (V, pid)))
    except Exception:
        continue
    c = ev["coverage"]
    own = oth = miss = tot = 0
    for m in glob.glob(V + "/seeded/%s-*/meta.json" % pid):
        j = json.load(open(m)); tot += 1
        dd = j.get("detected", {})
        r = dd.get("result") if isinstance(dd, dict) else str(dd)
        if r == "MISSED":
            if any(v.get("result") == "VIOLATION" for v in j.get("detected_by_other", {}).values()):
                oth += 1
            else:
                miss += 1
        else:
            own += 1
    sm.append("| %s | %s | %s | %s | %s | %d | %d | %d | %d |" % (pid, c.get("obligations"), c.get("evaluations"), c.get("distinct_nontrivial"), ev.get("wall_s"), tot, own, oth, miss))
d = put(d, "<!-- SUMMARY-BEGIN -->", "<!-- SUMMARY-END -->", "\n".join(sm))
d = put(d, "<!-- TB-BEGIN -->", "<!-- TB-END -->", "\n".join(tb))
d = put(d, "<!-- BUILT-BEGIN -->", "<!-- BUILT-END -->", built)
d = put(d, "<!-- SEEDED-BEGIN -->", "<!-- SEEDED-END -->", "\n".join(rows))
open(V + "/DESIGN.md", "w").write(d)
print("folded %d built notes, %d seeded changes" % (len(parts), len(rows) - 2))
