#!/usr/bin/env python3
"""tools/c17_probe.py <tag> <case file>: run a C17 case file on the Go side only and print the result lines
(tag = internal | server | client).  Builder's debugging aid."""
import os, sys
sys.path.insert(0, os.path.dirname(os.path.dirname(os.path.abspath(__file__))))
from vlib import core
from vlib.props import c17
tag, cases = sys.argv[1], os.path.abspath(sys.argv[2])
p = c17.PROP
b = core.go_test_bin(p, p.packages[tag])
out = "/tmp/c17-probe.%s.out" % tag
core.run_go(b, p.packages[tag], cases, out, extra_env={"VERIF_DEBUG": "1"} if os.environ.get("VERIF_DEBUG") else None)
sys.stdout.write(open(out).read())
