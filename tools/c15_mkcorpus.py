#!/usr/bin/env python3
"""tools/c15_mkcorpus.py — regenerates corpus/C15/*.case (the minimised cases of the C15 findings) from abstract
exchanges, through the same synthesis step as the generator (real Framer + hpack.Encoder)."""
import os
import random
import sys

sys.path.insert(0, os.path.dirname(os.path.dirname(os.path.abspath(__file__))))
from vlib import core                      # noqa: E402
from vlib.props import c15                 # noqa: E402
from vlib.props.c15 import H, D, RST, GOAWAY, SETTINGS, REQ, RESP, PREFACE   # noqa: E402

P = c15.PROP
REQF = [(":method", "POST"), (":scheme", "http"), (":authority", "h"), (":path", "/s.S/M"), ("content-type", "application/grpc")]
NAME = ("x-test-case-name", "Suite/a/x")
RESPF = [(":status", "200"), ("content-type", "application/grpc")]
TRAIL = [("grpc-status", "0")]
MSG = c15.envelope(0, b"hello")

CASES = {
    "continuation": ("HEADERS continued in a CONTINUATION frame (request and response): the trace must be complete", 1, [
        (REQ, H, 1, 0, REQF + [NAME], 1, -1, 0), (REQ, D, 1, 1, MSG, -1),
        (RESP, H, 1, 0, RESPF, 1, -1, 0), (RESP, D, 1, 0, MSG, -1), (RESP, H, 1, 1, TRAIL, 0, -1, 0)], [[2, 0]]),
    "unnamed-trailers": ("a stream without test name receives response headers and trailers: must not panic", 0, [
        (REQ, H, 1, 1, REQF, 0, -1, 0), (RESP, H, 1, 0, RESPF, 0, -1, 0), (RESP, H, 1, 1, TRAIL, 0, -1, 0)], []),
    "data-before-headers-goaway": ("response DATA before any response HEADERS, then GOAWAY below the stream: must not panic", 0, [
        (REQ, H, 1, 1, REQF + [NAME], 0, -1, 0), (RESP, D, 1, 0, b"x", -1), (RESP, GOAWAY, 0, 2, b"")], []),
    "data-before-headers-close-server": ("response DATA before any response HEADERS, then the server conn is closed: must not panic", 1, [
        (REQ, H, 1, 1, REQF + [NAME], 0, -1, 0), (RESP, D, 1, 0, b"x", -1)], [[2, 0]]),
    "data-before-headers-rst-client": ("response DATA before any response HEADERS, then RST_STREAM by the server (client conn): must not panic (seeded C15-14)", 0, [
        (REQ, H, 1, 0, REQF + [NAME], 0, -1, 0), (REQ, D, 1, 1, MSG, -1), (RESP, D, 1, 0, MSG, -1), (RESP, RST, 1, 2)], []),
    "data-before-headers-rst-server": ("response DATA before any response HEADERS, then RST_STREAM by the server (server conn): must not panic (seeded C15-14)", 1, [
        (REQ, H, 1, 0, REQF + [NAME], 0, -1, 0), (RESP, D, 1, 0, MSG[:7], -1), (RESP, RST, 1, 2)], []),
    "data-before-headers-rst-by-client": ("response DATA before any response HEADERS, then RST_STREAM by the client: must not panic", 1, [
        (REQ, H, 1, 0, REQF + [NAME], 0, -1, 0), (RESP, D, 1, 0, MSG[:7], -1), (REQ, RST, 1, 8)], []),
    "data-before-headers-then-stream": ("response DATA before the response HEADERS, then HEADERS announcing gRPC and more DATA: the byte count "
                                        "of the early DATA stays in `actual` and the uint32 subtraction in traceMessageLocked wraps (model mirrors it)", 0, [
        (REQ, H, 1, 0, REQF + [NAME], 0, -1, 0), (RESP, D, 1, 0, MSG, -1), (RESP, H, 1, 0, RESPF, 0, -1, 0),
        (RESP, D, 1, 0, MSG, -1), (REQ, RST, 1, 8)], []),
    "reset-before-headers": ("a named stream reset by the server before any response headers: one trace ending in the reset", 0, [
        (REQ, H, 1, 1, REQF + [NAME], 0, -1, 0), (RESP, RST, 1, 2)], []),
    "refused-then-retried": ("REFUSED_STREAM, then a new attempt with the same test name: only the retry's trace", 0, [
        (REQ, H, 1, 1, REQF + [NAME], 0, -1, 0), (RESP, RST, 1, 7),
        (REQ, H, 3, 1, [(":method", "POST"), (":scheme", "http"), (":authority", "h"), (":path", "/s.S/M2"),
                        ("content-type", "application/grpc"), NAME], 0, -1, 0),
        (RESP, H, 3, 0, RESPF, 0, -1, 0), (RESP, H, 3, 1, TRAIL, 0, -1, 0)], [[2, 0]]),
    "refused-not-retried": ("REFUSED_STREAM without a retry: the refused attempt's trace when the timer fires", 0, [
        (REQ, H, 1, 1, REQF + [NAME], 0, -1, 0), (RESP, RST, 1, 7), (REQ, c15.TIMESUP, "Suite/a/x")], []),
    "table-size-raised": ("the server announces SETTINGS_HEADER_TABLE_SIZE 8192, the client's encoder adopts it: its next header block opens with "
                          "a dynamic table size update above 4096 (seeded C15-15: decoders limited to 4096 gave the direction up)", 1, [
        (RESP, SETTINGS, 0, (1, 8192)), (REQ, SETTINGS, 1),
        (REQ, H, 1, 1, REQF + [NAME], 0, -1, 0), (RESP, H, 1, 0, RESPF, 0, -1, 0), (RESP, H, 1, 1, TRAIL, 0, -1, 0)], [[2, 0]]),
    "table-size-raised-by-client": ("the client announces SETTINGS_HEADER_TABLE_SIZE 65536: the response header block opens with the size update "
                                    "(client conn; seeded C15-15)", 0, [
        (REQ, SETTINGS, 0, (1, 65536)), (RESP, SETTINGS, 1),
        (REQ, H, 1, 1, REQF + [NAME], 0, -1, 0), (RESP, H, 1, 0, RESPF, 0, -1, 0), (RESP, H, 1, 1, TRAIL, 0, -1, 0)], [[2, 0]]),
}

items = [(PREFACE, frames) for (_, _, frames, _) in CASES.values()]
synth = P._synth(items)
rng = random.Random(0)
for (fname, (what, side, frames, tail)), (reqb, respb, reqt, respt, lens) in zip(CASES.items(), synth):
    ops = c15.build_ops(rng, side, len(PREFACE), frames, lens, "frame", tail)
    case = P._case("c15.conn", side, reqb, respb, reqt, respt, ops)
    with open(os.path.join(core.VERIF, "corpus", "C15", fname + ".case"), "w") as f:
        f.write("; C15: %s\n; (regenerate with tools/c15_mkcorpus.py)\n%s\n" % (what, core.sx([case[0], 0] + case[1:])))
    print("wrote", fname)

# dynamic table size updates written by hand (not obtainable from hpack.Encoder): the largest a SETTINGS value can
# announce (2^32-1: accepted), and 2^32 (cannot be announced: a decoding error, the direction is given up)
rng = random.Random(1)
for fname, what, side, (uq, up, ut) in (
        ("table-size-update-max", "a request block opening with a dynamic table size update to 2^32-1 (legal after SETTINGS_HEADER_TABLE_SIZE "
         "2^32-1): traced", 1, ([(1 << 32) - 1], [], [])),
        ("table-size-update-max-trailers", "trailers opening with the size updates 0 and 2^32-1 (client conn): traced", 0, ([], [], [0, (1 << 32) - 1])),
        ("table-size-update-too-large", "a response block opening with a size update to 2^32, which no SETTINGS value can announce: the "
         "direction is given up, nothing else happens", 0, ([], [1 << 32], []))):
    frames, reqb, respb, reqt, respt, lens = c15.update_case("Suite/cfg/" + fname, uq, up, ut)
    ops = c15.build_ops(rng, side, len(PREFACE), frames, lens, "frame", [[2, 0]])
    case = P._case("c15.conn", side, reqb, respb, reqt, respt, ops)
    with open(os.path.join(core.VERIF, "corpus", "C15", fname + ".case"), "w") as f:
        f.write("; C15: %s\n; (regenerate with tools/c15_mkcorpus.py)\n%s\n" % (what, core.sx([case[0], 0] + case[1:])))
    print("wrote", fname)
