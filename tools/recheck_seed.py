#!/usr/bin/env python3
"""tools/recheck_seed.py <seed name> [<PID> ...]: re-run the check(s) of the given properties (default: the seed's own)
against a kept seeded change and record the result in its meta.json (`detected` for the own property,
`detected_by_other` for others)."""
import json, os, subprocess, sys
V = "/verif"
name = sys.argv[1]
d = "%s/seeded/%s" % (V, name)
own = name.split("-")[0]
pids = sys.argv[2:] or [own]
meta = json.load(open(d + "/meta.json"))
for pid in pids:
    r = subprocess.run(["bash", V + "/tools/seedtest.sh", pid, d], stdout=subprocess.PIPE, stderr=subprocess.STDOUT, text=True)
    lines = r.stdout.strip().splitlines()
    real = [l for l in lines if l.startswith("VIOLATION property=%s" % pid)]
    caught = bool(real)
    rec = {"check": "./check %s --tier quick" % pid, "result": "VIOLATION" if caught else "MISSED",
           "how": "tools/seedtest.sh %s seeded/%s (scratch worktree + VERIF_REPO)" % (pid, name), "output_tail": lines[-4:]}
    if pid == own:
        meta["detected"] = rec
    else:
        meta.setdefault("detected_by_other", {})[pid] = rec
    print(name, pid, "CAUGHT" if caught else "MISSED", "|", " / ".join(lines[-3:])[:300])
json.dump(meta, open(d + "/meta.json", "w"), indent=1)
