#!/bin/bash
# C20: the library/probe helper file is identical in every package that has a C20 harness
# (only the package clause differs); edit the copy in internal/compression, then run this.
set -e
cd /verif/harness/C20/internal
for pk in tracer:tracer referenceserver:app/referenceserver referenceclient:app/referenceclient internal:.; do
  n=${pk%%:*}; d=${pk##*:}
  sed "s/^package compression/package $n/" compression/zz_verif_c20lib_test.go > $d/zz_verif_c20lib_test.go
done
