#!/usr/bin/env python3
"""tools/confirm_seed.py <seed dir> : confirm a seeded change in a scratch worktree of /repo:
   (1) it applies, the tree builds and the repository's whole test suite still passes with it,
   (2) the demonstration fails with it, (3) the demonstration passes without it.
   Writes the outcome into <seed dir>/meta.json under "confirmed"."""
import json, os, re, shutil, subprocess, sys, tempfile

d = os.path.abspath(sys.argv[1])
env = dict(os.environ, GOFLAGS="-mod=mod", GOPROXY="off", GOSUMDB="off", GOTOOLCHAIN="local")
meta = json.load(open(os.path.join(d, "meta.json")))
demo = os.path.join(d, "demo_test.go")
scripts = sorted(f for f in os.listdir(d) if f.startswith("demo") and f.endswith(".sh"))
if not os.path.exists(demo) and scripts:
    # demonstration is a script `demo.sh [worktree]`: exit 0 = passes, non-zero = fails
    wt = tempfile.mkdtemp(prefix="/tmp/confirm-"); os.rmdir(wt)
    subprocess.run(["git", "-C", "/repo", "worktree", "add", "--detach", wt, "HEAD"], check=True, stdout=subprocess.DEVNULL, stderr=subprocess.DEVNULL)
    def sh(cmd):
        p = subprocess.run(cmd, shell=True, cwd=wt, env=env, stdout=subprocess.PIPE, stderr=subprocess.STDOUT, text=True)
        return p.returncode, p.stdout
    res = {}
    try:
        rc, out = sh("git apply %s/patch.diff" % d); res["applies"] = rc == 0
        rc, out = sh("go build ./... && go test -vet=off -count=1 ./... 2>&1 | tail -25"); res["suite_passes_with_change"] = rc == 0 and "FAIL" not in out
        rc, out = sh("bash %s/%s %s" % (d, scripts[0], wt)); res["demo_fails_with_change"] = rc != 0
        sh("git apply -R %s/patch.diff" % d)
        rc, out = sh("bash %s/%s %s" % (d, scripts[0], wt)); res["demo_passes_without_change"] = rc == 0
    finally:
        subprocess.run(["git", "-C", "/repo", "worktree", "remove", "--force", wt])
    res["head"] = subprocess.run(["git", "-C", "/repo", "rev-parse", "--short", "HEAD"], stdout=subprocess.PIPE, text=True).stdout.strip()
    meta["confirmed"] = res
    json.dump(meta, open(os.path.join(d, "meta.json"), "w"), indent=1)
    print(json.dumps(res))
    sys.exit(0 if all(v for k, v in res.items() if k != "head") else 1)
src = open(demo).read()
demo_dir = meta.get("demo_dir")
if not demo_dir:
    m = re.search(r"[Pp]lace(?:d)? (?:it )?in ([\w./-]+/)", src)
    demo_dir = m.group(1).rstrip("/") if m else None
if not demo_dir:
    sys.exit("cannot determine demo_dir")
tests = re.findall(r"^func (Test\w+)\(", src, re.M)
wt = tempfile.mkdtemp(prefix="/tmp/confirm-"); os.rmdir(wt)
def sh(cmd, cwd=wt):
    p = subprocess.run(cmd, shell=True, cwd=cwd, env=env, stdout=subprocess.PIPE, stderr=subprocess.STDOUT, text=True)
    return p.returncode, p.stdout
subprocess.run(["git", "-C", "/repo", "worktree", "add", "--detach", wt, "HEAD"], check=True, stdout=subprocess.DEVNULL, stderr=subprocess.DEVNULL)
res = {}
try:
    rc, out = sh("git apply %s/patch.diff" % d); res["applies"] = rc == 0
    rc, out = sh("go build ./... && go test -vet=off -count=1 ./... 2>&1 | tail -25"); res["suite_passes_with_change"] = rc == 0 and "FAIL" not in out
    if not res["suite_passes_with_change"]: print(out[-2000:])
    shutil.copy(demo, os.path.join(wt, demo_dir, "zz_seed_demo_test.go"))
    run = "go test -vet=off -count=1 -run '^(%s)$' ./%s 2>&1 | tail -30" % ("|".join(tests), demo_dir)
    rc, out = sh(run); res["demo_fails_with_change"] = ("FAIL" in out)
    rc, out2 = sh("git apply -R %s/patch.diff" % d)
    rc, out = sh(run); res["demo_passes_without_change"] = ("FAIL" not in out and "ok" in out)
    if not res["demo_passes_without_change"]: print(out[-2000:])
finally:
    subprocess.run(["git", "-C", "/repo", "worktree", "remove", "--force", wt])
res["head"] = subprocess.run(["git", "-C", "/repo", "rev-parse", "--short", "HEAD"], stdout=subprocess.PIPE, text=True).stdout.strip()
meta["demo_dir"] = demo_dir
meta["confirmed"] = res
json.dump(meta, open(os.path.join(d, "meta.json"), "w"), indent=1)
print(json.dumps(res))
sys.exit(0 if all(v for k, v in res.items() if k != "head") else 1)
