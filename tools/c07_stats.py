#!/usr/bin/env python3
"""C07 development aid: size statistics of the last ./check C07 run (build/C07/run): how many c07.lib cases
built a library, permutations per library, server instances, libraries with a name issued twice."""
import re, collections, statistics, sys, os
run = os.path.join(os.environ.get("VERIF_BUILD", "/verif/build"), "C07", "run")
tail = re.compile(r'\) (\d+) (\d+) (\d+) (\((?:\(\d+ \d+ \d+ \d+\) ?)*\)) (\d+)\)\)\s*$')
sizes, insts, dups, built, libs = [], [], 0, 0, 0
modes = collections.Counter(); nsuites = collections.Counter()
with open(os.path.join(run, "main.cases")) as fc, open(os.path.join(run, "main.model.out")) as fo:
    for c, o in zip(fc, fo):
        if not c.startswith('("c07.lib"'):
            continue
        libs += 1
        if "(#6f6b" not in o[:30]:
            continue
        built += 1
        modes[c.split()[2]] += 1
        m = tail.search(o)
        if not m:
            continue
        sizes.append(int(m.group(1)))
        insts.append(m.group(4).count("(") - 1)
        if int(m.group(5)) > 0:
            dups += 1
print("c07.lib cases", libs, "built", built, "by run mode", dict(modes), "with a name issued twice", dups)
print("permutations per library: max", max(sizes), "mean %.1f" % statistics.mean(sizes), "median", statistics.median(sizes),
      ">100:", sum(1 for x in sizes if x > 100), ">400:", sum(1 for x in sizes if x > 400))
print("server instances per library: max", max(insts), "mean %.1f" % statistics.mean(insts), ">=6:", sum(1 for x in insts if x >= 6))
