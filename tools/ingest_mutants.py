#!/usr/bin/env python3
"""tools/ingest_mutants.py <PID> <out dir of a mutation agent> [first index]
Copies each <out>/<k>/ to seeded/<PID>-<n>/, confirms it (tools/confirm_seed.py: applies, suite passes with it,
demo fails with it and passes without) and runs the property's quick check against it in a scratch worktree
(tools/seedtest.sh); records everything in meta.json.  Unconfirmed changes are not kept."""
import json, os, re, shutil, subprocess, sys
pid, out = sys.argv[1], sys.argv[2]
V = "/verif"
existing = [int(d.split("-")[1]) for d in os.listdir(V + "/seeded") if d.startswith(pid + "-") and d.split("-")[1].isdigit()]
n = int(sys.argv[3]) if len(sys.argv) > 3 else (max(existing) + 1 if existing else 1)
for k in sorted(os.listdir(out)):
    src = os.path.join(out, k)
    if not os.path.exists(os.path.join(src, "patch.diff")):
        continue
    dst = "%s/seeded/%s-%d" % (V, pid, n)
    shutil.rmtree(dst, ignore_errors=True)
    shutil.copytree(src, dst)
    meta = json.load(open(dst + "/meta.json"))
    demo = dst + "/demo_test.go"
    if os.path.exists(demo):
        m = re.search(r"^//\s*dir:\s*(\S+)", open(demo).read(), re.M)
        if m:
            meta["demo_dir"] = m.group(1).rstrip("/")
    meta["property"] = pid
    meta["origin"] = "independent sub-agent given only the property text and a scratch worktree"
    json.dump(meta, open(dst + "/meta.json", "w"), indent=1)
    r = subprocess.run(["python3", V + "/tools/confirm_seed.py", dst], stdout=subprocess.PIPE, stderr=subprocess.STDOUT, text=True)
    print(dst, "confirm:", r.stdout.strip()[-400:])
    if r.returncode != 0:
        print("  NOT CONFIRMED, kept aside as", dst + ".unconfirmed")
        shutil.rmtree(dst + ".unconfirmed", ignore_errors=True)
        os.rename(dst, dst + ".unconfirmed")
        n += 1
        continue
    r = subprocess.run(["bash", V + "/tools/seedtest.sh", pid, dst], stdout=subprocess.PIPE, stderr=subprocess.STDOUT, text=True)
    caught = "VIOLATION property=%s" % pid in r.stdout
    meta = json.load(open(dst + "/meta.json"))
    meta["detected"] = {"check": "./check %s --tier quick" % pid, "result": "VIOLATION" if caught else "MISSED",
                        "how": "tools/seedtest.sh %s %s (scratch worktree + VERIF_REPO)" % (pid, os.path.relpath(dst, V)),
                        "output_tail": r.stdout.strip().splitlines()[-4:]}
    json.dump(meta, open(dst + "/meta.json", "w"), indent=1)
    print("  check:", "CAUGHT" if caught else "MISSED", "|", " / ".join(r.stdout.strip().splitlines()[-3:])[:400])
    n += 1
