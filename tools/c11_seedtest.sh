#!/bin/bash
# tools/c11_seedtest.sh <dir with patch.diff> [check args...]
# C11's own copy of the seeded-change runner (the shared one may be edited while it runs):
# applies the patch in a scratch worktree of /repo, runs ./check C11 against it with a scratch
# build dir, copies the replays next to the patch, removes both.
set -u
DIR=$(cd "$1" && pwd); shift
export GOFLAGS=-mod=mod GOPROXY=off GOSUMDB=off GOTOOLCHAIN=local
WT=$(mktemp -d /tmp/wt-c11-seed-XXXX); rmdir "$WT"
git -C /repo worktree add --detach "$WT" HEAD >/dev/null 2>&1 || { echo "worktree failed"; exit 2; }
BD=$(mktemp -d /tmp/build-c11-seed-XXXX)
cleanup() { git -C /repo worktree remove --force "$WT" >/dev/null 2>&1; rm -rf "$BD"; }
trap cleanup EXIT
if ! git -C "$WT" apply "$DIR/patch.diff"; then echo "PATCH DOES NOT APPLY"; exit 2; fi
( cd /verif && VERIF_REPO=$WT VERIF_BUILD=$BD VERIF_EVID=$BD/evidence timeout 1500 ./check C11 "$@" 2>&1 | tail -8 )
rc=${PIPESTATUS[0]}
mkdir -p "$DIR/replay"; cp "$BD"/replay/C11-*.case "$DIR/replay/" 2>/dev/null
exit $rc
