#!/usr/bin/env python3
"""Regenerates MANIFEST.json from the property modules under vlib/props (so that it is always valid)."""
import importlib
import json
import os
import sys

sys.path.insert(0, os.path.dirname(os.path.abspath(__file__)))
ALL = ["C%02d" % i for i in range(1, 21)]
BASELINE = json.load(open("/root/.vp/BASELINE.json"))["cmd"] if os.path.exists("/root/.vp/BASELINE.json") else ""

checks, na, served = [], [], []
for pid in ALL:
    try:
        mod = importlib.import_module("vlib.props." + pid.lower())
    except ModuleNotFoundError:
        na.append({"property_id": pid, "reason": "check under construction in this round (design in DESIGN.md section 8); not yet claimed"})
        continue
    p = mod.PROP
    pf = os.path.join(os.path.dirname(os.path.abspath(__file__)), "coq", "theories", (p.props or "none") + ".v")
    if not getattr(p, "not_applicable", None) and not (os.path.exists(pf) and "Theorem" in open(pf).read()):
        na.append({"property_id": pid, "reason": "model and correspondence harness exist, property theorems not yet closed; not claimed until they are (DESIGN.md section 8)"})
        continue
    if getattr(p, "not_applicable", None):
        na.append({"property_id": pid, "reason": p.not_applicable})
        continue
    assert p.level in ("exploration", "fault_enumeration", "model_checking", "proof", "translation_validation", "other"), (pid, p.level)
    served.append(pid)
    checks.append({
        "property_id": pid,
        "quick_cmd": "./check %s --tier quick" % pid,
        "thorough_cmd": "./check %s --tier thorough" % pid,
        "evidence_file": "/verif/evidence/%s.json" % pid,
        "replay_cmd_template": "./check %s --replay {path}" % pid,
        "engine": "coq-model+differential",
        "level_claimed": {"category": p.level, "text": p.level_text, "design_ref": "DESIGN.md section 8, " + pid},
        "level_note": p.level_note,
        "technique": p.technique,
    })

man = {
    "version": 1,
    "setup_cmd": "./check --setup",
    "hooks": {
        "guard": "verif",
        "enable": "go test -c -tags verif -overlay /verif/build/overlay.json (overlay files carry //go:build verif and live only under /verif/harness; nothing is committed to /repo)",
        "baseline_off_cmd": BASELINE,
        "source_commits": [],
        "add_only": True,
    },
    "engines": [{
        "name": "coq-model+differential",
        "path": "/verif/check",
        "serves_properties": served,
        "kind_free_text": "Coq 8.16.1 theorems about hand-written executable Gallina models (coq/theories), tied to the Go code on every run by a "
                          "correspondence check: the model extracted to OCaml and Go test binaries built from /repo's working tree evaluate the "
                          "same generated case files; projected observables are compared line by line.",
    }],
    "checks": checks,
    "not_applicable": na,
    "notes": "See DESIGN.md. Repairs of genuine defects are `fix:` commits in /repo, listed in KNOWN_FINDINGS.txt.",
}
with open(os.path.join(os.path.dirname(os.path.abspath(__file__)), "MANIFEST.json"), "w") as f:
    json.dump(man, f, indent=1)
    f.write("\n")
print("claimed:", served)
