//go:build verif

package connectconformance

import (
	"errors"
	"os"
	"path/filepath"
	"strconv"
	"strings"
	"syscall"
	"time"

	"buf.build/go/protoyaml"
	"connectrpc.com/conformance/internal"
	conformancev1 "connectrpc.com/conformance/internal/gen/proto/go/connectrpc/conformance/v1"
	"google.golang.org/protobuf/encoding/protojson"
	"google.golang.org/protobuf/proto"
)

func init() {
	verifKinds["c06.load"] = verifC06Load
	verifKinds["c06.efn"] = verifC06EnsureFileName
}

// documents that protoyaml must reject (checked on every use)
var verifC06BadDocs = []string{
	"features:\n  versions: [HTTP_VERSION_9]\n",                                  // unknown enum value
	"features:\n  versions: [HTTP_VERSION_1]\n  supports_tls: maybe\n",           // non-boolean flag
	"features:\n  versions: [HTTP_VERSION_1]\nfeatuers:\n  supports_tls: true\n", // unknown field
	"features: {versions: [HTTP_VERSION_1\n",                                     // broken YAML
	"- features\n- include_cases\n",                                              // not a mapping
	"features:\n  versions: HTTP_VERSION_1\n  codecs: {a: b}\n",                  // wrong shapes
	"include_cases:\n  - version: HTTP_VERSION_1\n    use_tls: 3\n",              // bad entry field
	"\x00\x01\x02 not yaml at all: [",                                            // garbage
}

func verifC06NameOK(name string) bool {
	if name == "" || name[0] == '.' {
		return false
	}
	for i := 0; i < len(name); i++ {
		b := name[i]
		switch {
		case b >= '0' && b <= '9', b >= 'A' && b <= 'Z', b >= 'a' && b <= 'z', b == ' ', b == '-', b == '.', b == '_':
		default:
			return false
		}
	}
	return true
}

// the first decimal number in the first log message that has one: Run reports the number of
// computed config cases before anything else that carries a number
func verifC06FirstNumber(msgs []string) (int, bool) {
	for _, m := range msgs {
		start := -1
		for i := 0; i <= len(m); i++ {
			digit := i < len(m) && m[i] >= '0' && m[i] <= '9'
			if digit && start < 0 {
				start = i
			}
			if !digit && start >= 0 {
				n, err := strconv.Atoi(m[start:i])
				return n, err == nil
			}
		}
	}
	return 0, false
}

// (how name doc) -> (ok n) | (err config)
//
//	how: 0 = no --conf, 1 = regular file, 2 = named pipe, 3 = missing file, 4 = directory,
//	     5 = parseConfig called directly
//	doc: (0) no bytes | (1 render-options features includes excludes) | (2 variant) rejected by protoyaml
//
// how 0..4 call the real Run with Verbose and a --test-file that does not exist, so that Run stops
// right after the config cases were computed; the number it logs is the observable.
func verifC06Load(args []vsx) vsx {
	bad := vL(vS("bad-case"))
	if len(args) != 3 || args[2].k != 'l' || len(args[2].l) == 0 {
		return bad
	}
	how := args[0].i
	name := args[1].str()
	if how < 0 {
		how = 0 // the model reads the number as a natural
	}
	if !verifC06NameOK(name) || how > 5 {
		return bad
	}
	doc := args[2].l
	var data []byte
	switch {
	case doc[0].i == 0 && len(doc) == 1:
	case doc[0].i == 1 && len(doc) == 5:
		opt := doc[1].i
		cfg := verifC06Config(doc[2], doc[3], doc[4])
		mo := protojson.MarshalOptions{UseProtoNames: opt&1 != 0, UseEnumNumbers: opt&2 != 0, Multiline: opt&4 != 0}
		var err error
		if data, err = mo.Marshal(cfg); err != nil {
			return vErr("harness-marshal")
		}
		var back conformancev1.Config
		if err := (protoyaml.UnmarshalOptions{}).Unmarshal(data, &back); err != nil {
			return vErr("harness-yaml")
		}
		if !proto.Equal(&back, cfg) {
			return vErr("harness-yaml-roundtrip")
		}
	case doc[0].i == 2 && len(doc) == 2:
		data = []byte(verifC06BadDocs[int(uint64(doc[1].i)%uint64(len(verifC06BadDocs)))])
		var back conformancev1.Config
		if err := (protoyaml.UnmarshalOptions{}).Unmarshal(data, &back); err == nil {
			return vErr("harness-bad-doc-decodes")
		}
	default:
		return bad
	}

	dir, err := os.MkdirTemp("", "verif-c06-")
	if err != nil {
		return vErr("harness-tempdir")
	}
	defer os.RemoveAll(dir)
	path := filepath.Join(dir, name)

	if how == 5 {
		cases, err := parseConfig(path, data)
		switch {
		case err != nil && cases != nil:
			return vErr("error-with-cases")
		case err != nil:
			return vErr("config")
		case len(cases) == 0:
			return vErr("no-cases-no-error")
		}
		return vL(vS("ok"), vInt(len(cases)))
	}

	conf := path
	var written chan struct{}
	switch how {
	case 0:
		conf = ""
		fallthrough
	case 1:
		if err := os.WriteFile(path, data, 0o600); err != nil {
			return vErr("harness-write")
		}
	case 2:
		if err := syscall.Mkfifo(path, 0o600); err != nil {
			return vErr("harness-mkfifo")
		}
		written = make(chan struct{})
		go func() {
			defer close(written)
			w, err := os.OpenFile(path, os.O_WRONLY, 0) // blocks until a reader opens the pipe
			if err != nil {
				return
			}
			_, _ = w.Write(data)
			_ = w.Close()
		}()
	case 3:
	case 4:
		if err := os.Mkdir(path, 0o700); err != nil {
			return vErr("harness-mkdir")
		}
	}

	logs := &internal.SimplePrinter{}
	_, runErr := Run(&Flags{
		ConfigFile:    conf,
		Verbose:       true,
		TestFiles:     []string{filepath.Join(dir, "no-such-tests.yaml")},
		ClientCommand: []string{"/bin/true"},
		MaxServers:    1,
		Parallelism:   1,
	}, logs, &internal.SimplePrinter{})

	if written != nil {
		// if nobody opened the pipe the writer is still waiting: release it
		select {
		case <-written:
		case <-time.After(50 * time.Millisecond):
			if r, err := os.OpenFile(path, os.O_RDONLY|syscall.O_NONBLOCK, 0); err == nil {
				select {
				case <-written:
				case <-time.After(5 * time.Second):
				}
				_ = r.Close()
			}
		}
	}

	// the scratch path may contain digits and may be logged
	msgs := make([]string, len(logs.Messages))
	for i, m := range logs.Messages {
		msgs[i] = strings.ReplaceAll(strings.ReplaceAll(m, path, "<conf>"), dir, "<dir>")
	}
	if n, ok := verifC06FirstNumber(msgs); ok {
		if runErr == nil {
			return vErr("run-went-past-the-missing-test-file")
		}
		return vL(vS("ok"), vInt(n))
	}
	if runErr == nil {
		return vErr("no-cases-no-error")
	}
	return vErr("config")
}

// (msg filename) -> (non-nil mentions-file mentions-msg)
func verifC06EnsureFileName(args []vsx) vsx {
	if len(args) != 2 || args[0].k != 'b' || args[1].k != 'b' {
		return vL(vS("bad-case"))
	}
	msg, file := args[0].str(), args[1].str()
	orig := errors.New(msg)
	got := internal.EnsureFileName(orig, file)
	if got == nil {
		return vL(vInt(0), vInt(0), vInt(0))
	}
	return vL(vInt(1), vBool(strings.Contains(got.Error(), file)), vBool(strings.Contains(got.Error(), msg)))
}
