//go:build verif

package connectconformance

import (
	"sort"
	"strings"

	"buf.build/go/protoyaml"
	conformancev1 "connectrpc.com/conformance/internal/gen/proto/go/connectrpc/conformance/v1"
	"google.golang.org/protobuf/encoding/protojson"
	"google.golang.org/protobuf/proto"
)

func init() {
	verifKinds["c06.parse"] = verifC06Parse
}

// flags travel as 0 = absent, 1 = false, 2 = true
func verifC06Flag(v vsx) *bool {
	switch v.i {
	case 1:
		return proto.Bool(false)
	case 2:
		return proto.Bool(true)
	}
	return nil
}

func verifC06Enums[T ~int32](v vsx) []T {
	var out []T
	for _, e := range v.l {
		out = append(out, T(e.i))
	}
	return out
}

func verifC06Entry(v vsx) *conformancev1.ConfigCase {
	return &conformancev1.ConfigCase{
		Version:                conformancev1.HTTPVersion(v.l[0].i),
		Protocol:               conformancev1.Protocol(v.l[1].i),
		Codec:                  conformancev1.Codec(v.l[2].i),
		Compression:            conformancev1.Compression(v.l[3].i),
		StreamType:             conformancev1.StreamType(v.l[4].i),
		UseTls:                 verifC06Flag(v.l[5]),
		UseTlsClientCerts:      verifC06Flag(v.l[6]),
		UseMessageReceiveLimit: verifC06Flag(v.l[7]),
	}
}

func verifC06Config(fe, inc, exc vsx) *conformancev1.Config {
	cfg := &conformancev1.Config{}
	f := fe.l
	feat := &conformancev1.Features{
		Versions:                        verifC06Enums[conformancev1.HTTPVersion](f[0]),
		Protocols:                       verifC06Enums[conformancev1.Protocol](f[1]),
		Codecs:                          verifC06Enums[conformancev1.Codec](f[2]),
		Compressions:                    verifC06Enums[conformancev1.Compression](f[3]),
		StreamTypes:                     verifC06Enums[conformancev1.StreamType](f[4]),
		SupportsH2C:                     verifC06Flag(f[5]),
		SupportsTls:                     verifC06Flag(f[6]),
		SupportsTlsClientCerts:          verifC06Flag(f[7]),
		SupportsTrailers:                verifC06Flag(f[8]),
		SupportsHalfDuplexBidiOverHttp1: verifC06Flag(f[9]),
		SupportsConnectGet:              verifC06Flag(f[10]),
		SupportsMessageReceiveLimit:     verifC06Flag(f[11]),
	}
	if !proto.Equal(feat, &conformancev1.Features{}) {
		cfg.Features = feat
	}
	for _, e := range inc.l {
		cfg.IncludeCases = append(cfg.IncludeCases, verifC06Entry(e))
	}
	for _, e := range exc.l {
		cfg.ExcludeCases = append(cfg.ExcludeCases, verifC06Entry(e))
	}
	return cfg
}

func verifC06Key(c configCase) uint32 {
	b := func(x bool) uint32 {
		if x {
			return 1
		}
		return 0
	}
	k := uint32(c.ConnectVersionMode)
	k = k*16 + uint32(c.Version)
	k = k*16 + uint32(c.Protocol)
	k = k*16 + uint32(c.Codec)
	k = k*16 + uint32(c.Compression)
	k = k*16 + uint32(c.StreamType)
	k = k*2 + b(c.UseTLS)
	k = k*2 + b(c.UseTLSClientCerts)
	k = k*2 + b(c.UseConnectGET)
	k = k*2 + b(c.UseMessageReceiveLimit)
	return k
}

func verifC06Set(cases []configCase) vsx {
	keys := make([]uint32, 0, len(cases))
	seen := make(map[uint32]struct{}, len(cases))
	for _, c := range cases {
		k := verifC06Key(c)
		if _, ok := seen[k]; ok {
			continue
		}
		seen[k] = struct{}{}
		keys = append(keys, k)
	}
	sort.Slice(keys, func(i, j int) bool { return keys[i] < keys[j] })
	out := make([]byte, 0, 4*len(keys))
	for _, k := range keys {
		out = append(out, byte(k>>24), byte(k>>16), byte(k>>8), byte(k))
	}
	return vL(vS("ok"), vInt(len(keys)), vB(out))
}

// (render-options features includes excludes) -> (ok n #set) | (err config)
// The configuration is rendered as text (protojson output is valid YAML) and handed to
// the real parseConfig, so protoyaml and checkForDeprecations are on the path.
// render-options: bit 0 = proto field names, bit 1 = enum numbers, bit 2 = multi-line.
// A wholly empty configuration is also passed as empty data (the "no --conf" path).
func verifC06Parse(args []vsx) vsx {
	opt := args[0].i
	cfg := verifC06Config(args[1], args[2], args[3])
	mo := protojson.MarshalOptions{UseProtoNames: opt&1 != 0, UseEnumNumbers: opt&2 != 0, Multiline: opt&4 != 0}
	data, err := mo.Marshal(cfg)
	if err != nil {
		return vErr("harness-marshal")
	}
	// our own rendering must be readable, otherwise the comparison would be about the harness
	var back conformancev1.Config
	if err := (protoyaml.UnmarshalOptions{}).Unmarshal(data, &back); err != nil {
		return vErr("harness-yaml")
	}
	if !proto.Equal(&back, cfg) {
		return vErr("harness-yaml-roundtrip")
	}
	cases, err := parseConfig("verif.yaml", data)
	var res vsx
	if err != nil {
		if cases != nil {
			return vErr("error-with-cases")
		}
		res = vErr("config")
	} else {
		if len(cases) != len(func() map[configCase]struct{} {
			m := map[configCase]struct{}{}
			for _, c := range cases {
				m[c] = struct{}{}
			}
			return m
		}()) {
			return vErr("duplicate-cases-in-slice")
		}
		res = verifC06Set(cases)
	}
	if proto.Equal(cfg, &conformancev1.Config{}) {
		cases2, err2 := parseConfig("verif.yaml", nil)
		var res2 vsx
		if err2 != nil {
			res2 = vErr("config")
		} else {
			res2 = verifC06Set(cases2)
		}
		var a, b strings.Builder
		res.print(&a)
		res2.print(&b)
		if a.String() != b.String() {
			return vErr("empty-data-differs-from-empty-message")
		}
	}
	return res
}
