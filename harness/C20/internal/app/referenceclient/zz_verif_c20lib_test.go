//go:build verif

package referenceclient

// C20: the third-party codec libraries used DIRECTLY (never through this repository's
// wrappers or tables), and the probe that tells which algorithm a compressor /
// decompressor / byte string belongs to.  The same file (package clause substituted) is
// placed in every package that has a C20 harness.

import (
	"bytes"
	"compress/gzip"
	"compress/zlib"
	"fmt"
	"io"
	"os"
	"strings"
	"sync"
	"testing/iotest"

	"connectrpc.com/connect"
	"github.com/andybalholm/brotli"
	"github.com/golang/snappy"
	"github.com/klauspost/compress/zstd"
)

// ---------------------------------------------------------------------------
// the third-party libraries, used directly (the oracle side)
// ---------------------------------------------------------------------------

// algorithm tags = the numbers of the Compression enum (1 identity .. 6 snappy)
func verifLibCompress(alg int, x []byte) []byte {
	var buf bytes.Buffer
	var w io.WriteCloser
	switch alg {
	case 1:
		return append([]byte(nil), x...)
	case 2:
		w = gzip.NewWriter(&buf)
	case 3:
		w = brotli.NewWriter(&buf)
	case 4:
		zw, err := zstd.NewWriter(&buf)
		if err != nil {
			panic(err)
		}
		w = zw
	case 5:
		w = zlib.NewWriter(&buf)
	case 6:
		w = snappy.NewBufferedWriter(&buf)
	default:
		panic("verif: bad algorithm tag")
	}
	if _, err := w.Write(x); err != nil {
		panic(err)
	}
	if err := w.Close(); err != nil {
		panic(err)
	}
	return buf.Bytes()
}

type verifPlainReader struct{ r io.Reader } // hides ReadByte / Bytes / Len

func (p verifPlainReader) Read(b []byte) (int, error) { return p.r.Read(b) }

// how a byte string is presented to Reset: 0 *bytes.Buffer (what connect-go and the
// tracer pass), 1 a plain io.Reader, 2 one byte per Read call
func verifSource(kind int, b []byte) io.Reader {
	c := append([]byte(nil), b...)
	switch kind {
	case 1:
		return verifPlainReader{bytes.NewReader(c)}
	case 2:
		return iotest.OneByteReader(bytes.NewReader(c))
	default:
		return bytes.NewBuffer(c)
	}
}

// verifLibFresh decodes src with a new third-party reader: class 0 = the reader cannot
// be positioned on the source (header error), 1 = decodes to y, 2 = fails after y.
func verifLibFresh(alg int, kind int, src []byte) (cls int, y []byte) {
	rd := verifSource(kind, src)
	var r io.Reader
	switch alg {
	case 1:
		r = rd
	case 2:
		z, err := gzip.NewReader(rd)
		if err != nil {
			return 0, nil
		}
		r = z
	case 3:
		r = brotli.NewReader(rd)
	case 4:
		z, err := zstd.NewReader(rd)
		if err != nil {
			if z != nil {
				z.Close()
			}
			return 0, nil
		}
		defer z.Close()
		r = z
	case 5:
		z, err := zlib.NewReader(rd)
		if err != nil {
			return 0, nil
		}
		r = z
	case 6:
		r = snappy.NewReader(rd)
	default:
		panic("verif: bad algorithm tag")
	}
	y, err := io.ReadAll(r)
	if err != nil {
		return 2, y
	}
	return 1, y
}

// verifLibClass is verifLibFresh for the sources of a history: a MALFORMED source that a fresh reader happens
// to decode without complaint when drained in one go may fail when it is read in pieces (brotli notices some
// damage only depending on how much input it has taken) — what the library makes of it is then not one thing,
// and it is not a case (class 3).  Valid streams decode alike under every chunking.
func verifLibClass(alg int, kind int, src []byte) (cls int, y []byte) {
	cls, y = verifLibFresh(alg, kind, src)
	if cls != 1 || alg == 1 {
		return cls, y
	}
	for _, first := range []int{1, 0} { // one 1-byte Read, then drain; 1-byte reads throughout
		r, ok := verifLibReader(alg, verifSource(kind, src))
		if !ok {
			return 3, nil
		}
		var got []byte
		var err error
		if first == 1 {
			b := make([]byte, 1)
			var k int
			k, err = r.Read(b)
			got = append(got, b[:k]...)
			if err == nil {
				var rest []byte
				rest, err = io.ReadAll(r)
				got = append(got, rest...)
			} else if err == io.EOF {
				err = nil
			}
		} else {
			got, err = io.ReadAll(iotest.OneByteReader(r))
		}
		if c, ok := r.(io.Closer); ok {
			c.Close()
		}
		if err != nil || !bytes.Equal(got, y) {
			return 3, nil
		}
	}
	return 1, y
}

// a new third-party reader on rd (false: it cannot be positioned)
func verifLibReader(alg int, rd io.Reader) (io.Reader, bool) {
	switch alg {
	case 1:
		return rd, true
	case 2:
		z, err := gzip.NewReader(rd)
		return z, err == nil
	case 3:
		return brotli.NewReader(rd), true
	case 4:
		z, err := zstd.NewReader(rd)
		if err != nil {
			if z != nil {
				z.Close()
			}
			return nil, false
		}
		return verifZstdCloser{z}, true
	case 5:
		z, err := zlib.NewReader(rd)
		return z, err == nil
	case 6:
		return snappy.NewReader(rd), true
	}
	panic("verif: bad algorithm tag")
}

type verifZstdCloser struct{ *zstd.Decoder }

func (z verifZstdCloser) Close() error { z.Decoder.Close(); return nil }

var verifProbe = []byte(strings.Repeat("probe-0123456789;", 12) + "\x00\xff end")

// which algorithm does a decompressor implement? 0 = none of the six
func verifDecompAlg(mk func() connect.Decompressor) int {
	for alg := 2; alg <= 6; alg++ {
		d := mk()
		if d.Reset(bytes.NewBuffer(verifLibCompress(alg, verifProbe))) == nil {
			if y, err := io.ReadAll(d); err == nil && bytes.Equal(y, verifProbe) {
				return alg
			}
		}
	}
	d := mk()
	if d.Reset(bytes.NewBuffer(append([]byte(nil), verifProbe...))) == nil {
		if y, err := io.ReadAll(d); err == nil && bytes.Equal(y, verifProbe) {
			return 1
		}
	}
	return 0
}

func verifBytesAlg(out []byte) int {
	for alg := 2; alg <= 6; alg++ {
		if cls, y := verifLibFresh(alg, 0, out); cls == 1 && bytes.Equal(y, verifProbe) {
			return alg
		}
	}
	if bytes.Equal(out, verifProbe) {
		return 1
	}
	return 0
}

func verifCompAlg(mk func() connect.Compressor) int {
	var buf bytes.Buffer
	c := mk()
	c.Reset(&buf)
	if _, err := c.Write(verifProbe); err != nil {
		return 0
	}
	if err := c.Close(); err != nil {
		return 0
	}
	return verifBytesAlg(buf.Bytes())
}

func verifGuardInt(f func() int) (res int) {
	defer func() {
		if recover() != nil {
			res = -2
		}
	}()
	return f()
}

func verifCoqBytes(s string) string {
	var sb strings.Builder
	sb.WriteString("[")
	for i := 0; i < len(s); i++ {
		if i > 0 {
			sb.WriteString("; ")
		}
		fmt.Fprintf(&sb, "%d%%N", s[i])
	}
	sb.WriteString("]")
	return sb.String()
}

// ---------------------------------------------------------------------------
// the history driver (c20.hist in the compression package, c20.trhist in the tracer)
// ---------------------------------------------------------------------------

// one step, with its own panic recovery: a crash ends the history
func verifStep(f func() vsx) (res vsx, crashed bool) {
	defer func() {
		if r := recover(); r != nil {
			if os.Getenv("VERIF_DEBUG") != "" {
				fmt.Fprintf(os.Stderr, "verif c20: step panic: %v\n", r)
			}
			res, crashed = vCrash(), true
		}
	}()
	return f(), false
}

func verifOK() vsx  { return vL(vS("ok")) }
func verifAny() vsx { return vL(vS("any")) }
func verifOKFlag(b bool) vsx {
	return vL(vS("ok"), vBool(b))
}

// a scripted history on ONE compressor and ONE decompressor
//
//	(0 k)              compressor.Reset(destination k := new buffer)
//	(1 bytes)          compressor.Write
//	(2)                compressor.Close     -> ok + "a fresh library reader decodes the destination to what was written since Reset"
//	(3 k kind)         decompressor.Reset(content of destination k as it was at its Close)
//	(4 kind src cls y) decompressor.Reset(src); cls / y = what a fresh library reader makes of src
//	(5)                io.ReadAll(decompressor)  -> ok + "equals what is still expected"
//	(6 n)              read up to n bytes        -> ok + "equals the next n expected bytes"
//	(7)                decompressor.Close
//	(8 n)              ONE decompressor.Read(p), len(p) = n -> ok + "a prefix of what is still expected, at most n
//	                   bytes, no error, io.EOF only with or after the last byte" (how many bytes: the library's choice)
//
// A step is reported in full where the wrapper logic and the documented contract of the
// library fix the result: every Reset; reads and Close of a decompressor positioned on a
// source of known class (1: decodes, 2: fails after some bytes) before any failure or
// Close; Write / Close of a compressor between Reset and Close.  Elsewhere the result is
// the library's business and only "panicked or not" is reported ((any) / (crash)).
// The same rule is part of the model's result encoding (C20_Model.v h_step).
func verifHistRun(enc int64, comp connect.Compressor, decomp connect.Decompressor, ops []vsx) vsx {
	return verifHistRunGated(enc, comp, decomp, ops, nil)
}

// gate (may be nil): called before each operation on the instances, blocks until it is this history's turn
// and returns what to call when the operation is over (verifPairRun: two histories in lock-step)
func verifHistRunGated(enc int64, comp connect.Compressor, decomp connect.Decompressor, ops []vsx, gate func() func()) vsx {
	type sink struct {
		content []byte
		acc     []byte
	}
	const (
		dFresh = iota
		dP1
		dP2
		dU
	)
	const (
		cFresh = iota
		cOpen
		cDone
	)
	// a literal source must carry what a fresh library reader really makes of it (the first pass of
	// the generator computed it; a case mangled by the shrinker is not a case)
	for _, op := range ops {
		if len(op.l) == 5 && op.l[0].i == 4 {
			cls, y := verifLibClass(int(enc), int(op.l[1].i), op.l[2].b)
			if int64(cls) != op.l[3].i || !bytes.Equal(y, op.l[4].b) {
				return vL(vS("bad-case"))
			}
		}
	}
	// Write / Close on a library writer that never had a destination is the library's business
	// (the contract leaves it open): not a case
	if enc != 1 {
		for _, op := range ops {
			if op.l[0].i == 0 {
				break
			}
			if op.l[0].i == 1 || op.l[0].i == 2 {
				return vL(vS("bad-case"))
			}
		}
	}
	closed := map[int64]*sink{}
	var curID int64
	var curBuf *bytes.Buffer
	var acc []byte
	cpos, dpos := cFresh, dFresh
	var rem []byte // what the decompressor is still expected to deliver
	var out []vsx
	resetD := func(src io.Reader, cls int64, y []byte) vsx {
		rem = nil
		dpos = dU
		if err := decomp.Reset(src); err != nil {
			return vErr("e")
		}
		rem = y
		switch cls {
		case 1:
			dpos = dP1
		case 2:
			dpos = dP2
		}
		return verifOK()
	}
	for _, op := range ops {
		op := op
		var f func() vsx
		switch op.l[0].i {
		case 0:
			f = func() vsx {
				curID, curBuf, acc, cpos = op.l[1].i, &bytes.Buffer{}, nil, cOpen
				comp.Reset(curBuf)
				return verifOK()
			}
		case 1:
			f = func() vsx {
				b := op.l[1].b
				n, err := comp.Write(b)
				if cpos != cOpen {
					return verifAny()
				}
				if err != nil || n != len(b) {
					return vErr("e")
				}
				acc = append(acc, b...)
				return verifOK()
			}
		case 2:
			f = func() vsx {
				err := comp.Close()
				if cpos != cOpen {
					return verifAny()
				}
				if err != nil {
					return vErr("e")
				}
				cpos = cDone
				s := &sink{content: append([]byte(nil), curBuf.Bytes()...), acc: acc}
				closed[curID] = s
				cls, y := verifLibFresh(int(enc), 0, s.content)
				return verifOKFlag(cls == 1 && bytes.Equal(y, s.acc))
			}
		case 3:
			s := closed[op.l[1].i]
			if s == nil {
				return vL(vS("bad-case"))
			}
			f = func() vsx { return resetD(verifSource(int(op.l[2].i), s.content), 1, s.acc) }
		case 4:
			f = func() vsx { return resetD(verifSource(int(op.l[1].i), op.l[2].b), op.l[3].i, op.l[4].b) }
		case 5, 6:
			f = func() vsx {
				var rd io.Reader = decomp
				want := rem
				limited := op.l[0].i == 6
				if limited {
					n := op.l[1].i
					rd = io.LimitReader(decomp, n)
					if int64(len(want)) > n {
						want = want[:n]
					}
				}
				full := dpos == dP1 || (dpos == dP2 && !limited)
				y, err := io.ReadAll(rd)
				switch {
				case dpos == dP1 && err == nil:
				case dpos == dFresh:
				default:
					dpos = dU
				}
				if err != nil {
					if full {
						return vErr("e")
					}
					return verifAny()
				}
				eq := bytes.Equal(y, want)
				if len(y) <= len(rem) {
					rem = rem[len(y):]
				} else {
					rem = nil
				}
				if full {
					return verifOKFlag(eq)
				}
				return verifAny()
			}
		case 8:
			f = func() vsx {
				n := op.l[1].i
				if n < 0 || n > 1<<24 {
					n = 0
				}
				buf := make([]byte, n)
				k, err := decomp.Read(buf)
				z := buf[:k]
				fine := err == nil || err == io.EOF
				flag := bytes.HasPrefix(rem, z) && fine && (err != io.EOF || len(z) >= len(rem))
				was := dpos
				switch {
				case dpos == dP1 && fine:
				case dpos == dFresh:
				default:
					dpos = dU
				}
				if len(z) <= len(rem) {
					rem = rem[len(z):]
				} else {
					rem = nil
				}
				if was == dP1 {
					return verifOKFlag(flag)
				}
				return verifAny()
			}
		case 7:
			f = func() vsx {
				full := dpos == dP1
				if dpos != dFresh {
					dpos = dU
				}
				err := decomp.Close()
				if !full {
					return verifAny()
				}
				if err != nil {
					return vErr("e")
				}
				return verifOK()
			}
		default:
			return vL(vS("bad-case"))
		}
		release := func() {}
		if gate != nil {
			release = gate()
		}
		res, crashed := verifStep(f)
		release()
		out = append(out, res)
		if crashed {
			break
		}
	}
	return vL(out...)
}

// ---------------------------------------------------------------------------
// two instances from the same constructor, their histories interleaved
// ---------------------------------------------------------------------------

// whose turn it is: schedule[pos]; the entries of a history that is over are skipped
type verifSchedule struct {
	mu       sync.Mutex
	cond     *sync.Cond
	schedule []int
	pos      int
	over     [2]bool
}

func (s *verifSchedule) turn() int {
	for s.pos < len(s.schedule) && s.over[s.schedule[s.pos]] {
		s.pos++
	}
	if s.pos >= len(s.schedule) {
		return -1
	}
	return s.schedule[s.pos]
}

func (s *verifSchedule) gate(inst int) func() func() {
	return func() func() {
		s.mu.Lock()
		for t := s.turn(); t != inst && t != -1; t = s.turn() {
			s.cond.Wait()
		}
		s.mu.Unlock()
		return func() {
			s.mu.Lock()
			s.pos++
			s.cond.Broadcast()
			s.mu.Unlock()
		}
	}
}

func (s *verifSchedule) finish(inst int) {
	s.mu.Lock()
	s.over[inst] = true
	s.cond.Broadcast()
	s.mu.Unlock()
}

// enc (opsA) (opsB) (schedule): `obtain` is called twice - as two users of the same constructor call it - and
// the two scripted histories (verifHistRun) run on the two pairs of instances, one operation at a time in the
// order the schedule gives (0 = the next operation of A, 1 = of B).  Result: (resultA resultB), each what
// verifHistRun reports.  Two instances are independent: each result is that of its history run alone.
func verifPairRun(enc int64, obtain func() (connect.Compressor, connect.Decompressor, bool), opsA, opsB, schedule []vsx) vsx {
	sched := &verifSchedule{}
	sched.cond = sync.NewCond(&sched.mu)
	count := [2]int{}
	for _, t := range schedule {
		if t.k != 'i' || (t.i != 0 && t.i != 1) {
			return vL(vS("bad-case"))
		}
		sched.schedule = append(sched.schedule, int(t.i))
		count[t.i]++
	}
	if count[0] != len(opsA) || count[1] != len(opsB) {
		return vL(vS("bad-case"))
	}
	var comps [2]connect.Compressor
	var decomps [2]connect.Decompressor
	for i := range comps {
		var ok bool
		if comps[i], decomps[i], ok = obtain(); !ok {
			return vL(vS("bad-case"))
		}
	}
	var res [2]vsx
	var wg sync.WaitGroup
	for i, ops := range [2][]vsx{opsA, opsB} {
		wg.Add(1)
		go func(i int, ops []vsx) {
			defer wg.Done()
			defer sched.finish(i)
			defer func() {
				if r := recover(); r != nil {
					res[i] = vL(vCrash())
				}
			}()
			res[i] = verifHistRunGated(enc, comps[i], decomps[i], ops, sched.gate(i))
		}(i, ops)
	}
	wg.Wait()
	for _, r := range res {
		if len(r.l) == 1 && r.l[0].k == 'b' && r.l[0].str() == "bad-case" {
			return vL(vS("bad-case"))
		}
	}
	return vL(res[0], res[1])
}
