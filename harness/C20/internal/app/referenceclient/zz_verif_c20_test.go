//go:build verif

package referenceclient

// C20 harness, reference client side: the LIVE reference client (invoke, as the runner
// drives it) against a recording HTTP server: for a requested compression enum value, which
// name it announces in Content-Encoding, which ALGORITHM the request body is really compressed
// with, and which names it offers in Accept-Encoding.
//
//	c20.clive    a sequence of invoke calls (unary) against a scripted server answering with valid /
//	             bit-flipped / truncated compressed bodies: every valid one must come back intact, and the
//	             request the client sent must decode with a fresh third-party reader.
//	c20.cstream  ONE server-streaming invoke receiving several compressed messages (the same pooled
//	             decompressor instance on consecutive messages), optionally ended by a corrupted one.

import (
	"bytes"
	"context"
	"encoding/binary"
	"fmt"
	"io"
	"net"
	"net/http"
	"net/http/httptest"
	"os"
	"sort"
	"strconv"
	"strings"
	"sync"
	"testing"
	"time"

	conformancev1 "connectrpc.com/conformance/internal/gen/proto/go/connectrpc/conformance/v1"
	"connectrpc.com/conformance/internal/gen/proto/go/connectrpc/conformance/v1/conformancev1connect"
	"google.golang.org/protobuf/proto"
	"google.golang.org/protobuf/types/known/anypb"
)

func init() {
	verifKinds["c20.client"] = func(args []vsx) vsx {
		ce, alg, acc := verifClientObserve(args[0].i)
		return vL(vS(ce), vInt(alg), vStrs(acc))
	}
	verifKinds["c20.clive"] = verifC20CLive
	verifKinds["c20.cstream"] = verifC20CStream
}

type verifSeen struct {
	ce   string
	ae   string
	body []byte
}

var (
	verifRecMu   sync.Mutex
	verifRecLast *verifSeen
	verifRecOnce sync.Once
	verifRecSrv  *httptest.Server
)

var verifReqData = []byte(strings.Repeat("c20-client-request;", 16))

func verifRecorder() *httptest.Server {
	verifRecOnce.Do(func() {
		verifRecSrv = httptest.NewServer(http.HandlerFunc(func(w http.ResponseWriter, r *http.Request) {
			b, _ := io.ReadAll(r.Body)
			verifRecMu.Lock()
			verifRecLast = &verifSeen{ce: r.Header.Get("Content-Encoding"), ae: r.Header.Get("Accept-Encoding"), body: b}
			verifRecMu.Unlock()
			w.Header().Set("Content-Type", "application/proto")
			w.WriteHeader(http.StatusOK) // an empty UnaryResponse
		}))
	})
	return verifRecSrv
}

// which algorithm is a request body compressed with? 0 = none decodes to the request
func verifReqAlg(raw []byte) int {
	is := func(b []byte) bool {
		var r conformancev1.UnaryRequest
		return proto.Unmarshal(b, &r) == nil && bytes.Equal(r.GetRequestData(), verifReqData)
	}
	for alg := 2; alg <= 6; alg++ {
		if cls, y := verifLibFresh(alg, 0, raw); cls == 1 && is(y) {
			return alg
		}
	}
	if is(raw) {
		return 1
	}
	return 0
}

func verifClientObserve(e int64) (string, int, []string) {
	srv := verifRecorder()
	host, portStr, _ := net.SplitHostPort(strings.TrimPrefix(srv.URL, "http://"))
	port, _ := strconv.Atoi(portStr)
	msg, err := anypb.New(&conformancev1.UnaryRequest{RequestData: verifReqData})
	if err != nil {
		panic(err)
	}
	verifRecMu.Lock()
	verifRecLast = nil
	verifRecMu.Unlock()
	ctx, cancel := context.WithTimeout(context.Background(), 20*time.Second)
	defer cancel()
	_, _ = invoke(ctx, &conformancev1.ClientCompatRequest{
		TestName:        "verif-c20",
		HttpVersion:     conformancev1.HTTPVersion_HTTP_VERSION_1,
		Protocol:        conformancev1.Protocol_PROTOCOL_CONNECT,
		Codec:           conformancev1.Codec_CODEC_PROTO,
		Compression:     conformancev1.Compression(e),
		Host:            host,
		Port:            uint32(port),
		Service:         proto.String(conformancev1connect.ConformanceServiceName),
		Method:          proto.String("Unary"),
		StreamType:      conformancev1.StreamType_STREAM_TYPE_UNARY,
		RequestMessages: []*anypb.Any{msg},
	}, false, nil)
	verifRecMu.Lock()
	seen := verifRecLast
	verifRecMu.Unlock()
	if seen == nil {
		return "no-request", -1, nil
	}
	var acc []string
	for _, n := range strings.Split(seen.ae, ",") {
		if n = strings.TrimSpace(n); n != "" {
			acc = append(acc, n)
		}
	}
	sort.Strings(acc)
	return seen.ce, verifReqAlg(seen.body), acc
}

// ---------------------------------------------------------------------------
// c20.clive / c20.cstream: the scripted server
// ---------------------------------------------------------------------------
var verifAlgNames = map[int]string{1: "identity", 2: "gzip", 3: "br", 4: "zstd", 5: "deflate", 6: "snappy"}

// n deterministic bytes that differ per (n, idx)
func verifPayload(n, idx int) []byte {
	out := make([]byte, n)
	for j := range out {
		out[j] = byte((j*7 + idx*31 + n) % 251)
	}
	return out
}

func verifMod(x, m int64) int64 {
	if m <= 0 {
		return 0
	}
	return ((x % m) + m) % m
}

// item (1 n bit): one bit flipped; item (2 n cut): a strict prefix; the single byte 0xff when
// there is nothing to flip / the prefix would be the whole body
func verifCorrupt(item vsx, body []byte) []byte {
	switch item.l[0].i {
	case 1:
		if len(body) == 0 {
			return []byte{0xff}
		}
		k := verifMod(item.l[2].i, int64(8*len(body)))
		out := append([]byte(nil), body...)
		out[k/8] ^= 1 << uint(k%8)
		return out
	case 2:
		m := int64(len(body))
		if m < 1 {
			m = 1
		}
		cut := verifMod(item.l[2].i, m)
		if len(body) == 0 || cut == int64(len(body)) {
			return []byte{0xff}
		}
		return append([]byte(nil), body[:cut]...)
	}
	panic("verif: bad item")
}

type verifScript struct {
	contentType string
	encHeader   string // the header announcing the encoding of the answer
	encName     string
	body        []byte
}

var (
	verifFakeMu   sync.Mutex
	verifFakeNext *verifScript
	verifFakeSeen *verifSeen
	verifFakeOnce sync.Once
	verifFakeSrv  *httptest.Server
)

// answers every request with the scripted answer; records the request.  Every answer closes the
// connection: invoke makes a new transport per call and never closes it.
func verifFake() *httptest.Server {
	verifFakeOnce.Do(func() {
		verifFakeSrv = httptest.NewServer(http.HandlerFunc(func(w http.ResponseWriter, r *http.Request) {
			b, _ := io.ReadAll(r.Body)
			verifFakeMu.Lock()
			verifFakeSeen = &verifSeen{ce: r.Header.Get("Content-Encoding"), ae: r.Header.Get("Accept-Encoding"), body: b}
			sc := verifFakeNext
			verifFakeMu.Unlock()
			if sc == nil {
				w.WriteHeader(http.StatusInternalServerError)
				return
			}
			w.Header().Set("Content-Type", sc.contentType)
			w.Header().Set(sc.encHeader, sc.encName)
			w.Header().Set("Connection", "close")
			w.Header().Set("Content-Length", strconv.Itoa(len(sc.body)))
			w.WriteHeader(http.StatusOK)
			_, _ = w.Write(sc.body)
		}))
	})
	return verifFakeSrv
}

// one invoke against the scripted server; returns the result (nil on error) and the request seen
func verifFakeInvoke(alg int, sc *verifScript, method string, st conformancev1.StreamType, msg proto.Message) (*conformancev1.ClientResponseResult, *verifSeen) {
	srv := verifFake()
	host, portStr, _ := net.SplitHostPort(strings.TrimPrefix(srv.URL, "http://"))
	port, _ := strconv.Atoi(portStr)
	amsg, err := anypb.New(msg)
	if err != nil {
		panic(err)
	}
	verifFakeMu.Lock()
	verifFakeNext = sc
	verifFakeSeen = nil
	verifFakeMu.Unlock()
	ctx, cancel := context.WithTimeout(context.Background(), 20*time.Second)
	defer cancel()
	res, err := invoke(ctx, &conformancev1.ClientCompatRequest{
		TestName:        "verif-c20",
		HttpVersion:     conformancev1.HTTPVersion_HTTP_VERSION_1,
		Protocol:        conformancev1.Protocol_PROTOCOL_CONNECT,
		Codec:           conformancev1.Codec_CODEC_PROTO,
		Compression:     conformancev1.Compression(alg),
		Host:            host,
		Port:            uint32(port),
		Service:         proto.String(conformancev1connect.ConformanceServiceName),
		Method:          proto.String(method),
		StreamType:      st,
		RequestMessages: []*anypb.Any{amsg},
	}, false, nil)
	if err != nil {
		if os.Getenv("VERIF_DEBUG") != "" {
			fmt.Fprintf(os.Stderr, "verif: invoke: %v\n", err)
		}
		res = nil
	}
	verifFakeMu.Lock()
	seen := verifFakeSeen
	verifFakeNext = nil
	verifFakeMu.Unlock()
	return res, seen
}

// the marshalled message carrying payload(n, idx); the EMPTY message for n == 0
func verifAnswer(stream bool, n, idx int) []byte {
	if n == 0 {
		return []byte{}
	}
	var m proto.Message
	pl := &conformancev1.ConformancePayload{Data: verifPayload(n, idx)}
	if stream {
		m = &conformancev1.ServerStreamResponse{Payload: pl}
	} else {
		m = &conformancev1.UnaryResponse{Payload: pl}
	}
	b, err := proto.Marshal(m)
	if err != nil {
		panic(err)
	}
	return b
}

// alg ((0 n) | (1 n bit) | (2 n cut) ...) -> ((ok F) | (any) ...)
func verifC20CLive(args []vsx) vsx {
	alg := int(args[0].i)
	name, ok := verifAlgNames[alg]
	if !ok || alg < 2 {
		panic("verif: bad algorithm tag")
	}
	out := make([]vsx, 0, len(args[1].l))
	for idx, item := range args[1].l {
		n := int(item.l[1].i)
		body := verifLibCompress(alg, verifAnswer(false, n, idx))
		if item.l[0].i != 0 {
			body = verifCorrupt(item, body)
		}
		reqData := verifPayload(17, idx)
		res, seen := verifFakeInvoke(alg, &verifScript{"application/proto", "Content-Encoding", name, body},
			"Unary", conformancev1.StreamType_STREAM_TYPE_UNARY, &conformancev1.UnaryRequest{RequestData: reqData})
		if item.l[0].i != 0 {
			out = append(out, vL(vS("any")))
			continue
		}
		good := res != nil && res.GetError() == nil && len(res.GetPayloads()) == 1 &&
			bytes.Equal(res.GetPayloads()[0].GetData(), verifPayload(n, idx))
		if good {
			good = false
			if seen != nil {
				var raw []byte
				dec := true
				switch seen.ce {
				case "", "identity":
					raw = seen.body
				case name:
					cls, y := verifLibFresh(alg, 0, seen.body)
					dec = cls == 1
					raw = y
				default:
					dec = false
				}
				var r conformancev1.UnaryRequest
				good = dec && proto.Unmarshal(raw, &r) == nil && bytes.Equal(r.GetRequestData(), reqData)
			}
		}
		out = append(out, vL(vS("ok"), vBool(good)))
	}
	return vL(out...)
}

func verifEnvelope(flags byte, data []byte) []byte {
	out := make([]byte, 5, 5+len(data))
	out[0] = flags
	binary.BigEndian.PutUint32(out[1:], uint32(len(data)))
	return append(out, data...)
}

// alg (n1 n2 ...) bad -> ((ok F1) (ok F2) ... (any)?)   bad = () | (1 n bit) | (2 n cut)
func verifC20CStream(args []vsx) vsx {
	alg := int(args[0].i)
	name, ok := verifAlgNames[alg]
	if !ok || alg < 2 {
		panic("verif: bad algorithm tag")
	}
	ns := args[1].l
	bad := args[2]
	var body []byte
	for i, nv := range ns {
		body = append(body, verifEnvelope(1, verifLibCompress(alg, verifAnswer(true, int(nv.i), i)))...)
	}
	if len(bad.l) > 0 {
		good := verifLibCompress(alg, verifAnswer(true, int(bad.l[1].i), len(ns)))
		body = append(body, verifEnvelope(1, verifCorrupt(bad, good))...)
	} else {
		body = append(body, verifEnvelope(2, []byte("{}"))...)
	}
	res, _ := verifFakeInvoke(alg, &verifScript{"application/connect+proto", "Connect-Content-Encoding", name, body},
		"ServerStream", conformancev1.StreamType_STREAM_TYPE_SERVER_STREAM,
		&conformancev1.ServerStreamRequest{RequestData: verifPayload(17, 0)})
	out := make([]vsx, 0, len(ns)+1)
	for i, nv := range ns {
		good := res != nil && i < len(res.GetPayloads()) &&
			bytes.Equal(res.GetPayloads()[i].GetData(), verifPayload(int(nv.i), i))
		out = append(out, vL(vS("ok"), vBool(good)))
	}
	if len(bad.l) > 0 {
		out = append(out, vL(vS("any")))
	}
	return vL(out...)
}

func TestVerifConsts(t *testing.T) {
	out := os.Getenv("VERIF_OUT")
	if out == "" {
		t.Skip("VERIF_OUT not set")
	}
	max := int64(0)
	for v := range conformancev1.Compression_name {
		if int64(v) > max {
			max = int64(v)
		}
	}
	var xs []string
	for e := int64(0); e <= max+1; e++ {
		ce, alg, acc := verifClientObserve(e)
		var as []string
		for _, a := range acc {
			as = append(as, verifCoqBytes(a))
		}
		xs = append(xs, fmt.Sprintf("((%d)%%Z, (%s, (%d)%%Z, [%s]))", e, verifCoqBytes(ce), alg, strings.Join(as, "; ")))
	}
	body := "(* the live reference client: per requested enum value, the Content-Encoding it announces, the algorithm the\n" +
		"   request body is really compressed with (1 = not compressed), the names offered in Accept-Encoding *)\n" +
		"Definition c20_client_live : list (Z * (list N * Z * list (list N))) := [" + strings.Join(xs, "; ") + "].\n"
	if err := os.WriteFile(out, []byte(body), 0o644); err != nil {
		t.Fatal(err)
	}
}
