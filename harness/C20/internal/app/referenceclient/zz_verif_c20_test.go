//go:build verif

package referenceclient

// C20 harness, reference client side: the LIVE reference client (invoke, as the runner
// drives it) against a recording HTTP server: for a requested compression enum value, which
// name it announces in Content-Encoding, which ALGORITHM the request body is really compressed
// with, and which names it offers in Accept-Encoding.

import (
	"bytes"
	"context"
	"fmt"
	"io"
	"net"
	"net/http"
	"net/http/httptest"
	"os"
	"sort"
	"strconv"
	"strings"
	"sync"
	"testing"
	"time"

	conformancev1 "connectrpc.com/conformance/internal/gen/proto/go/connectrpc/conformance/v1"
	"connectrpc.com/conformance/internal/gen/proto/go/connectrpc/conformance/v1/conformancev1connect"
	"google.golang.org/protobuf/proto"
	"google.golang.org/protobuf/types/known/anypb"
)

func init() {
	verifKinds["c20.client"] = func(args []vsx) vsx {
		ce, alg, acc := verifClientObserve(args[0].i)
		return vL(vS(ce), vInt(alg), vStrs(acc))
	}
}

type verifSeen struct {
	ce   string
	ae   string
	body []byte
}

var (
	verifRecMu   sync.Mutex
	verifRecLast *verifSeen
	verifRecOnce sync.Once
	verifRecSrv  *httptest.Server
)

var verifReqData = []byte(strings.Repeat("c20-client-request;", 16))

func verifRecorder() *httptest.Server {
	verifRecOnce.Do(func() {
		verifRecSrv = httptest.NewServer(http.HandlerFunc(func(w http.ResponseWriter, r *http.Request) {
			b, _ := io.ReadAll(r.Body)
			verifRecMu.Lock()
			verifRecLast = &verifSeen{ce: r.Header.Get("Content-Encoding"), ae: r.Header.Get("Accept-Encoding"), body: b}
			verifRecMu.Unlock()
			w.Header().Set("Content-Type", "application/proto")
			w.WriteHeader(http.StatusOK) // an empty UnaryResponse
		}))
	})
	return verifRecSrv
}

// which algorithm is a request body compressed with? 0 = none decodes to the request
func verifReqAlg(raw []byte) int {
	is := func(b []byte) bool {
		var r conformancev1.UnaryRequest
		return proto.Unmarshal(b, &r) == nil && bytes.Equal(r.GetRequestData(), verifReqData)
	}
	for alg := 2; alg <= 6; alg++ {
		if cls, y := verifLibFresh(alg, 0, raw); cls == 1 && is(y) {
			return alg
		}
	}
	if is(raw) {
		return 1
	}
	return 0
}

func verifClientObserve(e int64) (string, int, []string) {
	srv := verifRecorder()
	host, portStr, _ := net.SplitHostPort(strings.TrimPrefix(srv.URL, "http://"))
	port, _ := strconv.Atoi(portStr)
	msg, err := anypb.New(&conformancev1.UnaryRequest{RequestData: verifReqData})
	if err != nil {
		panic(err)
	}
	verifRecMu.Lock()
	verifRecLast = nil
	verifRecMu.Unlock()
	ctx, cancel := context.WithTimeout(context.Background(), 20*time.Second)
	defer cancel()
	_, _ = invoke(ctx, &conformancev1.ClientCompatRequest{
		TestName:        "verif-c20",
		HttpVersion:     conformancev1.HTTPVersion_HTTP_VERSION_1,
		Protocol:        conformancev1.Protocol_PROTOCOL_CONNECT,
		Codec:           conformancev1.Codec_CODEC_PROTO,
		Compression:     conformancev1.Compression(e),
		Host:            host,
		Port:            uint32(port),
		Service:         proto.String(conformancev1connect.ConformanceServiceName),
		Method:          proto.String("Unary"),
		StreamType:      conformancev1.StreamType_STREAM_TYPE_UNARY,
		RequestMessages: []*anypb.Any{msg},
	}, false, nil)
	verifRecMu.Lock()
	seen := verifRecLast
	verifRecMu.Unlock()
	if seen == nil {
		return "no-request", -1, nil
	}
	var acc []string
	for _, n := range strings.Split(seen.ae, ",") {
		if n = strings.TrimSpace(n); n != "" {
			acc = append(acc, n)
		}
	}
	sort.Strings(acc)
	return seen.ce, verifReqAlg(seen.body), acc
}

func TestVerifConsts(t *testing.T) {
	out := os.Getenv("VERIF_OUT")
	if out == "" {
		t.Skip("VERIF_OUT not set")
	}
	max := int64(0)
	for v := range conformancev1.Compression_name {
		if int64(v) > max {
			max = int64(v)
		}
	}
	var xs []string
	for e := int64(0); e <= max+1; e++ {
		ce, alg, acc := verifClientObserve(e)
		var as []string
		for _, a := range acc {
			as = append(as, verifCoqBytes(a))
		}
		xs = append(xs, fmt.Sprintf("((%d)%%Z, (%s, (%d)%%Z, [%s]))", e, verifCoqBytes(ce), alg, strings.Join(as, "; ")))
	}
	body := "(* the live reference client: per requested enum value, the Content-Encoding it announces, the algorithm the\n" +
		"   request body is really compressed with (1 = not compressed), the names offered in Accept-Encoding *)\n" +
		"Definition c20_client_live : list (Z * (list N * Z * list (list N))) := [" + strings.Join(xs, "; ") + "].\n"
	if err := os.WriteFile(out, []byte(body), 0o644); err != nil {
		t.Fatal(err)
	}
}
