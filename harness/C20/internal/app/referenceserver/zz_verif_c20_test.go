//go:build verif

package referenceserver

// C20 harness, reference server side.
//
//	c20.check   checkCompression(expected enum, request carrying an encoding name): does it complain?
//	c20.server  the LIVE reference server (createServer, as the runner starts it): for an encoding name,
//	            which algorithm must a request body be compressed with to be accepted, and which
//	            algorithm is the response body compressed with when the name is offered in Accept-Encoding.
//	            All requests go over ONE keep-alive connection, so connect-go's pools reuse the instances.
//	c20.live    a sequence of valid / bit-flipped / truncated request bodies of one algorithm over ONE keep-alive
//	            connection to the live server: every valid one must be answered and decode (with a fresh
//	            third-party reader) to the echo, whatever was sent before it.

import (
	"bytes"
	"fmt"
	"io"
	"net/http"
	"net/url"
	"os"
	"runtime"
	"strconv"
	"strings"
	"sync"
	"testing"
	"time"

	"connectrpc.com/conformance/internal"
	conformancev1 "connectrpc.com/conformance/internal/gen/proto/go/connectrpc/conformance/v1"
	"connectrpc.com/conformance/internal/gen/proto/go/connectrpc/conformance/v1/conformancev1connect"
	"google.golang.org/protobuf/proto"
)

func init() {
	verifKinds["c20.check"] = verifC20Check
	verifKinds["c20.server"] = verifC20Server
	verifKinds["c20.live"] = verifC20Live
}

// ---------------------------------------------------------------------------
// checkCompression
// ---------------------------------------------------------------------------
func verifCheckComplains(e int64, variant int64, present bool, name string) bool {
	req := &http.Request{Method: http.MethodPost, Header: http.Header{}, URL: &url.URL{Path: "/x"}}
	var hdr string
	switch variant {
	case 0:
		req.Header.Set("Content-Type", "application/proto")
		hdr = "Content-Encoding"
	case 1:
		req.Header.Set("Content-Type", "application/connect+proto")
		hdr = "Connect-Content-Encoding"
	case 2:
		req.Header.Set("Content-Type", "application/grpc")
		hdr = "Grpc-Encoding"
	default:
		req.Method = http.MethodGet
		if present {
			req.URL.RawQuery = url.Values{"compression": {name}}.Encode()
		}
	}
	if hdr != "" && present {
		req.Header[hdr] = []string{name}
	}
	pr := &internal.SimplePrinter{}
	checkCompression(conformancev1.Compression(e), req, &feedbackPrinter{p: pr, testCaseName: "verif"})
	return len(pr.Messages) > 0
}

// enum variant (name)? -> 1 if checkCompression complained
func verifC20Check(args []vsx) vsx {
	present := len(args[2].l) > 0
	name := ""
	if present {
		name = args[2].l[0].str()
	}
	return vBool(verifCheckComplains(args[0].i, args[1].i, present, name))
}

// ---------------------------------------------------------------------------
// the live server
// ---------------------------------------------------------------------------
var (
	verifSrvOnce sync.Once
	verifSrvAddr string
	verifSrvErr  error
	verifClient  = &http.Client{Transport: &http.Transport{DisableCompression: true, MaxConnsPerHost: 1, MaxIdleConnsPerHost: 1}}
)

func verifServer() (string, error) {
	verifSrvOnce.Do(func() {
		srv, _, err := createServer(&conformancev1.ServerCompatRequest{
			Protocol:    conformancev1.Protocol_PROTOCOL_CONNECT,
			HttpVersion: conformancev1.HTTPVersion_HTTP_VERSION_1,
		}, "127.0.0.1:0", "", "", false, &internal.SimplePrinter{}, nil)
		if err != nil {
			verifSrvErr = err
			return
		}
		go func() { _ = srv.Serve() }()
		verifSrvAddr = srv.Addr()
		time.Sleep(100 * time.Millisecond)
	})
	return verifSrvAddr, verifSrvErr
}

var verifEcho = []byte(strings.Repeat("c20-live-echo;", 20))

func verifUnaryBody() []byte {
	b, err := proto.Marshal(&conformancev1.UnaryRequest{
		ResponseDefinition: &conformancev1.UnaryResponseDefinition{
			Response: &conformancev1.UnaryResponseDefinition_ResponseData{ResponseData: verifEcho},
		},
	})
	if err != nil {
		panic(err)
	}
	return b
}

// one unary Connect call; body as given.  Returns status, response encoding header, response body.
func verifCall(contentEncoding, acceptEncoding string, body []byte) (int, string, []byte, error) {
	return verifCallWith(verifClient, contentEncoding, acceptEncoding, body)
}

func verifCallWith(client *http.Client, contentEncoding, acceptEncoding string, body []byte) (int, string, []byte, error) {
	addr, err := verifServer()
	if err != nil {
		return 0, "", nil, err
	}
	req, err := http.NewRequest(http.MethodPost, "http://"+addr+conformancev1connect.ConformanceServiceUnaryProcedure, bytes.NewReader(body))
	if err != nil {
		return 0, "", nil, err
	}
	req.Header.Set("Content-Type", "application/proto")
	req.Header.Set("Connect-Protocol-Version", "1")
	if contentEncoding != "" {
		req.Header.Set("Content-Encoding", contentEncoding)
	}
	if acceptEncoding != "" {
		req.Header.Set("Accept-Encoding", acceptEncoding)
	}
	resp, err := client.Do(req)
	if err != nil {
		return 0, "", nil, err
	}
	defer resp.Body.Close()
	rb, err := io.ReadAll(resp.Body)
	if err != nil {
		return 0, "", nil, err
	}
	return resp.StatusCode, resp.Header.Get("Content-Encoding"), rb, nil
}

// does a response body (already decoded) carry the echo?
func verifIsEcho(raw []byte) bool {
	var r conformancev1.UnaryResponse
	if proto.Unmarshal(raw, &r) != nil {
		return false
	}
	return bytes.Equal(r.GetPayload().GetData(), verifEcho)
}

// which algorithm is a response body compressed with? 0 = none decodes to the echo
func verifRespAlg(raw []byte) int {
	for alg := 2; alg <= 6; alg++ {
		if cls, y := verifLibFresh(alg, 0, raw); cls == 1 && verifIsEcho(y) {
			return alg
		}
	}
	if verifIsEcho(raw) {
		return 1
	}
	return 0
}

// (request algorithm, response algorithm) for an encoding name; request algorithm 0 = no body accepted,
// -1 = more than one accepted
func verifServerAlgs(name string) (int, int) {
	plain := verifUnaryBody()
	reqAlg := 0
	for alg := 1; alg <= 6; alg++ {
		status, _, rb, err := verifCall(name, "", verifLibCompress(alg, plain))
		if err == nil && status == http.StatusOK && verifRespAlg(rb) != 0 { // (the response mirrors the request's encoding)
			if reqAlg != 0 {
				reqAlg = -1
				break
			}
			reqAlg = alg
		}
	}
	respAlg := 0
	status, ce, rb, err := verifCall("", name, plain)
	if err == nil && status == http.StatusOK {
		respAlg = verifRespAlg(rb)
		if (respAlg > 1) != (ce == name && ce != "identity" && ce != "") {
			respAlg = -1 // the header and the body disagree
		}
	}
	return reqAlg, respAlg
}

// (names) -> ((name request-alg response-alg) ...)
func verifC20Server(args []vsx) vsx {
	var out []vsx
	for _, n := range args[0].l {
		ra, pa := verifServerAlgs(n.str())
		out = append(out, vL(vB(n.b), vInt(ra), vInt(pa)))
	}
	return vL(out...)
}

// ---------------------------------------------------------------------------
// c20.live: sequences over one connection
// ---------------------------------------------------------------------------
var verifAlgNames = map[int]string{1: "identity", 2: "gzip", 3: "br", 4: "zstd", 5: "deflate", 6: "snappy"}

// n deterministic bytes that differ per (n, idx)
func verifPayload(n, idx int) []byte {
	out := make([]byte, n)
	for j := range out {
		out[j] = byte((j*7 + idx*31 + n) % 251)
	}
	return out
}

func verifMod(x, m int64) int64 {
	if m <= 0 {
		return 0
	}
	return ((x % m) + m) % m
}

// item (1 n bit): one bit flipped; item (2 n cut): a strict prefix; the single byte 0xff when
// there is nothing to flip / the prefix would be the whole body
func verifCorrupt(item vsx, body []byte) []byte {
	switch item.l[0].i {
	case 1:
		if len(body) == 0 {
			return []byte{0xff}
		}
		k := verifMod(item.l[2].i, int64(8*len(body)))
		out := append([]byte(nil), body...)
		out[k/8] ^= 1 << uint(k%8)
		return out
	case 2:
		m := int64(len(body))
		if m < 1 {
			m = 1
		}
		cut := verifMod(item.l[2].i, m)
		if len(body) == 0 || cut == int64(len(body)) {
			return []byte{0xff}
		}
		return append([]byte(nil), body[:cut]...)
	}
	panic("verif: bad item")
}

// the marshalled request asking for payload(n, idx) back; the EMPTY request for n == 0
func verifLiveRequest(n, idx int) []byte {
	if n == 0 {
		return []byte{}
	}
	b, err := proto.Marshal(&conformancev1.UnaryRequest{
		ResponseDefinition: &conformancev1.UnaryResponseDefinition{
			Response: &conformancev1.UnaryResponseDefinition_ResponseData{ResponseData: verifPayload(n, idx)},
		},
	})
	if err != nil {
		panic(err)
	}
	return b
}

// alg ((0 n) | (1 n bit) | (2 n cut) ...) -> ((ok F) | (any) | (err "t") ...)
func verifC20Live(args []vsx) vsx {
	alg := int(args[0].i)
	name, ok := verifAlgNames[alg]
	if !ok || alg < 2 {
		panic("verif: bad algorithm tag")
	}
	if _, err := verifServer(); err != nil {
		panic(err)
	}
	// connect-go keeps the wrapper instances in sync.Pools, which are per P: with one P the instance put back
	// after a message is the one handed out for the next message (otherwise the goroutine may have moved to
	// another P in between and gets a new instance, and a poisoned one would be met only now and then)
	defer runtime.GOMAXPROCS(runtime.GOMAXPROCS(1))
	tr := &http.Transport{DisableCompression: true, MaxConnsPerHost: 1, MaxIdleConnsPerHost: 1}
	defer tr.CloseIdleConnections()
	client := &http.Client{Transport: tr, Timeout: 30 * time.Second}
	out := make([]vsx, 0, len(args[1].l))
	for idx, item := range args[1].l {
		n := int(item.l[1].i)
		body := verifLibCompress(alg, verifLiveRequest(n, idx))
		if item.l[0].i != 0 {
			_, _, _, err := verifCallWith(client, name, name, verifCorrupt(item, body))
			if err != nil {
				if os.Getenv("VERIF_DEBUG") != "" {
					fmt.Fprintf(os.Stderr, "verif: c20.live item %d: %v\n", idx, err)
				}
				out = append(out, vErr("t"))
			} else {
				out = append(out, vL(vS("any")))
			}
			continue
		}
		status, ce, rb, err := verifCallWith(client, name, name, body)
		good := err == nil && status == http.StatusOK
		if err != nil && os.Getenv("VERIF_DEBUG") != "" {
			fmt.Fprintf(os.Stderr, "verif: c20.live item %d: %v\n", idx, err)
		}
		if good {
			var raw []byte
			switch ce {
			case "", "identity":
				raw = rb
			case name:
				cls, y := verifLibFresh(alg, 0, rb)
				good = cls == 1
				raw = y
			default:
				good = false
			}
			if good {
				var r conformancev1.UnaryResponse
				good = proto.Unmarshal(raw, &r) == nil && bytes.Equal(r.GetPayload().GetData(), verifPayload(n, idx))
			}
		}
		out = append(out, vL(vS("ok"), vBool(good)))
	}
	return vL(out...)
}

var verifServerNames = []string{"identity", "gzip", "br", "zstd", "deflate", "snappy", "GZIP", "x-gzip", "zlib", "lz4"}

func TestVerifConsts(t *testing.T) {
	out := os.Getenv("VERIF_OUT")
	if out == "" {
		t.Skip("VERIF_OUT not set")
	}
	max := int64(0)
	for v := range conformancev1.Compression_name {
		if int64(v) > max {
			max = int64(v)
		}
	}
	cands := []string{"identity", "gzip", "br", "zstd", "deflate", "snappy", "", "GZIP", "zlib", "brotli"}
	var xs []string
	for e := int64(-1); e <= max+2; e++ {
		var acc []string
		for _, n := range cands {
			if !verifCheckComplains(e, 0, true, n) && !verifCheckComplains(e, 1, true, n) &&
				!verifCheckComplains(e, 2, true, n) && !verifCheckComplains(e, 3, true, n) {
				acc = append(acc, verifCoqBytes(n))
			}
		}
		xs = append(xs, fmt.Sprintf("((%d)%%Z, [%s])", e, strings.Join(acc, "; ")))
	}
	body := "(* internal/app/referenceserver checkCompression: per expected enum value, the names it accepts\n" +
		"   (of: the six names, \"\", GZIP, zlib, brotli) under all four header / query variants *)\n" +
		"Definition c20_server_check : list (Z * list (list N)) := [" + strings.Join(xs, "; ") + "].\n"
	var ys []string
	for _, n := range verifServerNames {
		ra, pa := verifServerAlgs(n)
		ys = append(ys, "("+verifCoqBytes(n)+", (("+strconv.Itoa(ra)+")%Z, ("+strconv.Itoa(pa)+")%Z))")
	}
	body += "(* the live reference server: per encoding name, the algorithm a request body must be compressed with to be\n" +
		"   accepted (0 none) and the algorithm of the response body when the name is offered *)\n" +
		"Definition c20_server_live : list (list N * (Z * Z)) := [" + strings.Join(ys, "; ") + "].\n"
	if err := os.WriteFile(out, []byte(body), 0o644); err != nil {
		t.Fatal(err)
	}
}
