//go:build verif

package tracer

// C20 harness, wire tracer side: which ALGORITHM does GetDecompressor(name) decode?
// Found behaviourally (a probe compressed by each third-party library directly).

import (
	"fmt"
	"os"
	"strings"
	"testing"

	"connectrpc.com/conformance/internal/compression"
	conformancev1 "connectrpc.com/conformance/internal/gen/proto/go/connectrpc/conformance/v1"
	"connectrpc.com/connect"
)

func init() {
	verifKinds["c20.tracer"] = verifC20Tracer
	verifKinds["c20.trhist"] = verifC20TrHist
	verifKinds["c20.trpair"] = verifC20TrPair
}

var verifEncNames = map[int64]string{1: "identity", 2: "gzip", 3: "br", 4: "zstd", 5: "deflate", 6: "snappy"}

// c20.trhist: enc ctor (ops) — the scripted history of c20.hist (verifHistRun) on the decompressor that
// the tracer hands out for the NAME of the encoding (ctor 2: as registered, 3: upper case); the
// compressor side is the compression package's.
func verifC20TrHist(args []vsx) vsx {
	enc, ctor := args[0].i, args[1].i
	name, ok := verifEncNames[enc]
	if !ok || (ctor != 2 && ctor != 3) {
		return vL(vS("bad-case"))
	}
	if ctor == 3 {
		name = strings.ToUpper(name)
	}
	comp, err := compression.GetCompressor(conformancev1.Compression(enc))
	if err != nil {
		return vL(vS("bad-case"))
	}
	return verifHistRun(enc, comp, GetDecompressor(name), args[2].l)
}

// c20.trpair: enc ctor (opsA) (opsB) (schedule) - as two traces alive at once do it: GetDecompressor(name) called
// twice, the two histories interleaved (verifPairRun); the compressors are the compression package's
func verifC20TrPair(args []vsx) vsx {
	if len(args) != 5 {
		return vL(vS("bad-case"))
	}
	enc, ctor := args[0].i, args[1].i
	name, ok := verifEncNames[enc]
	if !ok || (ctor != 2 && ctor != 3) {
		return vL(vS("bad-case"))
	}
	if ctor == 3 {
		name = strings.ToUpper(name)
	}
	return verifPairRun(enc, func() (connect.Compressor, connect.Decompressor, bool) {
		comp, err := compression.GetCompressor(conformancev1.Compression(enc))
		return comp, GetDecompressor(name), err == nil
	}, args[2].l, args[3].l, args[4].l)
}

// 0 = decodes none of the six (brokenDecompressor or worse)
func verifTracerAlg(name string) int {
	return verifGuardInt(func() int {
		return verifDecompAlg(func() connect.Decompressor { return GetDecompressor(name) })
	})
}

// (names) -> (alg ...)
func verifC20Tracer(args []vsx) vsx {
	var out []vsx
	for _, n := range args[0].l {
		out = append(out, vInt(verifTracerAlg(n.str())))
	}
	return vL(out...)
}

var verifTracerNames = []string{"", "identity", "gzip", "br", "zstd", "deflate", "snappy",
	"IDENTITY", "GZIP", "BR", "ZSTD", "DEFLATE", "SNAPPY", "Gzip", "x-gzip", "zlib", "brotli", "lz4"}

func TestVerifConsts(t *testing.T) {
	out := os.Getenv("VERIF_OUT")
	if out == "" {
		t.Skip("VERIF_OUT not set")
	}
	var xs []string
	for _, n := range verifTracerNames {
		xs = append(xs, fmt.Sprintf("(%s, (%d)%%Z)", verifCoqBytes(n), verifTracerAlg(n)))
	}
	body := "(* internal/tracer GetDecompressor(name): algorithm decoded, 0 = none *)\n" +
		"Definition c20_tracer : list (list N * Z) := [" + strings.Join(xs, "; ") + "].\n"
	if err := os.WriteFile(out, []byte(body), 0o644); err != nil {
		t.Fatal(err)
	}
}
