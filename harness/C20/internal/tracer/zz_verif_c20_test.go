//go:build verif

package tracer

// C20 harness, wire tracer side: which ALGORITHM does GetDecompressor(name) decode?
// Found behaviourally (a probe compressed by each third-party library directly).

import (
	"fmt"
	"os"
	"strings"
	"testing"

	"connectrpc.com/connect"
)

func init() {
	verifKinds["c20.tracer"] = verifC20Tracer
}

// 0 = decodes none of the six (brokenDecompressor or worse)
func verifTracerAlg(name string) int {
	return verifGuardInt(func() int {
		return verifDecompAlg(func() connect.Decompressor { return GetDecompressor(name) })
	})
}

// (names) -> (alg ...)
func verifC20Tracer(args []vsx) vsx {
	var out []vsx
	for _, n := range args[0].l {
		out = append(out, vInt(verifTracerAlg(n.str())))
	}
	return vL(out...)
}

var verifTracerNames = []string{"", "identity", "gzip", "br", "zstd", "deflate", "snappy",
	"IDENTITY", "GZIP", "BR", "ZSTD", "DEFLATE", "SNAPPY", "Gzip", "x-gzip", "zlib", "brotli", "lz4"}

func TestVerifConsts(t *testing.T) {
	out := os.Getenv("VERIF_OUT")
	if out == "" {
		t.Skip("VERIF_OUT not set")
	}
	var xs []string
	for _, n := range verifTracerNames {
		xs = append(xs, fmt.Sprintf("(%s, (%d)%%Z)", verifCoqBytes(n), verifTracerAlg(n)))
	}
	body := "(* internal/tracer GetDecompressor(name): algorithm decoded, 0 = none *)\n" +
		"Definition c20_tracer : list (list N * Z) := [" + strings.Join(xs, "; ") + "].\n"
	if err := os.WriteFile(out, []byte(body), 0o644); err != nil {
		t.Fatal(err)
	}
}
