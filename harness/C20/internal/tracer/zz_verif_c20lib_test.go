//go:build verif

package tracer

// C20: the third-party codec libraries used DIRECTLY (never through this repository's
// wrappers or tables), and the probe that tells which algorithm a compressor /
// decompressor / byte string belongs to.  The same file (package clause substituted) is
// placed in every package that has a C20 harness.

import (
	"bytes"
	"compress/gzip"
	"compress/zlib"
	"fmt"
	"io"
	"strings"
	"testing/iotest"

	"connectrpc.com/connect"
	"github.com/andybalholm/brotli"
	"github.com/golang/snappy"
	"github.com/klauspost/compress/zstd"
)

// ---------------------------------------------------------------------------
// the third-party libraries, used directly (the oracle side)
// ---------------------------------------------------------------------------

// algorithm tags = the numbers of the Compression enum (1 identity .. 6 snappy)
func verifLibCompress(alg int, x []byte) []byte {
	var buf bytes.Buffer
	var w io.WriteCloser
	switch alg {
	case 1:
		return append([]byte(nil), x...)
	case 2:
		w = gzip.NewWriter(&buf)
	case 3:
		w = brotli.NewWriter(&buf)
	case 4:
		zw, err := zstd.NewWriter(&buf)
		if err != nil {
			panic(err)
		}
		w = zw
	case 5:
		w = zlib.NewWriter(&buf)
	case 6:
		w = snappy.NewBufferedWriter(&buf)
	default:
		panic("verif: bad algorithm tag")
	}
	if _, err := w.Write(x); err != nil {
		panic(err)
	}
	if err := w.Close(); err != nil {
		panic(err)
	}
	return buf.Bytes()
}

type verifPlainReader struct{ r io.Reader } // hides ReadByte / Bytes / Len

func (p verifPlainReader) Read(b []byte) (int, error) { return p.r.Read(b) }

// how a byte string is presented to Reset: 0 *bytes.Buffer (what connect-go and the
// tracer pass), 1 a plain io.Reader, 2 one byte per Read call
func verifSource(kind int, b []byte) io.Reader {
	c := append([]byte(nil), b...)
	switch kind {
	case 1:
		return verifPlainReader{bytes.NewReader(c)}
	case 2:
		return iotest.OneByteReader(bytes.NewReader(c))
	default:
		return bytes.NewBuffer(c)
	}
}

// verifLibFresh decodes src with a new third-party reader: class 0 = the reader cannot
// be positioned on the source (header error), 1 = decodes to y, 2 = fails after y.
func verifLibFresh(alg int, kind int, src []byte) (cls int, y []byte) {
	rd := verifSource(kind, src)
	var r io.Reader
	switch alg {
	case 1:
		r = rd
	case 2:
		z, err := gzip.NewReader(rd)
		if err != nil {
			return 0, nil
		}
		r = z
	case 3:
		r = brotli.NewReader(rd)
	case 4:
		z, err := zstd.NewReader(rd)
		if err != nil {
			if z != nil {
				z.Close()
			}
			return 0, nil
		}
		defer z.Close()
		r = z
	case 5:
		z, err := zlib.NewReader(rd)
		if err != nil {
			return 0, nil
		}
		r = z
	case 6:
		r = snappy.NewReader(rd)
	default:
		panic("verif: bad algorithm tag")
	}
	y, err := io.ReadAll(r)
	if err != nil {
		return 2, y
	}
	return 1, y
}

var verifProbe = []byte(strings.Repeat("probe-0123456789;", 12) + "\x00\xff end")

// which algorithm does a decompressor implement? 0 = none of the six
func verifDecompAlg(mk func() connect.Decompressor) int {
	for alg := 2; alg <= 6; alg++ {
		d := mk()
		if d.Reset(bytes.NewBuffer(verifLibCompress(alg, verifProbe))) == nil {
			if y, err := io.ReadAll(d); err == nil && bytes.Equal(y, verifProbe) {
				return alg
			}
		}
	}
	d := mk()
	if d.Reset(bytes.NewBuffer(append([]byte(nil), verifProbe...))) == nil {
		if y, err := io.ReadAll(d); err == nil && bytes.Equal(y, verifProbe) {
			return 1
		}
	}
	return 0
}

func verifBytesAlg(out []byte) int {
	for alg := 2; alg <= 6; alg++ {
		if cls, y := verifLibFresh(alg, 0, out); cls == 1 && bytes.Equal(y, verifProbe) {
			return alg
		}
	}
	if bytes.Equal(out, verifProbe) {
		return 1
	}
	return 0
}

func verifCompAlg(mk func() connect.Compressor) int {
	var buf bytes.Buffer
	c := mk()
	c.Reset(&buf)
	if _, err := c.Write(verifProbe); err != nil {
		return 0
	}
	if err := c.Close(); err != nil {
		return 0
	}
	return verifBytesAlg(buf.Bytes())
}

func verifGuardInt(f func() int) (res int) {
	defer func() {
		if recover() != nil {
			res = -2
		}
	}()
	return f()
}

func verifCoqBytes(s string) string {
	var sb strings.Builder
	sb.WriteString("[")
	for i := 0; i < len(s); i++ {
		if i > 0 {
			sb.WriteString("; ")
		}
		fmt.Fprintf(&sb, "%d%%N", s[i])
	}
	sb.WriteString("]")
	return sb.String()
}
