//go:build verif

package internal

// C20 harness, raw-payload encoder side: which ALGORITHM does WriteRawMessageContents
// compress with for each enum value?  Found behaviourally.

import (
	"bytes"
	"fmt"
	"os"
	"strings"
	"testing"

	conformancev1 "connectrpc.com/conformance/internal/gen/proto/go/connectrpc/conformance/v1"
)

func init() {
	verifKinds["c20.raw"] = func(args []vsx) vsx { return vInt(verifRawAlg(args[0].i)) }
}

// -1 = error
func verifRawAlg(e int64) int {
	return verifGuardInt(func() int {
		var buf bytes.Buffer
		err := WriteRawMessageContents(&conformancev1.MessageContents{
			Data:        &conformancev1.MessageContents_Binary{Binary: verifProbe},
			Compression: conformancev1.Compression(e),
		}, &buf)
		if err != nil {
			return -1
		}
		return verifBytesAlg(buf.Bytes())
	})
}

func TestVerifConsts(t *testing.T) {
	out := os.Getenv("VERIF_OUT")
	if out == "" {
		t.Skip("VERIF_OUT not set")
	}
	max := int64(0)
	for v := range conformancev1.Compression_name {
		if int64(v) > max {
			max = int64(v)
		}
	}
	var xs []string
	for e := int64(-1); e <= max+2; e++ {
		xs = append(xs, fmt.Sprintf("(%d, %d)", e, verifRawAlg(e)))
	}
	body := "(* internal/raw_http_body.go WriteRawMessageContents: algorithm per enum value, -1 = error *)\n" +
		"Definition c20_raw : list (Z * Z) := [" + strings.Join(xs, "; ") + "]%Z.\n"
	if err := os.WriteFile(out, []byte(body), 0o644); err != nil {
		t.Fatal(err)
	}
}
