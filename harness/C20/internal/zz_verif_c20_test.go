//go:build verif

package internal

// C20 harness, raw-payload encoder side: which ALGORITHM does WriteRawMessageContents
// compress with for each enum value?  Found behaviourally.
//
//	c20.rawrt  round trip: what the raw encoders write for a payload (possibly empty) must decode,
//	           with a fresh third-party reader of the algorithm, to that payload.

import (
	"bytes"
	"encoding/binary"
	"fmt"
	"os"
	"strings"
	"testing"

	conformancev1 "connectrpc.com/conformance/internal/gen/proto/go/connectrpc/conformance/v1"
	"google.golang.org/protobuf/types/known/anypb"
)

func init() {
	verifKinds["c20.raw"] = func(args []vsx) vsx { return vInt(verifRawAlg(args[0].i)) }
	verifKinds["c20.rawrt"] = verifC20RawRT
}

// e form payload -> (err "e") | (ok F)
// form 0 binary, 1 text, 2 binary message (WriteRawMessageContents); 3 one stream item (WriteRawStreamContents)
func verifC20RawRT(args []vsx) vsx {
	e, form := args[0].i, args[1].i
	payload := append([]byte{}, args[2].b...) // present, possibly zero-length
	mc := &conformancev1.MessageContents{Compression: conformancev1.Compression(e)}
	switch form {
	case 0, 3:
		mc.Data = &conformancev1.MessageContents_Binary{Binary: payload}
	case 1:
		mc.Data = &conformancev1.MessageContents_Text{Text: string(payload)}
	case 2:
		mc.Data = &conformancev1.MessageContents_BinaryMessage{BinaryMessage: &anypb.Any{Value: payload}}
	default:
		panic("verif: bad form")
	}
	var buf bytes.Buffer
	var err error
	if form == 3 {
		err = WriteRawStreamContents(&conformancev1.StreamContents{
			Items: []*conformancev1.StreamContents_StreamItem{{Flags: 1, Payload: mc}},
		}, &buf)
	} else {
		err = WriteRawMessageContents(mc, &buf)
	}
	if err != nil {
		return vErr("e")
	}
	out := buf.Bytes()
	if form == 3 {
		if len(out) < 5 || out[0] != 1 || int64(binary.BigEndian.Uint32(out[1:5])) != int64(len(out)-5) {
			return vL(vS("ok"), vBool(false))
		}
		out = out[5:]
	}
	alg := int(e)
	if e == 0 {
		alg = 1
	}
	if alg < 1 || alg > 6 {
		return vL(vS("ok"), vBool(false))
	}
	cls, y := verifLibFresh(alg, 0, out)
	return vL(vS("ok"), vBool(cls == 1 && bytes.Equal(y, payload)))
}

// -1 = error
func verifRawAlg(e int64) int {
	return verifGuardInt(func() int {
		var buf bytes.Buffer
		err := WriteRawMessageContents(&conformancev1.MessageContents{
			Data:        &conformancev1.MessageContents_Binary{Binary: verifProbe},
			Compression: conformancev1.Compression(e),
		}, &buf)
		if err != nil {
			return -1
		}
		return verifBytesAlg(buf.Bytes())
	})
}

func TestVerifConsts(t *testing.T) {
	out := os.Getenv("VERIF_OUT")
	if out == "" {
		t.Skip("VERIF_OUT not set")
	}
	max := int64(0)
	for v := range conformancev1.Compression_name {
		if int64(v) > max {
			max = int64(v)
		}
	}
	var xs []string
	for e := int64(-1); e <= max+2; e++ {
		xs = append(xs, fmt.Sprintf("(%d, %d)", e, verifRawAlg(e)))
	}
	body := "(* internal/raw_http_body.go WriteRawMessageContents: algorithm per enum value, -1 = error *)\n" +
		"Definition c20_raw : list (Z * Z) := [" + strings.Join(xs, "; ") + "]%Z.\n"
	if err := os.WriteFile(out, []byte(body), 0o644); err != nil {
		t.Fatal(err)
	}
}
