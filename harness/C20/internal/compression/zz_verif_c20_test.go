//go:build verif

package compression

// C20 harness, compression package side.
//
//   c20.hist   a scripted history of Reset / Write / Close on ONE compressor and
//              Reset / Read / Close on ONE decompressor obtained from this package,
//              reporting per step ok / err / crash and "decoded equals expected".
//              Compressed bytes are never compared.
//   c20.enum   GetCompressor / GetDecompressor for a list of enum values: which
//              ALGORITHM the returned object implements (found behaviourally, by
//              exchanging a probe with the third-party libraries used directly).
//   TestVerifC20Oracle   classifies sources with a FRESH third-party reader
//              (bypassing every wrapper of this package).
//   TestVerifConsts      the package's name constants and enum tables as Coq.

import (
	"bytes"
	"fmt"
	"io"
	"os"
	"strings"
	"testing"

	conformancev1 "connectrpc.com/conformance/internal/gen/proto/go/connectrpc/conformance/v1"
	"connectrpc.com/connect"
)

func init() {
	verifKinds["c20.hist"] = verifC20Hist
	verifKinds["c20.enum"] = verifC20Enum
	verifKinds["c20.names"] = verifC20Names
}

// ---------------------------------------------------------------------------
// c20.enum: (values) -> ((value compressor-alg decompressor-alg) ...), -1 = error
// ---------------------------------------------------------------------------
func verifEnumAlgs(v int64) (int, int) {
	ca := verifGuardInt(func() int {
		if _, err := GetCompressor(conformancev1.Compression(v)); err != nil {
			return -1
		}
		return verifCompAlg(func() connect.Compressor {
			c, _ := GetCompressor(conformancev1.Compression(v))
			return c
		})
	})
	da := verifGuardInt(func() int {
		if _, err := GetDecompressor(conformancev1.Compression(v)); err != nil {
			return -1
		}
		return verifDecompAlg(func() connect.Decompressor {
			d, _ := GetDecompressor(conformancev1.Compression(v))
			return d
		})
	})
	return ca, da
}

func verifC20Enum(args []vsx) vsx {
	var out []vsx
	for _, e := range args[0].l {
		ca, da := verifEnumAlgs(e.i)
		out = append(out, vL(vI(e.i), vInt(ca), vInt(da)))
	}
	return vL(out...)
}

// c20.names: () -> ((enum-value-of-the-identifier name) ...)
func verifNameConsts() []struct {
	tag  int
	name string
} {
	return []struct {
		tag  int
		name string
	}{{1, Identity}, {2, Gzip}, {3, Brotli}, {4, Zstd}, {5, Deflate}, {6, Snappy}}
}

func verifC20Names(_ []vsx) vsx {
	var out []vsx
	for _, n := range verifNameConsts() {
		out = append(out, vL(vInt(n.tag), vS(n.name)))
	}
	return vL(out...)
}

// ---------------------------------------------------------------------------
// c20.hist
// ---------------------------------------------------------------------------
func verifNewDecomp(enc int64, ctor int64) (connect.Decompressor, bool) {
	if ctor == 0 {
		d, err := GetDecompressor(conformancev1.Compression(enc))
		return d, err == nil
	}
	switch enc {
	case 3:
		return NewBrotliDecompressor(), true
	case 4:
		return NewZstdDecompressor(), true
	case 5:
		return NewDeflateDecompressor(), true
	case 6:
		return NewSnappyDecompressor(), true
	}
	return nil, false
}

func verifNewComp(enc int64, ctor int64) (connect.Compressor, bool) {
	if ctor == 0 {
		c, err := GetCompressor(conformancev1.Compression(enc))
		return c, err == nil
	}
	switch enc {
	case 3:
		return NewBrotliCompressor(), true
	case 4:
		return NewZstdCompressor(), true
	case 5:
		return NewDeflateCompressor(), true
	case 6:
		return NewSnappyCompressor(), true
	}
	return nil, false
}

// one step, with its own panic recovery: a crash ends the history
func verifStep(f func() vsx) (res vsx, crashed bool) {
	defer func() {
		if r := recover(); r != nil {
			if os.Getenv("VERIF_DEBUG") != "" {
				fmt.Fprintf(os.Stderr, "verif c20: step panic: %v\n", r)
			}
			res, crashed = vCrash(), true
		}
	}()
	return f(), false
}

func verifOK() vsx  { return vL(vS("ok")) }
func verifAny() vsx { return vL(vS("any")) }
func verifOKFlag(b bool) vsx {
	return vL(vS("ok"), vBool(b))
}

// args: enc ctor (ops)
//
//	(0 k)              compressor.Reset(destination k := new buffer)
//	(1 bytes)          compressor.Write
//	(2)                compressor.Close     -> ok + "a fresh library reader decodes the destination to what was written since Reset"
//	(3 k kind)         decompressor.Reset(content of destination k as it was at its Close)
//	(4 kind src cls y) decompressor.Reset(src); cls / y = what a fresh library reader makes of src
//	(5)                io.ReadAll(decompressor)  -> ok + "equals what is still expected"
//	(6 n)              read up to n bytes        -> ok + "equals the next n expected bytes"
//	(7)                decompressor.Close
//
// A step is reported in full where the wrapper logic and the documented contract of the
// library fix the result: every Reset; reads and Close of a decompressor positioned on a
// source of known class (1: decodes, 2: fails after some bytes) before any failure or
// Close; Write / Close of a compressor between Reset and Close.  Elsewhere the result is
// the library's business and only "panicked or not" is reported ((any) / (crash)).
// The same rule is part of the model's result encoding (C20_Model.v h_step).
func verifC20Hist(args []vsx) vsx {
	enc, ctor := args[0].i, args[1].i
	if enc < 1 || enc > 6 {
		return vL(vS("bad-case"))
	}
	comp, ok1 := verifNewComp(enc, ctor)
	decomp, ok2 := verifNewDecomp(enc, ctor)
	if !ok1 || !ok2 {
		return vL(vS("bad-case"))
	}
	type sink struct {
		content []byte
		acc     []byte
	}
	const (
		dFresh = iota
		dP1
		dP2
		dU
	)
	const (
		cFresh = iota
		cOpen
		cDone
	)
	// a literal source must carry what a fresh library reader really makes of it (the first pass of
	// the generator computed it; a case mangled by the shrinker is not a case)
	for _, op := range args[2].l {
		if len(op.l) == 5 && op.l[0].i == 4 {
			cls, y := verifLibFresh(int(enc), int(op.l[1].i), op.l[2].b)
			if int64(cls) != op.l[3].i || !bytes.Equal(y, op.l[4].b) {
				return vL(vS("bad-case"))
			}
		}
	}
	// Write / Close on a library writer that never had a destination is the library's business
	// (the contract leaves it open): not a case
	if enc != 1 {
		for _, op := range args[2].l {
			if op.l[0].i == 0 {
				break
			}
			if op.l[0].i == 1 || op.l[0].i == 2 {
				return vL(vS("bad-case"))
			}
		}
	}
	closed := map[int64]*sink{}
	var curID int64
	var curBuf *bytes.Buffer
	var acc []byte
	cpos, dpos := cFresh, dFresh
	var rem []byte // what the decompressor is still expected to deliver
	var out []vsx
	resetD := func(src io.Reader, cls int64, y []byte) vsx {
		rem = nil
		dpos = dU
		if err := decomp.Reset(src); err != nil {
			return vErr("e")
		}
		rem = y
		switch cls {
		case 1:
			dpos = dP1
		case 2:
			dpos = dP2
		}
		return verifOK()
	}
	for _, op := range args[2].l {
		op := op
		var f func() vsx
		switch op.l[0].i {
		case 0:
			f = func() vsx {
				curID, curBuf, acc, cpos = op.l[1].i, &bytes.Buffer{}, nil, cOpen
				comp.Reset(curBuf)
				return verifOK()
			}
		case 1:
			f = func() vsx {
				b := op.l[1].b
				n, err := comp.Write(b)
				if cpos != cOpen {
					return verifAny()
				}
				if err != nil || n != len(b) {
					return vErr("e")
				}
				acc = append(acc, b...)
				return verifOK()
			}
		case 2:
			f = func() vsx {
				err := comp.Close()
				if cpos != cOpen {
					return verifAny()
				}
				if err != nil {
					return vErr("e")
				}
				cpos = cDone
				s := &sink{content: append([]byte(nil), curBuf.Bytes()...), acc: acc}
				closed[curID] = s
				cls, y := verifLibFresh(int(enc), 0, s.content)
				return verifOKFlag(cls == 1 && bytes.Equal(y, s.acc))
			}
		case 3:
			s := closed[op.l[1].i]
			if s == nil {
				return vL(vS("bad-case"))
			}
			f = func() vsx { return resetD(verifSource(int(op.l[2].i), s.content), 1, s.acc) }
		case 4:
			f = func() vsx { return resetD(verifSource(int(op.l[1].i), op.l[2].b), op.l[3].i, op.l[4].b) }
		case 5, 6:
			f = func() vsx {
				var rd io.Reader = decomp
				want := rem
				limited := op.l[0].i == 6
				if limited {
					n := op.l[1].i
					rd = io.LimitReader(decomp, n)
					if int64(len(want)) > n {
						want = want[:n]
					}
				}
				full := dpos == dP1 || (dpos == dP2 && !limited)
				y, err := io.ReadAll(rd)
				switch {
				case dpos == dP1 && err == nil:
				case dpos == dFresh:
				default:
					dpos = dU
				}
				if err != nil {
					if full {
						return vErr("e")
					}
					return verifAny()
				}
				eq := bytes.Equal(y, want)
				if len(y) <= len(rem) {
					rem = rem[len(y):]
				} else {
					rem = nil
				}
				if full {
					return verifOKFlag(eq)
				}
				return verifAny()
			}
		case 7:
			f = func() vsx {
				full := dpos == dP1
				if dpos != dFresh {
					dpos = dU
				}
				err := decomp.Close()
				if !full {
					return verifAny()
				}
				if err != nil {
					return vErr("e")
				}
				return verifOK()
			}
		default:
			return vL(vS("bad-case"))
		}
		res, crashed := verifStep(f)
		out = append(out, res)
		if crashed {
			break
		}
	}
	return vL(out...)
}

// ---------------------------------------------------------------------------
// oracle pass: one request per line  (id alg op kind bytes) -> (id ...)
//
//	op 0: compress bytes with the library            -> (id #compressed)
//	op 1: classify bytes with a fresh library reader -> (id cls #y)
//
// ---------------------------------------------------------------------------
func TestVerifC20Oracle(t *testing.T) {
	in, out := os.Getenv("VERIF_CASES"), os.Getenv("VERIF_OUT")
	if in == "" || out == "" {
		t.Skip("VERIF_CASES / VERIF_OUT not set")
	}
	data, err := os.ReadFile(in)
	if err != nil {
		t.Fatal(err)
	}
	var sb strings.Builder
	for _, line := range strings.Split(string(data), "\n") {
		if line == "" {
			continue
		}
		p := &vparser{s: line}
		c := p.item()
		id, alg, op, kind, b := c.l[0], int(c.l[1].i), c.l[2].i, int(c.l[3].i), c.l[4].b
		var res vsx
		if op == 0 {
			res = vL(id, vB(verifLibCompress(alg, b)))
		} else {
			cls, y := verifLibFresh(alg, kind, b)
			if len(y) > 1<<20 {
				cls, y = 3, nil // too large to carry around: the generator drops such sources
			}
			res = vL(id, vInt(cls), vB(y))
		}
		res.print(&sb)
		sb.WriteByte('\n')
	}
	if err := os.WriteFile(out, []byte(sb.String()), 0o644); err != nil {
		t.Fatal(err)
	}
}

// ---------------------------------------------------------------------------
// TestVerifConsts: the tables of this package as Coq definitions
// ---------------------------------------------------------------------------
func TestVerifConsts(t *testing.T) {
	out := os.Getenv("VERIF_OUT")
	if out == "" {
		t.Skip("VERIF_OUT not set")
	}
	var sb strings.Builder
	// the name constants, keyed by the enum value their identifier stands for
	names := verifNameConsts()
	sb.WriteString("(* internal/compression: name constants; GetCompressor / GetDecompressor per enum value\n" +
		"   (algorithm found by exchanging a probe with the libraries; -1 = error); New* constructors *)\n")
	sb.WriteString("Definition c20_names : list (Z * list N) := [")
	for i, n := range names {
		if i > 0 {
			sb.WriteString("; ")
		}
		fmt.Fprintf(&sb, "(%d%%Z, %s)", n.tag, verifCoqBytes(n.name))
	}
	sb.WriteString("].\n")
	var vals []int64
	for v := range conformancev1.Compression_name {
		vals = append(vals, int64(v))
	}
	max := int64(0)
	for _, v := range vals {
		if v > max {
			max = v
		}
	}
	var cs, ds []string
	for v := int64(-1); v <= max+2; v++ {
		ca, da := verifEnumAlgs(v)
		cs = append(cs, fmt.Sprintf("(%d, %d)", v, ca))
		ds = append(ds, fmt.Sprintf("(%d, %d)", v, da))
	}
	fmt.Fprintf(&sb, "Definition c20_enum_max : Z := %d%%Z.\n", max)
	fmt.Fprintf(&sb, "Definition c20_get_compressor : list (Z * Z) := [%s]%%Z.\n", strings.Join(cs, "; "))
	fmt.Fprintf(&sb, "Definition c20_get_decompressor : list (Z * Z) := [%s]%%Z.\n", strings.Join(ds, "; "))
	ctorD := []struct {
		tag int
		mk  func() connect.Decompressor
	}{{3, NewBrotliDecompressor}, {4, NewZstdDecompressor}, {5, NewDeflateDecompressor}, {6, NewSnappyDecompressor}}
	ctorC := []struct {
		tag int
		mk  func() connect.Compressor
	}{{3, NewBrotliCompressor}, {4, NewZstdCompressor}, {5, NewDeflateCompressor}, {6, NewSnappyCompressor}}
	var xs []string
	for i := range ctorD {
		d, c := ctorD[i], ctorC[i]
		da := verifGuardInt(func() int { return verifDecompAlg(d.mk) })
		ca := verifGuardInt(func() int { return verifCompAlg(c.mk) })
		xs = append(xs, fmt.Sprintf("(%d, (%d, %d))", d.tag, da, ca))
	}
	fmt.Fprintf(&sb, "Definition c20_constructors : list (Z * (Z * Z)) := [%s]%%Z.\n", strings.Join(xs, "; "))
	if err := os.WriteFile(out, []byte(sb.String()), 0o644); err != nil {
		t.Fatal(err)
	}
}
