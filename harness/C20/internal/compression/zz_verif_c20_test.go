//go:build verif

package compression

// C20 harness, compression package side.
//
//   c20.hist   a scripted history of Reset / Write / Close on ONE compressor and
//              Reset / Read / Close on ONE decompressor obtained from this package,
//              reporting per step ok / err / crash and "decoded equals expected".
//              Compressed bytes are never compared.
//   c20.enum   GetCompressor / GetDecompressor for a list of enum values: which
//              ALGORITHM the returned object implements (found behaviourally, by
//              exchanging a probe with the third-party libraries used directly).
//   TestVerifC20Oracle   classifies sources with a FRESH third-party reader
//              (bypassing every wrapper of this package).
//   TestVerifConsts      the package's name constants and enum tables as Coq.

import (
	"fmt"
	"os"
	"strings"
	"testing"

	conformancev1 "connectrpc.com/conformance/internal/gen/proto/go/connectrpc/conformance/v1"
	"connectrpc.com/connect"
)

func init() {
	verifKinds["c20.hist"] = verifC20Hist
	verifKinds["c20.pair"] = verifC20Pair
	verifKinds["c20.enum"] = verifC20Enum
	verifKinds["c20.names"] = verifC20Names
}

// ---------------------------------------------------------------------------
// c20.enum: (values) -> ((value compressor-alg decompressor-alg) ...), -1 = error
// ---------------------------------------------------------------------------
func verifEnumAlgs(v int64) (int, int) {
	ca := verifGuardInt(func() int {
		if _, err := GetCompressor(conformancev1.Compression(v)); err != nil {
			return -1
		}
		return verifCompAlg(func() connect.Compressor {
			c, _ := GetCompressor(conformancev1.Compression(v))
			return c
		})
	})
	da := verifGuardInt(func() int {
		if _, err := GetDecompressor(conformancev1.Compression(v)); err != nil {
			return -1
		}
		return verifDecompAlg(func() connect.Decompressor {
			d, _ := GetDecompressor(conformancev1.Compression(v))
			return d
		})
	})
	return ca, da
}

func verifC20Enum(args []vsx) vsx {
	var out []vsx
	for _, e := range args[0].l {
		ca, da := verifEnumAlgs(e.i)
		out = append(out, vL(vI(e.i), vInt(ca), vInt(da)))
	}
	return vL(out...)
}

// c20.names: () -> ((enum-value-of-the-identifier name) ...)
func verifNameConsts() []struct {
	tag  int
	name string
} {
	return []struct {
		tag  int
		name string
	}{{1, Identity}, {2, Gzip}, {3, Brotli}, {4, Zstd}, {5, Deflate}, {6, Snappy}}
}

func verifC20Names(_ []vsx) vsx {
	var out []vsx
	for _, n := range verifNameConsts() {
		out = append(out, vL(vInt(n.tag), vS(n.name)))
	}
	return vL(out...)
}

// ---------------------------------------------------------------------------
// c20.hist
// ---------------------------------------------------------------------------
func verifNewDecomp(enc int64, ctor int64) (connect.Decompressor, bool) {
	if ctor == 0 {
		d, err := GetDecompressor(conformancev1.Compression(enc))
		return d, err == nil
	}
	switch enc {
	case 3:
		return NewBrotliDecompressor(), true
	case 4:
		return NewZstdDecompressor(), true
	case 5:
		return NewDeflateDecompressor(), true
	case 6:
		return NewSnappyDecompressor(), true
	}
	return nil, false
}

func verifNewComp(enc int64, ctor int64) (connect.Compressor, bool) {
	if ctor == 0 {
		c, err := GetCompressor(conformancev1.Compression(enc))
		return c, err == nil
	}
	switch enc {
	case 3:
		return NewBrotliCompressor(), true
	case 4:
		return NewZstdCompressor(), true
	case 5:
		return NewDeflateCompressor(), true
	case 6:
		return NewSnappyCompressor(), true
	}
	return nil, false
}

// args: enc ctor (ops) — the driver is verifHistRun (zz_verif_c20lib_test.go)
func verifC20Hist(args []vsx) vsx {
	enc, ctor := args[0].i, args[1].i
	if enc < 1 || enc > 6 {
		return vL(vS("bad-case"))
	}
	comp, ok1 := verifNewComp(enc, ctor)
	decomp, ok2 := verifNewDecomp(enc, ctor)
	if !ok1 || !ok2 {
		return vL(vS("bad-case"))
	}
	return verifHistRun(enc, comp, decomp, args[2].l)
}

// args: enc ctor (opsA) (opsB) (schedule) - two compressors and two decompressors from the same constructor
// (ctor as for c20.hist), their histories interleaved (verifPairRun)
func verifC20Pair(args []vsx) vsx {
	if len(args) != 5 {
		return vL(vS("bad-case"))
	}
	enc, ctor := args[0].i, args[1].i
	if enc < 1 || enc > 6 {
		return vL(vS("bad-case"))
	}
	return verifPairRun(enc, func() (connect.Compressor, connect.Decompressor, bool) {
		comp, ok1 := verifNewComp(enc, ctor)
		decomp, ok2 := verifNewDecomp(enc, ctor)
		return comp, decomp, ok1 && ok2
	}, args[2].l, args[3].l, args[4].l)
}

// ---------------------------------------------------------------------------
// oracle pass: one request per line  (id alg op kind bytes) -> (id ...)
//
//	op 0: compress bytes with the library            -> (id #compressed)
//	op 1: classify bytes with a fresh library reader -> (id cls #y)
//
// ---------------------------------------------------------------------------
func TestVerifC20Oracle(t *testing.T) {
	in, out := os.Getenv("VERIF_CASES"), os.Getenv("VERIF_OUT")
	if in == "" || out == "" {
		t.Skip("VERIF_CASES / VERIF_OUT not set")
	}
	data, err := os.ReadFile(in)
	if err != nil {
		t.Fatal(err)
	}
	var sb strings.Builder
	for _, line := range strings.Split(string(data), "\n") {
		if line == "" {
			continue
		}
		p := &vparser{s: line}
		c := p.item()
		id, alg, op, kind, b := c.l[0], int(c.l[1].i), c.l[2].i, int(c.l[3].i), c.l[4].b
		var res vsx
		if op == 0 {
			res = vL(id, vB(verifLibCompress(alg, b)))
		} else {
			cls, y := verifLibClass(alg, kind, b)
			if len(y) > 1<<20 {
				cls, y = 3, nil // too large to carry around: the generator drops such sources
			}
			res = vL(id, vInt(cls), vB(y))
		}
		res.print(&sb)
		sb.WriteByte('\n')
	}
	if err := os.WriteFile(out, []byte(sb.String()), 0o644); err != nil {
		t.Fatal(err)
	}
}

// ---------------------------------------------------------------------------
// TestVerifConsts: the tables of this package as Coq definitions
// ---------------------------------------------------------------------------
func TestVerifConsts(t *testing.T) {
	out := os.Getenv("VERIF_OUT")
	if out == "" {
		t.Skip("VERIF_OUT not set")
	}
	var sb strings.Builder
	// the name constants, keyed by the enum value their identifier stands for
	names := verifNameConsts()
	sb.WriteString("(* internal/compression: name constants; GetCompressor / GetDecompressor per enum value\n" +
		"   (algorithm found by exchanging a probe with the libraries; -1 = error); New* constructors *)\n")
	sb.WriteString("Definition c20_names : list (Z * list N) := [")
	for i, n := range names {
		if i > 0 {
			sb.WriteString("; ")
		}
		fmt.Fprintf(&sb, "(%d%%Z, %s)", n.tag, verifCoqBytes(n.name))
	}
	sb.WriteString("].\n")
	var vals []int64
	for v := range conformancev1.Compression_name {
		vals = append(vals, int64(v))
	}
	max := int64(0)
	for _, v := range vals {
		if v > max {
			max = v
		}
	}
	var cs, ds []string
	for v := int64(-1); v <= max+2; v++ {
		ca, da := verifEnumAlgs(v)
		cs = append(cs, fmt.Sprintf("(%d, %d)", v, ca))
		ds = append(ds, fmt.Sprintf("(%d, %d)", v, da))
	}
	fmt.Fprintf(&sb, "Definition c20_enum_max : Z := %d%%Z.\n", max)
	fmt.Fprintf(&sb, "Definition c20_get_compressor : list (Z * Z) := [%s]%%Z.\n", strings.Join(cs, "; "))
	fmt.Fprintf(&sb, "Definition c20_get_decompressor : list (Z * Z) := [%s]%%Z.\n", strings.Join(ds, "; "))
	ctorD := []struct {
		tag int
		mk  func() connect.Decompressor
	}{{3, NewBrotliDecompressor}, {4, NewZstdDecompressor}, {5, NewDeflateDecompressor}, {6, NewSnappyDecompressor}}
	ctorC := []struct {
		tag int
		mk  func() connect.Compressor
	}{{3, NewBrotliCompressor}, {4, NewZstdCompressor}, {5, NewDeflateCompressor}, {6, NewSnappyCompressor}}
	var xs []string
	for i := range ctorD {
		d, c := ctorD[i], ctorC[i]
		da := verifGuardInt(func() int { return verifDecompAlg(d.mk) })
		ca := verifGuardInt(func() int { return verifCompAlg(c.mk) })
		xs = append(xs, fmt.Sprintf("(%d, (%d, %d))", d.tag, da, ca))
	}
	fmt.Fprintf(&sb, "Definition c20_constructors : list (Z * (Z * Z)) := [%s]%%Z.\n", strings.Join(xs, "; "))
	if err := os.WriteFile(out, []byte(sb.String()), 0o644); err != nil {
		t.Fatal(err)
	}
}
