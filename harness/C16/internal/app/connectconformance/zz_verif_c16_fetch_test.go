//go:build verif

package connectconformance

// c16.fetch: scripts of Init / Complete / Clear on a REAL tracer.Tracer and of setOutcome on a
// REAL testResults (whose fetchTrace goroutines Await, Clear and store).  The schedule is
// forced: after every action the harness waits until every fetch goroutine of this case has
// either returned or is parked in Await's select (asked of the runtime's goroutine dump).

import (
	"context"
	"errors"
	"runtime"
	"strconv"
	"strings"
	"time"

	"connectrpc.com/conformance/internal"
	"connectrpc.com/conformance/internal/tracer"
)

func init() {
	verifKinds["c16.fetch"] = verifC16Fetch
}

type verifC16ID struct{ id int64 }

func (e verifC16ID) Error() string { return "trace-id " + strconv.FormatInt(e.id, 10) }

const verifC16FetchFunc = "connectconformance.(*testResults).fetchTrace.func1"

func verifC16Goid() string {
	var buf [64]byte
	n := runtime.Stack(buf[:], false)
	s := strings.TrimPrefix(string(buf[:n]), "goroutine ")
	if i := strings.IndexByte(s, ' '); i > 0 {
		return s[:i]
	}
	return "?"
}

// fetch goroutines started by goroutine `creator`: how many are parked in a select, how many
// are in any other state (running, runnable, waiting for a mutex)
func verifC16Fetchers(creator string) (parked, busy int) {
	buf := make([]byte, 1<<16)
	for {
		n := runtime.Stack(buf, true)
		if n < len(buf) {
			buf = buf[:n]
			break
		}
		buf = make([]byte, 2*len(buf))
	}
	marker := " in goroutine " + creator + "\n"
	for _, block := range strings.Split(string(buf)+"\n", "\n\n") {
		if !strings.Contains(block, verifC16FetchFunc) || !strings.Contains(block+"\n", marker) {
			continue
		}
		head := block[:strings.IndexByte(block+"\n", '\n')]
		if i := strings.IndexByte(head, '['); i >= 0 && strings.HasPrefix(head[i+1:], "select") {
			parked++
		} else {
			busy++
		}
	}
	return parked, busy
}

func verifC16Quiesce(creator string) (int, bool) {
	deadline := time.Now().Add(20 * time.Second)
	for i := 0; ; i++ {
		parked, busy := verifC16Fetchers(creator)
		if busy == 0 {
			return parked, true
		}
		if time.Now().After(deadline) {
			return parked, false
		}
		if i < 50 {
			runtime.Gosched()
		} else {
			time.Sleep(50 * time.Microsecond)
		}
	}
}

func verifC16View(tr *tracer.Tracer, name string) vsx {
	dead, cancel := context.WithCancel(context.Background())
	cancel()
	t, err := tr.Await(dead, name)
	switch {
	case err == nil && t != nil:
		var id verifC16ID
		if t.TestName != name || !errors.As(t.Err, &id) {
			return vL(vI(2), vI(-1))
		}
		return vL(vI(2), vI(id.id))
	case errors.Is(err, context.Canceled):
		return vL(vI(4))
	default:
		return vL(vI(3))
	}
}

// (actions) (names) -> ((stored per name) (tracer view per name) waiting-goroutines traces-in-report)
func verifC16Fetch(args []vsx) vsx {
	// in a goroutine of its own, so that "created by ... in goroutine N" identifies this case's fetchers
	resCh := make(chan vsx, 1)
	go func() {
		defer func() {
			if r := recover(); r != nil {
				resCh <- vCrash()
			}
		}()
		resCh <- verifC16FetchCase(args)
	}()
	return <-resCh
}

func verifC16FetchCase(args []vsx) vsx {
	me := verifC16Goid()
	tr := &tracer.Tracer{}
	res := newResults(0, &testTrie{}, &testTrie{}, tr)
	parked := 0
	for _, a := range args[0].l {
		switch a.l[0].i {
		case 0:
			tr.Init(a.l[1].str())
		case 1:
			tr.Complete(tracer.Trace{TestName: a.l[1].str(), Err: verifC16ID{a.l[2].i}})
		case 2:
			tr.Clear(a.l[1].str())
		case 3:
			var failure error
			if a.l[2].boolean() {
				failure = errors.New("the test case failed")
			}
			res.setOutcome(a.l[1].str(), false, failure)
		case 4:
			// TraceTimeout passes: every waiting fetch goroutine gives up by itself
			done := make(chan struct{})
			go func() { res.traceWaitGroup.Wait(); close(done) }()
			select {
			case <-done:
			case <-time.After(tracer.TraceTimeout + 10*time.Second):
				return vErr("fetch-outlived-its-timeout")
			}
		}
		var ok bool
		if parked, ok = verifC16Quiesce(me); !ok {
			return vErr("fetch-goroutines-not-quiescent")
		}
	}
	var stored, views []vsx
	res.mu.Lock()
	for _, n := range args[1].l {
		t, present := res.traces[n.str()]
		var id verifC16ID
		switch {
		case !present:
			stored = append(stored, vL(vI(0)))
		case t == nil:
			stored = append(stored, vL(vI(2))) // a nil trace was stored
		case t.TestName != n.str() || !errors.As(t.Err, &id):
			stored = append(stored, vL(vI(1), vI(-1)))
		default:
			stored = append(stored, vL(vI(1), vI(id.id)))
		}
	}
	res.mu.Unlock()
	for _, n := range args[1].l {
		views = append(views, verifC16View(tr, n.str()))
	}
	shown := int64(-1)
	if parked == 0 {
		printer := &internal.SimplePrinter{}
		res.report(printer)
		shown = 0
		for _, m := range printer.Messages {
			if strings.Contains(m, "---- HTTP Trace ----") {
				shown++
			}
		}
	}
	return vL(vL(stored...), vL(views...), vInt(parked), vI(shown))
}
