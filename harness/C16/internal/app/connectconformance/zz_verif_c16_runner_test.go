//go:build verif

package connectconformance

// c16.runner: the REAL runTestCasesForServer with a REAL tracer.Tracer, a REAL testResults and a
// scripted client runner.  The script (a peer schedule) says what the peers do WHILE sendRequest
// of test case k runs (slot k) and after the last sendRequest returned (slot n):
//   (0 i t)  the traced HTTP operation of case i hands trace number t to the Tracer
//   (1 i)    the (failing) response of case i is delivered: whenDone -> results.failed ->
//            setOutcome -> fetchTrace goroutine (Await, Clear, store)
//   (2 i)    the fetch goroutine of case i has run to its end (a synchronisation point only: after
//            EVERY event the harness waits until each fetch goroutine has returned or is parked)
//   (3 i)    TraceTimeout passes for the parked fetch goroutine of case i (a real 5 s wait)
// Reported: what the report holds for each (failed) test name - nothing / the trace number - and
// the Tracer's view of each test name afterwards.

import (
	"bytes"
	"context"
	"errors"
	"runtime"
	"strconv"
	"strings"
	"time"

	"connectrpc.com/conformance/internal"
	conformancev1 "connectrpc.com/conformance/internal/gen/proto/go/connectrpc/conformance/v1"
	"connectrpc.com/conformance/internal/tracer"
)

func init() {
	verifKinds["c16.runner"] = verifC16Runner
}

// fetch goroutines started by any of the goroutines `creators`
func verifC16FetchersOf(creators []string) (parked, busy int) {
	buf := make([]byte, 1<<16)
	for {
		n := runtime.Stack(buf, true)
		if n < len(buf) {
			buf = buf[:n]
			break
		}
		buf = make([]byte, 2*len(buf))
	}
	for _, block := range strings.Split(string(buf)+"\n", "\n\n") {
		if !strings.Contains(block, verifC16FetchFunc) {
			continue
		}
		mine := false
		for _, c := range creators {
			if strings.Contains(block+"\n", " in goroutine "+c+"\n") {
				mine = true
			}
		}
		if !mine {
			continue
		}
		head := block[:strings.IndexByte(block+"\n", '\n')]
		if i := strings.IndexByte(head, '['); i >= 0 && strings.HasPrefix(head[i+1:], "select") {
			parked++
		} else {
			busy++
		}
	}
	return parked, busy
}

type verifC16Peer struct {
	tr       *tracer.Tracer
	names    []string
	sched    [][]vsx
	dones    []func(string, *conformancev1.ClientCompatResponse, error)
	sent     int
	creators []string
	problem  string
	parked   int
	// who is parked, per the script
	completed, waiting []bool

	lastReturned chan struct{}
	finalDone    chan struct{}
}

func (p *verifC16Peer) quiesce() {
	deadline := time.Now().Add(20 * time.Second)
	for i := 0; ; i++ {
		parked, busy := verifC16FetchersOf(p.creators)
		if busy == 0 {
			p.parked = parked
			return
		}
		if time.Now().After(deadline) {
			p.problem = "fetch-goroutines-not-quiescent"
			return
		}
		if i < 50 {
			runtime.Gosched()
		} else {
			time.Sleep(50 * time.Microsecond)
		}
	}
}

func (p *verifC16Peer) play(evs []vsx) {
	for _, ev := range evs {
		if p.problem != "" {
			// keep the run going (every test case must be answered or the runner never returns)
			if ev.l[0].i == 1 {
				p.respond(int(ev.l[1].i))
			}
			continue
		}
		i := int(ev.l[1].i)
		switch ev.l[0].i {
		case 0:
			p.tr.Complete(tracer.Trace{TestName: p.names[i], Err: verifC16ID{ev.l[2].i}})
			p.completed[i] = true
			p.waiting[i] = false
		case 1:
			p.respond(i)
			p.waiting[i] = !p.completed[i]
		case 2:
		case 3:
			if !p.waiting[i] {
				continue
			}
			p.waiting[i] = false
			before := p.parked
			deadline := time.Now().Add(tracer.TraceTimeout + 10*time.Second)
			for {
				parked, busy := verifC16FetchersOf(p.creators)
				if busy == 0 && parked < before {
					break
				}
				if time.Now().After(deadline) {
					p.problem = "fetch-outlived-its-timeout"
					break
				}
				time.Sleep(20 * time.Millisecond)
			}
		}
		p.quiesce()
	}
}

func (p *verifC16Peer) respond(i int) {
	done := p.dones[i]
	if done == nil {
		return
	}
	p.dones[i] = nil
	done(p.names[i], &conformancev1.ClientCompatResponse{
		TestName: p.names[i],
		Result: &conformancev1.ClientCompatResponse_Error{
			Error: &conformancev1.ClientErrorResult{Message: "it failed"},
		},
	}, nil)
}

func (p *verifC16Peer) sendRequest(req *conformancev1.ClientCompatRequest, whenDone func(string, *conformancev1.ClientCompatResponse, error)) error {
	k := p.sent
	p.sent++
	if k >= len(p.names) || req.TestName != p.names[k] {
		p.problem = "unexpected-request"
		whenDone(req.TestName, nil, errors.New("unexpected request"))
		return nil
	}
	p.dones[k] = whenDone
	if k == 0 {
		p.creators = append(p.creators, verifC16Goid())
	}
	if k == len(p.names)-1 {
		// what happens after the last sendRequest returned
		started := make(chan struct{})
		go func() {
			p.creators = append(p.creators, verifC16Goid())
			close(started)
			<-p.lastReturned
			defer close(p.finalDone)
			p.play(p.sched[len(p.names)])
		}()
		<-started
		defer close(p.lastReturned)
	}
	p.play(p.sched[k])
	return nil
}

func (p *verifC16Peer) closeSend()              {}
func (p *verifC16Peer) waitForResponses() error { return nil }
func (p *verifC16Peer) isRunning() bool         { return true }
func (p *verifC16Peer) stop()                   {}

// the schedules the model accepts (C16_Run.sched_ok): anything else would leave the runner waiting
func verifC16SchedOK(n int, sched [][]vsx) bool {
	if n < 1 || n > 9 || len(sched) != n+1 {
		return false
	}
	per := make([][]vsx, n)
	for k, slot := range sched {
		for _, ev := range slot {
			if len(ev.l) < 2 || ev.l[0].i < 0 || ev.l[0].i > 3 || (ev.l[0].i == 0) != (len(ev.l) == 3) {
				return false
			}
			i := ev.l[1].i
			if ev.l[0].i == 0 && ev.l[2].i < 0 {
				return false
			}
			if i < 0 || i >= int64(n) || i > int64(k) {
				return false
			}
			per[i] = append(per[i], ev)
		}
	}
	for _, evs := range per {
		j := 0
		c1 := 0
		for j < len(evs) && evs[j].l[0].i == 0 {
			j, c1 = j+1, c1+1
		}
		if j >= len(evs) || evs[j].l[0].i != 1 {
			return false
		}
		j++
		c2 := 0
		for j < len(evs) && (evs[j].l[0].i == 0 || evs[j].l[0].i == 3) {
			j, c2 = j+1, c2+1
		}
		if j >= len(evs) || evs[j].l[0].i != 2 || c1+c2 == 0 {
			return false
		}
		for j++; j < len(evs); j++ {
			if evs[j].l[0].i != 0 {
				return false
			}
		}
	}
	return true
}

// n (slots) -> ((stored per test name) (tracer view per test name))
func verifC16Runner(args []vsx) vsx {
	n := int(args[0].i)
	var sched [][]vsx
	for _, s := range args[1].l {
		sched = append(sched, s.l)
	}
	if !verifC16SchedOK(n, sched) {
		return vErr("bad-case")
	}
	resCh := make(chan vsx, 1)
	go func() {
		defer func() {
			if r := recover(); r != nil {
				resCh <- vCrash()
			}
		}()
		resCh <- verifC16RunnerCase(n, sched)
	}()
	select {
	case r := <-resCh:
		return r
	case <-time.After(time.Duration(n)*(tracer.TraceTimeout+10*time.Second) + 30*time.Second):
		return vErr("runner-did-not-return")
	}
}

func verifC16RunnerCase(n int, sched [][]vsx) vsx {
	var svrResponseBuf bytes.Buffer
	if err := internal.WriteDelimitedMessage(&svrResponseBuf, &conformancev1.ServerCompatResponse{Host: "127.0.0.1", Port: 12345}); err != nil {
		return vErr("harness")
	}
	tr := &tracer.Tracer{}
	peer := &verifC16Peer{
		tr: tr, sched: sched, lastReturned: make(chan struct{}), finalDone: make(chan struct{}),
		dones:     make([]func(string, *conformancev1.ClientCompatResponse, error), n),
		completed: make([]bool, n), waiting: make([]bool, n),
	}
	var testCases []*conformancev1.TestCase
	for i := 0; i < n; i++ {
		name := "T/c" + strconv.Itoa(i)
		peer.names = append(peer.names, name)
		testCases = append(testCases, &conformancev1.TestCase{
			Request:          &conformancev1.ClientCompatRequest{TestName: name},
			ExpectedResponse: &conformancev1.ClientResponseResult{},
		})
	}
	res := newResults(len(testCases), &testTrie{}, &testTrie{}, tr)
	var svrStdin bytes.Buffer
	runTestCasesForServer(
		context.Background(),
		false,
		true,
		serverInstance{
			protocol:    conformancev1.Protocol_PROTOCOL_CONNECT,
			httpVersion: conformancev1.HTTPVersion_HTTP_VERSION_1,
		},
		testCases,
		nil,
		nil,
		newFakeProcess(&svrStdin, bytes.NewReader(svrResponseBuf.Bytes()), strings.NewReader("")),
		discardPrinter{},
		discardPrinter{},
		res,
		peer,
		tr,
		false,
	)
	if peer.sent == n {
		select {
		case <-peer.finalDone:
		case <-time.After(time.Duration(n)*(tracer.TraceTimeout+10*time.Second) + 20*time.Second):
			return vErr("peers-did-not-finish")
		}
	} else {
		return vErr("not-every-request-was-sent")
	}
	if peer.problem != "" {
		return vErr(peer.problem)
	}
	// Every accepted schedule lets each fetch goroutine end inside the script (a completion, or
	// its scripted time-out): one that is still parked now waits for a trace that cannot come.
	// Say so instead of sitting out its TraceTimeout in report().
	if peer.quiesce(); peer.problem != "" {
		return vErr(peer.problem)
	}
	if peer.parked > 0 {
		return vL(vS("fetch-goroutines-still-waiting"), vInt(peer.parked))
	}
	printer := &internal.SimplePrinter{}
	res.report(printer)
	var stored, views []vsx
	res.mu.Lock()
	for _, name := range peer.names {
		t, present := res.traces[name]
		var id verifC16ID
		switch {
		case !present:
			stored = append(stored, vL(vI(0)))
		case t == nil:
			stored = append(stored, vL(vI(2)))
		case t.TestName != name || !errors.As(t.Err, &id):
			stored = append(stored, vL(vI(1), vI(-1)))
		default:
			stored = append(stored, vL(vI(1), vI(id.id)))
		}
	}
	res.mu.Unlock()
	for _, name := range peer.names {
		views = append(views, verifC16View(tr, name))
	}
	return vL(vL(stored...), vL(views...))
}
