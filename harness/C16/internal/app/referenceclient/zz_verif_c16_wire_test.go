//go:build verif

package referenceclient

// c16.wire: scripts of setWireTrace / wireTracer.Complete / examineWireDetails on real call
// contexts (with and without withWireCapture) in front of a REAL tracer.Tracer.
// c16.wiremw: one client exchange through the REAL newWireCaptureTransport (TracingRoundTripper
// + wireTracer) with a scripted transport and body consumer.

import (
	"context"
	"errors"
	"io"
	"net/http"
	"os"
	"sort"
	"strconv"
	"strings"
	"time"

	"connectrpc.com/conformance/internal"
	"connectrpc.com/conformance/internal/tracer"
)

func init() {
	verifKinds["c16.wire"] = verifC16Wire
	verifKinds["c16.wiremw"] = verifC16WireMw
}

type verifC16ID struct{ id int64 }

func (e verifC16ID) Error() string { return "trace-id " + strconv.FormatInt(e.id, 10) }

type verifC16TagErr struct{ tag int64 }

func (e verifC16TagErr) Error() string { return "tag " + strconv.FormatInt(e.tag, 10) }

func verifC16Tag(tag int64) error {
	if tag == 0 {
		return nil
	}
	return verifC16TagErr{tag}
}

func verifC16ErrTag(err error) int64 {
	var te verifC16TagErr
	switch {
	case err == nil:
		return 0
	case errors.As(err, &te):
		return te.tag
	case errors.Is(err, context.Canceled):
		return 4
	default:
		return 99
	}
}

func verifC16Resp(status int64) *http.Response {
	if status == 0 {
		return nil
	}
	return &http.Response{StatusCode: int(status), Status: strconv.FormatInt(status, 10), Proto: "HTTP/1.1", ProtoMajor: 1, ProtoMinor: 1,
		Header: http.Header{"Content-Type": []string{"text/plain"}}}
}

func verifC16TracerView(tr *tracer.Tracer, name string, constant bool) vsx {
	dead, cancel := context.WithCancel(context.Background())
	cancel()
	t, err := tr.Await(dead, name)
	switch {
	case err == nil && t != nil:
		if t.TestName != name {
			return vL(vI(2), vI(-1))
		}
		if constant {
			return vL(vI(2), vI(1))
		}
		var id verifC16ID
		if !errors.As(t.Err, &id) {
			return vL(vI(2), vI(-1))
		}
		return vL(vI(2), vI(id.id))
	case errors.Is(err, context.Canceled):
		return vL(vI(4))
	default:
		return vL(vI(3))
	}
}

// 0 no wrapper, 1 wrapper without a trace, 2 trace available
func verifC16WrapperState(ctx context.Context) (int, *wireWrapper) {
	w, ok := ctx.Value(wireCtxKey{}).(*wireWrapper)
	if !ok {
		return 0, nil
	}
	select {
	case <-w.traceAvailable:
		return 2, w
	default:
		return 1, w
	}
}

// examineWireDetails waits a second for a trace that is not there yet; unless asked to
// (VERIF_C16_SLOW) the harness answers that case itself
func verifC16Examine(ctx context.Context) vsx {
	if st, _ := verifC16WrapperState(ctx); st == 1 && os.Getenv("VERIF_C16_SLOW") == "" {
		return vL(vI(0), vBool(false))
	}
	status, ok := examineWireDetails(ctx, &internal.SimplePrinter{})
	return vL(vInt(status), vBool(ok))
}

// forward? (actions) (contexts) (names) -> ((examine results) (wrapper per context) (tracer view per name))
func verifC16Wire(args []vsx) vsx {
	tr := &tracer.Tracer{}
	wt := &wireTracer{}
	if args[0].boolean() {
		wt.tracer = tr
	}
	ctxs := map[int64]context.Context{}
	get := func(c int64) context.Context {
		if ctx, ok := ctxs[c]; ok {
			return ctx
		}
		return context.Background()
	}
	mkTrace := func(c int64, name string, id, status int64) tracer.Trace {
		req, err := http.NewRequestWithContext(get(c), http.MethodPost, "http://verif.invalid/svc/Method", http.NoBody)
		if err != nil {
			panic(err)
		}
		return tracer.Trace{TestName: name, Request: req, Err: verifC16ID{id}, Response: verifC16Resp(status)}
	}
	var seen []vsx
	for _, a := range args[1].l {
		switch a.l[0].i {
		case 0:
			if a.l[2].boolean() {
				ctxs[a.l[1].i] = withWireCapture(context.Background())
			} else {
				ctxs[a.l[1].i] = context.Background()
			}
		case 1:
			wt.Complete(mkTrace(a.l[1].i, a.l[2].str(), a.l[3].i, a.l[4].i))
		case 2:
			setWireTrace(get(a.l[1].i), mkTrace(a.l[1].i, "", a.l[2].i, a.l[3].i))
		case 3:
			tr.Init(a.l[1].str())
		case 4:
			tr.Clear(a.l[1].str())
		case 5:
			seen = append(seen, verifC16Examine(get(a.l[1].i)))
		}
	}
	var wrappers, views []vsx
	for _, c := range args[2].l {
		st, w := verifC16WrapperState(get(c.i))
		if st != 2 {
			wrappers = append(wrappers, vL(vInt(st)))
			continue
		}
		var id verifC16ID
		if !errors.As(w.trace.Err, &id) {
			id.id = -1
		}
		status := int64(0)
		if w.trace.Response != nil {
			status = int64(w.trace.Response.StatusCode)
		}
		wrappers = append(wrappers, vL(vI(2), vI(id.id), vI(status)))
	}
	for _, n := range args[3].l {
		views = append(views, verifC16TracerView(tr, n.str(), false))
	}
	return vL(vL(seen...), vL(wrappers...), vL(views...))
}

// ---------------------------------------------------------------------------
// one client exchange through newWireCaptureTransport
// ---------------------------------------------------------------------------
func verifC16Key(k int64) string { return "Tk" + strconv.FormatInt(k, 10) }
func verifC16Val(v int64) string { return "v" + strconv.FormatInt(v, 10) }

func verifC16Unkey(s, prefix string) int64 {
	if !strings.HasPrefix(s, prefix) {
		return -1
	}
	n, err := strconv.ParseInt(s[len(prefix):], 10, 64)
	if err != nil {
		return -1
	}
	return n
}

func verifC16Trailers(h http.Header) vsx {
	type kv struct {
		k  int64
		vs []vsx
	}
	var all []kv
	for name, vals := range h {
		e := kv{k: verifC16Unkey(name, "Tk")}
		for _, v := range vals {
			e.vs = append(e.vs, vI(verifC16Unkey(v, "v")))
		}
		all = append(all, e)
	}
	sort.SliceStable(all, func(i, j int) bool { return all[i].k < all[j].k })
	out := make([]vsx, 0, len(all))
	for _, e := range all {
		out = append(out, vL(vI(e.k), vL(e.vs...)))
	}
	return vL(out...)
}

func verifC16Events(events []tracer.Event) vsx {
	out := make([]vsx, 0, len(events))
	for _, ev := range events {
		switch ev := ev.(type) {
		case *tracer.RequestStart:
			out = append(out, vL(vI(9)))
		case *tracer.RequestBodyData:
			out = append(out, vL(vI(0), vInt(ev.MessageIndex)))
		case *tracer.RequestBodyEnd:
			out = append(out, vL(vI(1), vI(verifC16ErrTag(ev.Err))))
		case *tracer.ResponseStart:
			out = append(out, vL(vI(2)))
		case *tracer.ResponseError:
			out = append(out, vL(vI(3), vI(verifC16ErrTag(ev.Err))))
		case *tracer.ResponseBodyData:
			out = append(out, vL(vI(4), vInt(ev.MessageIndex)))
		case *tracer.ResponseBodyEndStream:
			out = append(out, vL(vI(5)))
		case *tracer.ResponseBodyEnd:
			out = append(out, vL(vI(6), vI(verifC16ErrTag(ev.Err))))
		case *tracer.RequestCanceled:
			out = append(out, vL(vI(7)))
		default:
			out = append(out, vL(vI(-1)))
		}
	}
	return vL(out...)
}

func verifC16Delivery(t tracer.Trace) vsx {
	tr := vL(vS(t.TestName), vI(verifC16ErrTag(t.Err)), vBool(t.Response != nil), verifC16Events(t.Events))
	if t.Response == nil {
		return vL(tr, vL(vI(0)))
	}
	return vL(tr, vL(vI(1), verifC16Trailers(t.Response.Trailer)))
}

type verifC16Body struct {
	stream bool
	chunks []int64
	err    int64
	// response bodies only
	ctx      context.Context
	closed   bool
	tset     bool
	resp     *http.Response
	trailers http.Header
}

func verifC16BodyOf(v vsx) *verifC16Body {
	b := &verifC16Body{stream: v.l[0].boolean(), err: v.l[2].i}
	for _, c := range v.l[1].l {
		b.chunks = append(b.chunks, c.i)
	}
	return b
}

func (b *verifC16Body) contentType() string {
	if b.stream {
		return "application/connect+proto"
	}
	return "application/proto"
}

func (b *verifC16Body) Read(p []byte) (int, error) {
	if b.ctx != nil {
		if err := b.ctx.Err(); err != nil {
			return 0, err
		}
	}
	if b.closed {
		return 0, verifC16Tag(6)
	}
	if len(b.chunks) > 0 {
		var data []byte
		if b.stream {
			for i := int64(0); i < b.chunks[0]; i++ {
				data = append(data, 0, 0, 0, 0, 3, 'a', 'b', 'c')
			}
		} else {
			data = []byte(strings.Repeat("x", int(b.chunks[0])))
		}
		if len(data) > len(p) {
			panic("verif: read buffer too small")
		}
		b.chunks = b.chunks[1:]
		return copy(p, data), nil
	}
	if b.err != 0 {
		return 0, verifC16Tag(b.err)
	}
	if b.resp != nil && !b.tset {
		b.tset = true
		b.resp.Trailer = b.trailers
	}
	return 0, io.EOF
}

func (b *verifC16Body) Close() error {
	b.closed = true
	return nil
}

type verifC16RT func(*http.Request) (*http.Response, error)

func (f verifC16RT) RoundTrip(r *http.Request) (*http.Response, error) { return f(r) }

func verifC16ReadAll(r io.Reader) {
	buf := make([]byte, 1<<16)
	for {
		if _, err := r.Read(buf); err != nil {
			return
		}
	}
}

// name wrapped forward init status (request body) treq tfail (response body) (trailers) (consumer ops)
func verifC16WireMw(args []vsx) vsx {
	name := args[0].str()
	status := args[4].i
	reqBody, treq, tfail, respBody := verifC16BodyOf(args[5]), args[6].i, args[7].i, verifC16BodyOf(args[8])
	tr := &tracer.Tracer{}
	if args[3].boolean() {
		tr.Init(name)
	}
	var fwd *tracer.Tracer
	if args[2].boolean() {
		fwd = tr
	}
	parent, cancelParent := context.WithCancel(context.Background())
	defer cancelParent()
	ctx := parent
	if args[1].boolean() {
		ctx = withWireCapture(parent)
	}
	fake := verifC16RT(func(req *http.Request) (*http.Response, error) {
		switch treq {
		case 1:
			verifC16ReadAll(req.Body)
			_ = req.Body.Close()
		case 2:
			_ = req.Body.Close()
		}
		if tfail != 0 {
			return nil, verifC16Tag(tfail)
		}
		resp := &http.Response{
			Status: strconv.FormatInt(status, 10), StatusCode: int(status), Proto: "HTTP/1.1", ProtoMajor: 1, ProtoMinor: 1,
			Header: http.Header{"Content-Type": []string{respBody.contentType()}}, Request: req, ContentLength: -1,
		}
		respBody.ctx, respBody.resp, respBody.trailers = req.Context(), resp, http.Header{}
		for _, kv := range args[9].l {
			vals := []string{}
			for _, v := range kv.l[1].l {
				vals = append(vals, verifC16Val(v.i))
			}
			respBody.trailers[verifC16Key(kv.l[0].i)] = vals
		}
		resp.Body = respBody
		return resp, nil
	})
	rt := newWireCaptureTransport(fake, fwd)
	req, err := http.NewRequestWithContext(ctx, http.MethodPost, "http://verif.invalid/svc/Method", reqBody)
	if err != nil {
		panic(err)
	}
	if name != "" {
		req.Header.Set("X-Test-Case-Name", name)
	}
	req.Header.Set("Content-Type", reqBody.contentType())
	// the trace is complete when the wrapper has it; without a wrapper, when the Tracer has it
	waitForTrace := func() bool {
		viaTracer := fwd != nil && args[3].boolean()
		if !args[1].boolean() && !viaTracer {
			time.Sleep(2 * time.Millisecond) // nothing observable: let the cancel goroutine run
			return true
		}
		deadline := time.Now().Add(10 * time.Second)
		for time.Now().Before(deadline) {
			st, _ := verifC16WrapperState(ctx)
			if (!args[1].boolean() || st == 2) && (!viaTracer || len(verifC16TracerView(tr, name, true).l) == 2) {
				return true
			}
			time.Sleep(20 * time.Microsecond)
		}
		return false
	}
	resp, err := rt.RoundTrip(req)
	if err == nil {
		buf := make([]byte, 1<<16)
		for _, o := range args[10].l {
			switch o.l[0].i {
			case 0:
				_, _ = resp.Body.Read(buf)
			case 1:
				_ = resp.Body.Close()
			case 2:
				cancelParent()
				if name != "" && !waitForTrace() {
					return vErr("cancel-did-not-complete-the-trace")
				}
			}
		}
	}
	var wrapper vsx
	switch st, w := verifC16WrapperState(ctx); st {
	case 2:
		wrapper = vL(vI(2), verifC16Delivery(w.trace))
	default:
		wrapper = vL(vInt(st))
	}
	return vL(wrapper, verifC16TracerView(tr, name, true), verifC16Examine(ctx))
}
