//go:build verif

package tracer

// c16.mw: ONE HTTP exchange through the REAL TracingHandler / TracingRoundTripper with a
// scripted handler / transport / body consumer and a Collector that projects (= deep-copies)
// the trace, including the Trailer map of its response, at the moment Complete is called.
// Reported: the collector calls as they were at the call, and the same Trace values projected
// again when the exchange is over (nothing may have changed in between).

import (
	"context"
	"io"
	"net/http"
	"sort"
	"strconv"
	"strings"
	"sync"
	"time"
)

func init() {
	verifKinds["c16.mw"] = verifC16Mw
}

func verifMwKey(k int64) string { return "Tk" + strconv.FormatInt(k, 10) }
func verifMwVal(v int64) string { return "v" + strconv.FormatInt(v, 10) }

func verifMwUnkey(s string, prefix string) int64 {
	if !strings.HasPrefix(s, prefix) {
		return -1
	}
	n, err := strconv.ParseInt(s[len(prefix):], 10, 64)
	if err != nil {
		return -1
	}
	return n
}

func verifProjectTrailers(h http.Header) vsx {
	type kv struct {
		k  int64
		vs []vsx
	}
	var all []kv
	for name, vals := range h {
		e := kv{k: verifMwUnkey(name, "Tk")}
		for _, v := range vals {
			e.vs = append(e.vs, vI(verifMwUnkey(v, "v")))
		}
		all = append(all, e)
	}
	sort.SliceStable(all, func(i, j int) bool { return all[i].k < all[j].k })
	out := make([]vsx, 0, len(all))
	for _, e := range all {
		out = append(out, vL(vI(e.k), vL(e.vs...)))
	}
	return vL(out...)
}

func verifProjectDelivery(t Trace) vsx {
	if t.Response == nil {
		return vL(verifProjectTrace(t), vL(vI(0)))
	}
	return vL(verifProjectTrace(t), vL(vI(1), verifProjectTrailers(t.Response.Trailer)))
}

// verifSnapCollector may be called from the cancel goroutine of the middleware.
type verifSnapCollector struct {
	mu    sync.Mutex
	calls []Trace
	snaps []vsx
	once  sync.Once
	got   chan struct{}
}

func newVerifSnapCollector() *verifSnapCollector {
	return &verifSnapCollector{got: make(chan struct{})}
}

func (c *verifSnapCollector) Complete(t Trace) {
	c.mu.Lock()
	c.calls = append(c.calls, t)
	c.snaps = append(c.snaps, verifProjectDelivery(t))
	c.mu.Unlock()
	c.once.Do(func() { close(c.got) })
}

func (c *verifSnapCollector) waitForCall() bool {
	select {
	case <-c.got:
		return true
	case <-time.After(verifC16Patience):
		return false
	}
}

func (c *verifSnapCollector) result() vsx {
	c.mu.Lock()
	defer c.mu.Unlock()
	now := make([]vsx, 0, len(c.calls))
	for _, t := range c.calls {
		now = append(now, verifProjectDelivery(t))
	}
	return vL(vL(c.snaps...), vL(now...))
}

// a body as its reader sees it: per Read n whole enveloped messages (stream) or n bytes
type verifMwBody struct {
	stream bool
	chunks []int64
	err    int64
	// response bodies only
	ctx      context.Context
	closed   bool
	tset     bool
	resp     *http.Response
	trailers http.Header
}

func verifMwBodyOf(v vsx) *verifMwBody {
	b := &verifMwBody{stream: v.l[0].boolean(), err: v.l[2].i}
	for _, c := range v.l[1].l {
		b.chunks = append(b.chunks, c.i)
	}
	return b
}

func verifMwData(stream bool, n int64) []byte {
	if !stream {
		return []byte(strings.Repeat("x", int(n)))
	}
	var out []byte
	for i := int64(0); i < n; i++ {
		out = append(out, 0, 0, 0, 0, 3, 'a', 'b', 'c')
	}
	return out
}

func (b *verifMwBody) contentType() string {
	if b.stream {
		return "application/connect+proto"
	}
	return "application/proto"
}

func (b *verifMwBody) Read(p []byte) (int, error) {
	if b.ctx != nil {
		if err := b.ctx.Err(); err != nil {
			return 0, err
		}
	}
	if b.closed {
		return 0, verifTag(6)
	}
	if len(b.chunks) > 0 {
		data := verifMwData(b.stream, b.chunks[0])
		if len(data) > len(p) {
			panic("verif: read buffer too small")
		}
		b.chunks = b.chunks[1:]
		return copy(p, data), nil
	}
	if b.err != 0 {
		return 0, verifTag(b.err)
	}
	if b.resp != nil && !b.tset {
		// like net/http: the trailers are in place before io.EOF is reported
		b.tset = true
		b.resp.Trailer = b.trailers
	}
	return 0, io.EOF
}

func (b *verifMwBody) Close() error {
	b.closed = true
	return nil
}

func verifMwReadAll(r io.Reader) {
	buf := make([]byte, 1<<16)
	for {
		if _, err := r.Read(buf); err != nil {
			return
		}
	}
}

type verifMwWriter struct {
	h        http.Header
	failNext bool
}

func (w *verifMwWriter) Header() http.Header { return w.h }
func (w *verifMwWriter) WriteHeader(int)     {}
func (w *verifMwWriter) Write(p []byte) (int, error) {
	if w.failNext {
		w.failNext = false
		return 0, verifTag(5)
	}
	return len(p), nil
}

func verifMwRequest(ctx context.Context, name string, body *verifMwBody) *http.Request {
	req, err := http.NewRequestWithContext(ctx, http.MethodPost, "http://verif.invalid/svc/Method", body)
	if err != nil {
		panic(err)
	}
	if name != "" {
		req.Header.Set(testCaseNameHeader, name)
	}
	req.Header.Set("Content-Type", body.contentType())
	return req
}

// name 0 (request body) stream (handler ops)
// name 1 (request body) treq tfail (response body) (trailers) (consumer ops)
func verifC16Mw(args []vsx) vsx {
	name := args[0].str()
	col := newVerifSnapCollector()
	parent, cancelParent := context.WithCancel(context.Background())
	defer cancelParent()
	if args[1].i == 0 {
		if !verifMwServer(parent, cancelParent, name, col, verifMwBodyOf(args[2]), args[3].boolean(), args[4].l) {
			return vErr("cancel-did-not-complete-the-trace")
		}
	} else {
		rt := TracingRoundTripper(verifMwTransport(args[3].i, args[4].i, verifMwBodyOf(args[5]), args[6]), col)
		if !verifMwClient(rt, parent, cancelParent, name, func() bool { return col.waitForCall() }, verifMwBodyOf(args[2]), args[7].l) {
			return vErr("cancel-did-not-complete-the-trace")
		}
	}
	return col.result()
}

func verifMwServer(parent context.Context, cancelParent func(), name string, col *verifSnapCollector,
	reqBody *verifMwBody, stream bool, ops []vsx) bool {
	ok := true
	fw := &verifMwWriter{h: http.Header{}}
	handler := http.HandlerFunc(func(w http.ResponseWriter, r *http.Request) {
		w.Header().Set("Content-Type", (&verifMwBody{stream: stream}).contentType())
		for _, o := range ops {
			switch o.l[0].i {
			case 0:
				w.Header().Add("Trailer", verifMwKey(o.l[1].i))
			case 1:
				key := verifMwKey(o.l[3].i)
				if o.l[1].boolean() {
					key = http.TrailerPrefix + key
				}
				if o.l[2].boolean() {
					w.Header().Add(key, verifMwVal(o.l[4].i))
				} else {
					w.Header().Set(key, verifMwVal(o.l[4].i))
				}
			case 2:
				w.WriteHeader(http.StatusOK)
			case 3:
				fw.failNext = o.l[2].boolean()
				_, _ = w.Write(verifMwData(stream, o.l[1].i))
			case 4:
				verifMwReadAll(r.Body)
			case 5:
				cancelParent()
				if name != "" && !col.waitForCall() {
					ok = false
				}
			case 6:
				panic("verif: handler panics")
			}
		}
	})
	func() {
		defer func() { _ = recover() }()
		TracingHandler(handler, col).ServeHTTP(fw, verifMwRequest(parent, name, reqBody))
	}()
	return ok
}

// the fake transport: what it does with the request body, then an error or a response
func verifMwTransport(treq, tfail int64, respBody *verifMwBody, trailers vsx) http.RoundTripper {
	return roundTripperFunc(func(req *http.Request) (*http.Response, error) {
		switch treq {
		case 1:
			verifMwReadAll(req.Body)
			_ = req.Body.Close()
		case 2:
			_ = req.Body.Close()
		}
		if tfail != 0 {
			return nil, verifTag(tfail)
		}
		resp := &http.Response{
			Status: "200 OK", StatusCode: http.StatusOK, Proto: "HTTP/1.1", ProtoMajor: 1, ProtoMinor: 1,
			Header: http.Header{"Content-Type": []string{respBody.contentType()}}, Request: req, ContentLength: -1,
		}
		respBody.ctx, respBody.resp, respBody.trailers = req.Context(), resp, http.Header{}
		for _, kv := range trailers.l {
			vals := []string{}
			for _, v := range kv.l[1].l {
				vals = append(vals, verifMwVal(v.i))
			}
			respBody.trailers[verifMwKey(kv.l[0].i)] = vals
		}
		resp.Body = respBody
		return resp, nil
	})
}

func verifMwClient(rt http.RoundTripper, parent context.Context, cancelParent func(), name string, waitForCall func() bool,
	reqBody *verifMwBody, ops []vsx) bool {
	resp, err := rt.RoundTrip(verifMwRequest(parent, name, reqBody))
	if err != nil {
		return true
	}
	buf := make([]byte, 1<<16)
	for _, o := range ops {
		switch o.l[0].i {
		case 0:
			_, _ = resp.Body.Read(buf)
		case 1:
			_ = resp.Body.Close()
		case 2:
			cancelParent()
			if name != "" && !waitForCall() {
				return false
			}
		}
	}
	return true
}
