//go:build verif

package tracer

// c16.mwk: a client exchange through the REAL TracingRoundTripper whose inner transport answers
// with a given KIND of response body value: 0 = a body of its own (as c16.mw), 1 = an empty body
// that is not http.NoBody, 2 = the http.NoBody sentinel.
// c16.mwlive: a LIVE HTTP/1.1 exchange (net/http transport, loopback httptest server) whose
// response has no body (Content-Length: 0, 204, 304, HEAD: net/http hands out http.NoBody) or
// three bytes; the caller reads to EOF and closes; counted: Collector.Complete calls, with a
// bounded wait (a trace that never completes is reported as 0 calls, not waited for).

import (
	"context"
	"io"
	"net/http"
	"net/http/httptest"
	"strings"
	"sync"
	"time"
)

func init() {
	verifKinds["c16.mwk"] = verifC16Mwk
	verifKinds["c16.mwlive"] = verifC16MwLive
}

// name kind (request body) treq tfail (response body) (trailers) (consumer ops)
func verifC16Mwk(args []vsx) vsx {
	kind := args[1].i
	if kind != 1 && kind != 2 {
		return verifC16Mw(append([]vsx{args[0], vI(1)}, args[2:]...))
	}
	name := args[0].str()
	col := newVerifSnapCollector()
	parent, cancelParent := context.WithCancel(context.Background())
	defer cancelParent()
	// an empty body; no trailers (nothing could put them in place behind http.NoBody)
	empty := &verifMwBody{stream: verifMwBodyOf(args[5]).stream}
	inner := verifMwTransport(args[3].i, args[4].i, empty, vL())
	transport := inner
	if kind == 2 {
		transport = roundTripperFunc(func(req *http.Request) (*http.Response, error) {
			resp, err := inner.RoundTrip(req)
			if err == nil {
				resp.Body = http.NoBody
				resp.ContentLength = 0
			}
			return resp, err
		})
	}
	rt := TracingRoundTripper(transport, col)
	if !verifMwClient(rt, parent, cancelParent, name, func() bool { return col.waitForCall() }, verifMwBodyOf(args[2]), args[7].l) {
		return vErr("cancel-did-not-complete-the-trace")
	}
	return col.result()
}

type verifCountCollector struct {
	mu    sync.Mutex
	calls []Trace
	got   chan struct{}
	once  sync.Once
}

func (c *verifCountCollector) Complete(t Trace) {
	c.mu.Lock()
	c.calls = append(c.calls, t)
	c.mu.Unlock()
	c.once.Do(func() { close(c.got) })
}

// how long a completion may take before it is reported as missing (it is synchronous with the
// Read that reports io.EOF, so this only matters when it never comes)
const verifC16LiveWait = 1500 * time.Millisecond

// name variant -> (calls err last-event-is-a-clean-ResponseBodyEnd) or (calls)
func verifC16MwLive(args []vsx) vsx {
	name := args[0].str()
	variant := args[1].i
	server := httptest.NewServer(http.HandlerFunc(func(w http.ResponseWriter, r *http.Request) {
		_, _ = io.Copy(io.Discard, r.Body)
		w.Header().Set("Content-Type", "application/proto")
		switch r.URL.Path {
		case "/cl0":
			w.Header().Set("Content-Length", "0")
			w.WriteHeader(http.StatusOK)
		case "/204":
			w.WriteHeader(http.StatusNoContent)
		case "/304":
			w.WriteHeader(http.StatusNotModified)
		default:
			_, _ = w.Write([]byte("abc"))
		}
	}))
	defer server.Close()
	col := &verifCountCollector{got: make(chan struct{})}
	transport := &http.Transport{DisableCompression: true}
	defer transport.CloseIdleConnections()
	client := &http.Client{Transport: TracingRoundTripper(transport, col)}
	// the caller's context outlives the call
	callerCtx, callerCancel := context.WithCancel(context.Background())
	defer callerCancel()
	method, path := http.MethodPost, "/data"
	var body io.Reader = strings.NewReader("request")
	switch variant {
	case 0:
		path = "/cl0"
	case 1:
		path = "/204"
	case 2:
		path = "/304"
	case 3:
		method, body = http.MethodHead, nil
	case 4:
	default:
		return vErr("bad-case")
	}
	req, err := http.NewRequestWithContext(callerCtx, method, server.URL+path, body)
	if err != nil {
		return vErr("harness")
	}
	req.Header.Set("Content-Type", "application/proto")
	if name != "" {
		req.Header.Set(testCaseNameHeader, name)
	}
	resp, err := client.Do(req)
	if err != nil {
		return vErr("round-trip-failed")
	}
	_, _ = io.Copy(io.Discard, resp.Body)
	_ = resp.Body.Close()
	if name != "" {
		select {
		case <-col.got:
		case <-time.After(verifC16LiveWait):
			return vL(vI(0)) // the exchange is over and its trace never came
		}
	}
	// whatever happens later, the operation stays completed exactly once
	callerCancel()
	time.Sleep(20 * time.Millisecond)
	col.mu.Lock()
	defer col.mu.Unlock()
	if len(col.calls) != 1 {
		return vL(vInt(len(col.calls)))
	}
	t := col.calls[0]
	clean := false
	if len(t.Events) > 0 {
		if end, ok := t.Events[len(t.Events)-1].(*ResponseBodyEnd); ok && end.Err == nil {
			clean = true
		}
	}
	return vL(vI(1), vI(verifErrTag(t.Err)), vBool(clean))
}
