//go:build verif

package tracer

// Free-running kinds of C16: goroutines really race on a builder / a Tracer; the harness
// does not force the schedule, it RECORDS what came out and the proved model decides
// whether some interleaving of the goroutines' critical sections gives exactly that
// (C16_Conc.v: ballowed / tallowed; C16_Props.v: builder_allowed_iff, tracer_allowed_iff).
// Every legal schedule is accepted, so the unchanged code can never be reported.
//
// Two ways of starting the goroutines:
//   barrier   all are released together and run as the scheduler pleases;
//   hand-off  the harness holds the mutex under test until every goroutine is queued on
//             it in a chosen order and has waited for more than a millisecond, then lets
//             go: sync.Mutex (starvation mode) now passes the lock from one queued
//             goroutine DIRECTLY to the next, so each critical section starts the moment
//             the previous one ends.  That is still just one of the schedules the Go
//             memory model allows, but it is the one in which "something done after
//             Unlock" is overtaken by the next goroutine.
//
// Also here: c16.bfine, the scripted two-step builder (a collector that holds the caller
// inside Collector.Complete, so other adds run between a critical section and the end of
// its deferred call).

import (
	"context"
	"errors"
	"fmt"
	"math/rand"
	"net/http"
	"os"
	"runtime"
	"sort"
	"strconv"
	"strings"
	"sync"
	"sync/atomic"
	"testing"
	"time"
	"unsafe"
)

func init() {
	verifKinds["c16.ballowed"] = verifC16BAllowed
	verifKinds["c16.tallowed"] = verifC16TAllowed
	verifKinds["c16.bfine"] = verifC16BFine
}

// ---------------------------------------------------------------------------
// mutex hand-off
// ---------------------------------------------------------------------------

// sync.Mutex keeps its state word first (locked = 1, woken = 2, starving = 4, waiter count
// from bit 3).  The word is only LOOKED at, to know when a goroutine is queued; if the
// layout were different the polls below would merely time out and the goroutines would
// start less orderly (every outcome is judged by the model anyway).
func verifMuState(mu *sync.Mutex) int32 {
	return atomic.LoadInt32((*int32)(unsafe.Pointer(mu)))
}

func verifPoll(limit time.Duration, cond func() bool) bool {
	deadline := time.Now().Add(limit)
	for i := 0; !cond(); i++ {
		if time.Now().After(deadline) {
			return false
		}
		if i < 200 {
			runtime.Gosched()
		} else {
			time.Sleep(20 * time.Microsecond)
		}
	}
	return true
}

// verifHandOff: mu is held by the caller; starts[i] releases the i-th goroutine, whose next
// step is mu.Lock().  Returns after having let go of mu.
func verifHandOff(mu *sync.Mutex, starts []chan struct{}) {
	for i, st := range starts {
		close(st)
		want := int32(i + 1)
		verifPoll(30*time.Millisecond, func() bool { return verifMuState(mu)>>3 >= want })
	}
	time.Sleep(1100 * time.Microsecond) // past sync.Mutex's starvation threshold (1 ms)
	mu.Unlock()
	mu.Lock() // the goroutine just woken finds the lock taken again and switches the mutex to starvation mode
	verifPoll(2*time.Millisecond, func() bool { return verifMuState(mu)&4 != 0 })
	mu.Unlock()
}

// ---------------------------------------------------------------------------
// builder
// ---------------------------------------------------------------------------
func verifDoBact(b *builder, a vsx) {
	switch a.l[0].i {
	case 0:
		b.add(&RequestBodyData{Len: 3})
	case 1:
		b.add(&RequestBodyEnd{Err: verifTag(a.l[1].i)})
	case 2:
		b.add(&ResponseStart{Response: &http.Response{Proto: "HTTP/1.1", ProtoMajor: 1, ProtoMinor: 1, StatusCode: 200, Status: "200 OK"}})
	case 3:
		b.add(&ResponseError{Err: verifTag(a.l[1].i)})
	case 4:
		b.add(&ResponseBodyData{Len: 3})
	case 5:
		b.add(&ResponseBodyEndStream{Content: "{}"})
	case 6:
		b.add(&ResponseBodyEnd{Err: verifTag(a.l[1].i)})
	case 7:
		b.add(&RequestCanceled{})
	case 8:
		b.build()
	}
}

// one free-running round: name client mode (pre) ((script)...) (tail) -> observed collector calls
func verifBuilderRound(name string, client bool, mode, pre, scripts, tail vsx) (vsx, string) {
	req, err := http.NewRequest(http.MethodPost, "http://verif.invalid/svc/Method", http.NoBody)
	if err != nil {
		panic(err)
	}
	if name != "" {
		req.Header.Set(testCaseNameHeader, name)
	}
	col := &verifRecCollector{}
	b, _ := newBuilder(req, client, col)
	for _, a := range pre.l {
		verifDoBact(b, a)
	}
	n := len(scripts.l)
	starts := make([]chan struct{}, n)
	var wg sync.WaitGroup
	for g := 0; g < n; g++ {
		starts[g] = make(chan struct{})
		wg.Add(1)
		go func(g int) {
			defer wg.Done()
			<-starts[g]
			for _, a := range scripts.l[g].l {
				verifDoBact(b, a)
			}
		}(g)
	}
	if len(mode.l) == n && n > 0 {
		order := make([]chan struct{}, n)
		for i, m := range mode.l {
			order[i] = starts[m.i]
		}
		b.mu.Lock()
		verifHandOff(&b.mu, order)
	} else {
		for g := 0; g < n; g++ {
			close(starts[g])
		}
	}
	wg.Wait()
	for _, a := range tail.l {
		verifDoBact(b, a)
	}
	col.mu.Lock()
	defer col.mu.Unlock()
	problem := ""
	for i, t := range col.calls {
		if verifSxString(verifProjectTrace(t)) != verifSxString(col.snaps[i]) {
			problem = "a delivered trace changed after delivery"
		}
	}
	return vL(col.snaps...), problem
}

var (
	verifBPlain  = []vsx{vL(vI(0)), vL(vI(1), vI(0)), vL(vI(2)), vL(vI(4)), vL(vI(5))}
	verifBFinish = []vsx{vL(vI(6), vI(0)), vL(vI(6), vI(2)), vL(vI(7)), vL(vI(3), vI(3)), vL(vI(1), vI(1))}
	verifBBuild  = vL(vI(8))
)

func verifRandBact(rng *rand.Rand) vsx {
	switch k := rng.Intn(10); {
	case k < 5:
		return verifBPlain[rng.Intn(len(verifBPlain))]
	case k < 9:
		return verifBFinish[rng.Intn(len(verifBFinish))]
	default:
		return verifBBuild
	}
}

func verifRandScript(rng *rand.Rand, maxLen int) vsx {
	var s []vsx
	if rng.Intn(2) == 0 { // the goroutines of middleware.go
		switch rng.Intn(5) {
		case 0: // response body reader reaching the end
			for i := rng.Intn(maxLen); i > 0; i-- {
				s = append(s, vL(vI(4)))
			}
			s = append(s, vL(vI(6), vI(int64(2*rng.Intn(2)))))
		case 1: // the cancel goroutine
			s = append(s, vL(vI(7)))
		case 2: // request body writer
			for i := rng.Intn(maxLen); i > 0; i-- {
				s = append(s, vL(vI(0)))
			}
			s = append(s, vL(vI(1), vI(int64(rng.Intn(2)))))
		case 3: // handler returning
			s = append(s, verifBBuild)
		default: // transport error
			s = append(s, vL(vI(3), vI(3)))
		}
	} else {
		for i := 1 + rng.Intn(maxLen); i > 0; i-- {
			s = append(s, verifRandBact(rng))
		}
	}
	if len(s) > maxLen {
		s = s[len(s)-maxLen:]
	}
	return vL(s...)
}

// number of interleavings of scripts of the given lengths (capped)
func verifMerges(lens []int) int {
	total, res := 0, 1
	for _, l := range lens {
		for i := 1; i <= l; i++ {
			total++
			res = res * total / i
			if res > 1<<20 {
				return res
			}
		}
	}
	return res
}

const verifMaxMerges = 2000

func verifRandPerm(rng *rand.Rand, n int) vsx {
	var out []vsx
	for _, p := range rng.Perm(n) {
		out = append(out, vInt(p))
	}
	return vL(out...)
}

// name client mode pre scripts tail
func verifRandBuilderCfg(rng *rand.Rand, handOff bool) []vsx {
	name := "T/x"
	if rng.Intn(12) == 0 {
		name = ""
	}
	var scripts []vsx
	for {
		n, maxLen := 2+rng.Intn(2), 3
		if rng.Intn(8) == 0 {
			n, maxLen = 4, 2
		}
		scripts = scripts[:0]
		var lens []int
		for g := 0; g < n; g++ {
			s := verifRandScript(rng, maxLen)
			scripts = append(scripts, s)
			lens = append(lens, len(s.l))
		}
		if verifMerges(lens) <= verifMaxMerges {
			break
		}
	}
	pres := [][]vsx{{}, {vL(vI(1), vI(0))}, {vL(vI(2))}, {vL(vI(1), vI(0)), vL(vI(2))}, {vL(vI(0)), vL(vI(1), vI(0)), vL(vI(2)), vL(vI(4))}}
	tails := [][]vsx{{}, {verifBBuild}, {vL(vI(7))}, {vL(vI(4)), verifBBuild}, {vL(vI(6), vI(0))}, {verifBBuild, vL(vI(0))}}
	mode := vL()
	if handOff {
		mode = verifRandPerm(rng, len(scripts))
	}
	return []vsx{vS(name), vBool(rng.Intn(2) == 0), mode, vL(pres[rng.Intn(len(pres))]...), vL(scripts...), vL(tails[rng.Intn(len(tails))]...)}
}

// replay of a recorded observation: name client mode pre scripts tail obs -> 1 if the code
// produces exactly this observation again within a few hundred rounds (the model answers 1
// if some interleaving produces it: 1 against 0 is the violation)
func verifC16BAllowed(args []vsx) vsx {
	want := verifSxString(args[6])
	for i := 0; i < 400; i++ {
		obs, _ := verifBuilderRound(args[0].str(), args[1].boolean(), args[2], args[3], args[4], args[5])
		if verifSxString(obs) == want {
			return vI(1)
		}
	}
	return vI(0)
}

// ---------------------------------------------------------------------------
// Tracer
// ---------------------------------------------------------------------------
func verifGoid() int64 {
	var buf [64]byte
	n := runtime.Stack(buf[:], false)
	s := strings.TrimPrefix(string(buf[:n]), "goroutine ")
	if i := strings.IndexByte(s, ' '); i > 0 {
		if id, err := strconv.ParseInt(s[:i], 10, 64); err == nil {
			return id
		}
	}
	return -1
}

// state of every goroutine, from the runtime's own dump ("goroutine 12 [select]:")
func verifGoStates() map[int64]string {
	buf := make([]byte, 1<<16)
	for {
		n := runtime.Stack(buf, true)
		if n < len(buf) {
			buf = buf[:n]
			break
		}
		buf = make([]byte, 2*len(buf))
	}
	out := map[int64]string{}
	for _, line := range strings.Split(string(buf), "\n") {
		if !strings.HasPrefix(line, "goroutine ") || !strings.HasSuffix(line, "]:") {
			continue
		}
		rest := line[len("goroutine "):]
		sp, br := strings.IndexByte(rest, ' '), strings.IndexByte(rest, '[')
		if sp < 0 || br < 0 {
			continue
		}
		if id, err := strconv.ParseInt(rest[:sp], 10, 64); err == nil {
			out[id] = rest[br+1 : len(rest)-2]
		}
	}
	return out
}

type verifFreeWaiter struct {
	id       int64
	goid     atomic.Int64
	returned atomic.Bool
	done     chan struct{}
	ctx      context.Context
	cancel   context.CancelFunc
	res      verifAwaitRes // written by the waiter before returned / done, read by the harness after
}

var errVerifNotQuiescent = errors.New("verif: waiters neither returned nor parked")

// one free-running round: mode (pre) ((script)...) (waiter ids) (names) -> ((waiter results) (name views)).
// A script is a list of Init / Complete / Clear, optionally ending with ONE Await (2 w n).
// When every goroutine without an Await has returned and every waiter has either returned
// or is parked in its select (asked of the runtime: a goroutine whose done channel was
// closed is runnable, not parked), the contexts of the parked waiters are ended — never
// while a wake-up is under way, so the two select branches are never ready together.
func verifTracerRound(mode, pre, scripts, ws, names vsx) (vsx, string, error) {
	tr := &Tracer{}
	act := func(a vsx) {
		switch a.l[0].i {
		case 0:
			tr.Init(a.l[1].str())
		case 1:
			tr.Complete(Trace{TestName: a.l[1].str(), Err: verifTraceID{a.l[2].i}})
		case 3:
			tr.Clear(a.l[1].str())
		}
	}
	for _, a := range pre.l {
		act(a)
	}
	n := len(scripts.l)
	starts := make([]chan struct{}, n)
	waiters := map[int64]*verifFreeWaiter{}
	var wlist []*verifFreeWaiter
	var wg sync.WaitGroup
	var ready sync.WaitGroup
	for g := 0; g < n; g++ {
		starts[g] = make(chan struct{})
		script := scripts.l[g].l
		var w *verifFreeWaiter
		if len(script) > 0 && script[len(script)-1].l[0].i == 2 {
			w = &verifFreeWaiter{id: script[len(script)-1].l[1].i, done: make(chan struct{})}
			w.ctx, w.cancel = context.WithCancel(context.Background())
			waiters[w.id] = w
			wlist = append(wlist, w)
		} else {
			wg.Add(1)
		}
		ready.Add(1)
		go func(g int) {
			if w == nil {
				defer wg.Done()
			} else {
				w.goid.Store(verifGoid())
			}
			ready.Done()
			<-starts[g]
			for _, a := range script {
				if a.l[0].i != 2 {
					act(a)
					continue
				}
				name := a.l[2].str()
				t, err := tr.Await(w.ctx, name)
				r := verifAwaitRes{name: name, err: err}
				if t != nil {
					r.trace, r.ok = *t, true
				}
				w.res = r
				w.returned.Store(true)
				close(w.done)
				return
			}
		}(g)
	}
	ready.Wait()
	if len(mode.l) == n && n > 0 {
		order := make([]chan struct{}, n)
		for i, m := range mode.l {
			order[i] = starts[m.i]
		}
		tr.mu.Lock()
		verifHandOff(&tr.mu, order)
	} else {
		for g := 0; g < n; g++ {
			close(starts[g])
		}
	}
	wg.Wait()
	// quiescence
	deadline := time.Now().Add(30 * time.Second)
	for pause := 20 * time.Microsecond; ; {
		var pending []*verifFreeWaiter
		for _, w := range wlist {
			if !w.returned.Load() {
				pending = append(pending, w)
			}
		}
		if len(pending) == 0 {
			break
		}
		states := verifGoStates()
		parked := true
		for _, w := range pending {
			if !strings.HasPrefix(states[w.goid.Load()], "select") {
				parked = false
			}
		}
		if parked {
			break
		}
		if time.Now().After(deadline) {
			for _, w := range wlist {
				w.cancel()
			}
			return vsx{}, "", errVerifNotQuiescent
		}
		time.Sleep(pause)
		if pause < 2*time.Millisecond {
			pause *= 2
		}
	}
	problem := ""
	for _, w := range wlist {
		if w.returned.Load() {
			continue
		}
		w.cancel()
		select {
		case <-w.done:
		case <-time.After(20 * time.Second):
			problem = "a wait outlived its context"
		}
	}
	var wres, views []vsx
	for _, idv := range ws.l {
		w := waiters[idv.i]
		switch {
		case w == nil:
			wres = append(wres, vL(vI(0)))
		case !w.returned.Load():
			wres = append(wres, vL(vI(1)))
		default:
			w.cancel()
			wres = append(wres, verifAwaitCode(w.res))
		}
	}
	dead, cancel := context.WithCancel(context.Background())
	cancel()
	for _, nm := range names.l {
		t, err := tr.Await(dead, nm.str())
		r := verifAwaitRes{name: nm.str(), err: err}
		if t != nil {
			r.trace, r.ok = *t, true
		}
		views = append(views, verifAwaitCode(r))
	}
	return vL(vL(wres...), vL(views...)), problem, nil
}

// mode pre scripts tail ws names  (tail = the contexts of all waiters ending, for the model)
func verifRandTracerCfg(rng *rand.Rand, handOff bool, nextID *int64) []vsx {
	names := []string{"a", "b"}
	pick := func() string {
		if rng.Intn(5) == 0 {
			return names[1]
		}
		return names[0]
	}
	mut := func() vsx {
		switch k := rng.Intn(10); {
		case k < 6:
			*nextID++
			return vL(vI(1), vS(pick()), vI(*nextID))
		case k < 8:
			return vL(vI(0), vS(pick()))
		default:
			return vL(vI(3), vS(pick()))
		}
	}
	var pre []vsx
	switch rng.Intn(8) {
	case 0: // never initialised
	case 1:
		pre = []vsx{vL(vI(0), vS("a")), vL(vI(3), vS("a"))}
	case 2:
		*nextID++
		pre = []vsx{vL(vI(0), vS("a")), vL(vI(1), vS("a"), vI(*nextID))}
	case 3:
		pre = []vsx{vL(vI(0), vS("a")), vL(vI(0), vS("b"))}
	default:
		pre = []vsx{vL(vI(0), vS("a"))}
	}
	var scripts, ws, tail []vsx
	for {
		scripts, ws, tail = scripts[:0], ws[:0], tail[:0]
		var lens []int
		nw, nm := 1+rng.Intn(3), 1+rng.Intn(3)
		for w := 0; w < nw; w++ {
			var s []vsx
			if rng.Intn(6) == 0 {
				s = append(s, mut())
			}
			s = append(s, vL(vI(2), vInt(w), vS(pick())))
			scripts = append(scripts, vL(s...))
			lens = append(lens, len(s))
			ws = append(ws, vInt(w))
			tail = append(tail, vL(vI(4), vInt(w)))
		}
		for m := 0; m < nm; m++ {
			var s []vsx
			for i := 1 + rng.Intn(2); i > 0; i-- {
				s = append(s, mut())
			}
			scripts = append(scripts, vL(s...))
			lens = append(lens, len(s))
		}
		if verifMerges(lens) <= verifMaxMerges {
			break
		}
	}
	rng.Shuffle(len(scripts), func(i, j int) { scripts[i], scripts[j] = scripts[j], scripts[i] })
	mode := vL()
	if handOff {
		mode = verifRandPerm(rng, len(scripts))
	}
	return []vsx{mode, vL(pre...), vL(scripts...), vL(tail...), vL(ws...), vStrs(names)}
}

// replay: mode pre scripts tail ws names obs -> 1 if the code shows this observation again
func verifC16TAllowed(args []vsx) vsx {
	want := verifSxString(args[6])
	for i := 0; i < 400; i++ {
		obs, _, err := verifTracerRound(args[0], args[1], args[2], args[4], args[5])
		if err != nil {
			return vErr("not-quiescent")
		}
		if verifSxString(obs) == want {
			return vI(1)
		}
	}
	return vI(0)
}

// ---------------------------------------------------------------------------
// TestVerifC16Free: the free-running rounds.  Writes one model case per DISTINCT
// (configuration, observation) to $VERIF_OUT, harness-level findings to $VERIF_OUT.problems
// and counters to $VERIF_OUT.stats.
// ---------------------------------------------------------------------------
func verifEnvInt(name string, def int) int {
	if v, err := strconv.Atoi(os.Getenv(name)); err == nil {
		return v
	}
	return def
}

func TestVerifC16Free(t *testing.T) {
	out := os.Getenv("VERIF_OUT")
	if out == "" {
		t.Skip("VERIF_OUT not set")
	}
	seed, _ := strconv.ParseInt(os.Getenv("VERIF_SEED"), 10, 64)
	bRounds, tRounds := verifEnvInt("VERIF_C16_BROUNDS", 2000), verifEnvInt("VERIF_C16_TROUNDS", 2000)
	handOffPct := verifEnvInt("VERIF_C16_HANDOFF_PCT", 50)
	budget := time.Duration(verifEnvInt("VERIF_C16_BUDGET_MS", 6000)) * time.Millisecond // per half
	workers := verifEnvInt("VERIF_C16_WORKERS", 4)

	var mu sync.Mutex
	seen := map[string]bool{}
	var lines, problems []string
	record := func(kind string, cfg []vsx, obs vsx, problem string) {
		body := verifSxString(vL(append(append([]vsx{}, cfg...), obs)...))
		body = body[1 : len(body)-1]
		mu.Lock()
		defer mu.Unlock()
		if problem != "" {
			problems = append(problems, fmt.Sprintf("%s: %s: %s", kind, problem, body))
		}
		if !seen[kind+body] {
			seen[kind+body] = true
			lines = append(lines, fmt.Sprintf("(\"%s\" %d %s)", kind, len(lines), body))
		}
	}

	// builder: independent builders, several rounds at a time (the hand-off rounds mostly sleep)
	var bDone, bHand atomic.Int64
	var wg sync.WaitGroup
	start := time.Now()
	for wk := 0; wk < workers; wk++ {
		wg.Add(1)
		go func(wk int) {
			defer wg.Done()
			rng := rand.New(rand.NewSource(seed*7919 + int64(wk)*104729 + 1))
			for i := wk; i < bRounds && time.Since(start) < budget; i += workers {
				hand := rng.Intn(100) < handOffPct
				cfg := verifRandBuilderCfg(rng, hand)
				obs, problem := verifBuilderRound(cfg[0].str(), cfg[1].boolean(), cfg[2], cfg[3], cfg[4], cfg[5])
				record("c16.ballowed", cfg, obs, problem)
				bDone.Add(1)
				if hand {
					bHand.Add(1)
				}
			}
		}(wk)
	}
	wg.Wait()

	// Tracer: one round at a time (the quiescence test looks at all goroutines)
	tDone, tHand := 0, 0
	rng := rand.New(rand.NewSource(seed*7919 + 17))
	var nextID int64
	start = time.Now()
	var fatal error
	for i := 0; i < tRounds && time.Since(start) < budget; i++ {
		hand := rng.Intn(100) < handOffPct
		cfg := verifRandTracerCfg(rng, hand, &nextID)
		obs, problem, err := verifTracerRound(cfg[0], cfg[1], cfg[2], cfg[4], cfg[5])
		if err != nil {
			fatal = err
			break
		}
		record("c16.tallowed", cfg, obs, problem)
		tDone++
		if hand {
			tHand++
		}
	}
	if fatal != nil {
		t.Fatal(fatal)
	}
	sort.Strings(problems)
	if err := os.WriteFile(out+".problems", []byte(strings.Join(problems, "\n")), 0o644); err != nil {
		t.Fatal(err)
	}
	stats := fmt.Sprintf("builder_rounds=%d builder_handoff=%d tracer_rounds=%d tracer_handoff=%d distinct=%d",
		bDone.Load(), bHand.Load(), tDone, tHand, len(lines))
	if err := os.WriteFile(out+".stats", []byte(stats), 0o644); err != nil {
		t.Fatal(err)
	}
	if err := os.WriteFile(out, []byte(strings.Join(lines, "\n")+"\n"), 0o644); err != nil {
		t.Fatal(err)
	}
}

// ---------------------------------------------------------------------------
// c16.bfine: scripted two-step builder.  Every add / build runs in a goroutine of its own;
// the collector holds its caller until the script says (9 k): "the goroutine of action k
// finishes its deferred call".  name client (actions) -> ((calls that returned) (held actions))
// ---------------------------------------------------------------------------
type verifGateCollector struct {
	mu      sync.Mutex
	cur     int64
	entered chan int64
	gates   map[int64]chan struct{}
	calls   []vsx
}

func (c *verifGateCollector) Complete(t Trace) {
	c.mu.Lock()
	k := c.cur
	gate := make(chan struct{})
	c.gates[k] = gate
	c.mu.Unlock()
	c.entered <- k
	<-gate
	c.mu.Lock()
	c.calls = append(c.calls, verifProjectTrace(t)) // projected on return: later adds must not have touched it
	c.mu.Unlock()
}

func verifC16BFine(args []vsx) vsx {
	name, client := args[0].str(), args[1].boolean()
	req, err := http.NewRequest(http.MethodPost, "http://verif.invalid/svc/Method", http.NoBody)
	if err != nil {
		panic(err)
	}
	if name != "" {
		req.Header.Set(testCaseNameHeader, name)
	}
	col := &verifGateCollector{entered: make(chan int64, 1), gates: map[int64]chan struct{}{}}
	b, _ := newBuilder(req, client, col)
	done := map[int64]chan struct{}{}
	release := func(k int64) bool {
		col.mu.Lock()
		gate := col.gates[k]
		delete(col.gates, k)
		col.mu.Unlock()
		if gate == nil {
			return true
		}
		close(gate)
		select {
		case <-done[k]:
			return true
		case <-time.After(verifC16Patience):
			return false
		}
	}
	defer func() {
		col.mu.Lock()
		var held []int64
		for k := range col.gates {
			held = append(held, k)
		}
		col.mu.Unlock()
		for _, k := range held {
			release(k)
		}
	}()
	for i, a := range args[2].l {
		k := int64(i)
		if a.l[0].i == 9 {
			if !release(a.l[1].i) {
				return vErr("released-collector-call-did-not-return")
			}
			continue
		}
		col.mu.Lock()
		col.cur = k
		col.mu.Unlock()
		d := make(chan struct{})
		done[k] = d
		go func() {
			defer close(d)
			verifDoBact(b, a)
		}()
		select {
		case <-d:
		case <-col.entered:
		case <-time.After(verifC16Patience):
			return vErr("action-neither-returned-nor-reached-the-collector")
		}
	}
	col.mu.Lock()
	calls := append([]vsx{}, col.calls...)
	var held []int64
	for k := range col.gates {
		held = append(held, k)
	}
	col.mu.Unlock()
	sort.Slice(held, func(i, j int) bool { return held[i] < held[j] })
	hv := make([]vsx, len(held))
	for i, k := range held {
		hv[i] = vI(k)
	}
	return vL(vL(calls...), vL(hv...))
}
