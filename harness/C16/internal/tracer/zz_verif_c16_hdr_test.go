//go:build verif

package tracer

// c16.hdr: the request headers of a CLIENT-side trace.  One round trip through the REAL
// TracingRoundTripper; the inner transport is a scripted fake that obtains the httptrace hooks
// from the request context (as net/http does) and reports header fields through
// WroteHeaderField from ITS goroutine, some before and some AFTER the cancellation that
// completes the trace.  The collector takes the request headers of the delivered trace
// (RequestStart.getHeaders) at Collector.Complete; later reads take them again; every value
// taken is kept and projected twice: when taken and after the whole script.
// Script: (0 k v) the transport reports field k (0 = a pseudo-header) with value v,
// (1) the caller cancels (the harness waits for Collector.Complete), (2) a consumer reads the
// headers of the delivered trace.  The harness cancels at the end of every script.
// TestVerifC16HdrRace: the same shape free-running, for the race detector (a consumer prints
// the delivered trace while the transport goroutine goes on reporting fields).

import (
	"context"
	"errors"
	"fmt"
	"net/http"
	"net/http/httptrace"
	"os"
	"sort"
	"strconv"
	"strings"
	"sync"
	"testing"
	"time"

	"connectrpc.com/conformance/internal"
)

func init() {
	verifKinds["c16.hdr"] = verifC16Hdr
}

func verifHdrKey(k int64) string {
	if k == 0 {
		return ":path"
	}
	return "x-k" + strconv.FormatInt(k, 10)
}

// sorted ((k v) ...); a key / value this harness did not write is -1
func verifProjectHdr(h http.Header) vsx {
	type kv struct{ k, v int64 }
	var kvs []kv
	for key, vals := range h {
		k, v := int64(-1), int64(-1)
		if strings.HasPrefix(key, "X-K") {
			if n, err := strconv.ParseInt(key[3:], 10, 64); err == nil {
				k = n
			}
		}
		if len(vals) == 1 && strings.HasPrefix(vals[0], "v") {
			if n, err := strconv.ParseInt(vals[0][1:], 10, 64); err == nil {
				v = n
			}
		}
		kvs = append(kvs, kv{k, v})
	}
	sort.Slice(kvs, func(i, j int) bool { return kvs[i].k < kvs[j].k })
	out := make([]vsx, 0, len(kvs))
	for _, e := range kvs {
		out = append(out, vL(vI(e.k), vI(e.v)))
	}
	return vL(out...)
}

type verifHdrTaken struct {
	h    http.Header // the very value getHeaders handed out
	then vsx         // its projection at that moment
}

// verifHdrCollector is called from the cancel goroutine of the middleware.
type verifHdrCollector struct {
	mu    sync.Mutex
	calls int
	start *RequestStart
	taken []verifHdrTaken
	once  sync.Once
	got   chan struct{}
}

func (c *verifHdrCollector) take(rs *RequestStart) {
	h := rs.getHeaders()
	c.taken = append(c.taken, verifHdrTaken{h: h, then: verifProjectHdr(h)})
}

func (c *verifHdrCollector) Complete(t Trace) {
	c.mu.Lock()
	c.calls++
	if len(t.Events) > 0 {
		if rs, ok := t.Events[0].(*RequestStart); ok && c.start == nil {
			c.start = rs
			c.take(rs)
		}
	}
	c.mu.Unlock()
	c.once.Do(func() { close(c.got) })
}

type verifHdrField struct {
	key string
	val []string
}

// a transport that reports the header fields it is told to, from the goroutine RoundTrip runs on
type verifHdrTransport struct {
	entered chan struct{}
	cmds    chan verifHdrField
	ack     chan struct{}
	release chan struct{}
}

func newVerifHdrTransport() *verifHdrTransport {
	return &verifHdrTransport{entered: make(chan struct{}), cmds: make(chan verifHdrField), ack: make(chan struct{}),
		release: make(chan struct{})}
}

func (tr *verifHdrTransport) RoundTrip(req *http.Request) (*http.Response, error) {
	ct := httptrace.ContextClientTrace(req.Context())
	close(tr.entered)
	for {
		select {
		case f := <-tr.cmds:
			if ct != nil && ct.WroteHeaderField != nil {
				ct.WroteHeaderField(f.key, f.val)
			}
			tr.ack <- struct{}{}
		case <-tr.release:
			return nil, errors.New("verif: connection gone")
		}
	}
}

// (script) -> ((contents when taken, contents of the same value at the end) ...)
func verifC16Hdr(args []vsx) vsx {
	if len(args) != 1 {
		return vErr("bad-case")
	}
	for _, a := range args[0].l {
		ok := len(a.l) >= 1 && ((a.l[0].i == 0 && len(a.l) == 3 && a.l[1].i >= 0 && a.l[2].i >= 0) ||
			((a.l[0].i == 1 || a.l[0].i == 2) && len(a.l) == 1))
		if !ok {
			return vErr("bad-case")
		}
	}
	col := &verifHdrCollector{got: make(chan struct{})}
	tr := newVerifHdrTransport()
	rt := TracingRoundTripper(tr, col)
	ctx, cancel := context.WithCancel(context.Background())
	defer cancel()
	req, err := http.NewRequestWithContext(ctx, http.MethodPost, "http://verif.invalid/svc/Method", nil)
	if err != nil {
		return vErr("harness")
	}
	req.Header.Set(testCaseNameHeader, "T/hdr")
	returned := make(chan struct{})
	go func() {
		defer close(returned)
		_, _ = rt.RoundTrip(req) //nolint:bodyclose
	}()
	released := false
	finish := func() {
		if !released {
			released = true
			close(tr.release)
			<-returned
		}
	}
	defer finish()
	select {
	case <-tr.entered:
	case <-time.After(verifC16Patience):
		return vErr("transport-not-reached")
	}
	cancelled := false
	doCancel := func() bool {
		if cancelled {
			return true
		}
		cancelled = true
		cancel()
		select {
		case <-col.got:
			return true
		case <-time.After(verifC16Patience):
			return false
		}
	}
	for _, a := range args[0].l {
		switch a.l[0].i {
		case 0:
			tr.cmds <- verifHdrField{key: verifHdrKey(a.l[1].i), val: []string{"v" + strconv.FormatInt(a.l[2].i, 10)}}
			<-tr.ack
		case 1:
			if !doCancel() {
				return vErr("cancel-did-not-complete-the-trace")
			}
		case 2:
			col.mu.Lock()
			if col.start != nil {
				col.take(col.start)
			}
			col.mu.Unlock()
		}
	}
	if !doCancel() {
		return vErr("cancel-did-not-complete-the-trace")
	}
	finish()
	col.mu.Lock()
	defer col.mu.Unlock()
	if col.calls != 1 {
		return vL(vS("calls"), vInt(col.calls))
	}
	out := make([]vsx, 0, len(col.taken))
	for _, t := range col.taken {
		out = append(out, vL(t.then, verifProjectHdr(t.h)))
	}
	return vL(out...)
}

// TestVerifC16HdrRace: a client round trip is cancelled while the transport goroutine is still
// reporting header fields; the consumer prints the delivered trace (Trace.Print iterates the
// request headers) while the transport goes on.  Any report of the race detector = VIOLATION
// (python side); here only: the value taken at completion must not change.
func TestVerifC16HdrRace(t *testing.T) {
	out := os.Getenv("VERIF_OUT")
	if out == "" {
		t.Skip("VERIF_OUT not set")
	}
	rounds, _ := strconv.Atoi(os.Getenv("VERIF_C16_OPS"))
	if rounds == 0 {
		rounds = 100
	}
	bad, hung := 0, 0
	for i := 0; i < rounds; i++ {
		col := &verifHdrCollector{got: make(chan struct{})}
		stop := make(chan struct{})
		wrote := make(chan struct{}, 1)
		transport := roundTripperFunc(func(req *http.Request) (*http.Response, error) {
			ct := httptrace.ContextClientTrace(req.Context())
			ct.WroteHeaderField("content-type", []string{"application/proto"})
			for j := 0; ; j++ {
				select {
				case <-stop:
					return nil, errors.New("verif: connection gone")
				default:
				}
				ct.WroteHeaderField("x-k"+strconv.Itoa(1+j%40), []string{"v" + strconv.Itoa(j)})
				select {
				case wrote <- struct{}{}:
				default:
				}
			}
		})
		ctx, cancel := context.WithCancel(context.Background())
		req, _ := http.NewRequestWithContext(ctx, http.MethodPost, "http://verif.invalid/svc/Method", nil)
		req.Header.Set(testCaseNameHeader, "T/hdr"+strconv.Itoa(i))
		returned := make(chan struct{})
		var trace Trace
		var mu sync.Mutex
		tcol := verifCollectorFunc(func(tc Trace) {
			mu.Lock()
			trace = tc
			mu.Unlock()
			col.Complete(tc)
		})
		rt := TracingRoundTripper(transport, tcol)
		go func() {
			defer close(returned)
			_, _ = rt.RoundTrip(req) //nolint:bodyclose
		}()
		<-wrote
		cancel()
		select {
		case <-col.got:
		case <-time.After(verifC16Patience):
			hung++
			close(stop)
			<-returned
			continue
		}
		mu.Lock()
		delivered := trace
		mu.Unlock()
		col.mu.Lock()
		first := col.taken[0]
		col.mu.Unlock()
		for k := 0; k < 20; k++ {
			delivered.Print(&internal.SimplePrinter{})
			<-wrote
		}
		if verifHdrText(verifProjectHdr(first.h)) != verifHdrText(first.then) {
			bad++
		}
		close(stop)
		<-returned
	}
	f, err := os.Create(out)
	if err != nil {
		t.Fatal(err)
	}
	defer f.Close()
	switch {
	case hung > 0:
		fmt.Fprintf(f, "problem %d of %d rounds: a cancellation did not complete the trace\n", hung, rounds)
	case bad > 0:
		fmt.Fprintf(f, "problem %d of %d rounds: the request headers taken from the delivered trace at completion changed afterwards\n", bad, rounds)
	default:
		fmt.Fprintf(f, "ok %d\n", rounds)
	}
}

type verifCollectorFunc func(Trace)

func (f verifCollectorFunc) Complete(t Trace) { f(t) }

func verifHdrText(v vsx) string {
	var sb strings.Builder
	v.print(&sb)
	return sb.String()
}
