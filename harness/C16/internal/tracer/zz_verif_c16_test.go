//go:build verif

package tracer

import (
	"context"
	"crypto/tls"
	"errors"
	"fmt"
	"io"
	"math/rand"
	"net/http"
	"net/http/httptest"
	"os"
	"sort"
	"strconv"
	"strings"
	"sync"
	"testing"
	"time"
)

func init() {
	verifKinds["c16.tracer"] = verifC16Tracer
	verifKinds["c16.builder"] = verifC16Builder
}

// ---------------------------------------------------------------------------
// Tracer: a script of Init / Complete / AwaitBegin / Clear / CtxDone on a real
// Tracer.  Waiters are goroutines blocked in the real Await on real contexts.
// ---------------------------------------------------------------------------

// verifTraceID rides in Trace.Err to identify which Complete produced a trace.
type verifTraceID struct{ id int64 }

func (e verifTraceID) Error() string { return "trace-id " + strconv.FormatInt(e.id, 10) }

// verifCtx tells the harness when Await evaluates ctx.Done(), i.e. when it enters
// its select: from then on the goroutine has left the critical section and its
// outcome depends on the two channels only.
type verifCtx struct {
	context.Context
	once    sync.Once
	reached chan struct{}
}

func (c *verifCtx) Done() <-chan struct{} {
	c.once.Do(func() { close(c.reached) })
	return c.Context.Done()
}

type verifAwaitRes struct {
	name  string
	trace Trace // copied by the waiter goroutine as soon as Await returns
	ok    bool
	err   error
}

type verifWaiter struct {
	started bool
	parked  bool
	ch      chan struct{} // the done channel the parked goroutine selects on (observed, never used to decide outcomes)
	resCh   chan verifAwaitRes
	cancel  context.CancelFunc
	last    verifAwaitRes
}

const verifC16Patience = 10 * time.Second

func (w *verifWaiter) collect() bool {
	select {
	case r := <-w.resCh:
		w.last = r
		w.parked = false
		w.cancel()
		return true
	case <-time.After(verifC16Patience):
		return false
	}
}

func verifAwaitCode(r verifAwaitRes) vsx {
	switch {
	case r.err == nil && r.ok:
		if r.trace.TestName != r.name {
			return vErr("trace-of-another-name")
		}
		var id verifTraceID
		if !errors.As(r.trace.Err, &id) {
			return vL(vI(2), vI(-1))
		}
		return vL(vI(2), vI(id.id))
	case errors.Is(r.err, context.Canceled) || errors.Is(r.err, context.DeadlineExceeded):
		return vL(vI(4))
	default:
		return vL(vI(3))
	}
}

// (actions) (waiter ids) (names) -> ((waiter results) (name views))
func verifC16Tracer(args []vsx) vsx {
	tr := &Tracer{}
	ws := map[int64]*verifWaiter{}
	var order []int64
	get := func(id int64) *verifWaiter {
		w := ws[id]
		if w == nil {
			w = &verifWaiter{}
			ws[id] = w
			order = append(order, id)
		}
		return w
	}
	defer func() {
		for _, w := range ws {
			if w.parked {
				w.cancel()
				w.collect()
			}
		}
	}()
	for _, a := range args[0].l {
		switch a.l[0].i {
		case 0:
			tr.Init(a.l[1].str())
		case 1:
			tr.Complete(Trace{TestName: a.l[1].str(), Err: verifTraceID{a.l[2].i}})
			// quiescence: every parked goroutine whose channel is closed now returns
			// before the next action (so that a later CtxDone never races a ready done channel)
			for _, id := range order {
				w := ws[id]
				if !w.parked {
					continue
				}
				select {
				case <-w.ch:
					if !w.collect() {
						return vErr("woken-waiter-did-not-return")
					}
				default:
				}
			}
		case 2:
			w := get(a.l[1].i)
			if w.parked {
				continue // the goroutine is blocked inside Await; it cannot call again
			}
			name := a.l[2].str()
			ctx, cancel := context.WithCancel(context.Background())
			vc := &verifCtx{Context: ctx, reached: make(chan struct{})}
			tr.mu.Lock()
			var ch chan struct{}
			if r := tr.traces[name]; r != nil {
				ch = r.done
			}
			tr.mu.Unlock()
			w.started, w.cancel, w.resCh = true, cancel, make(chan verifAwaitRes, 1)
			resCh := w.resCh
			go func() {
				t, err := tr.Await(vc, name)
				r := verifAwaitRes{name: name, err: err}
				if t != nil {
					r.trace, r.ok = *t, true
				}
				resCh <- r
			}()
			select {
			case r := <-w.resCh:
				w.last = r
				cancel()
			case <-vc.reached:
				w.parked, w.ch = true, ch
			case <-time.After(verifC16Patience):
				return vErr("await-neither-returned-nor-parked")
			}
		case 3:
			tr.Clear(a.l[1].str())
		case 4:
			w := ws[a.l[1].i]
			if w == nil || !w.parked {
				continue
			}
			w.cancel()
			if !w.collect() {
				return vErr("wait-outlived-its-context")
			}
		}
	}
	var wres, views []vsx
	for _, idv := range args[1].l {
		w := ws[idv.i]
		switch {
		case w == nil || !w.started:
			wres = append(wres, vL(vI(0)))
		case w.parked:
			wres = append(wres, vL(vI(1)))
		default:
			wres = append(wres, verifAwaitCode(w.last))
		}
	}
	dead, cancel := context.WithCancel(context.Background())
	cancel()
	for _, n := range args[2].l {
		t, err := tr.Await(dead, n.str())
		r := verifAwaitRes{name: n.str(), err: err}
		if t != nil {
			r.trace, r.ok = *t, true
		}
		views = append(views, verifAwaitCode(r))
	}
	return vL(vL(wres...), vL(views...))
}

// ---------------------------------------------------------------------------
// builder: a script of add(event) / build() against a recording Collector
// ---------------------------------------------------------------------------
type verifTagErr struct{ tag int64 }

func (e verifTagErr) Error() string { return "tag " + strconv.FormatInt(e.tag, 10) }

func verifTag(tag int64) error {
	if tag == 0 {
		return nil
	}
	return verifTagErr{tag}
}

func verifErrTag(err error) int64 {
	var te verifTagErr
	switch {
	case err == nil:
		return 0
	case errors.As(err, &te):
		return te.tag
	case errors.Is(err, context.Canceled):
		return 4
	default:
		return 99
	}
}

func verifProjectEvents(events []Event) vsx {
	out := make([]vsx, 0, len(events))
	for _, ev := range events {
		switch ev := ev.(type) {
		case *RequestStart:
			out = append(out, vL(vI(9)))
		case *RequestBodyData:
			out = append(out, vL(vI(0), vInt(ev.MessageIndex)))
		case *RequestBodyEnd:
			out = append(out, vL(vI(1), vI(verifErrTag(ev.Err))))
		case *ResponseStart:
			out = append(out, vL(vI(2)))
		case *ResponseError:
			out = append(out, vL(vI(3), vI(verifErrTag(ev.Err))))
		case *ResponseBodyData:
			out = append(out, vL(vI(4), vInt(ev.MessageIndex)))
		case *ResponseBodyEndStream:
			out = append(out, vL(vI(5)))
		case *ResponseBodyEnd:
			out = append(out, vL(vI(6), vI(verifErrTag(ev.Err))))
		case *RequestCanceled:
			out = append(out, vL(vI(7)))
		default:
			out = append(out, vL(vI(-1)))
		}
	}
	return vL(out...)
}

func verifProjectTrace(t Trace) vsx {
	return vL(vS(t.TestName), vI(verifErrTag(t.Err)), vBool(t.Response != nil), verifProjectEvents(t.Events))
}

func verifSxString(v vsx) string {
	var sb strings.Builder
	v.print(&sb)
	return sb.String()
}

type verifRecCollector struct {
	mu    sync.Mutex
	calls []Trace
	snaps []vsx
}

func (c *verifRecCollector) Complete(t Trace) {
	c.mu.Lock()
	defer c.mu.Unlock()
	c.calls = append(c.calls, t)
	c.snaps = append(c.snaps, verifProjectTrace(t))
}

// name client (actions) -> (collector calls)
func verifC16Builder(args []vsx) vsx {
	name, client := args[0].str(), args[1].boolean()
	req, err := http.NewRequest(http.MethodPost, "http://verif.invalid/svc/Method", http.NoBody)
	if err != nil {
		panic(err)
	}
	if name != "" {
		req.Header.Set(testCaseNameHeader, name)
	}
	col := &verifRecCollector{}
	b, _ := newBuilder(req, client, col)
	for _, a := range args[2].l {
		switch a.l[0].i {
		case 0:
			b.add(&RequestBodyData{Len: 3})
		case 1:
			b.add(&RequestBodyEnd{Err: verifTag(a.l[1].i)})
		case 2:
			b.add(&ResponseStart{Response: &http.Response{Proto: "HTTP/1.1", ProtoMajor: 1, ProtoMinor: 1, StatusCode: 200, Status: "200 OK"}})
		case 3:
			b.add(&ResponseError{Err: verifTag(a.l[1].i)})
		case 4:
			b.add(&ResponseBodyData{Len: 3})
		case 5:
			b.add(&ResponseBodyEndStream{Content: "{}"})
		case 6:
			b.add(&ResponseBodyEnd{Err: verifTag(a.l[1].i)})
		case 7:
			b.add(&RequestCanceled{})
		case 8:
			b.build()
		}
	}
	col.mu.Lock()
	defer col.mu.Unlock()
	// nothing that was delivered may have changed afterwards
	for i, t := range col.calls {
		if verifSxString(verifProjectTrace(t)) != verifSxString(col.snaps[i]) {
			return vErr("delivered-trace-changed-after-delivery")
		}
	}
	return vL(col.snaps...)
}

// ---------------------------------------------------------------------------
// free-running stress (built with -race by the check): TracingRoundTripper and
// TracingHandler over loopback, cancellation racing the end of the body.
// Checks only once_per_op and frozen.
// ---------------------------------------------------------------------------
type verifStressCollector struct {
	mu    sync.Mutex
	count map[string]int
	snap  map[string]string
	trace map[string]Trace
}

func newVerifStressCollector() *verifStressCollector {
	return &verifStressCollector{count: map[string]int{}, snap: map[string]string{}, trace: map[string]Trace{}}
}

func verifEventKinds(events []Event) string {
	s := ""
	for _, e := range events {
		s += fmt.Sprintf("%T@%p;", e, e)
	}
	return s
}

func (c *verifStressCollector) Complete(t Trace) {
	c.mu.Lock()
	defer c.mu.Unlock()
	c.count[t.TestName]++
	if c.count[t.TestName] == 1 {
		c.snap[t.TestName] = verifEventKinds(t.Events)
		c.trace[t.TestName] = t
	}
}

func verifFinishing(ev Event) bool {
	switch ev := ev.(type) {
	case *RequestBodyEnd:
		return ev.Err != nil
	case *ResponseError, *ResponseBodyEnd, *RequestCanceled:
		return true
	}
	return false
}

func (c *verifStressCollector) problems(side string, names []string, wantAll bool) []string {
	c.mu.Lock()
	defer c.mu.Unlock()
	var out []string
	for _, n := range names {
		k := c.count[n]
		if k > 1 || (wantAll && k != 1) {
			out = append(out, fmt.Sprintf("%s: %d collector calls for %s", side, k, n))
			continue
		}
		if k == 0 {
			continue
		}
		t := c.trace[n]
		if verifEventKinds(t.Events) != c.snap[n] {
			out = append(out, fmt.Sprintf("%s: events of %s changed after delivery", side, n))
		}
		for i, ev := range t.Events {
			if verifFinishing(ev) && i != len(t.Events)-1 {
				out = append(out, fmt.Sprintf("%s: %s has an event after its finishing event", side, n))
			}
		}
		req, resp := 0, 0
		for _, ev := range t.Events {
			switch ev := ev.(type) {
			case *RequestBodyData:
				if ev.MessageIndex != req {
					out = append(out, fmt.Sprintf("%s: %s request index %d at position %d", side, n, ev.MessageIndex, req))
				}
				req++
			case *ResponseBodyData:
				if ev.MessageIndex != resp {
					out = append(out, fmt.Sprintf("%s: %s response index %d at position %d", side, n, ev.MessageIndex, resp))
				}
				resp++
			}
		}
	}
	return out
}

func TestVerifC16Stress(t *testing.T) {
	out := os.Getenv("VERIF_OUT")
	if out == "" {
		t.Skip("VERIF_OUT not set")
	}
	ops, _ := strconv.Atoi(os.Getenv("VERIF_C16_OPS"))
	if ops == 0 {
		ops = 300
	}
	seed, _ := strconv.ParseInt(os.Getenv("VERIF_SEED"), 10, 64)
	var problems []string
	total := 0
	for _, h2 := range []bool{false, true} {
		client, server := newVerifStressCollector(), newVerifStressCollector()
		handler := http.HandlerFunc(func(w http.ResponseWriter, r *http.Request) {
			_, _ = io.Copy(io.Discard, r.Body)
			chunks, _ := strconv.Atoi(r.Header.Get("X-Chunks"))
			w.Header().Set("Content-Type", "application/connect+proto")
			for i := 0; i < chunks; i++ {
				if _, err := w.Write([]byte{0, 0, 0, 0, 3, 'a', 'b', 'c'}); err != nil {
					return
				}
				if f, ok := w.(http.Flusher); ok && i%2 == 0 {
					f.Flush()
				}
			}
		})
		srv := httptest.NewUnstartedServer(TracingHandler(handler, server))
		var hc *http.Client
		if h2 {
			srv.EnableHTTP2 = true
			srv.StartTLS()
			hc = srv.Client()
		} else {
			srv.Start()
			hc = &http.Client{Transport: &http.Transport{TLSClientConfig: &tls.Config{}}}
		}
		inner := hc.Transport
		hc.Transport = TracingRoundTripper(inner, client)
		var names []string
		var wg sync.WaitGroup
		sem := make(chan struct{}, 8)
		for i := 0; i < ops; i++ {
			name := fmt.Sprintf("op-%v-%d", h2, i)
			names = append(names, name)
			rng := rand.New(rand.NewSource(seed*7919 + int64(i)))
			wg.Add(1)
			sem <- struct{}{}
			go func() {
				defer wg.Done()
				defer func() { <-sem }()
				ctx, cancel := context.WithCancel(context.Background())
				defer cancel()
				chunks := rng.Intn(6)
				mode := rng.Intn(4)
				req, err := http.NewRequestWithContext(ctx, http.MethodPost, srv.URL+"/svc/M", io.NopCloser(io.LimitReader(neverEnding('x'), int64(rng.Intn(3000)))))
				if err != nil {
					return
				}
				req.Header.Set(testCaseNameHeader, name)
				req.Header.Set("X-Chunks", strconv.Itoa(chunks))
				if mode == 3 {
					// cancel concurrently with the round trip itself
					go func() { time.Sleep(time.Duration(rng.Intn(300)) * time.Microsecond); cancel() }()
				}
				resp, err := hc.Do(req)
				if err != nil {
					return
				}
				switch mode {
				case 0: // read everything; the body-end event races the cancel goroutine started by whenDone
					_, _ = io.Copy(io.Discard, resp.Body)
					_ = resp.Body.Close()
				case 1: // cancel racing the end of the body
					done := make(chan struct{})
					go func() { defer close(done); _, _ = io.Copy(io.Discard, resp.Body) }()
					cancel()
					<-done
					_ = resp.Body.Close()
				case 2: // close early, then cancel
					buf := make([]byte, 4)
					_, _ = resp.Body.Read(buf)
					go cancel()
					_ = resp.Body.Close()
				default:
					_, _ = io.Copy(io.Discard, resp.Body)
					_ = resp.Body.Close()
				}
			}()
		}
		wg.Wait()
		srv.Close() // waits for outstanding handlers, hence for their deferred build()
		hc.CloseIdleConnections()
		// client side: every operation that was started delivers exactly once; give the
		// asynchronous cancel goroutines a moment
		deadline := time.Now().Add(5 * time.Second)
		for time.Now().Before(deadline) {
			if len(client.problems("client", names, true)) == 0 {
				break
			}
			time.Sleep(20 * time.Millisecond)
		}
		time.Sleep(50 * time.Millisecond)
		problems = append(problems, client.problems("client", names, true)...)
		problems = append(problems, server.problems("server", names, false)...)
		total += len(names)
	}
	sort.Strings(problems)
	f, err := os.Create(out)
	if err != nil {
		t.Fatal(err)
	}
	defer f.Close()
	if len(problems) == 0 {
		fmt.Fprintf(f, "ok %d\n", total)
		return
	}
	for _, p := range problems {
		fmt.Fprintf(f, "problem %s\n", p)
	}
}

type neverEnding byte

func (b neverEnding) Read(p []byte) (int, error) {
	for i := range p {
		p[i] = byte(b)
	}
	return len(p), nil
}

// TestVerifC16Race replays tracer and builder scripts with free-running goroutines under the
// race detector: the waiter reads the trace it was handed while further operations go on.
func TestVerifC16Race(t *testing.T) {
	out := os.Getenv("VERIF_OUT")
	if out == "" {
		t.Skip("VERIF_OUT not set")
	}
	rounds, _ := strconv.Atoi(os.Getenv("VERIF_C16_OPS"))
	if rounds == 0 {
		rounds = 200
	}
	bad := 0
	for i := 0; i < rounds; i++ {
		tr := &Tracer{}
		name := "n" + strconv.Itoa(i)
		tr.Init(name)
		var wg sync.WaitGroup
		got := make([]int64, 3)
		for w := 0; w < 3; w++ {
			wg.Add(1)
			go func() {
				defer wg.Done()
				ctx, cancel := context.WithTimeout(context.Background(), 5*time.Second)
				defer cancel()
				tc, err := tr.Await(ctx, name)
				if err != nil {
					got[w] = -2
					return
				}
				var id verifTraceID
				if tc.TestName != name || !errors.As(tc.Err, &id) {
					got[w] = -1
					return
				}
				got[w] = id.id
			}()
		}
		// a builder whose cancel goroutine races its body end, delivering into the tracer
		req, _ := http.NewRequest(http.MethodPost, "http://verif.invalid/x", http.NoBody)
		req.Header.Set(testCaseNameHeader, name)
		col := &verifStampCollector{tr: tr}
		b, _ := newBuilder(req, i%2 == 0, col)
		wg.Add(3)
		go func() { defer wg.Done(); b.add(&ResponseBodyData{}); b.add(&ResponseBodyEnd{}) }()
		go func() { defer wg.Done(); b.add(&RequestBodyData{}); b.add(&RequestCanceled{}) }()
		go func() { defer wg.Done(); b.add(&RequestBodyData{}); b.build() }()
		wg.Wait()
		if col.n != 1 || got[0] != 1 || got[1] != 1 || got[2] != 1 {
			bad++
		}
		tr.Clear(name)
	}
	f, err := os.Create(out)
	if err != nil {
		t.Fatal(err)
	}
	defer f.Close()
	if bad == 0 {
		fmt.Fprintf(f, "ok %d\n", rounds)
	} else {
		fmt.Fprintf(f, "problem %d of %d rounds: not exactly one delivery or a waiter did not get it\n", bad, rounds)
	}
}

type verifStampCollector struct {
	tr *Tracer
	mu sync.Mutex
	n  int64
}

func (c *verifStampCollector) Complete(t Trace) {
	c.mu.Lock()
	c.n++
	t.Err = verifTraceID{c.n}
	c.mu.Unlock()
	c.tr.Complete(t)
}
