//go:build verif

package connectconformance

import (
	"errors"
	"os"
	"sort"
	"strings"
	"testing"

	"buf.build/go/protoyaml"
	"connectrpc.com/conformance/internal/app/connectconformance/testsuites"
	conformancev1 "connectrpc.com/conformance/internal/gen/proto/go/connectrpc/conformance/v1"
	"google.golang.org/protobuf/encoding/protojson"
	"google.golang.org/protobuf/proto"
	"google.golang.org/protobuf/types/known/anypb"
)

func init() {
	verifKinds["c01.run"] = verifC01Run
	verifKinds["c01.real"] = verifC01Real
}

// ---------------------------------------------------------------------------
// decoding (the encodings of harness/C06 and harness/C07, so that C06_Model.un_config and
// C07_Model.un_suite read the same case)
// ---------------------------------------------------------------------------

// flags travel as 0 = absent, 1 = false, 2 = true
func verifC01Flag(v vsx) *bool {
	switch v.i {
	case 1:
		return proto.Bool(false)
	case 2:
		return proto.Bool(true)
	}
	return nil
}

func verifC01Enums[T ~int32](v vsx) []T {
	var out []T
	for _, e := range v.l {
		out = append(out, T(e.i))
	}
	return out
}

func verifC01Entry(v vsx) *conformancev1.ConfigCase {
	return &conformancev1.ConfigCase{
		Version:                conformancev1.HTTPVersion(v.l[0].i),
		Protocol:               conformancev1.Protocol(v.l[1].i),
		Codec:                  conformancev1.Codec(v.l[2].i),
		Compression:            conformancev1.Compression(v.l[3].i),
		StreamType:             conformancev1.StreamType(v.l[4].i),
		UseTls:                 verifC01Flag(v.l[5]),
		UseTlsClientCerts:      verifC01Flag(v.l[6]),
		UseMessageReceiveLimit: verifC01Flag(v.l[7]),
	}
}

func verifC01Config(fe, inc, exc vsx) *conformancev1.Config {
	cfg := &conformancev1.Config{}
	f := fe.l
	feat := &conformancev1.Features{
		Versions:                        verifC01Enums[conformancev1.HTTPVersion](f[0]),
		Protocols:                       verifC01Enums[conformancev1.Protocol](f[1]),
		Codecs:                          verifC01Enums[conformancev1.Codec](f[2]),
		Compressions:                    verifC01Enums[conformancev1.Compression](f[3]),
		StreamTypes:                     verifC01Enums[conformancev1.StreamType](f[4]),
		SupportsH2C:                     verifC01Flag(f[5]),
		SupportsTls:                     verifC01Flag(f[6]),
		SupportsTlsClientCerts:          verifC01Flag(f[7]),
		SupportsTrailers:                verifC01Flag(f[8]),
		SupportsHalfDuplexBidiOverHttp1: verifC01Flag(f[9]),
		SupportsConnectGet:              verifC01Flag(f[10]),
		SupportsMessageReceiveLimit:     verifC01Flag(f[11]),
	}
	if !proto.Equal(feat, &conformancev1.Features{}) {
		cfg.Features = feat
	}
	for _, e := range inc.l {
		cfg.IncludeCases = append(cfg.IncludeCases, verifC01Entry(e))
	}
	for _, e := range exc.l {
		cfg.ExcludeCases = append(cfg.ExcludeCases, verifC01Entry(e))
	}
	return cfg
}

func verifC01RawResponseMsg(stream int64) *anypb.Any {
	var msg proto.Message
	switch stream {
	case 3, 4, 5:
		msg = &conformancev1.ServerStreamRequest{
			ResponseDefinition: &conformancev1.StreamResponseDefinition{RawResponse: &conformancev1.RawHTTPResponse{StatusCode: 200}},
		}
	default:
		msg = &conformancev1.UnaryRequest{
			ResponseDefinition: &conformancev1.UnaryResponseDefinition{RawResponse: &conformancev1.RawHTTPResponse{StatusCode: 200}},
		}
	}
	a, err := anypb.New(msg)
	if err != nil {
		panic(err)
	}
	return a
}

// tcase: (name stream service method rawreq rawresp junk)
func verifC01TestCase(v vsx) *conformancev1.TestCase {
	req := &conformancev1.ClientCompatRequest{
		TestName:   v.l[0].str(),
		StreamType: conformancev1.StreamType(v.l[1].i),
	}
	if len(v.l[2].b) > 0 {
		req.Service = proto.String(v.l[2].str())
	}
	if len(v.l[3].b) > 0 {
		req.Method = proto.String(v.l[3].str())
	}
	tc := &conformancev1.TestCase{Request: req}
	if v.l[4].boolean() {
		req.RawRequest = &conformancev1.RawHTTPRequest{Verb: "POST", Uri: "/x"}
	}
	if v.l[5].boolean() {
		req.RequestMessages = []*anypb.Any{verifC01RawResponseMsg(v.l[1].i)}
		tc.ExpectedResponse = &conformancev1.ClientResponseResult{}
	}
	return tc
}

// suite: (name mode (protocols) (versions) (codecs) (compressions) cvm tls certs get limit (tcases...))
func verifC01Suite(v vsx) *conformancev1.TestSuite {
	s := &conformancev1.TestSuite{
		Name:                        v.l[0].str(),
		Mode:                        conformancev1.TestSuite_TestMode(v.l[1].i),
		RelevantProtocols:           verifC01Enums[conformancev1.Protocol](v.l[2]),
		RelevantHttpVersions:        verifC01Enums[conformancev1.HTTPVersion](v.l[3]),
		RelevantCodecs:              verifC01Enums[conformancev1.Codec](v.l[4]),
		RelevantCompressions:        verifC01Enums[conformancev1.Compression](v.l[5]),
		ConnectVersionMode:          conformancev1.TestSuite_ConnectVersionMode(v.l[6].i),
		ReliesOnTls:                 v.l[7].boolean(),
		ReliesOnTlsClientCerts:      v.l[8].boolean(),
		ReliesOnConnectGet:          v.l[9].boolean(),
		ReliesOnMessageReceiveLimit: v.l[10].boolean(),
	}
	for _, t := range v.l[11].l {
		s.TestCases = append(s.TestCases, verifC01TestCase(t))
	}
	return s
}

// ---------------------------------------------------------------------------
// encoding of REAL inputs (the projection the model sees)
// ---------------------------------------------------------------------------

func verifC01EncFlag(b *bool) vsx {
	switch {
	case b == nil:
		return vI(0)
	case *b:
		return vI(2)
	default:
		return vI(1)
	}
}

func verifC01EncEnums[T ~int32](vals []T) vsx {
	out := make([]vsx, len(vals))
	for i, v := range vals {
		out[i] = vI(int64(v))
	}
	return vL(out...)
}

func verifC01EncEntry(e *conformancev1.ConfigCase) vsx {
	return vL(vI(int64(e.Version)), vI(int64(e.Protocol)), vI(int64(e.Codec)), vI(int64(e.Compression)),
		vI(int64(e.StreamType)), verifC01EncFlag(e.UseTls), verifC01EncFlag(e.UseTlsClientCerts),
		verifC01EncFlag(e.UseMessageReceiveLimit))
}

// the shipped configuration text, read with the library the runner uses, as (features includes excludes)
func verifC01EncConfig(data []byte) (fe, inc, exc vsx, err error) {
	var cfg conformancev1.Config
	if len(data) > 0 {
		if err := (protoyaml.UnmarshalOptions{}).Unmarshal(data, &cfg); err != nil {
			return vsx{}, vsx{}, vsx{}, err
		}
	}
	f := cfg.GetFeatures()
	if f == nil {
		f = &conformancev1.Features{}
	}
	fe = vL(verifC01EncEnums(f.Versions), verifC01EncEnums(f.Protocols), verifC01EncEnums(f.Codecs),
		verifC01EncEnums(f.Compressions), verifC01EncEnums(f.StreamTypes),
		verifC01EncFlag(f.SupportsH2C), verifC01EncFlag(f.SupportsTls), verifC01EncFlag(f.SupportsTlsClientCerts),
		verifC01EncFlag(f.SupportsTrailers), verifC01EncFlag(f.SupportsHalfDuplexBidiOverHttp1),
		verifC01EncFlag(f.SupportsConnectGet), verifC01EncFlag(f.SupportsMessageReceiveLimit))
	var is, es []vsx
	for _, e := range cfg.IncludeCases {
		is = append(is, verifC01EncEntry(e))
	}
	for _, e := range cfg.ExcludeCases {
		es = append(es, verifC01EncEntry(e))
	}
	return fe, vL(is...), vL(es...), nil
}

// the embedded suites, loaded and parsed by the runner's own functions
func verifC01RealSuites() (map[string]*conformancev1.TestSuite, error) {
	data, err := testsuites.LoadTestSuites()
	if err != nil {
		return nil, err
	}
	return parseTestSuites(data)
}

func verifC01EncSuites(suites map[string]*conformancev1.TestSuite) vsx {
	files := make([]string, 0, len(suites))
	for f := range suites {
		files = append(files, f)
	}
	sort.Strings(files)
	out := make([]vsx, 0, len(files))
	for _, f := range files {
		s := suites[f]
		tcs := make([]vsx, 0, len(s.TestCases))
		for _, tc := range s.TestCases {
			req := tc.GetRequest()
			tcs = append(tcs, vL(vS(req.GetTestName()), vI(int64(req.GetStreamType())), vS(req.GetService()), vS(req.GetMethod()),
				vBool(req.GetRawRequest() != nil), vBool(hasRawResponse(req.GetRequestMessages())), vI(0)))
		}
		out = append(out, vL(vS(s.Name), vI(int64(s.Mode)),
			verifC01EncEnums(s.RelevantProtocols), verifC01EncEnums(s.RelevantHttpVersions),
			verifC01EncEnums(s.RelevantCodecs), verifC01EncEnums(s.RelevantCompressions),
			vI(int64(s.ConnectVersionMode)), vBool(s.ReliesOnTls), vBool(s.ReliesOnTlsClientCerts),
			vBool(s.ReliesOnConnectGet), vBool(s.ReliesOnMessageReceiveLimit), vL(tcs...)))
	}
	return vL(out...)
}

func verifC01Text(v vsx) string {
	var sb strings.Builder
	v.print(&sb)
	return sb.String()
}

// the permutations a run of the given configuration announces, each with the axis values of its request
func verifC01Universe(cfgData []byte, suites map[string]*conformancev1.TestSuite, cl, sv bool) ([]vsx, error) {
	cases, err := parseConfig("verif.yaml", cfgData)
	if err != nil {
		return nil, err
	}
	mode := conformancev1.TestSuite_TEST_MODE_UNSPECIFIED
	switch {
	case sv && !cl:
		mode = conformancev1.TestSuite_TEST_MODE_CLIENT
	case cl && !sv:
		mode = conformancev1.TestSuite_TEST_MODE_SERVER
	}
	lib, err := newTestCaseLibrary(suites, cases, mode)
	if err != nil {
		return nil, err
	}
	all := lib.allPermutations(cl, sv)
	sort.Slice(all, func(i, j int) bool { return all[i].Request.TestName < all[j].Request.TestName })
	rows := make([]vsx, 0, len(all))
	for _, tc := range all {
		r := tc.Request
		rows = append(rows, vL(vS(r.TestName), vI(int64(r.HttpVersion)), vI(int64(r.Protocol)), vI(int64(r.Codec)),
			vI(int64(r.Compression)), vBool(len(r.ServerTlsCert) > 0), vBool(r.ClientTlsCreds != nil), vI(int64(r.StreamType))))
	}
	return rows, nil
}

// TestVerifDump: for every line ("dump" id run-name cl sv config-text (patterns) [(((run patterns) (no-run patterns))...)]) of
// $VERIF_CASES writes ("c01.real" id run-name cl sv config-text (patterns) features includes excludes (suites) [selections])
// to $VERIF_OUT; for every line ("universe" id run-name cl sv config-text) the rows of verifC01Universe.
func TestVerifDump(t *testing.T) {
	in, out := os.Getenv("VERIF_CASES"), os.Getenv("VERIF_OUT")
	if in == "" || out == "" {
		t.Skip("VERIF_CASES / VERIF_OUT not set")
	}
	data, err := os.ReadFile(in)
	if err != nil {
		t.Fatal(err)
	}
	suites, err := verifC01RealSuites()
	if err != nil {
		t.Fatal(err)
	}
	numCases := 0
	for _, s := range suites {
		numCases += len(s.TestCases)
	}
	ss := verifC01EncSuites(suites)
	var sb strings.Builder
	for _, line := range strings.Split(string(data), "\n") {
		if strings.TrimSpace(line) == "" {
			continue
		}
		p := &vparser{s: line}
		c := p.item()
		if c.k == 'l' && len(c.l) == 6 && c.l[0].str() == "universe" {
			// ("universe" id run-name cl sv config-text): one line (name v p c z tls certs) per permutation of
			// allPermutations, taken from the fields of the REQUEST that would be sent (not from its name)
			rows, err := verifC01Universe(c.l[5].b, suites, c.l[3].boolean(), c.l[4].boolean())
			if err != nil {
				t.Fatalf("universe of %s: %v", c.l[2].str(), err)
			}
			for _, r := range rows {
				vL(vS("row"), c.l[1], r).print(&sb)
				sb.WriteByte('\n')
			}
			continue
		}
		if c.k != 'l' || (len(c.l) != 7 && len(c.l) != 8) {
			t.Fatalf("bad dump line: %s", line)
		}
		fe, inc, exc, err := verifC01EncConfig(c.l[5].b)
		if err != nil {
			t.Fatalf("config of %s: %v", c.l[2].str(), err)
		}
		items := []vsx{vS("c01.real"), c.l[1], c.l[2], c.l[3], c.l[4], c.l[5], c.l[6], fe, inc, exc, ss}
		if len(c.l) == 8 { // + (((run patterns) (no-run patterns))...)
			items = append(items, c.l[7])
		}
		vL(items...).print(&sb)
		sb.WriteByte('\n')
	}
	if err := os.WriteFile(out, []byte(sb.String()), 0o644); err != nil {
		t.Fatal(err)
	}
	t.Logf("dumped %d suites, %d test case templates", len(suites), numCases)
}

// ---------------------------------------------------------------------------
// the run, with the runner's own functions, up to (not including) the processes
// ---------------------------------------------------------------------------

type verifC01Discard struct{ lines []string }

func (d *verifC01Discard) Printf(msg string, args ...any)               {}
func (d *verifC01Discard) PrefixPrintf(prefix, msg string, args ...any) {}

func verifC01Peers(reference bool) []bool {
	if reference {
		return []bool{false, true}
	}
	return []bool{false}
}

type verifC01Plan struct {
	sent     []string // names in the order of the loops of run()
	marked   []string
	lib      int
	groups   int
	allPerms []*conformancev1.TestCase
	kf       *testTrie
	patOK    bool
	filtered int // filteredTestCount: what newResults is told
}

// the part of run() before any process is started: mode, library, allPermutations, pattern validation,
// the client x server x instance loops with the gRPC filter
func verifC01PlanRun(cfgData []byte, suites map[string]*conformancev1.TestSuite, cl, sv bool, patterns, runPats, skipPats []string) (*verifC01Plan, vsx) {
	cases, err := parseConfig("verif.yaml", cfgData)
	if err != nil {
		return nil, vErr("config")
	}
	mode := conformancev1.TestSuite_TEST_MODE_UNSPECIFIED
	switch {
	case sv && !cl:
		mode = conformancev1.TestSuite_TEST_MODE_CLIENT
	case cl && !sv:
		mode = conformancev1.TestSuite_TEST_MODE_SERVER
	}
	lib, err := newTestCaseLibrary(suites, cases, mode)
	if err != nil {
		return nil, vErr("library")
	}
	plan := &verifC01Plan{lib: len(lib.testCases), groups: len(lib.casesByServer), patOK: true}
	plan.allPerms = lib.allPermutations(cl, sv)
	plan.kf = parsePatterns(patterns)
	if plan.kf == nil {
		plan.kf = &testTrie{}
	}
	if plan.kf.length() > 0 {
		if _, err := tryMatchPatterns("known failing", plan.kf, plan.allPerms); err != nil {
			plan.patOK = false
		}
	}
	// --run / --skip as Run() hands them over: parsePatterns gives nil for an empty list
	run, skip := parsePatterns(runPats), parsePatterns(skipPats)
	if run != nil {
		if _, err := tryMatchPatterns("run patterns", run, plan.allPerms); err != nil {
			plan.patOK = false
		}
	}
	if skip != nil {
		if _, err := tryMatchPatterns("no-run patterns", skip, plan.allPerms); err != nil {
			plan.patOK = false
		}
	}
	filter := newFilter(run, skip)
	for _, tc := range plan.allPerms {
		if filter.accept(tc) {
			plan.filtered++
		}
	}
	seen := map[string]struct{}{}
	dup := false
	for _, ci := range verifC01Peers(cl) {
		for _, si := range verifC01Peers(sv) {
			for _, inst := range serverInstancesSlice(lib, true) {
				tcs := lib.filterGRPCImplTestCases(lib.casesByServer[inst], ci, si)
				for _, tc := range tcs { // names must be unambiguous before any selection
					name := tc.Request.TestName
					if _, ok := seen[name]; ok {
						dup = true
					}
					seen[name] = struct{}{}
				}
				for _, tc := range filter.apply(tcs) {
					plan.sent = append(plan.sent, tc.Request.TestName)
				}
			}
		}
	}
	if dup {
		return nil, vErr("ambiguous-names")
	}
	return plan, vsx{}
}

func verifC01Sorted(names []string) vsx {
	out := append([]string(nil), names...)
	sort.Strings(out)
	return vStrs(out)
}

// ("c01.run" id cl sv features includes excludes (suites) (patterns) ((name-suffix code)...) [(run patterns) (no-run patterns)])
func verifC01Run(args []vsx) vsx {
	cl, sv := args[0].boolean(), args[1].boolean()
	cfg := verifC01Config(args[2], args[3], args[4])
	data, err := protojson.Marshal(cfg)
	if err != nil {
		return vErr("harness-marshal")
	}
	suites := map[string]*conformancev1.TestSuite{}
	for i, s := range args[5].l {
		suites[string(rune('a'+i/26))+string(rune('a'+i%26))+".yaml"] = verifC01Suite(s)
	}
	var runPats, skipPats []string
	if len(args) >= 10 {
		runPats, skipPats = args[8].strs(), args[9].strs()
	}
	plan, bad := verifC01PlanRun(data, suites, cl, sv, args[6].strs(), runPats, skipPats)
	if plan == nil {
		return bad
	}
	// (suffix code) pairs: a name gets the code of the first pair whose suffix it ends in
	codeOf := func(name string) int64 {
		for _, e := range args[7].l {
			if strings.HasSuffix(name, e.l[0].str()) {
				return e.l[1].i
			}
		}
		return 0
	}
	// newResults + one setOutcome per sent case + report(), as run()/Run() do
	results := newResults(plan.filtered, plan.kf, &testTrie{}, nil)
	for _, name := range plan.sent {
		switch codeOf(name) {
		case 1:
			results.setOutcome(name, false, errors.New("assertion failed"))
		case 2:
			results.failed(name, &conformancev1.ClientErrorResult{Message: "client error"})
		case 3:
			results.setOutcome(name, true, errors.New("server failed to start"))
		case 4:
			results.setOutcome(name, true, &couldNotRunError{errors.New("pipe closed")})
		default:
			results.setOutcome(name, false, nil)
		}
	}
	for _, name := range plan.sent {
		if results.outcomes[name].knownFailing {
			plan.marked = append(plan.marked, name)
		}
	}
	status := int64(0)
	switch {
	case !plan.patOK:
		status = 2
	case !results.report(&verifC01Discard{}):
		status = 1
	}
	return vL(vS("ok"), verifC01Sorted(plan.sent), verifC01Sorted(plan.marked),
		vInt(plan.lib), vInt(plan.groups), vInt(len(plan.allPerms)), vInt(plan.filtered), vI(status))
}

// ("c01.real" id run-name cl sv config-text (patterns) features includes excludes (suites) [(((run patterns) (no-run patterns))...)]):
// answered from the REAL embedded suites and the configuration text; the encodings in the case are
// only checked to be the current projection of those inputs (otherwise: bad-case).
func verifC01Real(args []vsx) vsx {
	cl, sv := args[1].boolean(), args[2].boolean()
	suites, err := verifC01RealSuites()
	if err != nil {
		return vErr("embedded-suites")
	}
	fe, inc, exc, err := verifC01EncConfig(args[3].b)
	if err != nil {
		return vErr("config")
	}
	if verifC01Text(fe) != verifC01Text(args[5]) || verifC01Text(inc) != verifC01Text(args[6]) ||
		verifC01Text(exc) != verifC01Text(args[7]) || verifC01Text(verifC01EncSuites(suites)) != verifC01Text(args[8]) {
		return vL(vS("bad-case"))
	}
	if len(args) >= 10 {
		// slices: the same run under several (--run, --skip) selections -> (ok slice... (patterns-ok...))
		out := []vsx{vS("ok")}
		var oks []vsx
		for _, sel := range args[9].l {
			plan, bad := verifC01PlanRun(args[3].b, suites, cl, sv, args[4].strs(), sel.l[0].strs(), sel.l[1].strs())
			if plan == nil {
				return bad
			}
			mark := parsePatterns(args[4].strs())
			for _, name := range plan.sent {
				if mark != nil && mark.matchPattern(name) {
					plan.marked = append(plan.marked, name)
				}
			}
			out = append(out, vL(verifC01Sorted(plan.sent), verifC01Sorted(plan.marked),
				vInt(plan.lib), vInt(plan.groups), vInt(len(plan.allPerms)), vInt(plan.filtered)))
			oks = append(oks, vBool(plan.patOK))
		}
		if len(args[9].l) == 0 { // the configuration / library errors show without any selection, too
			if plan, bad := verifC01PlanRun(args[3].b, suites, cl, sv, args[4].strs(), nil, nil); plan == nil {
				return bad
			}
		}
		return vL(append(out, vL(oks...))...)
	}
	plan, bad := verifC01PlanRun(args[3].b, suites, cl, sv, args[4].strs(), nil, nil)
	if plan == nil {
		return bad
	}
	mark := parsePatterns(args[4].strs())
	for _, name := range plan.sent {
		if mark != nil && mark.matchPattern(name) {
			plan.marked = append(plan.marked, name)
		}
	}
	return vL(vS("ok"), verifC01Sorted(plan.sent), verifC01Sorted(plan.marked),
		vInt(plan.lib), vInt(plan.groups), vInt(len(plan.allPerms)), vInt(plan.filtered), vBool(plan.patOK))
}
