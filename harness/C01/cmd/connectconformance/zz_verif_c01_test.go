//go:build verif

package main

import (
	"os"
	"path/filepath"
)

func init() {
	verifKinds["c01.patterns"] = verifC01Patterns
}

// ("c01.patterns" id file-contents) -> the patterns, read the way the command line reads them: the
// contents are written to a scratch file and handed to the real argsToPatterns as "@file"
// (os.ReadFile + parsePatternFile); the direct call must agree.
func verifC01Patterns(args []vsx) vsx {
	dir, err := os.MkdirTemp("", "verif-c01-")
	if err != nil {
		return vErr("harness-tmp")
	}
	defer os.RemoveAll(dir)
	file := filepath.Join(dir, "known-failing.txt")
	if err := os.WriteFile(file, args[0].b, 0o600); err != nil {
		return vErr("harness-tmp")
	}
	got, err := argsToPatterns([]string{"@" + file})
	if err != nil {
		return vErr("args")
	}
	direct := parsePatternFile(args[0].b)
	if len(direct) != len(got) {
		return vErr("file-vs-direct")
	}
	for i := range got {
		if got[i] != direct[i] {
			return vErr("file-vs-direct")
		}
	}
	return vStrs(got)
}
