//go:build verif

package connectconformance

import (
	"bytes"
	"context"
	"crypto/tls"
	"encoding/binary"
	"encoding/json"
	"fmt"
	"io"
	"net"
	"net/http"
	"os"
	"regexp"
	"strconv"
	"strings"
	"time"

	"connectrpc.com/conformance/internal"
	"connectrpc.com/conformance/internal/compression"
	conformancev1 "connectrpc.com/conformance/internal/gen/proto/go/connectrpc/conformance/v1"
	"connectrpc.com/conformance/internal/gen/proto/go/connectrpc/conformance/v1/conformancev1connect"
	"golang.org/x/net/http2"
	"google.golang.org/protobuf/encoding/protojson"
	"google.golang.org/protobuf/proto"
	"google.golang.org/protobuf/types/known/anypb"
)

func init() {
	verifKinds["c19.stream"] = verifC19Stream
	verifKinds["c19.load"] = verifC19Load
}

// ---------------------------------------------------------------------------
// c19.stream: several messages per RPC, each sized to the byte
// ---------------------------------------------------------------------------

// A plain HTTP client as the peer of the reference server: it posts the enveloped messages of a
// client / bidi stream as one request body whose length is either declared up front
// (http.Request.ContentLength = len, i.e. a Content-Length header / content-length pseudo
// header, as a buffering HTTP/1.1 or browser client sends it) or not (ContentLength = -1: chunked
// over HTTP/1.1, no length over HTTP/2, as connect-go and grpc-go send streams).  The receive
// limit is a limit on each message; how the body that carries the messages is delimited must
// not matter.
var (
	verifC19RawH1 = &http.Client{Transport: &http.Transport{DisableCompression: true}}
	verifC19RawH2 = &http.Client{Transport: &http2.Transport{
		AllowHTTP: true,
		DialTLSContext: func(ctx context.Context, network, addr string, _ *tls.Config) (net.Conn, error) {
			var d net.Dialer
			return d.DialContext(ctx, network, addr)
		},
	}}
)

var verifC19EncodingNames = map[conformancev1.Compression]string{
	conformancev1.Compression_COMPRESSION_GZIP:    compression.Gzip,
	conformancev1.Compression_COMPRESSION_BR:      compression.Brotli,
	conformancev1.Compression_COMPRESSION_ZSTD:    compression.Zstd,
	conformancev1.Compression_COMPRESSION_DEFLATE: compression.Deflate,
	conformancev1.Compression_COMPRESSION_SNAPPY:  compression.Snappy,
}

func verifC19Compress(compress conformancev1.Compression, msg []byte) ([]byte, error) {
	comp, err := compression.GetCompressor(compress)
	if err != nil {
		return nil, err
	}
	var buf bytes.Buffer
	comp.Reset(&buf)
	if _, err := comp.Write(msg); err != nil {
		return nil, err
	}
	if err := comp.Close(); err != nil {
		return nil, err
	}
	return buf.Bytes(), nil
}

type verifC19Body struct{ r io.Reader } // hides the concrete reader type: net/http cannot learn the length

func (b verifC19Body) Read(p []byte) (int, error) { return b.r.Read(p) }
func (verifC19Body) Close() error                 { return nil }

// returns (error code as a lower-case connect code name or a gRPC status number, number of response
// messages, harness error tag)
func verifC19RawCall(ctx context.Context, req *conformancev1.ClientCompatRequest, declared bool) (string, int, string) {
	var body bytes.Buffer
	for _, msg := range req.RequestMessages {
		data, flags := msg.Value, byte(0)
		if req.Compression != conformancev1.Compression_COMPRESSION_IDENTITY {
			compressed, err := verifC19Compress(req.Compression, data)
			if err != nil {
				return "", 0, "compress"
			}
			data, flags = compressed, 1
		}
		var prefix [5]byte
		prefix[0] = flags
		binary.BigEndian.PutUint32(prefix[1:], uint32(len(data)))
		body.Write(prefix[:])
		body.Write(data)
	}
	url := fmt.Sprintf("http://%s/%s/%s", net.JoinHostPort(req.Host, strconv.Itoa(int(req.Port))), req.GetService(), req.GetMethod())
	httpReq, err := http.NewRequestWithContext(ctx, http.MethodPost, url, nil)
	if err != nil {
		return "", 0, "raw-request"
	}
	if declared {
		httpReq.Body = io.NopCloser(bytes.NewReader(body.Bytes()))
		httpReq.ContentLength = int64(body.Len())
	} else {
		httpReq.Body = verifC19Body{bytes.NewReader(body.Bytes())}
		httpReq.ContentLength = -1
	}
	for _, hdr := range req.RequestHeaders {
		for _, val := range hdr.Value {
			httpReq.Header.Add(hdr.Name, val)
		}
	}
	encoding := verifC19EncodingNames[req.Compression]
	switch req.Protocol {
	case conformancev1.Protocol_PROTOCOL_CONNECT:
		httpReq.Header.Set("Content-Type", "application/connect+proto")
		httpReq.Header.Set("Connect-Protocol-Version", "1")
		if encoding != "" {
			httpReq.Header.Set("Connect-Content-Encoding", encoding)
		}
	case conformancev1.Protocol_PROTOCOL_GRPC:
		httpReq.Header.Set("Content-Type", "application/grpc+proto")
		httpReq.Header.Set("Te", "trailers")
		if encoding != "" {
			httpReq.Header.Set("Grpc-Encoding", encoding)
		}
	default:
		httpReq.Header.Set("Content-Type", "application/grpc-web+proto")
		if encoding != "" {
			httpReq.Header.Set("Grpc-Encoding", encoding)
		}
	}
	client := verifC19RawH1
	if req.HttpVersion == conformancev1.HTTPVersion_HTTP_VERSION_2 {
		client = verifC19RawH2
	}
	resp, err := client.Do(httpReq)
	if err != nil {
		if os.Getenv("VERIF_DEBUG") != "" {
			fmt.Fprintf(os.Stderr, "verif: raw call: %v\n", err)
		}
		return "", 0, "raw-io"
	}
	defer resp.Body.Close()
	if resp.StatusCode != http.StatusOK {
		return "", 0, "http-" + strconv.Itoa(resp.StatusCode)
	}
	respBody, readErr := io.ReadAll(resp.Body)
	payloads, code, ended := 0, "", false
	if status := resp.Header.Get("Grpc-Status"); status != "" && req.Protocol != conformancev1.Protocol_PROTOCOL_CONNECT {
		code, ended = status, true // trailers-only response
	}
	for len(respBody) >= 5 && !ended {
		flags, size := respBody[0], int(binary.BigEndian.Uint32(respBody[1:5]))
		if len(respBody) < 5+size {
			break
		}
		data := respBody[5 : 5+size]
		respBody = respBody[5+size:]
		last := (req.Protocol == conformancev1.Protocol_PROTOCOL_CONNECT && flags&2 != 0) ||
			(req.Protocol == conformancev1.Protocol_PROTOCOL_GRPC_WEB && flags&0x80 != 0)
		if last && flags&1 != 0 {
			// the server answers in the encoding of the request, end-of-stream message / trailers included
			decomp, err := compression.GetDecompressor(req.Compression)
			if err != nil || decomp.Reset(bytes.NewReader(data)) != nil {
				return "", payloads, "raw-end-stream"
			}
			if data, err = io.ReadAll(decomp); err != nil {
				return "", payloads, "raw-end-stream"
			}
		}
		switch {
		case req.Protocol == conformancev1.Protocol_PROTOCOL_CONNECT && flags&2 != 0:
			var endStream struct {
				Error *struct {
					Code string `json:"code"`
				} `json:"error"`
			}
			if err := json.Unmarshal(data, &endStream); err != nil {
				return "", payloads, "raw-end-stream"
			}
			ended = true
			if endStream.Error != nil {
				code = endStream.Error.Code
			}
		case req.Protocol == conformancev1.Protocol_PROTOCOL_GRPC_WEB && flags&0x80 != 0:
			ended = true
			code = "missing" // trailers must carry a status
			for _, line := range strings.Split(string(data), "\r\n") {
				if name, val, ok := strings.Cut(line, ":"); ok && strings.EqualFold(strings.TrimSpace(name), "grpc-status") {
					code = strings.TrimSpace(val)
				}
			}
		default:
			payloads++
		}
	}
	if !ended && req.Protocol == conformancev1.Protocol_PROTOCOL_GRPC {
		if status := resp.Trailer.Get("Grpc-Status"); status != "" {
			code, ended = status, true
		}
	}
	if !ended {
		if os.Getenv("VERIF_DEBUG") != "" {
			fmt.Fprintf(os.Stderr, "verif: raw call: response not terminated (read error %v, %d bytes left)\n", readErr, len(respBody))
		}
		return "", payloads, "raw-unterminated"
	}
	if code == "0" {
		code = ""
	}
	return code, payloads, ""
}

// side (offs) sender httpVersion protocol compression streamType fill -> (limit (sizes) accepted k)
//
// side 0: a client stream / half-duplex / full-duplex bidi stream of len(offs) request messages,
// message i of uncompressed size serverReceiveLimit+offs[i] (every message sized by
// expandRequestData), sent to the reference server by the reference client (sender 0) or by a plain
// HTTP client with an undeclared (sender 1) or a declared (sender 2) body length.
// side 1: a server stream / bidi stream of len(offs) response messages of uncompressed size
// clientReceiveLimit+offs[i] from the exact-size handler to the reference client.
// k: -1 if accepted; otherwise the number of responses received where that tells how far the
// receiver got (side 1: the reference client's payloads; full duplex: the server answers each
// request before it reads the next), else -2.
func verifC19Stream(args []vsx) vsx {
	if len(args) != 8 && len(args) != 10 || args[1].k != 'l' || len(args[1].l) < 2 || len(args[1].l) > 16 {
		return vErr("bad-case")
	}
	for i, a := range args {
		if i != 1 && (a.k != 'i' || a.g != nil) {
			return vErr("bad-case")
		}
	}
	offs := make([]int64, len(args[1].l))
	for i, o := range args[1].l {
		if o.k != 'i' || o.g != nil || o.i < -4096 || o.i > 4096 {
			return vErr("bad-case")
		}
		offs[i] = o.i
	}
	side, sender, fill := args[0].i, args[2].i, args[7].i
	httpVersion := conformancev1.HTTPVersion(args[3].i)
	protocol := conformancev1.Protocol(args[4].i)
	compress := conformancev1.Compression(args[5].i)
	streamType := conformancev1.StreamType(args[6].i)
	// optional: codec (side 1: the codec of the RPC; the response messages are sized in its encoding) and
	// def (side 0, client stream: 1 = the response definition in the first request asks for an ERROR response)
	codec, errorDef := conformancev1.Codec_CODEC_PROTO, false
	const definedCode = conformancev1.Code_CODE_ABORTED
	if len(args) == 10 {
		codec, errorDef = conformancev1.Codec(args[8].i), args[9].i == 1
		if codec != conformancev1.Codec_CODEC_PROTO && codec != conformancev1.Codec_CODEC_JSON || args[9].i < 0 || args[9].i > 1 ||
			codec != conformancev1.Codec_CODEC_PROTO && args[0].i != 1 ||
			// the error response echoes every request in its details (some 1.3 x their size in the end-of-stream
			// message), which the reference client would measure against its own limit: plain HTTP senders only
			errorDef && (args[0].i != 0 || streamType != conformancev1.StreamType_STREAM_TYPE_CLIENT_STREAM || args[2].i == 0) {
			return vErr("bad-case")
		}
	}
	const (
		clientStream = conformancev1.StreamType_STREAM_TYPE_CLIENT_STREAM
		serverStream = conformancev1.StreamType_STREAM_TYPE_SERVER_STREAM
		halfDuplex   = conformancev1.StreamType_STREAM_TYPE_HALF_DUPLEX_BIDI_STREAM
		fullDuplex   = conformancev1.StreamType_STREAM_TYPE_FULL_DUPLEX_BIDI_STREAM
	)
	switch {
	case side != 0 && side != 1, fill != 0 && fill != 1, sender < 0 || sender > 2, side == 1 && sender != 0,
		httpVersion != conformancev1.HTTPVersion_HTTP_VERSION_1 && httpVersion != conformancev1.HTTPVersion_HTTP_VERSION_2,
		protocol < conformancev1.Protocol_PROTOCOL_CONNECT || protocol > conformancev1.Protocol_PROTOCOL_GRPC_WEB,
		compress < conformancev1.Compression_COMPRESSION_IDENTITY || compress > conformancev1.Compression_COMPRESSION_SNAPPY,
		// incompressible content under a compression is the known finding wire-size-also-limited (kind c19.sharp)
		fill == 1 && compress != conformancev1.Compression_COMPRESSION_IDENTITY,
		side == 0 && streamType != clientStream && streamType != halfDuplex && streamType != fullDuplex,
		side == 1 && streamType != serverStream && streamType != halfDuplex && streamType != fullDuplex,
		httpVersion == conformancev1.HTTPVersion_HTTP_VERSION_1 && protocol == conformancev1.Protocol_PROTOCOL_GRPC,
		httpVersion == conformancev1.HTTPVersion_HTTP_VERSION_1 && streamType == fullDuplex:
		return vErr("bad-case")
	}
	if side == 1 && streamType == fullDuplex {
		// Not exercised with a rejected message: on a message above the limit connect-go's client drains
		// the rest of the response before it reports the error, a full-duplex peer waits for the next
		// request before it ends the response, and neither gives way (dependency behaviour, unrelated to
		// where the limit lies).  Full-duplex responses are covered with acceptable messages only;
		// rejection at each position is covered by server streams and half-duplex bidi streams.
		for _, off := range offs {
			if off > 0 {
				return vErr("bad-case")
			}
		}
	}
	if side == 0 && sender == 0 && streamType != fullDuplex && int64(len(offs))*(int64(serverReceiveLimit)+64) > int64(clientReceiveLimit) {
		// the reference server echoes every request of a client stream / half-duplex stream in ONE response
		// message, which the reference client measures against its own limit: longer streams of sized
		// requests come from the plain HTTP senders
		return vErr("bad-case")
	}
	verifC19.mu.Lock()
	defer verifC19.mu.Unlock()

	count := len(offs)
	small := []byte("ok")
	testCase := &conformancev1.TestCase{Request: &conformancev1.ClientCompatRequest{}}
	req := testCase.Request
	sizes := make([]int64, count)
	var limit int64
	var method string
	var server *conformancev1.ServerCompatResponse
	var err error
	wantPayloads := count
	var wrap func(*conformancev1.ConformancePayload) proto.Message

	if side == 0 {
		limit = int64(serverReceiveLimit)
		smalls := make([][]byte, count)
		for i := range smalls {
			smalls[i] = small
		}
		anyPositive := false
		for i, off := range offs {
			var pad []byte
			if fill == 1 {
				pad = make([]byte, limit-100)
				if off >= 0 {
					pad = make([]byte, limit+100)
				}
				verifC19Noise(pad, uint64(limit+off)+uint64(i)<<32)
			}
			var msg proto.Message
			if streamType == clientStream {
				method = "ClientStream"
				wantPayloads = 1
				csr := &conformancev1.ClientStreamRequest{RequestData: pad}
				if i == 0 {
					csr.ResponseDefinition = &conformancev1.UnaryResponseDefinition{
						Response: &conformancev1.UnaryResponseDefinition_ResponseData{ResponseData: small},
					}
					if errorDef {
						csr.ResponseDefinition.Response = &conformancev1.UnaryResponseDefinition_Error{
							Error: &conformancev1.Error{Code: definedCode, Message: proto.String("as asked")},
						}
					}
				}
				msg = csr
			} else {
				method = "BidiStream"
				bsr := &conformancev1.BidiStreamRequest{RequestData: pad}
				if i == 0 {
					bsr.ResponseDefinition = &conformancev1.StreamResponseDefinition{ResponseData: smalls}
					bsr.FullDuplex = streamType == fullDuplex
				}
				msg = bsr
			}
			req.RequestMessages = append(req.RequestMessages, verifC19Any(msg))
			testCase.ExpandRequests = append(testCase.ExpandRequests,
				&conformancev1.TestCase_ExpandedSize{SizeRelativeToLimit: proto.Int32(int32(off))})
			anyPositive = anyPositive || off > 0
		}
		if err := expandRequestData(testCase); err != nil {
			return vErr("expand-failed")
		}
		for i, msg := range req.RequestMessages {
			sizes[i] = int64(len(msg.Value))
		}
		if anyPositive && sender == 0 {
			req.RequestDelayMs = 50 // as the shipped suites do: let the client notice the rejection
		}
		server, err = verifC19.server(httpVersion, uint32(serverReceiveLimit))
	} else {
		limit = int64(clientReceiveLimit)
		specs := make([][]byte, count)
		wrap = verifC19WrapBidi
		if streamType == serverStream {
			wrap = verifC19WrapStream
		}
		for i, off := range offs {
			specs[i] = verifC19Spec(limit+off, fill, codec)
			payload := verifC19SizedPayload(specs[i], wrap)
			if payload == nil || int64(verifC19EncSize(codec, wrap(payload))) != limit+off {
				return vErr("response-size-unreachable")
			}
			sizes[i] = limit + off
		}
		def := &conformancev1.StreamResponseDefinition{ResponseData: specs}
		if streamType == serverStream {
			method = "ServerStream"
			req.RequestMessages = []*anypb.Any{verifC19Any(&conformancev1.ServerStreamRequest{ResponseDefinition: def})}
		} else {
			method = "BidiStream"
			full := streamType == fullDuplex
			req.RequestMessages = []*anypb.Any{verifC19Any(&conformancev1.BidiStreamRequest{ResponseDefinition: def, FullDuplex: full})}
			for i := 1; full && i < count; i++ {
				req.RequestMessages = append(req.RequestMessages, verifC19Any(&conformancev1.BidiStreamRequest{RequestData: small}))
			}
		}
		server, err = verifC19.stub(httpVersion)
	}
	if err != nil {
		return vErr("server-start")
	}
	verifC19Address(req, server, httpVersion, protocol, compress, method, streamType)
	if codec != conformancev1.Codec_CODEC_PROTO {
		verifC19SetCodec(req, codec)
	}

	var accepted bool
	var payloads int
	// outcome of the RPC: 0 = normal response, 1 = the error the response definition asks for, 2 = resource_exhausted
	outcome := int64(2)
	if sender == 0 {
		resp, err := verifC19.call(req)
		if err != nil {
			return vErr("client-io")
		}
		if resp.GetError() != nil {
			if os.Getenv("VERIF_DEBUG") != "" {
				fmt.Fprintf(os.Stderr, "verif: client error: %s\n", resp.GetError().Message)
			}
			return vErr("client-error")
		}
		result := resp.GetResponse()
		payloads = len(result.Payloads)
		switch {
		case errorDef && result.GetError().GetCode() == definedCode:
			// every message was received: the server got as far as answering what the definition asks for
			accepted, outcome, wantPayloads = true, 1, 0
		case result.GetError() == nil:
			accepted, outcome = true, 0
			if side == 1 {
				// every sized message must have arrived whole
				for i, payload := range result.Payloads {
					if i < count && int64(verifC19EncSize(codec, wrap(payload))) != sizes[i] {
						return vErr("response-size-differs")
					}
				}
			}
		case result.GetError().GetCode() == conformancev1.Code_CODE_RESOURCE_EXHAUSTED:
			if os.Getenv("VERIF_DEBUG") != "" {
				fmt.Fprintf(os.Stderr, "verif: %s: %s\n", req.TestName, result.GetError().GetMessage())
			}
		default:
			if os.Getenv("VERIF_DEBUG") != "" {
				fmt.Fprintf(os.Stderr, "verif: rpc error: %v\n", result.GetError())
			}
			return vErr("code-" + strconv.Itoa(int(result.GetError().GetCode())))
		}
	} else {
		ctx, cancel := context.WithTimeout(context.Background(), 30*time.Second)
		defer cancel()
		code, n, tag := verifC19RawCall(ctx, req, sender == 2)
		if tag != "" {
			return vErr(tag)
		}
		payloads = n
		switch code {
		case "aborted", "10":
			if !errorDef {
				return vErr("code-" + code)
			}
			accepted, outcome, wantPayloads = true, 1, 0
		case "":
			accepted, outcome = true, 0
		case "resource_exhausted", "8":
			if os.Getenv("VERIF_DEBUG") != "" {
				fmt.Fprintf(os.Stderr, "verif: %s: raw call rejected after %d responses\n", req.TestName, n)
			}
		default:
			return vErr("code-" + code)
		}
	}
	progress := int64(-2)
	if accepted {
		progress = -1
		if payloads != wantPayloads { // an accepted exchange must also be complete
			return vErr(fmt.Sprintf("payloads-%d", payloads))
		}
	} else if side == 1 || streamType == fullDuplex {
		progress = int64(payloads)
	}
	sizeList := make([]vsx, count)
	for i, size := range sizes {
		sizeList[i] = vI(size)
	}
	if len(args) == 10 {
		return vL(vI(limit), vL(sizeList...), vBool(accepted), vI(progress), vI(outcome))
	}
	return vL(vI(limit), vL(sizeList...), vBool(accepted), vI(progress))
}

// ---------------------------------------------------------------------------
// c19.load: a suite file through parseTestSuites
// ---------------------------------------------------------------------------

var verifC19CaseName = regexp.MustCompile(`test case "case-(\d+)"`)

// flag mode (codecs) ((streamType (msgs) (dirs))...) -> (((base n size untouched)...)...) | (err tag i)
//
// The suite is written out as JSON (which protoyaml reads: YAML is a superset) from a TestSuite
// message with relies_on_message_receive_limit = flag, the mode, the relevant codecs and the test
// cases as described; what parseTestSuites returns is observed exactly as in c19.expand.
func verifC19Load(args []vsx) vsx {
	if len(args) != 4 || args[0].k != 'i' || args[1].k != 'i' || args[2].k != 'l' || args[3].k != 'l' ||
		args[0].g != nil || args[1].g != nil || args[0].i < 0 || args[0].i > 1 || args[1].i < 0 || args[1].i > 2 ||
		len(args[3].l) > 8 {
		return vErr("bad-case")
	}
	suite := &conformancev1.TestSuite{
		Name:                        "Verif Load",
		Mode:                        conformancev1.TestSuite_TestMode(args[1].i),
		ReliesOnMessageReceiveLimit: args[0].i == 1,
	}
	for _, c := range args[2].l {
		if c.k != 'i' || c.g != nil || c.i < 0 || c.i > 3 {
			return vErr("bad-case")
		}
		suite.RelevantCodecs = append(suite.RelevantCodecs, conformancev1.Codec(c.i))
	}
	before := make([][]verifC19Obs, len(args[3].l))
	for idx, tc := range args[3].l {
		if tc.k != 'l' || len(tc.l) != 3 || tc.l[0].k != 'i' || tc.l[0].g != nil || tc.l[0].i < 0 || tc.l[0].i > 6 ||
			tc.l[1].k != 'l' || tc.l[2].k != 'l' || len(tc.l[1].l) > 6 || len(tc.l[2].l) > 8 {
			return vErr("bad-case")
		}
		testCase := &conformancev1.TestCase{Request: &conformancev1.ClientCompatRequest{
			TestName:   fmt.Sprintf("case-%02d", idx),
			StreamType: conformancev1.StreamType(tc.l[0].i),
		}}
		for _, d := range tc.l[1].l {
			if d.k != 'l' || len(d.l) != 5 {
				return vErr("bad-case")
			}
			for _, f := range d.l {
				if f.k != 'i' || f.g != nil {
					return vErr("bad-case")
				}
			}
			// types 6 and 7 (unknown type URL, undecodable value) cannot be written into a suite file
			if d.l[0].i < 0 || d.l[0].i > 5 || d.l[3].i < 0 || d.l[3].i > 1<<22 || d.l[1].i > 1<<20 || d.l[4].i < 0 || d.l[4].i > 1<<20 {
				return vErr("bad-case")
			}
			a, err := verifC19Message(d)
			if err != nil {
				return vErr("harness-message")
			}
			obs := verifC19Observe(a)
			if int(d.l[4].i) != obs.base { // ill-formed (shrunk) case, see c19.expand
				return vErr("bad-case")
			}
			testCase.Request.RequestMessages = append(testCase.Request.RequestMessages, a)
			before[idx] = append(before[idx], obs)
		}
		for _, d := range tc.l[2].l {
			if d.k != 'l' || len(d.l) > 1 || (len(d.l) == 1 && (d.l[0].k != 'i' || d.l[0].g != nil ||
				d.l[0].i < -(1<<31) || d.l[0].i >= 1<<31)) {
				return vErr("bad-case")
			}
			sz := &conformancev1.TestCase_ExpandedSize{}
			if len(d.l) == 1 {
				sz.SizeRelativeToLimit = proto.Int32(int32(d.l[0].i))
			}
			testCase.ExpandRequests = append(testCase.ExpandRequests, sz)
		}
		suite.TestCases = append(suite.TestCases, testCase)
	}
	data, err := protojson.Marshal(suite)
	if err != nil {
		return vErr("harness-marshal")
	}
	const path = "verif_load.yaml"
	suites, err := parseTestSuites(map[string][]byte{path: data})
	if err != nil {
		text := err.Error()
		if os.Getenv("VERIF_DEBUG") != "" {
			fmt.Fprintf(os.Stderr, "verif: parseTestSuites: %v\n", err)
		}
		idx := int64(-1)
		if m := verifC19CaseName.FindStringSubmatch(text); m != nil {
			idx, _ = strconv.ParseInt(m[1], 10, 64)
		}
		tag := "other"
		switch {
		case strings.Contains(text, "includes codecs other than CODEC_PROTO"):
			tag = "codec"
		case strings.Contains(text, "failed to expand request sizes"):
			tag = string(verifC19ErrTag(err).l[1].b)
		}
		return vL(vS("err"), vS(tag), vI(idx))
	}
	loaded := suites[path]
	if loaded == nil || len(suites) != 1 || len(loaded.TestCases) != len(before) {
		return vErr("suite-shape")
	}
	if loaded.ReliesOnMessageReceiveLimit != suite.ReliesOnMessageReceiveLimit || loaded.Mode != suite.Mode ||
		len(loaded.RelevantCodecs) != len(suite.RelevantCodecs) {
		return vErr("suite-header-changed")
	}
	out := make([]vsx, len(before))
	for idx, testCase := range loaded.TestCases {
		if len(testCase.Request.RequestMessages) != len(before[idx]) || len(testCase.ExpandRequests) != len(suite.TestCases[idx].ExpandRequests) ||
			testCase.Request.StreamType != suite.TestCases[idx].Request.StreamType {
			return vErr("case-shape")
		}
		msgs := make([]vsx, len(before[idx]))
		for i, a := range testCase.Request.RequestMessages {
			after, prev := verifC19Observe(a), before[idx][i]
			untouched := after.typeURL == prev.typeURL
			if prev.cleared != nil && after.cleared != nil {
				untouched = untouched && proto.Equal(prev.cleared, after.cleared)
			} else {
				untouched = untouched && bytes.Equal(prev.raw, after.raw)
			}
			if after.cleared != nil && after.size != proto.Size(after.cleared)+verifC19FieldSize(after.n) {
				return vErr("size-bookkeeping")
			}
			msgs[i] = vL(vInt(after.base), vInt(after.n), vInt(after.size), vBool(untouched))
		}
		out[idx] = vL(msgs...)
	}
	return vL(out...)
}

var _ = internal.DefaultHost
var _ = conformancev1connect.ConformanceServiceName
