//go:build verif

package connectconformance

// c19.client_seq: a HISTORY of requests through ONE reference client process, every request with
// its OWN message_receive_limit.
//
// The reference client reads ClientCompatRequests from stdin one after the other (run -> invoke) and
// must hold the responses of each to the limit THAT request carries: "the reference client does the
// same for responses" is stated for the client, not for the first request a process happens to see.
// The other client-side kinds (c19.sharp / c19.stream side 1) all carry clientReceiveLimit, as the
// runner's library does, so a limit remembered across requests (a package-level cache, a reused option
// slice, a pooled transport with the limit baked in) never showed.  Here the requests of one case go,
// in order, through the same in-process client (the real run loop and invoke, the same process-wide
// state) with limits that differ from request to request; the peer is the exact-size stub handler.
//
// ((limit off streamType)...) httpVersion protocol compression codec -> ((limit size accepted)...)
//   limit 0 = no limit asked for (invoke installs none); size = limit + off bytes in the codec's encoding

import (
	"fmt"
	"os"
	"strconv"

	conformancev1 "connectrpc.com/conformance/internal/gen/proto/go/connectrpc/conformance/v1"
	"google.golang.org/protobuf/encoding/protojson"
	"google.golang.org/protobuf/proto"
	"google.golang.org/protobuf/types/known/anypb"
)

func init() {
	verifKinds["c19.client_seq"] = verifC19ClientSeq
}

const (
	verifC19SeqMaxLimit = 16 << 20
	verifC19SeqMaxSize  = 20 << 20
)

func verifC19ClientSeq(args []vsx) vsx {
	if len(args) != 5 || args[0].k != 'l' || len(args[0].l) < 1 || len(args[0].l) > 32 {
		return vErr("bad-case")
	}
	for _, a := range args[1:] {
		if a.k != 'i' || a.g != nil {
			return vErr("bad-case")
		}
	}
	httpVersion := conformancev1.HTTPVersion(args[1].i)
	protocol := conformancev1.Protocol(args[2].i)
	compress := conformancev1.Compression(args[3].i)
	codec := conformancev1.Codec(args[4].i)
	switch {
	case httpVersion != conformancev1.HTTPVersion_HTTP_VERSION_1 && httpVersion != conformancev1.HTTPVersion_HTTP_VERSION_2,
		protocol < conformancev1.Protocol_PROTOCOL_CONNECT || protocol > conformancev1.Protocol_PROTOCOL_GRPC_WEB,
		compress < conformancev1.Compression_COMPRESSION_IDENTITY || compress > conformancev1.Compression_COMPRESSION_SNAPPY,
		codec != conformancev1.Codec_CODEC_PROTO && codec != conformancev1.Codec_CODEC_JSON,
		httpVersion == conformancev1.HTTPVersion_HTTP_VERSION_1 && protocol == conformancev1.Protocol_PROTOCOL_GRPC:
		return vErr("bad-case")
	}
	type one struct {
		limit, off int64
		streamType conformancev1.StreamType
	}
	reqs := make([]one, 0, len(args[0].l))
	for _, r := range args[0].l {
		if r.k != 'l' || len(r.l) != 3 {
			return vErr("bad-case")
		}
		for _, a := range r.l {
			if a.k != 'i' || a.g != nil {
				return vErr("bad-case")
			}
		}
		o := one{limit: r.l[0].i, off: r.l[1].i, streamType: conformancev1.StreamType(r.l[2].i)}
		size := o.limit + o.off
		switch {
		case o.limit < 0 || o.limit > verifC19SeqMaxLimit, size < 16 || size > verifC19SeqMaxSize,
			o.streamType != conformancev1.StreamType_STREAM_TYPE_UNARY && o.streamType != conformancev1.StreamType_STREAM_TYPE_SERVER_STREAM:
			return vErr("bad-case")
		}
		reqs = append(reqs, o)
	}
	verifC19.mu.Lock()
	defer verifC19.mu.Unlock()
	server, err := verifC19.stub(httpVersion)
	if err != nil {
		return vErr("server-start")
	}
	out := make([]vsx, 0, len(reqs))
	for idx, o := range reqs {
		size := o.limit + o.off
		spec := verifC19Spec(size, 0, codec)
		wrap, method, wantPayloads := verifC19WrapStream, "ServerStream", 2
		if o.streamType == conformancev1.StreamType_STREAM_TYPE_UNARY {
			wrap, method, wantPayloads = verifC19WrapUnary, "Unary", 1
		}
		payload := verifC19SizedPayload(spec, wrap)
		if payload == nil {
			return vErr("response-size-unreachable-" + strconv.Itoa(idx))
		}
		var msgBytes []byte
		var merr error
		if codec == conformancev1.Codec_CODEC_JSON {
			msgBytes, merr = protojson.MarshalOptions{}.Marshal(wrap(payload))
		} else {
			msgBytes, merr = proto.Marshal(wrap(payload))
		}
		if merr != nil || int64(len(msgBytes)) != size {
			return vErr("response-size-unreachable-" + strconv.Itoa(idx))
		}
		req := &conformancev1.ClientCompatRequest{}
		if o.streamType == conformancev1.StreamType_STREAM_TYPE_UNARY {
			req.RequestMessages = []*anypb.Any{verifC19Any(&conformancev1.UnaryRequest{
				ResponseDefinition: &conformancev1.UnaryResponseDefinition{
					Response: &conformancev1.UnaryResponseDefinition_ResponseData{ResponseData: spec},
				},
			})}
		} else {
			req.RequestMessages = []*anypb.Any{verifC19Any(&conformancev1.ServerStreamRequest{
				ResponseDefinition: &conformancev1.StreamResponseDefinition{ResponseData: [][]byte{spec}},
			})}
		}
		verifC19Address(req, server, httpVersion, protocol, compress, method, o.streamType)
		req.MessageReceiveLimit = uint32(o.limit) // THIS request's own limit (0: none)
		if codec != conformancev1.Codec_CODEC_PROTO {
			verifC19SetCodec(req, codec)
		}
		resp, err := verifC19.call(req)
		if err != nil {
			return vErr("client-io")
		}
		if resp.GetError() != nil {
			if os.Getenv("VERIF_DEBUG") != "" {
				fmt.Fprintf(os.Stderr, "verif: client error: %s\n", resp.GetError().Message)
			}
			return vErr("client-error")
		}
		result := resp.GetResponse()
		var accepted bool
		switch {
		case result.GetError() == nil:
			accepted = true
			if len(result.Payloads) != wantPayloads {
				return vErr(fmt.Sprintf("payloads-%d-%d", idx, len(result.Payloads)))
			}
			last := result.Payloads[len(result.Payloads)-1]
			if int64(verifC19EncSize(codec, wrap(last))) != size {
				return vErr("response-size-differs-" + strconv.Itoa(idx))
			}
		case result.GetError().GetCode() == conformancev1.Code_CODE_RESOURCE_EXHAUSTED:
			accepted = false
			if os.Getenv("VERIF_DEBUG") != "" {
				fmt.Fprintf(os.Stderr, "verif: %s: %s\n", req.TestName, result.GetError().GetMessage())
			}
		default:
			if os.Getenv("VERIF_DEBUG") != "" {
				fmt.Fprintf(os.Stderr, "verif: rpc error: %v\n", result.GetError())
			}
			return vErr("code-" + strconv.Itoa(idx) + "-" + strconv.Itoa(int(result.GetError().GetCode())))
		}
		out = append(out, vL(vI(o.limit), vI(size), vBool(accepted)))
	}
	return vL(out...)
}
