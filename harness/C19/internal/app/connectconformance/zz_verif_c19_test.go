//go:build verif

package connectconformance

import (
	"bytes"
	"context"
	"encoding/binary"
	"errors"
	"fmt"
	"go/ast"
	"go/parser"
	"go/token"
	"io"
	"net"
	"net/http"
	"os"
	"path/filepath"
	"sort"
	"strconv"
	"strings"
	"sync"
	"testing"
	"time"

	"connectrpc.com/conformance/internal"
	"connectrpc.com/conformance/internal/app/referenceclient"
	"connectrpc.com/conformance/internal/app/referenceserver"
	"connectrpc.com/conformance/internal/compression"
	conformancev1 "connectrpc.com/conformance/internal/gen/proto/go/connectrpc/conformance/v1"
	"connectrpc.com/conformance/internal/gen/proto/go/connectrpc/conformance/v1/conformancev1connect"
	"connectrpc.com/connect"
	"golang.org/x/net/http2"
	"golang.org/x/net/http2/h2c"
	"google.golang.org/protobuf/encoding/protojson"
	"google.golang.org/protobuf/proto"
	"google.golang.org/protobuf/reflect/protoreflect"
	"google.golang.org/protobuf/types/known/anypb"
)

func init() {
	verifKinds["c19.expand"] = verifC19Expand
	verifKinds["c19.sharp"] = verifC19Sharp
	verifKinds["c19.wiring"] = verifC19Wiring
}

// ---------------------------------------------------------------------------
// constants and descriptor facts the Coq development is re-checked against
// ---------------------------------------------------------------------------

func verifC19PaddedTypes() []proto.Message {
	return []proto.Message{
		&conformancev1.UnaryRequest{},
		&conformancev1.IdempotentUnaryRequest{},
		&conformancev1.ServerStreamRequest{},
		&conformancev1.ClientStreamRequest{},
		&conformancev1.BidiStreamRequest{},
	}
}

func TestVerifConsts(t *testing.T) {
	out := os.Getenv("VERIF_OUT")
	if out == "" {
		t.Skip("VERIF_OUT not set")
	}
	var sb strings.Builder
	fmt.Fprintf(&sb, "Definition c19_server_receive_limit : Z := %d%%Z.\n", int64(serverReceiveLimit))
	fmt.Fprintf(&sb, "Definition c19_client_receive_limit : Z := %d%%Z.\n", int64(clientReceiveLimit))
	nums := make([]string, 0, 5)
	for _, m := range verifC19PaddedTypes() {
		field := m.ProtoReflect().Descriptor().Fields().ByName("request_data")
		num := int64(99999999) // makes tag_one_byte fail if the field is not what the model assumes
		if field != nil && field.Kind() == protoreflect.BytesKind && field.Cardinality() == protoreflect.Optional &&
			!field.HasPresence() {
			num = int64(field.Number())
		}
		nums = append(nums, strconv.FormatInt(num, 10))
	}
	fmt.Fprintf(&sb, "Definition c19_pad_field_numbers : list Z := [%s]%%Z.\n", strings.Join(nums, "; "))
	// the read-limiting call sites of the set-up code of both reference peers (C19_Model: chain_of)
	for _, peer := range []struct{ name, dir string }{{"server", "../referenceserver"}, {"client", "../referenceclient"}} {
		kinds, err := verifC19ReadLimiters(peer.dir)
		if err != nil {
			t.Fatal(err)
		}
		fmt.Fprintf(&sb, "Definition c19_%s_read_limiters : list Z := [%s]%%Z.\n", peer.name, strings.Join(kinds, "; "))
	}
	if err := os.WriteFile(out, []byte(sb.String()), 0o644); err != nil {
		t.Fatal(err)
	}
}

// verifC19ReadLimiters lists, in source order, the calls in the non-test files of a package that put a
// bound on what is read from a request / response: 0 for connect.WithReadMaxBytes (a bound on each
// message), 1 for anything that bounds a body as a whole (http.MaxBytesHandler, http.MaxBytesReader,
// io.LimitReader, an io.LimitedReader literal).
func verifC19ReadLimiters(dir string) ([]string, error) {
	files, err := filepath.Glob(filepath.Join(dir, "*.go"))
	if err != nil {
		return nil, err
	}
	sort.Strings(files)
	perBody := map[string]bool{"http.MaxBytesHandler": true, "http.MaxBytesReader": true, "io.LimitReader": true, "io.LimitedReader": true}
	var kinds []string
	fset := token.NewFileSet()
	for _, file := range files {
		if strings.HasSuffix(file, "_test.go") {
			continue
		}
		parsed, err := parser.ParseFile(fset, file, nil, 0)
		if err != nil {
			return nil, err
		}
		// names the file imports the packages under
		alias := map[string]string{}
		for _, imp := range parsed.Imports {
			path, _ := strconv.Unquote(imp.Path.Value)
			canonical := map[string]string{"connectrpc.com/connect": "connect", "net/http": "http", "io": "io"}[path]
			if canonical == "" {
				continue
			}
			name := canonical
			if imp.Name != nil {
				name = imp.Name.Name
			}
			alias[name] = canonical
		}
		ast.Inspect(parsed, func(node ast.Node) bool {
			var sel *ast.SelectorExpr
			switch n := node.(type) {
			case *ast.CallExpr:
				sel, _ = n.Fun.(*ast.SelectorExpr)
			case *ast.CompositeLit:
				sel, _ = n.Type.(*ast.SelectorExpr)
			}
			if sel == nil {
				return true
			}
			pkg, ok := sel.X.(*ast.Ident)
			if !ok || alias[pkg.Name] == "" {
				return true
			}
			switch name := alias[pkg.Name] + "." + sel.Sel.Name; {
			case name == "connect.WithReadMaxBytes":
				kinds = append(kinds, "0")
			case perBody[name]:
				kinds = append(kinds, "1")
			}
			return true
		})
	}
	return kinds, nil
}

// ---------------------------------------------------------------------------
// c19.expand: expandRequestData on generated request lists
// ---------------------------------------------------------------------------

// message description (type k fd n0 base): base is the generator's claim, checked below by
// being reported from the real message.
func verifC19Message(d vsx) (*anypb.Any, error) {
	ty, k, fd, n0, base := int(d.l[0].i), int(d.l[1].i), d.l[2].i != 0, int(d.l[3].i), int(d.l[4].i)
	pad := bytes.Repeat([]byte{0xA5}, n0)
	if n0 == 0 {
		pad = nil
	}
	var unaryDef *conformancev1.UnaryResponseDefinition
	var streamDef *conformancev1.StreamResponseDefinition
	if k >= 0 {
		unaryDef = &conformancev1.UnaryResponseDefinition{
			Response: &conformancev1.UnaryResponseDefinition_ResponseData{ResponseData: make([]byte, k)},
		}
		streamDef = &conformancev1.StreamResponseDefinition{ResponseData: [][]byte{make([]byte, k)}}
	}
	var msg proto.Message
	switch ty {
	case 0:
		msg = &conformancev1.UnaryRequest{ResponseDefinition: unaryDef, RequestData: pad}
	case 1:
		msg = &conformancev1.IdempotentUnaryRequest{ResponseDefinition: unaryDef, RequestData: pad}
	case 2:
		msg = &conformancev1.ServerStreamRequest{ResponseDefinition: streamDef, RequestData: pad}
	case 3:
		msg = &conformancev1.ClientStreamRequest{ResponseDefinition: unaryDef, RequestData: pad}
	case 4:
		msg = &conformancev1.BidiStreamRequest{ResponseDefinition: streamDef, FullDuplex: fd, RequestData: pad}
	case 5:
		// a message type of the service without a request_data field
		var data []byte
		if k > 0 {
			data = make([]byte, k)
		}
		return anypb.New(&conformancev1.ConformancePayload{Data: data})
	case 6:
		return &anypb.Any{TypeUrl: "type.googleapis.com/verif.NoSuchMessage", Value: make([]byte, base)}, nil
	default:
		// known type, undecodable value (truncated length-delimited field)
		val := bytes.Repeat([]byte{0x0a}, base)
		return &anypb.Any{TypeUrl: "type.googleapis.com/connectrpc.conformance.v1.UnaryRequest", Value: val}, nil
	}
	return anypb.New(msg)
}

type verifC19Obs struct {
	base, n, size int
	cleared       proto.Message
	typeURL       string
	raw           []byte
}

func verifC19Observe(a *anypb.Any) verifC19Obs {
	obs := verifC19Obs{size: len(a.Value), typeURL: a.TypeUrl, raw: a.Value}
	msg, err := a.UnmarshalNew()
	if err != nil {
		obs.base = len(a.Value)
		return obs
	}
	refl := msg.ProtoReflect()
	field := refl.Descriptor().Fields().ByName("request_data")
	if field == nil {
		obs.base = len(a.Value)
		return obs
	}
	obs.n = len(refl.Get(field).Bytes())
	refl.Clear(field)
	obs.base = proto.Size(msg)
	obs.cleared = msg
	return obs
}

func verifC19ErrTag(err error) vsx {
	text := err.Error()
	switch {
	case strings.Contains(text, "expand directives indicate"):
		return vErr("too-many")
	case strings.Contains(text, "results in an invalid request size"):
		return vErr("range")
	case strings.Contains(text, "can't pad to exactly"):
		return vErr("unreachable")
	case strings.Contains(text, "has no request_data field"), strings.Contains(text, "request message #"):
		return vErr("unpaddable")
	}
	return vErr("other")
}

// (msgs) (dirs) -> ((base n size untouched)...) | (err tag)
func verifC19Expand(args []vsx) vsx {
	msgs, dirs := args[0].l, args[1].l
	testCase := &conformancev1.TestCase{Request: &conformancev1.ClientCompatRequest{TestName: "verif"}}
	before := make([]verifC19Obs, len(msgs))
	for i, d := range msgs {
		if len(d.l) != 5 || d.l[3].i < 0 || d.l[3].i > 1<<29 || d.l[1].i > 1<<20 || d.l[4].i < 0 || d.l[4].i > 1<<20 ||
			((d.l[0].i < 0 || d.l[0].i > 6) && d.l[4].i == 0) { // "undecodable" needs at least one byte
			return vErr("bad-case")
		}
		a, err := verifC19Message(d)
		if err != nil {
			return vErr("harness-" + err.Error())
		}
		testCase.Request.RequestMessages = append(testCase.Request.RequestMessages, a)
		before[i] = verifC19Observe(a)
		// The model computes with the base the case claims.  A case whose claim is not the
		// proto.Size of the message actually built (only the shrinker produces those: it moves
		// ints independently) is ill-formed, not a disagreement.  In a generated case this
		// result still differs from the model's, so a wrong generator is reported.
		if int(d.l[4].i) != before[i].base {
			return vErr("bad-case")
		}
	}
	for _, d := range dirs {
		sz := &conformancev1.TestCase_ExpandedSize{}
		if len(d.l) == 1 {
			sz.SizeRelativeToLimit = proto.Int32(int32(d.l[0].i))
		}
		testCase.ExpandRequests = append(testCase.ExpandRequests, sz)
	}
	if err := expandRequestData(testCase); err != nil {
		return verifC19ErrTag(err)
	}
	if len(testCase.Request.RequestMessages) != len(msgs) {
		return vErr("message-count-changed")
	}
	out := make([]vsx, len(msgs))
	for i, a := range testCase.Request.RequestMessages {
		after := verifC19Observe(a)
		untouched := after.typeURL == before[i].typeURL
		if before[i].cleared != nil && after.cleared != nil {
			untouched = untouched && proto.Equal(before[i].cleared, after.cleared)
		} else {
			untouched = untouched && bytes.Equal(before[i].raw, after.raw)
		}
		if after.cleared != nil && after.size != proto.Size(after.cleared)+verifC19FieldSize(after.n) {
			return vErr("size-bookkeeping")
		}
		out[i] = vL(vInt(after.base), vInt(after.n), vInt(after.size), vBool(untouched))
	}
	return vL(out...)
}

func verifC19FieldSize(n int) int {
	return proto.Size(&conformancev1.UnaryRequest{RequestData: make([]byte, n)})
}

// ---------------------------------------------------------------------------
// c19.sharp: the real reference server and reference client, in-process
// ---------------------------------------------------------------------------

type verifC19Peers struct {
	mu      sync.Mutex
	ctx     context.Context
	client  *process
	servers map[string]*conformancev1.ServerCompatResponse
	stubs   map[conformancev1.HTTPVersion]*conformancev1.ServerCompatResponse
	seq     int
	err     error
}

var verifC19 = &verifC19Peers{
	servers: map[string]*conformancev1.ServerCompatResponse{},
	stubs:   map[conformancev1.HTTPVersion]*conformancev1.ServerCompatResponse{},
}

func (p *verifC19Peers) clientProc() (*process, error) {
	if p.client != nil || p.err != nil {
		return p.client, p.err
	}
	p.ctx = context.Background()
	start := runInProcess([]string{"reference-client", "-p", "1"},
		func(ctx context.Context, args []string, in io.ReadCloser, out, errW io.WriteCloser) error {
			return referenceclient.RunInReferenceMode(ctx, args, in, out, errW, nil)
		})
	p.client, p.err = start(p.ctx, false)
	return p.client, p.err
}

func (p *verifC19Peers) server(httpVersion conformancev1.HTTPVersion, limit uint32) (*conformancev1.ServerCompatResponse, error) {
	key := fmt.Sprintf("%d/%d", httpVersion, limit)
	if resp, ok := p.servers[key]; ok {
		return resp, nil
	}
	start := runInProcess([]string{"reference-server", "-port", "0", "-bind", "127.0.0.1"},
		func(ctx context.Context, args []string, in io.ReadCloser, out, errW io.WriteCloser) error {
			return referenceserver.RunInReferenceMode(ctx, args, in, out, errW, nil)
		})
	proc, err := start(context.Background(), true)
	if err != nil {
		return nil, err
	}
	go func() { _, _ = io.Copy(io.Discard, proc.stderr) }()
	err = internal.WriteDelimitedMessage(proc.stdin, &conformancev1.ServerCompatRequest{
		Protocol:            conformancev1.Protocol_PROTOCOL_CONNECT,
		HttpVersion:         httpVersion,
		MessageReceiveLimit: limit,
	})
	if err != nil {
		return nil, err
	}
	_ = proc.stdin.Close()
	resp := &conformancev1.ServerCompatResponse{}
	if err := internal.ReadDelimitedMessage(proc.stdout, resp, "server", 10*time.Second, 1<<20); err != nil {
		return nil, err
	}
	p.servers[key] = resp
	return resp, nil
}

// ---- the peer of the reference client for the response direction ----
//
// The reference server cannot produce a response of a size chosen to the byte that is not
// preceded by a larger one: every unary response and every first stream response echoes the
// whole request, which carries the response definition (the shipped client_message_size suite
// says as much in its TODO).  What C19 states for responses is about the reference CLIENT, so
// its peer here is a minimal connect-go handler of the conformance service, set up with the
// compressions exactly as the reference server registers them, that answers with a message of
// exactly the size the request asks for.  The client is the real one, configured as the runner
// configures it (ClientCompatRequest.message_receive_limit = clientReceiveLimit).

type verifC19Stub struct {
	conformancev1connect.UnimplementedConformanceServiceHandler
}

// spec = 8 bytes big-endian wanted size of the response message + 1 byte fill (0 zeros, 1 noise)
func verifC19Spec(want int64, fill int64, codec ...conformancev1.Codec) []byte {
	spec := binary.BigEndian.AppendUint64(nil, uint64(want))
	spec = append(spec, byte(fill))
	if len(codec) == 1 && codec[0] != conformancev1.Codec_CODEC_PROTO {
		// 10th byte: the codec the size is meant in (the receive limit applies to the message as the
		// codec of the RPC encodes it: JSON text under CODEC_JSON)
		spec = append(spec, byte(codec[0]))
	}
	return spec
}

// size of the message as the codec of the RPC encodes it - what connect-go's WithReadMaxBytes measures
// (envelopeReader / connectUnaryUnmarshaler count the bytes of the encoded message).  The JSON encoding
// is the one connect-go's protoJSONCodec produces (protojson.MarshalOptions{}.Marshal; its whitespace
// is fixed per binary, and sender and harness are the same binary).
func verifC19EncSize(codec conformancev1.Codec, msg proto.Message) int {
	if codec == conformancev1.Codec_CODEC_JSON {
		data, err := protojson.MarshalOptions{}.Marshal(msg)
		if err != nil {
			return -1
		}
		return len(data)
	}
	return proto.Size(msg)
}

func verifC19SpecCodec(spec []byte) conformancev1.Codec {
	if len(spec) == 10 {
		return conformancev1.Codec(spec[9])
	}
	return conformancev1.Codec_CODEC_PROTO
}

// payload such that the JSON encoding of wrap(payload) has exactly `want` bytes: base64 text grows in steps
// of 4, so the bulk goes into data (a multiple of 3 bytes) and the remainder into a header name of the
// request info (one byte of text per byte)
func verifC19SizedPayloadJSON(want int, noise bool, wrap func(*conformancev1.ConformancePayload) proto.Message) *conformancev1.ConformancePayload {
	const slack = 160
	if want < 2*slack {
		return nil
	}
	payload := &conformancev1.ConformancePayload{
		Data: make([]byte, (want-slack)/4*3),
		RequestInfo: &conformancev1.ConformancePayload_RequestInfo{
			RequestHeaders: []*conformancev1.Header{{Name: "x"}},
		},
	}
	if noise {
		verifC19Noise(payload.Data, uint64(want))
	}
	for tries := 0; tries < 4; tries++ {
		diff := want - verifC19EncSize(conformancev1.Codec_CODEC_JSON, wrap(payload))
		if diff == 0 {
			return payload
		}
		nameLen := len(payload.RequestInfo.RequestHeaders[0].Name) + diff
		if nameLen < 1 {
			return nil
		}
		payload.RequestInfo.RequestHeaders[0].Name = strings.Repeat("x", nameLen)
	}
	return nil
}

// payload such that proto.Size(wrap(payload)) == want exactly, or nil if unreachable
func verifC19SizedPayload(spec []byte, wrap func(*conformancev1.ConformancePayload) proto.Message) *conformancev1.ConformancePayload {
	if len(spec) != 9 && len(spec) != 10 {
		return nil
	}
	want := int(binary.BigEndian.Uint64(spec))
	if len(spec) == 10 {
		if verifC19SpecCodec(spec) != conformancev1.Codec_CODEC_JSON {
			return nil
		}
		return verifC19SizedPayloadJSON(want, spec[8] != 0, wrap)
	}
	dataLen := want - 8
	for tries := 0; tries < 8 && dataLen >= 0; tries++ {
		payload := &conformancev1.ConformancePayload{Data: make([]byte, dataLen)}
		diff := want - proto.Size(wrap(payload))
		if diff == 0 {
			if spec[8] != 0 {
				verifC19Noise(payload.Data, uint64(want))
			}
			return payload
		}
		dataLen += diff
	}
	return nil
}

// incompressible bytes (xorshift64*), so that the compressed form of a message of exactly the
// limit is LARGER than the limit: it must still be accepted (uncompressed size counts)
func verifC19Noise(buf []byte, seed uint64) {
	x := seed*0x9E3779B97F4A7C15 + 0x2545F4914F6CDD1D
	for i := range buf {
		x ^= x >> 12
		x ^= x << 25
		x ^= x >> 27
		buf[i] = byte((x * 0x2545F4914F6CDD1D) >> 56)
	}
}

func verifC19WrapUnary(p *conformancev1.ConformancePayload) proto.Message {
	return &conformancev1.UnaryResponse{Payload: p}
}

func verifC19WrapStream(p *conformancev1.ConformancePayload) proto.Message {
	return &conformancev1.ServerStreamResponse{Payload: p}
}

func (verifC19Stub) Unary(_ context.Context, req *connect.Request[conformancev1.UnaryRequest]) (*connect.Response[conformancev1.UnaryResponse], error) {
	payload := verifC19SizedPayload(req.Msg.GetResponseDefinition().GetResponseData(), verifC19WrapUnary)
	if payload == nil {
		return nil, connect.NewError(connect.CodeInvalidArgument, errors.New("verif: bad size spec"))
	}
	return connect.NewResponse(&conformancev1.UnaryResponse{Payload: payload}), nil
}

func (verifC19Stub) ServerStream(_ context.Context, req *connect.Request[conformancev1.ServerStreamRequest], stream *connect.ServerStream[conformancev1.ServerStreamResponse]) error {
	datas := req.Msg.GetResponseDefinition().GetResponseData()
	if len(datas) >= 2 {
		// several sized messages (kind c19.stream): one message per spec, nothing in between
		for _, spec := range datas {
			payload := verifC19SizedPayload(spec, verifC19WrapStream)
			if payload == nil {
				return connect.NewError(connect.CodeInvalidArgument, errors.New("verif: bad size spec"))
			}
			if err := stream.Send(&conformancev1.ServerStreamResponse{Payload: payload}); err != nil {
				return err
			}
		}
		return nil
	}
	if len(datas) != 1 {
		return connect.NewError(connect.CodeInvalidArgument, errors.New("verif: bad size spec"))
	}
	payload := verifC19SizedPayload(datas[0], verifC19WrapStream)
	if payload == nil {
		return connect.NewError(connect.CodeInvalidArgument, errors.New("verif: bad size spec"))
	}
	// a small message first: the limit is per message, not per stream
	if err := stream.Send(&conformancev1.ServerStreamResponse{Payload: &conformancev1.ConformancePayload{Data: []byte("ok")}}); err != nil {
		return err
	}
	return stream.Send(&conformancev1.ServerStreamResponse{Payload: payload})
}

const verifC19StubPatience = 8 * time.Second

func verifC19WrapBidi(p *conformancev1.ConformancePayload) proto.Message {
	return &conformancev1.BidiStreamResponse{Payload: p}
}

// one sized response per spec of the first request's response definition: full duplex = one after
// each request received and the rest at the end of the requests, half duplex = all at the end
func (verifC19Stub) BidiStream(_ context.Context, stream *connect.BidiStream[conformancev1.BidiStreamRequest, conformancev1.BidiStreamResponse]) error {
	var specs [][]byte
	full, first, sent := false, true, 0
	sendNext := func() error {
		payload := verifC19SizedPayload(specs[sent], verifC19WrapBidi)
		if payload == nil {
			return connect.NewError(connect.CodeInvalidArgument, errors.New("verif: bad size spec"))
		}
		sent++
		return stream.Send(&conformancev1.BidiStreamResponse{Payload: payload})
	}
	// Receive with a watchdog: when the reference client finds a response above its limit it drains the
	// rest of the response before it reports the error (connect-go), and this full-duplex handler would
	// wait for the next request before ending the response - for good.  A correct exchange never comes
	// near the bound (the client sends its next request, or closes, as soon as it has the response).
	type received struct {
		req *conformancev1.BidiStreamRequest
		err error
	}
	receive := func() (*conformancev1.BidiStreamRequest, error) {
		ch := make(chan received, 1)
		go func() {
			req, err := stream.Receive()
			ch <- received{req, err}
		}()
		select {
		case r := <-ch:
			return r.req, r.err
		case <-time.After(verifC19StubPatience):
			return nil, connect.NewError(connect.CodeAborted, errors.New("verif: no further request"))
		}
	}
	for {
		req, err := receive()
		if errors.Is(err, io.EOF) {
			break
		}
		if err != nil {
			return err
		}
		if first {
			specs, full, first = req.GetResponseDefinition().GetResponseData(), req.GetFullDuplex(), false
		}
		if full && sent < len(specs) {
			if err := sendNext(); err != nil {
				return err
			}
		}
	}
	for sent < len(specs) {
		if err := sendNext(); err != nil {
			return err
		}
	}
	return nil
}

func (p *verifC19Peers) stub(httpVersion conformancev1.HTTPVersion) (*conformancev1.ServerCompatResponse, error) {
	if resp, ok := p.stubs[httpVersion]; ok {
		return resp, nil
	}
	mux := http.NewServeMux()
	mux.Handle(conformancev1connect.NewConformanceServiceHandler(verifC19Stub{},
		// as internal/app/referenceserver/server.go createServer registers them (gzip is built in)
		connect.WithCompression(compression.Brotli, compression.NewBrotliDecompressor, compression.NewBrotliCompressor),
		connect.WithCompression(compression.Deflate, compression.NewDeflateDecompressor, compression.NewDeflateCompressor),
		connect.WithCompression(compression.Snappy, compression.NewSnappyDecompressor, compression.NewSnappyCompressor),
		connect.WithCompression(compression.Zstd, compression.NewZstdDecompressor, compression.NewZstdCompressor),
	))
	var handler http.Handler = http.HandlerFunc(func(respWriter http.ResponseWriter, req *http.Request) {
		if strings.HasSuffix(req.URL.Path, conformancev1connect.ConformanceServiceBidiStreamProcedure) && req.ProtoMajor == 1 {
			// half-duplex bidi over HTTP/1.1, as the reference server forces it (createServer)
			req.ProtoMajor, req.ProtoMinor = 2, 0
		}
		mux.ServeHTTP(respWriter, req)
	})
	if httpVersion == conformancev1.HTTPVersion_HTTP_VERSION_2 {
		handler = h2c.NewHandler(handler, &http2.Server{})
	}
	lis, err := net.Listen("tcp", "127.0.0.1:0")
	if err != nil {
		return nil, err
	}
	srv := &http.Server{Handler: handler, ReadHeaderTimeout: 5 * time.Second}
	go func() { _ = srv.Serve(lis) }()
	addr, _ := lis.Addr().(*net.TCPAddr)
	resp := &conformancev1.ServerCompatResponse{Host: "127.0.0.1", Port: uint32(addr.Port)}
	p.stubs[httpVersion] = resp
	return resp, nil
}

func (p *verifC19Peers) call(req *conformancev1.ClientCompatRequest) (*conformancev1.ClientCompatResponse, error) {
	client, err := p.clientProc()
	if err != nil {
		return nil, err
	}
	// a client that fails to answer is abandoned: the next call starts a fresh one instead of queueing
	// behind the RPC that is stuck
	if err := internal.WriteDelimitedMessage(client.stdin, req); err != nil {
		p.client = nil
		return nil, err
	}
	resp := &conformancev1.ClientCompatResponse{}
	if err := internal.ReadDelimitedMessage(client.stdout, resp, "client", 30*time.Second, 64<<20); err != nil {
		p.client = nil
		_ = client.stdin.Close()
		return nil, err
	}
	if resp.TestName != req.TestName {
		return nil, fmt.Errorf("response for %q while waiting for %q", resp.TestName, req.TestName)
	}
	return resp, nil
}

func verifC19Any(msg proto.Message) *anypb.Any {
	a, err := anypb.New(msg)
	if err != nil {
		panic(err)
	}
	return a
}

// fills in what the runner's library fills in for a test case sent to `server`
func verifC19Address(req *conformancev1.ClientCompatRequest, server *conformancev1.ServerCompatResponse,
	httpVersion conformancev1.HTTPVersion, protocol conformancev1.Protocol, compress conformancev1.Compression,
	method string, streamType conformancev1.StreamType) {
	req.MessageReceiveLimit = uint32(clientReceiveLimit) // test_case_library.go expandCases: always set
	verifC19.seq++
	req.TestName = fmt.Sprintf("verif-c19-%06d", verifC19.seq)
	req.HttpVersion, req.Protocol, req.Codec, req.Compression = httpVersion, protocol, conformancev1.Codec_CODEC_PROTO, compress
	req.Host, req.Port = server.Host, server.Port
	if req.Host == "" {
		req.Host = internal.DefaultHost
	}
	service := conformancev1connect.ConformanceServiceName
	req.Service, req.Method, req.StreamType = &service, &method, streamType
	req.TimeoutMs = proto.Uint32(20000)
	req.RequestHeaders = []*conformancev1.Header{
		{Name: "x-test-case-name", Value: []string{req.TestName}},
		{Name: "x-expect-http-version", Value: []string{strconv.Itoa(int(req.HttpVersion))}},
		{Name: "x-expect-http-method", Value: []string{"POST"}},
		{Name: "x-expect-protocol", Value: []string{strconv.Itoa(int(req.Protocol))}},
		{Name: "x-expect-codec", Value: []string{strconv.Itoa(int(req.Codec))}},
		{Name: "x-expect-compression", Value: []string{strconv.Itoa(int(req.Compression))}},
		{Name: "x-expect-tls", Value: []string{"false"}},
	}
}

// the codec of the RPC, where it is not the binary one (after verifC19Address)
func verifC19SetCodec(req *conformancev1.ClientCompatRequest, codec conformancev1.Codec) {
	req.Codec = codec
	for _, hdr := range req.RequestHeaders {
		if hdr.Name == "x-expect-codec" {
			hdr.Value = []string{strconv.Itoa(int(codec))}
		}
	}
}

// side off httpVersion protocol compression streamType fill [codec] -> (limit size accepted)
//
// codec (side 1 only; default 1 = proto, 2 = JSON): the codec of the RPC.  The client's receive limit is
// on the message whatever the codec: under JSON the response is sized so that its JSON encoding (what
// the limit then applies to) has exactly clientReceiveLimit+off bytes.
//
// side 0: a request of uncompressed size serverReceiveLimit+off (built by expandRequestData)
// is sent by the reference client to a reference server started exactly as the runner starts it.
// side 1: a response message (unary, or the second of a server stream) of uncompressed size
// clientReceiveLimit+off is sent to the reference client, which is given the limit exactly as
// the runner gives it (ClientCompatRequest.message_receive_limit).
// fill 1: the bulk of the sized message is incompressible, so that with a compression its
// compressed form is longer than the limit already at off <= 0; fill 0: zeros (compressed form
// far below the limit also at off > 0).
func verifC19Sharp(args []vsx) vsx {
	if len(args) != 7 && len(args) != 8 {
		return vErr("bad-case")
	}
	for _, a := range args {
		if a.k != 'i' || a.g != nil {
			return vErr("bad-case")
		}
	}
	side, off, fill := args[0].i, args[1].i, args[6].i
	codec := conformancev1.Codec_CODEC_PROTO
	if len(args) == 8 {
		codec = conformancev1.Codec(args[7].i)
		if codec != conformancev1.Codec_CODEC_PROTO && codec != conformancev1.Codec_CODEC_JSON || side != 1 {
			return vErr("bad-case")
		}
	}
	httpVersion := conformancev1.HTTPVersion(args[2].i)
	protocol := conformancev1.Protocol(args[3].i)
	compress := conformancev1.Compression(args[4].i)
	streamType := conformancev1.StreamType(args[5].i)
	switch {
	case side != 0 && side != 1, off < -4096 || off > 4096, fill != 0 && fill != 1,
		httpVersion != conformancev1.HTTPVersion_HTTP_VERSION_1 && httpVersion != conformancev1.HTTPVersion_HTTP_VERSION_2,
		protocol < conformancev1.Protocol_PROTOCOL_CONNECT || protocol > conformancev1.Protocol_PROTOCOL_GRPC_WEB,
		compress < conformancev1.Compression_COMPRESSION_IDENTITY || compress > conformancev1.Compression_COMPRESSION_SNAPPY,
		streamType < conformancev1.StreamType_STREAM_TYPE_UNARY || streamType > conformancev1.StreamType_STREAM_TYPE_FULL_DUPLEX_BIDI_STREAM,
		httpVersion == conformancev1.HTTPVersion_HTTP_VERSION_1 && protocol == conformancev1.Protocol_PROTOCOL_GRPC,
		httpVersion == conformancev1.HTTPVersion_HTTP_VERSION_1 && streamType == conformancev1.StreamType_STREAM_TYPE_FULL_DUPLEX_BIDI_STREAM,
		side == 1 && streamType != conformancev1.StreamType_STREAM_TYPE_UNARY && streamType != conformancev1.StreamType_STREAM_TYPE_SERVER_STREAM:
		return vErr("bad-case")
	}
	verifC19.mu.Lock()
	defer verifC19.mu.Unlock()

	small := []byte("ok")
	unaryDef := &conformancev1.UnaryResponseDefinition{
		Response: &conformancev1.UnaryResponseDefinition_ResponseData{ResponseData: small},
	}
	streamDef := &conformancev1.StreamResponseDefinition{ResponseData: [][]byte{small, small}}
	testCase := &conformancev1.TestCase{Request: &conformancev1.ClientCompatRequest{}}
	req := testCase.Request
	var limit, size, wire int64
	var method string
	var server *conformancev1.ServerCompatResponse
	var err error
	wantPayloads := 1
	none := &conformancev1.TestCase_ExpandedSize{}
	sized := &conformancev1.TestCase_ExpandedSize{SizeRelativeToLimit: proto.Int32(int32(off))}
	sizedIdx := 0

	if side == 0 {
		limit = int64(serverReceiveLimit)
		// existing padding of the message that gets sized: nothing, or noise a little short of
		// (off < 0) / beyond (otherwise) the target, so that expansion appends resp. trims
		var pad []byte
		if fill == 1 {
			pad = make([]byte, limit-100)
			if off >= 0 {
				pad = make([]byte, limit+100)
			}
			verifC19Noise(pad, uint64(limit+off))
		}
		switch streamType {
		case conformancev1.StreamType_STREAM_TYPE_UNARY:
			method = "Unary"
			req.RequestMessages = []*anypb.Any{verifC19Any(&conformancev1.UnaryRequest{ResponseDefinition: unaryDef, RequestData: pad})}
			testCase.ExpandRequests = []*conformancev1.TestCase_ExpandedSize{sized}
		case conformancev1.StreamType_STREAM_TYPE_CLIENT_STREAM:
			method = "ClientStream"
			if pad == nil {
				pad = small
			}
			req.RequestMessages = []*anypb.Any{
				verifC19Any(&conformancev1.ClientStreamRequest{ResponseDefinition: unaryDef}),
				verifC19Any(&conformancev1.ClientStreamRequest{RequestData: pad}),
			}
			testCase.ExpandRequests = []*conformancev1.TestCase_ExpandedSize{none, sized}
			sizedIdx = 1
		case conformancev1.StreamType_STREAM_TYPE_SERVER_STREAM:
			method = "ServerStream"
			wantPayloads = 2
			req.RequestMessages = []*anypb.Any{verifC19Any(&conformancev1.ServerStreamRequest{ResponseDefinition: streamDef, RequestData: pad})}
			testCase.ExpandRequests = []*conformancev1.TestCase_ExpandedSize{sized}
		default: // half-/full-duplex bidi
			method = "BidiStream"
			wantPayloads = 2
			full := streamType == conformancev1.StreamType_STREAM_TYPE_FULL_DUPLEX_BIDI_STREAM
			req.RequestMessages = []*anypb.Any{
				verifC19Any(&conformancev1.BidiStreamRequest{ResponseDefinition: streamDef, FullDuplex: full, RequestData: pad}),
				verifC19Any(&conformancev1.BidiStreamRequest{RequestData: small}),
			}
			testCase.ExpandRequests = []*conformancev1.TestCase_ExpandedSize{sized, none}
		}
		if err := expandRequestData(testCase); err != nil {
			return vErr("expand-failed")
		}
		size = int64(len(req.RequestMessages[sizedIdx].Value))
		wire, err = verifC19WireSize(compress, req.RequestMessages[sizedIdx].Value)
		if err != nil {
			return vErr("compress")
		}
		if off > 0 && streamType != conformancev1.StreamType_STREAM_TYPE_UNARY {
			req.RequestDelayMs = 50 // as the shipped suites do: let the client notice the rejection
		}
		server, err = verifC19.server(httpVersion, uint32(serverReceiveLimit))
	} else {
		limit = int64(clientReceiveLimit)
		spec := verifC19Spec(limit+off, fill, codec)
		if streamType == conformancev1.StreamType_STREAM_TYPE_UNARY {
			method = "Unary"
			if verifC19SizedPayload(spec, verifC19WrapUnary) == nil {
				return vErr("response-size-unreachable")
			}
			req.RequestMessages = []*anypb.Any{verifC19Any(&conformancev1.UnaryRequest{
				ResponseDefinition: &conformancev1.UnaryResponseDefinition{
					Response: &conformancev1.UnaryResponseDefinition_ResponseData{ResponseData: spec},
				},
			})}
		} else {
			method = "ServerStream"
			wantPayloads = 2
			if verifC19SizedPayload(spec, verifC19WrapStream) == nil {
				return vErr("response-size-unreachable")
			}
			req.RequestMessages = []*anypb.Any{verifC19Any(&conformancev1.ServerStreamRequest{
				ResponseDefinition: &conformancev1.StreamResponseDefinition{ResponseData: [][]byte{spec}},
			})}
		}
		size = limit + off
		wrap := verifC19WrapStream
		if streamType == conformancev1.StreamType_STREAM_TYPE_UNARY {
			wrap = verifC19WrapUnary
		}
		var msgBytes []byte
		var merr error
		if codec == conformancev1.Codec_CODEC_JSON {
			msgBytes, merr = protojson.MarshalOptions{}.Marshal(wrap(verifC19SizedPayload(spec, wrap)))
		} else {
			msgBytes, merr = proto.Marshal(wrap(verifC19SizedPayload(spec, wrap)))
		}
		if merr != nil || int64(len(msgBytes)) != size {
			return vErr("response-size-unreachable")
		}
		if wire, err = verifC19WireSize(compress, msgBytes); err != nil {
			return vErr("compress")
		}
		server, err = verifC19.stub(httpVersion)
	}
	if err != nil {
		return vErr("server-start")
	}
	verifC19Address(req, server, httpVersion, protocol, compress, method, streamType)
	if codec != conformancev1.Codec_CODEC_PROTO {
		verifC19SetCodec(req, codec)
	}
	resp, err := verifC19.call(req)
	if err != nil {
		return vErr("client-io")
	}
	if resp.GetError() != nil {
		if os.Getenv("VERIF_DEBUG") != "" {
			fmt.Fprintf(os.Stderr, "verif: client error: %s\n", resp.GetError().Message)
		}
		return vErr("client-error")
	}
	result := resp.GetResponse()
	var accepted bool
	switch {
	case result.GetError() == nil:
		accepted = true
		// an accepted exchange must also be complete
		if len(result.Payloads) != wantPayloads {
			return vErr(fmt.Sprintf("payloads-%d", len(result.Payloads)))
		}
		if side == 1 {
			// ... and the sized message must have arrived whole
			last := result.Payloads[len(result.Payloads)-1]
			wrap := verifC19WrapStream
			if streamType == conformancev1.StreamType_STREAM_TYPE_UNARY {
				wrap = verifC19WrapUnary
			}
			if int64(verifC19EncSize(codec, wrap(last))) != size {
				return vErr("response-size-differs")
			}
		}
	case result.GetError().GetCode() == conformancev1.Code_CODE_RESOURCE_EXHAUSTED:
		accepted = false
		if os.Getenv("VERIF_DEBUG") != "" {
			fmt.Fprintf(os.Stderr, "verif: %s: %s\n", req.TestName, result.GetError().GetMessage())
		}
	default:
		if os.Getenv("VERIF_DEBUG") != "" {
			fmt.Fprintf(os.Stderr, "verif: rpc error: %v\n", result.GetError())
		}
		return vErr("code-" + strconv.Itoa(int(result.GetError().GetCode())))
	}
	if !accepted && size <= limit && wire > limit {
		// rejected although the uncompressed size is within the limit, and the compressed form
		// (what travels in the envelope) is above it: connect-go applies WithReadMaxBytes to
		// both.  Tagged so that exactly this class can be recognised (KNOWN_FINDINGS.txt).
		return vL(vI(limit), vI(size), vBool(accepted), vS("wire-over"))
	}
	return vL(vI(limit), vI(size), vBool(accepted))
}

// length of the compressed form of the sized message, as the sender's envelope writer produces it
// with the compressor the reference peers register for that compression
func verifC19WireSize(compress conformancev1.Compression, msg []byte) (int64, error) {
	if compress == conformancev1.Compression_COMPRESSION_IDENTITY {
		return int64(len(msg)), nil
	}
	comp, err := compression.GetCompressor(compress)
	if err != nil {
		return 0, err
	}
	var buf bytes.Buffer
	comp.Reset(&buf)
	if _, err := comp.Write(msg); err != nil {
		return 0, err
	}
	if err := comp.Close(); err != nil {
		return 0, err
	}
	return int64(buf.Len()), nil
}

// ---------------------------------------------------------------------------
// c19.wiring: the runner's own path, end to end
// ---------------------------------------------------------------------------

type verifC19Discard struct{}

func (verifC19Discard) Printf(string, ...any)               {}
func (verifC19Discard) PrefixPrintf(string, string, ...any) {}

// (offs) httpVersion protocol compression streamType -> ((limit size accepted)...)
//
// A suite file shaped like the shipped server_message_size.yaml, with one test case per offset,
// goes through the code the runner uses: parseTestSuites (which calls expandRequestData),
// newTestCaseLibrary (sets the client's limit, computes the expected response), then
// runTestCasesForServer, which starts the reference server with the limit it hands out itself
// and feeds the reference client.  A case with offset <= 0 expects the normal response, one with
// offset > 0 expects resource_exhausted (as the shipped suite states it); `accepted` is that
// expectation when the runner's verdict is "passed" and its negation otherwise.
func verifC19Wiring(args []vsx) vsx {
	// optional 6th argument: whether the suite sets relies_on_message_receive_limit (default 1).  The
	// runner hands the limit to the server in either case (server_runner.go) and the loader must expand
	// the requests in either case, so the verdicts are the same.
	flag := true
	if len(args) == 6 && args[5].k == 'i' && args[5].g == nil && (args[5].i == 0 || args[5].i == 1) {
		flag = args[5].i == 1
		args = args[:5]
	}
	if len(args) != 5 || args[0].k != 'l' || len(args[0].l) == 0 || len(args[0].l) > 16 {
		return vErr("bad-case")
	}
	for _, a := range args[1:] {
		if a.k != 'i' || a.g != nil {
			return vErr("bad-case")
		}
	}
	offs := make([]int64, len(args[0].l))
	for i, o := range args[0].l {
		if o.k != 'i' || o.g != nil || o.i < -4096 || o.i > 4096 {
			return vErr("bad-case")
		}
		offs[i] = o.i
	}
	httpVersion := conformancev1.HTTPVersion(args[1].i)
	protocol := conformancev1.Protocol(args[2].i)
	compress := conformancev1.Compression(args[3].i)
	streamType := conformancev1.StreamType(args[4].i)
	switch {
	case httpVersion != conformancev1.HTTPVersion_HTTP_VERSION_1 && httpVersion != conformancev1.HTTPVersion_HTTP_VERSION_2,
		protocol < conformancev1.Protocol_PROTOCOL_CONNECT || protocol > conformancev1.Protocol_PROTOCOL_GRPC_WEB,
		compress < conformancev1.Compression_COMPRESSION_IDENTITY || compress > conformancev1.Compression_COMPRESSION_SNAPPY,
		streamType < conformancev1.StreamType_STREAM_TYPE_UNARY || streamType > conformancev1.StreamType_STREAM_TYPE_SERVER_STREAM,
		httpVersion == conformancev1.HTTPVersion_HTTP_VERSION_1 && protocol == conformancev1.Protocol_PROTOCOL_GRPC:
		return vErr("bad-case")
	}
	verifC19.mu.Lock()
	defer verifC19.mu.Unlock()

	var yaml strings.Builder
	fmt.Fprintf(&yaml, "name: Verif Message Size\nmode: TEST_MODE_SERVER\nreliesOnMessageReceiveLimit: %v\n"+
		"relevantProtocols: [%s]\nrelevantHttpVersions: [%s]\nrelevantCodecs: [CODEC_PROTO]\nrelevantCompressions: [%s]\ntestCases:\n",
		flag, protocol, httpVersion, compress)
	for i, off := range offs {
		fmt.Fprintf(&yaml, "- request:\n    testName: case-%02d\n    streamType: %s\n", i, streamType)
		switch streamType {
		case conformancev1.StreamType_STREAM_TYPE_UNARY:
			yaml.WriteString("    requestMessages:\n" +
				"    - \"@type\": type.googleapis.com/connectrpc.conformance.v1.UnaryRequest\n" +
				"      responseDefinition:\n        responseData: \"dGVzdCByZXNwb25zZQ==\"\n" +
				fmt.Sprintf("  expandRequests:\n    - sizeRelativeToLimit: %d\n", off))
		case conformancev1.StreamType_STREAM_TYPE_CLIENT_STREAM:
			if off > 0 {
				yaml.WriteString("    requestDelayMs: 50\n")
			}
			yaml.WriteString("    requestMessages:\n" +
				"    - \"@type\": type.googleapis.com/connectrpc.conformance.v1.ClientStreamRequest\n" +
				"      responseDefinition:\n        responseData: \"dGVzdCByZXNwb25zZQ==\"\n" +
				"    - \"@type\": type.googleapis.com/connectrpc.conformance.v1.ClientStreamRequest\n" +
				"      requestData: \"dGVzdCByZXNwb25zZQ==\"\n" +
				fmt.Sprintf("  expandRequests:\n    - sizeRelativeToLimit: 0\n    - sizeRelativeToLimit: %d\n", off))
		default:
			yaml.WriteString("    requestMessages:\n" +
				"    - \"@type\": type.googleapis.com/connectrpc.conformance.v1.ServerStreamRequest\n" +
				"      responseDefinition:\n        responseData:\n          - \"dGVzdCByZXNwb25zZQ==\"\n          - \"dGVzdCByZXNwb25zZQ==\"\n" +
				fmt.Sprintf("  expandRequests:\n    - sizeRelativeToLimit: %d\n", off))
		}
		if off > 0 {
			yaml.WriteString("  expectedResponse:\n    error:\n      code: CODE_RESOURCE_EXHAUSTED\n")
			if streamType == conformancev1.StreamType_STREAM_TYPE_CLIENT_STREAM {
				yaml.WriteString("    numUnsentRequests: 1\n")
			}
		}
	}
	suites, err := parseTestSuites(map[string][]byte{"verif_message_size.yaml": []byte(yaml.String())})
	if err != nil {
		if os.Getenv("VERIF_DEBUG") != "" {
			fmt.Fprintf(os.Stderr, "verif: parseTestSuites: %v\n%s\n", err, yaml.String())
		}
		if strings.Contains(err.Error(), "can't pad to exactly") {
			return vErr("unreachable")
		}
		return vErr("suite-rejected")
	}
	lib, err := newTestCaseLibrary(suites, []configCase{{
		Version: httpVersion, Protocol: protocol, Codec: conformancev1.Codec_CODEC_PROTO, Compression: compress,
		StreamType: streamType, UseMessageReceiveLimit: flag,
	}}, conformancev1.TestSuite_TEST_MODE_SERVER)
	if err != nil {
		if os.Getenv("VERIF_DEBUG") != "" {
			fmt.Fprintf(os.Stderr, "verif: newTestCaseLibrary: %v\n", err)
		}
		return vErr("library-rejected")
	}
	if len(lib.testCases) != len(offs) || len(lib.casesByServer) != 1 {
		return vErr("library-shape")
	}
	ctx, cancel := context.WithCancel(context.Background()) // no deadline: the in-process client would forward it as an RPC timeout
	defer cancel()
	client, err := runClient(ctx, runInProcess([]string{"reference-client", "-p", "4"},
		func(ctx context.Context, args []string, in io.ReadCloser, out, errW io.WriteCloser) error {
			return referenceclient.RunInReferenceMode(ctx, args, in, out, errW, nil)
		}))
	if err != nil {
		return vErr("client-start")
	}
	defer client.stop()
	results := newResults(len(offs), &testTrie{}, &testTrie{}, nil)
	startServer := runInProcess([]string{"reference-server", "-port", "0", "-bind", "127.0.0.1"},
		func(ctx context.Context, args []string, in io.ReadCloser, out, errW io.WriteCloser) error {
			return referenceserver.RunInReferenceMode(ctx, args, in, out, errW, nil)
		})
	for svrInstance, testCases := range lib.casesByServer {
		runTestCasesForServer(ctx, true, true, svrInstance, testCases, nil, nil, startServer,
			verifC19Discard{}, verifC19Discard{}, results, client, nil, false)
	}
	client.closeSend()
	if err := client.waitForResponses(); err != nil {
		return vErr("client-io")
	}
	results.mu.Lock()
	defer results.mu.Unlock()
	results.processSidebandInfoLocked()
	out := make([]vsx, len(offs))
	for name, testCase := range lib.testCases {
		var idx int
		if _, err := fmt.Sscanf(name[strings.LastIndex(name, "case-"):], "case-%02d", &idx); err != nil || idx < 0 || idx >= len(offs) || out[idx].k != 0 {
			return vErr("library-names")
		}
		outcome, ok := results.outcomes[name]
		if !ok {
			return vErr("no-outcome")
		}
		if outcome.setupError {
			if os.Getenv("VERIF_DEBUG") != "" {
				fmt.Fprintf(os.Stderr, "verif: %s: setup error: %v\n", name, outcome.actualFailure)
			}
			return vErr("setup-error")
		}
		if testCase.Request.MessageReceiveLimit != uint32(clientReceiveLimit) {
			return vErr("client-limit-not-set")
		}
		sizedIdx := 0
		if streamType == conformancev1.StreamType_STREAM_TYPE_CLIENT_STREAM {
			sizedIdx = 1
		}
		size := int64(len(testCase.Request.RequestMessages[sizedIdx].Value))
		accepted := offs[idx] <= 0
		if outcome.actualFailure != nil {
			if os.Getenv("VERIF_DEBUG") != "" {
				fmt.Fprintf(os.Stderr, "verif: %s: %v\n", name, outcome.actualFailure)
			}
			accepted = !accepted
		}
		out[idx] = vL(vI(int64(serverReceiveLimit)), vI(size), vBool(accepted))
	}
	return vL(out...)
}
