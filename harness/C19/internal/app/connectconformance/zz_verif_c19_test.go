//go:build verif

package connectconformance

import (
	"bytes"
	"context"
	"fmt"
	"io"
	"os"
	"strconv"
	"strings"
	"sync"
	"testing"
	"time"

	"connectrpc.com/conformance/internal"
	"connectrpc.com/conformance/internal/app/referenceclient"
	"connectrpc.com/conformance/internal/app/referenceserver"
	conformancev1 "connectrpc.com/conformance/internal/gen/proto/go/connectrpc/conformance/v1"
	"connectrpc.com/conformance/internal/gen/proto/go/connectrpc/conformance/v1/conformancev1connect"
	"google.golang.org/protobuf/proto"
	"google.golang.org/protobuf/reflect/protoreflect"
	"google.golang.org/protobuf/types/known/anypb"
)

func init() {
	verifKinds["c19.expand"] = verifC19Expand
	verifKinds["c19.sharp"] = verifC19Sharp
}

// ---------------------------------------------------------------------------
// constants and descriptor facts the Coq development is re-checked against
// ---------------------------------------------------------------------------

func verifC19PaddedTypes() []proto.Message {
	return []proto.Message{
		&conformancev1.UnaryRequest{},
		&conformancev1.IdempotentUnaryRequest{},
		&conformancev1.ServerStreamRequest{},
		&conformancev1.ClientStreamRequest{},
		&conformancev1.BidiStreamRequest{},
	}
}

func TestVerifConsts(t *testing.T) {
	out := os.Getenv("VERIF_OUT")
	if out == "" {
		t.Skip("VERIF_OUT not set")
	}
	var sb strings.Builder
	fmt.Fprintf(&sb, "Definition c19_server_receive_limit : Z := %d%%Z.\n", int64(serverReceiveLimit))
	fmt.Fprintf(&sb, "Definition c19_client_receive_limit : Z := %d%%Z.\n", int64(clientReceiveLimit))
	nums := make([]string, 0, 5)
	for _, m := range verifC19PaddedTypes() {
		field := m.ProtoReflect().Descriptor().Fields().ByName("request_data")
		num := int64(99999999) // makes tag_one_byte fail if the field is not what the model assumes
		if field != nil && field.Kind() == protoreflect.BytesKind && field.Cardinality() == protoreflect.Optional &&
			!field.HasPresence() {
			num = int64(field.Number())
		}
		nums = append(nums, strconv.FormatInt(num, 10))
	}
	fmt.Fprintf(&sb, "Definition c19_pad_field_numbers : list Z := [%s]%%Z.\n", strings.Join(nums, "; "))
	if err := os.WriteFile(out, []byte(sb.String()), 0o644); err != nil {
		t.Fatal(err)
	}
}

// ---------------------------------------------------------------------------
// c19.expand: expandRequestData on generated request lists
// ---------------------------------------------------------------------------

// message description (type k fd n0 base): base is the generator's claim, checked below by
// being reported from the real message.
func verifC19Message(d vsx) (*anypb.Any, error) {
	ty, k, fd, n0, base := int(d.l[0].i), int(d.l[1].i), d.l[2].i != 0, int(d.l[3].i), int(d.l[4].i)
	pad := bytes.Repeat([]byte{0xA5}, n0)
	if n0 == 0 {
		pad = nil
	}
	var unaryDef *conformancev1.UnaryResponseDefinition
	var streamDef *conformancev1.StreamResponseDefinition
	if k >= 0 {
		unaryDef = &conformancev1.UnaryResponseDefinition{
			Response: &conformancev1.UnaryResponseDefinition_ResponseData{ResponseData: make([]byte, k)},
		}
		streamDef = &conformancev1.StreamResponseDefinition{ResponseData: [][]byte{make([]byte, k)}}
	}
	var msg proto.Message
	switch ty {
	case 0:
		msg = &conformancev1.UnaryRequest{ResponseDefinition: unaryDef, RequestData: pad}
	case 1:
		msg = &conformancev1.IdempotentUnaryRequest{ResponseDefinition: unaryDef, RequestData: pad}
	case 2:
		msg = &conformancev1.ServerStreamRequest{ResponseDefinition: streamDef, RequestData: pad}
	case 3:
		msg = &conformancev1.ClientStreamRequest{ResponseDefinition: unaryDef, RequestData: pad}
	case 4:
		msg = &conformancev1.BidiStreamRequest{ResponseDefinition: streamDef, FullDuplex: fd, RequestData: pad}
	case 5:
		// a message type of the service without a request_data field
		var data []byte
		if k > 0 {
			data = make([]byte, k)
		}
		return anypb.New(&conformancev1.ConformancePayload{Data: data})
	case 6:
		return &anypb.Any{TypeUrl: "type.googleapis.com/verif.NoSuchMessage", Value: make([]byte, base)}, nil
	default:
		// known type, undecodable value (truncated length-delimited field)
		val := bytes.Repeat([]byte{0x0a}, base)
		return &anypb.Any{TypeUrl: "type.googleapis.com/connectrpc.conformance.v1.UnaryRequest", Value: val}, nil
	}
	return anypb.New(msg)
}

type verifC19Obs struct {
	base, n, size int
	cleared       proto.Message
	typeURL       string
	raw           []byte
}

func verifC19Observe(a *anypb.Any) verifC19Obs {
	obs := verifC19Obs{size: len(a.Value), typeURL: a.TypeUrl, raw: a.Value}
	msg, err := a.UnmarshalNew()
	if err != nil {
		obs.base = len(a.Value)
		return obs
	}
	refl := msg.ProtoReflect()
	field := refl.Descriptor().Fields().ByName("request_data")
	if field == nil {
		obs.base = len(a.Value)
		return obs
	}
	obs.n = len(refl.Get(field).Bytes())
	refl.Clear(field)
	obs.base = proto.Size(msg)
	obs.cleared = msg
	return obs
}

func verifC19ErrTag(err error) vsx {
	text := err.Error()
	switch {
	case strings.Contains(text, "expand directives indicate"):
		return vErr("too-many")
	case strings.Contains(text, "results in an invalid request size"):
		return vErr("range")
	case strings.Contains(text, "can't pad to exactly"):
		return vErr("unreachable")
	case strings.Contains(text, "has no request_data field"), strings.Contains(text, "request message #"):
		return vErr("unpaddable")
	}
	return vErr("other")
}

// (msgs) (dirs) -> ((base n size untouched)...) | (err tag)
func verifC19Expand(args []vsx) vsx {
	msgs, dirs := args[0].l, args[1].l
	testCase := &conformancev1.TestCase{Request: &conformancev1.ClientCompatRequest{TestName: "verif"}}
	before := make([]verifC19Obs, len(msgs))
	for i, d := range msgs {
		a, err := verifC19Message(d)
		if err != nil {
			return vErr("harness-" + err.Error())
		}
		testCase.Request.RequestMessages = append(testCase.Request.RequestMessages, a)
		before[i] = verifC19Observe(a)
	}
	for _, d := range dirs {
		sz := &conformancev1.TestCase_ExpandedSize{}
		if len(d.l) == 1 {
			sz.SizeRelativeToLimit = proto.Int32(int32(d.l[0].i))
		}
		testCase.ExpandRequests = append(testCase.ExpandRequests, sz)
	}
	if err := expandRequestData(testCase); err != nil {
		return verifC19ErrTag(err)
	}
	if len(testCase.Request.RequestMessages) != len(msgs) {
		return vErr("message-count-changed")
	}
	out := make([]vsx, len(msgs))
	for i, a := range testCase.Request.RequestMessages {
		after := verifC19Observe(a)
		untouched := after.typeURL == before[i].typeURL
		if before[i].cleared != nil && after.cleared != nil {
			untouched = untouched && proto.Equal(before[i].cleared, after.cleared)
		} else {
			untouched = untouched && bytes.Equal(before[i].raw, after.raw)
		}
		if after.cleared != nil && after.size != proto.Size(after.cleared)+verifC19FieldSize(after.n) {
			return vErr("size-bookkeeping")
		}
		out[i] = vL(vInt(after.base), vInt(after.n), vInt(after.size), vBool(untouched))
	}
	return vL(out...)
}

func verifC19FieldSize(n int) int {
	return proto.Size(&conformancev1.UnaryRequest{RequestData: make([]byte, n)})
}

// ---------------------------------------------------------------------------
// c19.sharp: the real reference server and reference client, in-process
// ---------------------------------------------------------------------------

type verifC19Peers struct {
	mu      sync.Mutex
	ctx     context.Context
	client  *process
	servers map[string]*conformancev1.ServerCompatResponse
	seq     int
	err     error
}

var verifC19 = &verifC19Peers{servers: map[string]*conformancev1.ServerCompatResponse{}}

func (p *verifC19Peers) clientProc() (*process, error) {
	if p.client != nil || p.err != nil {
		return p.client, p.err
	}
	p.ctx = context.Background()
	start := runInProcess([]string{"reference-client", "-p", "1"},
		func(ctx context.Context, args []string, in io.ReadCloser, out, errW io.WriteCloser) error {
			return referenceclient.RunInReferenceMode(ctx, args, in, out, errW, nil)
		})
	p.client, p.err = start(p.ctx, false)
	return p.client, p.err
}

func (p *verifC19Peers) server(httpVersion conformancev1.HTTPVersion, limit uint32) (*conformancev1.ServerCompatResponse, error) {
	key := fmt.Sprintf("%d/%d", httpVersion, limit)
	if resp, ok := p.servers[key]; ok {
		return resp, nil
	}
	start := runInProcess([]string{"reference-server", "-port", "0", "-bind", "127.0.0.1"},
		func(ctx context.Context, args []string, in io.ReadCloser, out, errW io.WriteCloser) error {
			return referenceserver.RunInReferenceMode(ctx, args, in, out, errW, nil)
		})
	proc, err := start(context.Background(), true)
	if err != nil {
		return nil, err
	}
	go func() { _, _ = io.Copy(io.Discard, proc.stderr) }()
	err = internal.WriteDelimitedMessage(proc.stdin, &conformancev1.ServerCompatRequest{
		Protocol:            conformancev1.Protocol_PROTOCOL_CONNECT,
		HttpVersion:         httpVersion,
		MessageReceiveLimit: limit,
	})
	if err != nil {
		return nil, err
	}
	_ = proc.stdin.Close()
	resp := &conformancev1.ServerCompatResponse{}
	if err := internal.ReadDelimitedMessage(proc.stdout, resp, "server", 10*time.Second, 1<<20); err != nil {
		return nil, err
	}
	p.servers[key] = resp
	return resp, nil
}

func (p *verifC19Peers) call(req *conformancev1.ClientCompatRequest) (*conformancev1.ClientCompatResponse, error) {
	client, err := p.clientProc()
	if err != nil {
		return nil, err
	}
	if err := internal.WriteDelimitedMessage(client.stdin, req); err != nil {
		return nil, err
	}
	resp := &conformancev1.ClientCompatResponse{}
	if err := internal.ReadDelimitedMessage(client.stdout, resp, "client", 30*time.Second, 64<<20); err != nil {
		return nil, err
	}
	if resp.TestName != req.TestName {
		return nil, fmt.Errorf("response for %q while waiting for %q", resp.TestName, req.TestName)
	}
	return resp, nil
}

func verifC19Any(msg proto.Message) *anypb.Any {
	a, err := anypb.New(msg)
	if err != nil {
		panic(err)
	}
	return a
}

// side off httpVersion protocol compression streamType -> (limit size accepted)
//
// side 0: a request of uncompressed size serverReceiveLimit+off (built by expandRequestData)
// is sent to a reference server started exactly as the runner starts it.
// side 1: a server-stream response message of uncompressed size clientReceiveLimit+off is sent
// by a reference server without receive limit to the reference client, which is given the
// limit exactly as the runner gives it (ClientCompatRequest.message_receive_limit).
func verifC19Sharp(args []vsx) vsx {
	verifC19.mu.Lock()
	defer verifC19.mu.Unlock()
	side, off := args[0].i, args[1].i
	httpVersion := conformancev1.HTTPVersion(args[2].i)
	protocol := conformancev1.Protocol(args[3].i)
	compress := conformancev1.Compression(args[4].i)
	streamType := conformancev1.StreamType(args[5].i)

	small := []byte("ok")
	unaryDef := &conformancev1.UnaryResponseDefinition{
		Response: &conformancev1.UnaryResponseDefinition_ResponseData{ResponseData: small},
	}
	streamDef := &conformancev1.StreamResponseDefinition{ResponseData: [][]byte{small, small}}
	testCase := &conformancev1.TestCase{Request: &conformancev1.ClientCompatRequest{}}
	req := testCase.Request
	var limit, size int64
	var serverLimit uint32
	var method string
	none := &conformancev1.TestCase_ExpandedSize{}
	sized := &conformancev1.TestCase_ExpandedSize{SizeRelativeToLimit: proto.Int32(int32(off))}
	sizedIdx := 0

	if side == 0 {
		limit, serverLimit = int64(serverReceiveLimit), uint32(serverReceiveLimit)
		switch streamType {
		case conformancev1.StreamType_STREAM_TYPE_UNARY:
			method = "Unary"
			req.RequestMessages = []*anypb.Any{verifC19Any(&conformancev1.UnaryRequest{ResponseDefinition: unaryDef})}
			testCase.ExpandRequests = []*conformancev1.TestCase_ExpandedSize{sized}
		case conformancev1.StreamType_STREAM_TYPE_CLIENT_STREAM:
			method = "ClientStream"
			req.RequestMessages = []*anypb.Any{
				verifC19Any(&conformancev1.ClientStreamRequest{ResponseDefinition: unaryDef}),
				verifC19Any(&conformancev1.ClientStreamRequest{RequestData: small}),
			}
			testCase.ExpandRequests = []*conformancev1.TestCase_ExpandedSize{none, sized}
			sizedIdx = 1
		case conformancev1.StreamType_STREAM_TYPE_SERVER_STREAM:
			method = "ServerStream"
			req.RequestMessages = []*anypb.Any{verifC19Any(&conformancev1.ServerStreamRequest{ResponseDefinition: streamDef})}
			testCase.ExpandRequests = []*conformancev1.TestCase_ExpandedSize{sized}
		case conformancev1.StreamType_STREAM_TYPE_HALF_DUPLEX_BIDI_STREAM, conformancev1.StreamType_STREAM_TYPE_FULL_DUPLEX_BIDI_STREAM:
			method = "BidiStream"
			full := streamType == conformancev1.StreamType_STREAM_TYPE_FULL_DUPLEX_BIDI_STREAM
			req.RequestMessages = []*anypb.Any{
				verifC19Any(&conformancev1.BidiStreamRequest{ResponseDefinition: streamDef, FullDuplex: full}),
				verifC19Any(&conformancev1.BidiStreamRequest{RequestData: small}),
			}
			testCase.ExpandRequests = []*conformancev1.TestCase_ExpandedSize{sized, none}
		default:
			return vErr("bad-stream-type")
		}
		if err := expandRequestData(testCase); err != nil {
			return vErr("expand-failed")
		}
		size = int64(len(req.RequestMessages[sizedIdx].Value))
		req.MessageReceiveLimit = uint32(clientReceiveLimit)
		if off > 0 && streamType != conformancev1.StreamType_STREAM_TYPE_UNARY {
			req.RequestDelayMs = 50 // as the shipped suites do: let the client notice the rejection
		}
	} else {
		limit, serverLimit = int64(clientReceiveLimit), 0
		if streamType != conformancev1.StreamType_STREAM_TYPE_SERVER_STREAM {
			return vErr("bad-stream-type")
		}
		method = "ServerStream"
		// ServerStreamResponse{payload{data}}: find the data length giving exactly limit+off
		want := int(limit + off)
		dataLen := want - 8
		var probe *conformancev1.ServerStreamResponse
		for tries := 0; tries < 8; tries++ {
			probe = &conformancev1.ServerStreamResponse{Payload: &conformancev1.ConformancePayload{Data: make([]byte, dataLen)}}
			if diff := want - proto.Size(probe); diff != 0 {
				dataLen += diff
				continue
			}
			break
		}
		size = int64(proto.Size(probe))
		if size != int64(want) {
			return vErr("response-size-unreachable")
		}
		def := &conformancev1.StreamResponseDefinition{ResponseData: [][]byte{small, make([]byte, dataLen)}}
		req.RequestMessages = []*anypb.Any{verifC19Any(&conformancev1.ServerStreamRequest{ResponseDefinition: def})}
		req.MessageReceiveLimit = uint32(clientReceiveLimit)
	}

	server, err := verifC19.server(httpVersion, serverLimit)
	if err != nil {
		return vErr("server-start")
	}
	verifC19.seq++
	req.TestName = fmt.Sprintf("verif-c19-%06d", verifC19.seq)
	req.HttpVersion, req.Protocol, req.Codec, req.Compression = httpVersion, protocol, conformancev1.Codec_CODEC_PROTO, compress
	req.Host, req.Port = server.Host, server.Port
	if req.Host == "" {
		req.Host = internal.DefaultHost
	}
	service := conformancev1connect.ConformanceServiceName
	req.Service, req.Method, req.StreamType = &service, &method, streamType
	req.TimeoutMs = proto.Uint32(20000)
	req.RequestHeaders = []*conformancev1.Header{
		{Name: "x-test-case-name", Value: []string{req.TestName}},
		{Name: "x-expect-http-version", Value: []string{strconv.Itoa(int(req.HttpVersion))}},
		{Name: "x-expect-http-method", Value: []string{"POST"}},
		{Name: "x-expect-protocol", Value: []string{strconv.Itoa(int(req.Protocol))}},
		{Name: "x-expect-codec", Value: []string{strconv.Itoa(int(req.Codec))}},
		{Name: "x-expect-compression", Value: []string{strconv.Itoa(int(req.Compression))}},
		{Name: "x-expect-tls", Value: []string{"false"}},
	}
	resp, err := verifC19.call(req)
	if err != nil {
		return vErr("client-io")
	}
	if resp.GetError() != nil {
		if os.Getenv("VERIF_DEBUG") != "" {
			fmt.Fprintf(os.Stderr, "verif: client error: %s\n", resp.GetError().Message)
		}
		return vErr("client-error")
	}
	result := resp.GetResponse()
	var accepted bool
	switch {
	case result.GetError() == nil:
		accepted = true
		// an accepted exchange must also be complete
		want := 1
		if streamType == conformancev1.StreamType_STREAM_TYPE_SERVER_STREAM ||
			streamType == conformancev1.StreamType_STREAM_TYPE_HALF_DUPLEX_BIDI_STREAM ||
			streamType == conformancev1.StreamType_STREAM_TYPE_FULL_DUPLEX_BIDI_STREAM {
			want = 2
		}
		if len(result.Payloads) != want {
			return vErr(fmt.Sprintf("payloads-%d", len(result.Payloads)))
		}
	case result.GetError().GetCode() == conformancev1.Code_CODE_RESOURCE_EXHAUSTED:
		accepted = false
	default:
		if os.Getenv("VERIF_DEBUG") != "" {
			fmt.Fprintf(os.Stderr, "verif: rpc error: %v\n", result.GetError())
		}
		return vErr("code-" + strconv.Itoa(int(result.GetError().GetCode())))
	}
	return vL(vI(limit), vI(size), vBool(accepted))
}
