//go:build verif

package connectconformance

// C12, the runner's side: the real runTestCasesForServer over a batch of test cases that share one server
// instance; what is observed is the request each case is handed to the client with (x-test-case-name and the
// x-expect-* headers, in the request headers and in the raw request's headers).
//
//	c12.runner  (ref useTLS useCerts pem creds) (case ...): scripted server process (answers the start-up
//	            exchange, with or without a certificate), recording client that answers every request at once.
//	c12.runlive same arguments: the real reference server and the real reference client, both in-process;
//	            additionally whether the server wrote feedback about the case.
//
// case = (name version protocol codec compression stream-type get own-headers raw-headers?)

import (
	"bytes"
	"context"
	"errors"
	"io"
	"net/http"
	"strings"
	"sync"
	"time"

	"connectrpc.com/conformance/internal"
	"connectrpc.com/conformance/internal/app/referenceclient"
	"connectrpc.com/conformance/internal/app/referenceserver"
	conformancev1 "connectrpc.com/conformance/internal/gen/proto/go/connectrpc/conformance/v1"
	"google.golang.org/protobuf/proto"
	"google.golang.org/protobuf/types/known/anypb"
)

func init() {
	verifKinds["c12.runner"] = verifC12Runner
	verifKinds["c12.runlive"] = verifC12RunLive
}

func c12Bad() vsx { return vL(vS("bad-case")) }

type c12Inst struct{ ref, useTLS, useCerts, pem, creds bool }

func c12ParseInst(v vsx) (c12Inst, bool) {
	if v.k != 'l' || len(v.l) != 5 {
		return c12Inst{}, false
	}
	for _, x := range v.l {
		if x.k != 'i' || (x.i != 0 && x.i != 1) {
			return c12Inst{}, false
		}
	}
	return c12Inst{v.l[0].i != 0, v.l[1].i != 0, v.l[2].i != 0, v.l[3].i != 0, v.l[4].i != 0}, true
}

func c12ParseHeaders(v vsx) ([]*conformancev1.Header, bool) {
	if v.k != 'l' {
		return nil, false
	}
	out := []*conformancev1.Header{}
	for _, h := range v.l {
		if h.k != 'l' || len(h.l) != 2 || h.l[0].k != 'b' || h.l[1].k != 'l' {
			return nil, false
		}
		vals := []string{}
		for _, x := range h.l[1].l {
			if x.k != 'b' {
				return nil, false
			}
			vals = append(vals, string(x.b))
		}
		out = append(out, &conformancev1.Header{Name: string(h.l[0].b), Value: vals})
	}
	return out, true
}

func c12ParseCase(v vsx) (*conformancev1.TestCase, bool) {
	if v.k != 'l' || len(v.l) != 9 || v.l[0].k != 'b' {
		return nil, false
	}
	num := func(x vsx, hi int64) (int32, bool) {
		if x.k != 'i' || x.g != nil || x.i < 1 || x.i > hi {
			return 0, false
		}
		return int32(x.i), true
	}
	ver, ok1 := num(v.l[1], 3)
	prot, ok2 := num(v.l[2], 3)
	codec, ok3 := num(v.l[3], 2)
	comp, ok4 := num(v.l[4], 6)
	st, ok5 := num(v.l[5], 5)
	if !(ok1 && ok2 && ok3 && ok4 && ok5) || v.l[6].k != 'i' || (v.l[6].i != 0 && v.l[6].i != 1) {
		return nil, false
	}
	own, ok := c12ParseHeaders(v.l[7])
	if !ok || v.l[8].k != 'l' || len(v.l[8].l) > 1 {
		return nil, false
	}
	req := &conformancev1.ClientCompatRequest{
		TestName:         string(v.l[0].b),
		HttpVersion:      conformancev1.HTTPVersion(ver),
		Protocol:         conformancev1.Protocol(prot),
		Codec:            conformancev1.Codec(codec),
		Compression:      conformancev1.Compression(comp),
		StreamType:       conformancev1.StreamType(st),
		UseGetHttpMethod: v.l[6].i != 0,
		RequestHeaders:   own,
	}
	if len(v.l[8].l) == 1 {
		raw, ok := c12ParseHeaders(v.l[8].l[0])
		if !ok {
			return nil, false
		}
		req.RawRequest = &conformancev1.RawHTTPRequest{Verb: http.MethodPost, Uri: "/x", Headers: raw}
	}
	return &conformancev1.TestCase{Request: req, ExpectedResponse: &conformancev1.ClientResponseResult{}}, true
}

func c12ParseBatch(args []vsx) (c12Inst, []*conformancev1.TestCase, bool) {
	if len(args) != 2 || args[1].k != 'l' {
		return c12Inst{}, nil, false
	}
	inst, ok := c12ParseInst(args[0])
	if !ok {
		return inst, nil, false
	}
	cases := []*conformancev1.TestCase{}
	for _, c := range args[1].l {
		tc, ok := c12ParseCase(c)
		if !ok {
			return inst, nil, false
		}
		cases = append(cases, tc)
	}
	return inst, cases, true
}

func c12Headers(hs []*conformancev1.Header, onlyX bool) vsx {
	out := []vsx{}
	for _, h := range hs {
		if onlyX && !strings.HasPrefix(h.Name, "x-") {
			continue
		}
		out = append(out, vL(vS(h.Name), vStrs(h.Value)))
	}
	return vL(out...)
}

// ---- scripted server process ----

type c12Proc struct {
	mu      sync.Mutex
	done    bool
	actions []func(error)
	ch      chan struct{}
}

func (p *c12Proc) result() error { <-p.ch; return nil }
func (p *c12Proc) abort() {
	p.mu.Lock()
	if p.done {
		p.mu.Unlock()
		return
	}
	p.done = true
	acts := p.actions
	p.actions = nil
	p.mu.Unlock()
	close(p.ch)
	for _, a := range acts {
		a(nil)
	}
}
func (p *c12Proc) whenDone(f func(error)) {
	p.mu.Lock()
	if p.done {
		p.mu.Unlock()
		f(nil)
		return
	}
	p.actions = append(p.actions, f)
	p.mu.Unlock()
}

type c12Sink struct{}

func (c12Sink) Write(b []byte) (int, error) { return len(b), nil }
func (c12Sink) Close() error                { return nil }

// ---- recording clients ----

type c12Client struct {
	mu   sync.Mutex
	sent []*conformancev1.ClientCompatRequest
}

func (c *c12Client) sendRequest(req *conformancev1.ClientCompatRequest, whenDone func(string, *conformancev1.ClientCompatResponse, error)) error {
	c.mu.Lock()
	c.sent = append(c.sent, proto.Clone(req).(*conformancev1.ClientCompatRequest)) //nolint:forcetypeassert
	c.mu.Unlock()
	whenDone(req.TestName, &conformancev1.ClientCompatResponse{
		TestName: req.TestName,
		Result:   &conformancev1.ClientCompatResponse_Response{Response: &conformancev1.ClientResponseResult{}},
	}, nil)
	return nil
}
func (c *c12Client) closeSend()              {}
func (c *c12Client) waitForResponses() error { return nil }
func (c *c12Client) isRunning() bool         { return true }
func (c *c12Client) stop()                   {}

type c12Silent struct{}

func (c12Silent) Printf(string, ...any)               {}
func (c12Silent) PrefixPrintf(string, string, ...any) {}

func c12Meta(inst c12Inst, cases []*conformancev1.TestCase) serverInstance {
	meta := serverInstance{
		protocol:          conformancev1.Protocol_PROTOCOL_CONNECT,
		httpVersion:       conformancev1.HTTPVersion_HTTP_VERSION_1,
		useTLS:            inst.useTLS,
		useTLSClientCerts: inst.useCerts,
	}
	if len(cases) > 0 {
		meta.protocol, meta.httpVersion = cases[0].Request.Protocol, cases[0].Request.HttpVersion
	}
	return meta
}

func verifC12Runner(args []vsx) vsx {
	inst, cases, ok := c12ParseBatch(args)
	if !ok {
		return c12Bad()
	}
	var respBuf bytes.Buffer
	resp := &conformancev1.ServerCompatResponse{Host: "127.0.0.1", Port: 9}
	if inst.pem {
		resp.PemCert = []byte("CERT")
	}
	if err := internal.WriteDelimitedMessage(&respBuf, resp); err != nil {
		return vErr("setup")
	}
	starter := func(_ context.Context, _ bool) (*process, error) {
		return &process{
			processController: &c12Proc{ch: make(chan struct{})},
			stdin:             c12Sink{},
			stdout:            bytes.NewReader(respBuf.Bytes()),
			stderr:            strings.NewReader(""),
		}, nil
	}
	var clientCreds *conformancev1.TLSCreds
	if inst.creds {
		clientCreds = &conformancev1.TLSCreds{Cert: []byte("C"), Key: []byte("K")}
	}
	client := &c12Client{}
	results := newResults(len(cases), &testTrie{}, &testTrie{}, nil)
	done := make(chan struct{})
	go func() {
		defer close(done)
		runTestCasesForServer(context.Background(), !inst.ref, inst.ref, c12Meta(inst, cases), cases,
			&conformancev1.TLSCreds{Cert: []byte("S"), Key: []byte("K")}, clientCreds,
			starter, c12Silent{}, c12Silent{}, results, client, nil, false)
	}()
	select {
	case <-done:
	case <-time.After(30 * time.Second):
		return vL(vS("hang"))
	}
	out := []vsx{}
	for _, r := range client.sent {
		raw := vL()
		if r.RawRequest != nil {
			raw = vL(c12Headers(r.RawRequest.Headers, false))
		}
		out = append(out, vL(vS(r.TestName), c12Headers(r.RequestHeaders, false), raw))
	}
	return vL(out...)
}

// ---- live: real reference server, real reference client ----

type c12LiveClient struct {
	inner clientRunner
	mu    sync.Mutex
	sent  []*conformancev1.ClientCompatRequest
	resps map[string]*conformancev1.ClientCompatResponse
}

func (c *c12LiveClient) sendRequest(req *conformancev1.ClientCompatRequest, whenDone func(string, *conformancev1.ClientCompatResponse, error)) error {
	c.mu.Lock()
	c.sent = append(c.sent, proto.Clone(req).(*conformancev1.ClientCompatRequest)) //nolint:forcetypeassert
	c.mu.Unlock()
	return c.inner.sendRequest(req, func(name string, resp *conformancev1.ClientCompatResponse, err error) {
		c.mu.Lock()
		if err == nil {
			c.resps[name] = resp
		}
		c.mu.Unlock()
		whenDone(name, resp, err)
	})
}
func (c *c12LiveClient) closeSend()              {}
func (c *c12LiveClient) waitForResponses() error { return nil }
func (c *c12LiveClient) isRunning() bool         { return c.inner.isRunning() }
func (c *c12LiveClient) stop()                   {}

var (
	c12LiveOnce   sync.Once
	c12LiveInner  clientRunner
	c12LiveErr    error
	c12ServerCert *conformancev1.TLSCreds
	c12ClientCert *conformancev1.TLSCreds
	c12LiveSeq    int
)

func c12LiveSetup() {
	c12LiveInner, c12LiveErr = runClient(context.Background(), runInProcess([]string{"reference-client", "-p", "4"},
		func(ctx context.Context, args []string, in io.ReadCloser, out, errw io.WriteCloser) error {
			return referenceclient.RunInReferenceMode(ctx, args, in, out, errw, nil)
		}))
	if c12LiveErr != nil {
		return
	}
	cert, key, err := internal.NewServerCert()
	if err != nil {
		c12LiveErr = err
		return
	}
	c12ServerCert = &conformancev1.TLSCreds{Cert: cert, Key: key}
	ccert, ckey, err := internal.NewClientCert()
	if err != nil {
		c12LiveErr = err
		return
	}
	c12ClientCert = &conformancev1.TLSCreds{Cert: ccert, Key: ckey}
}

// a runnable request for the case's stream type (one request message, one or two response messages)
func c12LiveFill(tc *conformancev1.TestCase) error {
	req := tc.Request
	service := "connectrpc.conformance.v1.ConformanceService"
	req.Service = &service
	var method string
	var msg proto.Message
	unaryDef := &conformancev1.UnaryResponseDefinition{
		Response: &conformancev1.UnaryResponseDefinition_ResponseData{ResponseData: []byte("c12")},
	}
	streamDef := &conformancev1.StreamResponseDefinition{ResponseData: [][]byte{[]byte("c"), []byte("12")}}
	switch req.StreamType {
	case conformancev1.StreamType_STREAM_TYPE_UNARY:
		if req.UseGetHttpMethod {
			method, msg = "IdempotentUnary", &conformancev1.IdempotentUnaryRequest{ResponseDefinition: unaryDef}
		} else {
			method, msg = "Unary", &conformancev1.UnaryRequest{ResponseDefinition: unaryDef}
		}
	case conformancev1.StreamType_STREAM_TYPE_CLIENT_STREAM:
		method, msg = "ClientStream", &conformancev1.ClientStreamRequest{ResponseDefinition: unaryDef}
	case conformancev1.StreamType_STREAM_TYPE_SERVER_STREAM:
		method, msg = "ServerStream", &conformancev1.ServerStreamRequest{ResponseDefinition: streamDef}
	case conformancev1.StreamType_STREAM_TYPE_HALF_DUPLEX_BIDI_STREAM:
		method, msg = "BidiStream", &conformancev1.BidiStreamRequest{ResponseDefinition: streamDef}
	case conformancev1.StreamType_STREAM_TYPE_FULL_DUPLEX_BIDI_STREAM:
		method, msg = "BidiStream", &conformancev1.BidiStreamRequest{ResponseDefinition: streamDef, FullDuplex: true}
	default:
		return errors.New("stream type")
	}
	req.Method = &method
	packed, err := anypb.New(msg)
	if err != nil {
		return err
	}
	req.RequestMessages = []*anypb.Any{packed}
	req.RequestHeaders = nil
	req.RawRequest = nil
	tc.ExpectedResponse = nil
	return populateExpectedResponse(tc)
}

func verifC12RunLive(args []vsx) vsx {
	inst, cases, ok := c12ParseBatch(args)
	if !ok || !inst.ref || inst.pem != inst.useTLS || inst.creds != inst.useCerts || (inst.useCerts && !inst.useTLS) || len(cases) == 0 {
		return c12Bad()
	}
	meta := c12Meta(inst, cases)
	seen := map[string]bool{}
	for _, tc := range cases {
		rq := tc.Request
		h2 := rq.HttpVersion == conformancev1.HTTPVersion_HTTP_VERSION_2
		switch {
		case rq.HttpVersion != meta.httpVersion || rq.Protocol != meta.protocol,
			rq.HttpVersion == conformancev1.HTTPVersion_HTTP_VERSION_3,
			rq.Protocol == conformancev1.Protocol_PROTOCOL_GRPC && !h2,
			rq.StreamType == conformancev1.StreamType_STREAM_TYPE_FULL_DUPLEX_BIDI_STREAM && !h2,
			// (the reference client leaves small GET requests uncompressed: the suites run GET under identity only)
			rq.UseGetHttpMethod && (rq.Protocol != conformancev1.Protocol_PROTOCOL_CONNECT || rq.StreamType != conformancev1.StreamType_STREAM_TYPE_UNARY ||
				rq.Compression != conformancev1.Compression_COMPRESSION_IDENTITY),
			rq.TestName == "" || rq.TestName != strings.TrimSpace(rq.TestName) || strings.Contains(rq.TestName, ": ") || seen[rq.TestName]:
			return c12Bad()
		}
		seen[rq.TestName] = true
		if err := c12LiveFill(tc); err != nil {
			return vErr("fill")
		}
		if inst.useTLS {
			rq.ServerTlsCert = []byte("PLACEHOLDER")
		}
	}
	c12LiveOnce.Do(c12LiveSetup)
	if c12LiveErr != nil {
		return vErr("client-start")
	}
	client := &c12LiveClient{inner: c12LiveInner, resps: map[string]*conformancev1.ClientCompatResponse{}}
	var clientCreds *conformancev1.TLSCreds
	if inst.creds {
		clientCreds = c12ClientCert
	}
	results := newResults(len(cases), &testTrie{}, &testTrie{}, nil)
	starter := runInProcess([]string{"reference-server", "-port", "0", "-bind", "127.0.0.1", "-cert", "", "-key", ""},
		func(ctx context.Context, args []string, in io.ReadCloser, out, errw io.WriteCloser) error {
			return referenceserver.RunInReferenceMode(ctx, args, in, out, errw, nil)
		})
	done := make(chan struct{})
	go func() {
		defer close(done)
		runTestCasesForServer(context.Background(), true, true, meta, cases, c12ServerCert, clientCreds,
			starter, c12Silent{}, c12Silent{}, results, client, nil, false)
	}()
	select {
	case <-done:
	case <-time.After(60 * time.Second):
		return vL(vS("hang"))
	}
	results.mu.Lock()
	defer results.mu.Unlock()
	client.mu.Lock()
	defer client.mu.Unlock()
	out := []vsx{}
	for _, r := range client.sent {
		resp := client.resps[r.TestName]
		if resp == nil || resp.GetResponse() == nil {
			return vErr("not-run")
		}
		_, flagged := results.serverSideband[r.TestName]
		out = append(out, vL(vS(r.TestName), c12Headers(r.RequestHeaders, true), vBool(flagged)))
	}
	return vL(out...)
}
