//go:build verif

package referenceserver

import (
	"bytes"
	"context"
	"crypto/tls"
	"crypto/x509"
	"crypto/x509/pkix"
	"errors"
	"fmt"
	"io"
	"net"
	"net/http"
	"net/http/httptest"
	"net/url"
	"os"
	"reflect"
	"sort"
	"strconv"
	"strings"
	"sync"
	"testing"
	"time"

	"connectrpc.com/conformance/internal"
	conformancev1 "connectrpc.com/conformance/internal/gen/proto/go/connectrpc/conformance/v1"
	"connectrpc.com/conformance/internal/gen/proto/go/connectrpc/conformance/v1/conformancev1connect"
	"golang.org/x/net/http2"
	"golang.org/x/net/http2/h2c"
	"google.golang.org/protobuf/proto"
	"google.golang.org/protobuf/reflect/protoreflect"
)

func init() {
	verifKinds["c12.seq"] = verifC12Seq
	verifKinds["c12.matrix"] = verifC12Matrix
	verifKinds["c12.render"] = verifC12Render
	verifKinds["c12.timeouts"] = verifC12Timeouts
	verifKinds["c12.wire"] = verifC12LiveKind
	verifKinds["c12.events"] = verifC12Events
	verifKinds["c12.live"] = verifC12Server
	verifKinds["c12.print"] = verifC12Print
}

// ---- recording printer: keeps format and arguments, never the rendered text ----

type verifC12Msg struct {
	prefix, format string
	args           []any
}

type verifC12Printer struct{ msgs []verifC12Msg }

func (p *verifC12Printer) Printf(msg string, args ...any) {
	p.msgs = append(p.msgs, verifC12Msg{"", msg, args})
}

func (p *verifC12Printer) PrefixPrintf(prefix, msg string, args ...any) {
	p.msgs = append(p.msgs, verifC12Msg{prefix, msg, args})
}

var _ internal.Printer = (*verifC12Printer)(nil)

func verifC12Arg(a any, lower bool) vsx {
	v := reflect.ValueOf(a)
	switch v.Kind() {
	case reflect.Int, reflect.Int8, reflect.Int16, reflect.Int32, reflect.Int64:
		return vI(v.Int())
	case reflect.String:
		if lower {
			return vS(strings.ToLower(v.String()))
		}
		return vS(v.String())
	default:
		return vS("?")
	}
}

// feedback kind = a tag chosen from the wording of the format string + the structured arguments
func verifC12Kind(m verifC12Msg) vsx {
	f := m.format
	has := func(s string) bool { return strings.Contains(f, s) }
	tag := func(t int64, lower bool, idx ...int) vsx {
		out := []vsx{vI(t)}
		for _, i := range idx {
			if i >= len(m.args) {
				return vL(vI(-1), vS(f))
			}
			out = append(out, verifC12Arg(m.args[i], lower))
		}
		return vL(out...)
	}
	switch {
	case has("another request"):
		return tag(1, false, 0)
	case has("header appears"):
		return tag(2, true, 0, 1)
	case has("query string param appears"):
		return tag(3, false, 0, 1)
	case has("invalid value for %q header: %q: %v"):
		if len(m.args) > 0 && strings.EqualFold(fmt.Sprint(m.args[0]), "x-expect-tls") {
			return tag(20, false)
		}
		return tag(4, true, 0)
	case has("is not in range"):
		return tag(5, true, 0, 1)
	case has("invalid expected HTTP version"):
		return tag(6, false, 0)
	case has("expected HTTP version"):
		return tag(7, false, 0, 1)
	case has("could not determine protocol"):
		return tag(8, false)
	case has("expected protocol"):
		return tag(9, false, 0, 1)
	case has("te: trailers"):
		return tag(10, false)
	case has("invalid expected codec"):
		return tag(11, false, 0)
	case has("content-type header should not appear"):
		return tag(12, false)
	case has("should not have a request body"):
		return tag(13, false)
	case has("encoding query parameter is missing"):
		return tag(14, false)
	case has("expected codec"):
		return tag(15, false, 0, 1)
	case has("invalid expected compression"):
		return tag(16, false, 0)
	case has("expected compression"):
		return tag(17, false, 0, 1)
	case has("expecting TLS request"):
		return tag(21, false)
	case has("expecting plain-text"):
		return tag(22, false)
	case has("expecting client cert"):
		return tag(23, false, 0, 1)
	case has("expected HTTP method"):
		return tag(24, false, 0, 1)
	case has("HTTP trailers"):
		return tag(25, false, 0)
	}
	// timeout messages: told apart by the header they name
	if len(m.args) > 0 {
		hdr := strings.ToLower(fmt.Sprint(m.args[0]))
		switch {
		case hdr == "connect-timeout-ms" && has("digits"):
			return tag(31, false)
		case hdr == "connect-timeout-ms":
			return tag(30, false)
		case hdr == "grpc-timeout" && has("digits"):
			return tag(35, false)
		case hdr == "grpc-timeout" && has("invalid unit"):
			return tag(33, false)
		case hdr == "grpc-timeout" && has("invalid numeric value"):
			return tag(34, false)
		case hdr == "grpc-timeout":
			return tag(32, false)
		}
	}
	return vL(vI(-1), vS(f))
}

// ---- the request record (same field order as C12_Model.request) ----

type verifC12Req struct {
	protoMajor int
	method     string
	h          [17][]string // ct ge cce ce te cto gto name xv xm xp xc xz xt xcert qenc qcomp
	bodyEmpty  bool
	tls        *[]string
	trailers   int
}

var verifC12Names = [15]string{"Content-Type", "Grpc-Encoding", "Connect-Content-Encoding", "Content-Encoding", "Te",
	"Connect-Timeout-Ms", "Grpc-Timeout", "X-Test-Case-Name", "X-Expect-Http-Version", "X-Expect-Http-Method",
	"X-Expect-Protocol", "X-Expect-Codec", "X-Expect-Compression", "X-Expect-Tls", "X-Expect-Client-Cert"}

func verifC12Decode(a vsx) verifC12Req {
	var r verifC12Req
	r.protoMajor = int(a.l[0].i)
	r.method = a.l[1].str()
	for i := 0; i < 17; i++ {
		r.h[i] = a.l[2+i].strs()
	}
	r.bodyEmpty = a.l[19].boolean()
	if len(a.l[20].l) == 1 {
		cns := a.l[20].l[0].strs()
		r.tls = &cns
	}
	r.trailers = int(a.l[21].i)
	return r
}

func (r verifC12Req) encode() vsx {
	out := []vsx{vInt(r.protoMajor), vS(r.method)}
	for i := 0; i < 17; i++ {
		out = append(out, vStrs(r.h[i]))
	}
	out = append(out, vBool(r.bodyEmpty))
	if r.tls == nil {
		out = append(out, vL())
	} else {
		out = append(out, vL(vStrs(*r.tls)))
	}
	out = append(out, vInt(r.trailers))
	return vL(out...)
}

func (r verifC12Req) build() *http.Request {
	hdr := http.Header{}
	for i, n := range verifC12Names {
		if len(r.h[i]) > 0 {
			hdr[n] = append([]string(nil), r.h[i]...)
		}
	}
	query := url.Values{}
	if len(r.h[15]) > 0 {
		query["encoding"] = r.h[15]
	}
	if len(r.h[16]) > 0 {
		query["compression"] = r.h[16]
	}
	req := &http.Request{
		Method:     r.method,
		URL:        &url.URL{Scheme: "http", Host: "example.com", Path: "/connectrpc.conformance.v1.ConformanceService/Unary", RawQuery: query.Encode()},
		Proto:      "HTTP/" + strconv.Itoa(r.protoMajor) + ".0",
		ProtoMajor: r.protoMajor,
		Header:     hdr,
		Host:       "example.com",
		Body:       http.NoBody,
	}
	if !r.bodyEmpty {
		req.Body = io.NopCloser(strings.NewReader("x"))
		req.ContentLength = 1
	}
	if r.trailers > 0 {
		req.Trailer = http.Header{}
		for i := 0; i < r.trailers; i++ {
			req.Trailer["X-Trailer-"+strconv.Itoa(i)] = []string{"v"}
		}
	}
	if r.tls != nil {
		state := &tls.ConnectionState{}
		for _, cn := range *r.tls {
			state.PeerCertificates = append(state.PeerCertificates, &x509.Certificate{Subject: pkix.Name{CommonName: cn}})
		}
		req.TLS = state
	}
	return req.WithContext(context.Background())
}

// one request through a handler wrapped by referenceServerChecks -> outcome
func verifC12Serve(wrap func(inner http.Handler) http.Handler, pr *verifC12Printer, r verifC12Req) vsx {
	var called, hasConnect, hasGRPC bool
	var timeout *time.Duration
	var echo *int64
	inner := http.HandlerFunc(func(_ http.ResponseWriter, req *http.Request) {
		called = true
		_, hasConnect = req.Header["Connect-Timeout-Ms"]
		_, hasGRPC = req.Header["Grpc-Timeout"]
		if t, ok := req.Context().Value(timeoutContextKey{}).(time.Duration); ok {
			timeout = &t
		}
		echo = createRequestInfo(req.Context(), req.Header, nil, nil).TimeoutMs
	})
	pr.msgs = nil
	rec := httptest.NewRecorder()
	wrap(inner).ServeHTTP(rec, r.build())
	if !called {
		res := rec.Result()
		body, _ := io.ReadAll(res.Body)
		wrote := strings.Contains(string(body), "invalid_argument") || res.Header.Get("Grpc-Status") == "3" ||
			res.Trailer.Get("Grpc-Status") == "3" || strings.Contains(strings.ToLower(string(body)), "grpc-status: 3") ||
			rec.Header().Get(http.TrailerPrefix+"Grpc-Status") == "3"
		if wrote && len(pr.msgs) == 0 {
			return vL(vS("rejected"))
		}
		return vL(vS("not-called"), vBool(wrote), vInt(len(pr.msgs)))
	}
	kinds := make([]vsx, len(pr.msgs))
	prefix := ""
	for i, m := range pr.msgs {
		kinds[i] = verifC12Kind(m)
		if i == 0 {
			prefix = m.prefix
		} else if m.prefix != prefix {
			return vErr("mixed-prefix")
		}
	}
	opt := func(p *int64) vsx {
		if p == nil {
			return vL()
		}
		return vL(vI(*p))
	}
	var tns *int64
	if timeout != nil {
		v := int64(*timeout)
		tns = &v
	}
	return vL(vS(prefix), vL(kinds...), opt(tns), vBool(hasConnect), vBool(hasGRPC), opt(echo))
}

func verifC12Wrapper(pr *verifC12Printer) func(http.Handler) http.Handler {
	var h http.Handler
	var inner http.Handler
	h = referenceServerChecks(http.HandlerFunc(func(w http.ResponseWriter, r *http.Request) { inner.ServeHTTP(w, r) }), pr)
	return func(i http.Handler) http.Handler { inner = i; return h }
}

// (request ...) on ONE wrapped handler (so that the per-name call counter is exercised)
func verifC12Seq(args []vsx) vsx {
	pr := &verifC12Printer{}
	wrap := verifC12Wrapper(pr)
	out := make([]vsx, len(args[0].l))
	for i, a := range args[0].l {
		out[i] = verifC12Serve(wrap, pr, verifC12Decode(a))
	}
	return vL(out...)
}

// ---- an independent rendering of a point of the matrix, written against the protocol documents ----

var (
	verifC12Codecs       = []string{"proto", "json"}
	verifC12Compressions = []string{"identity", "gzip", "br", "zstd", "deflate", "snappy"}
)

// actual code: ((((version*7+shape)*2+codec)*6+compression)*3+tls
func verifC12RenderActual(code int) verifC12Req {
	t := code % 3
	code /= 3
	z := code % 6
	code /= 6
	c := code % 2
	code /= 2
	shape := code % 7
	version := code / 7
	var r verifC12Req
	r.protoMajor = version + 1
	r.method = http.MethodPost
	r.bodyEmpty = false
	codec := verifC12Codecs[c]
	var enc []string
	if z != 0 {
		enc = []string{verifC12Compressions[z]}
	}
	switch shape {
	case 0: // Connect unary GET: everything travels in the query string
		r.method = http.MethodGet
		r.bodyEmpty = true
		r.h[15] = []string{codec}
		r.h[16] = enc
	case 1: // Connect unary POST
		r.h[0] = []string{"application/" + codec}
		r.h[3] = enc
	case 2: // Connect streaming
		r.h[0] = []string{"application/connect+" + codec}
		r.h[2] = enc
	case 3, 4: // gRPC; shape 4 leaves out "+proto"
		r.h[0] = []string{"application/grpc+" + codec}
		if shape == 4 && codec == "proto" {
			r.h[0] = []string{"application/grpc"}
		}
		r.h[1] = enc
		r.h[4] = []string{"trailers"}
	case 5, 6: // gRPC-Web
		r.h[0] = []string{"application/grpc-web+" + codec}
		if shape == 6 && codec == "proto" {
			r.h[0] = []string{"application/grpc-web"}
		}
		r.h[1] = enc
	}
	switch t {
	case 1:
		r.tls = &[]string{}
	case 2:
		r.tls = &[]string{internal.ClientCertName}
	}
	return r
}

// expected code: ((((version*2+get)*3+protocol)*2+codec)*6+compression)*3+tls — the headers are
// produced the way server_runner.go produces them (strconv.Itoa of the enum, FormatBool, ClientCertName)
func verifC12Expect(r verifC12Req, code int, name string) verifC12Req {
	t := code % 3
	code /= 3
	z := code % 6
	code /= 6
	c := code % 2
	code /= 2
	p := code % 3
	code /= 3
	get := code % 2
	version := code / 2
	r.h[7] = []string{name}
	r.h[8] = []string{strconv.Itoa(int(conformancev1.HTTPVersion_HTTP_VERSION_1) + version)}
	r.h[9] = []string{http.MethodPost}
	if get == 1 {
		r.h[9] = []string{http.MethodGet}
	}
	r.h[10] = []string{strconv.Itoa(int(conformancev1.Protocol_PROTOCOL_CONNECT) + p)}
	r.h[11] = []string{strconv.Itoa(int(conformancev1.Codec_CODEC_PROTO) + c)}
	r.h[12] = []string{strconv.Itoa(int(conformancev1.Compression_COMPRESSION_IDENTITY) + z)}
	r.h[13] = []string{strconv.FormatBool(t != 0)}
	if t == 2 {
		r.h[14] = []string{internal.ClientCertName}
	}
	return r
}

// expected-code (actual-code ...) -> (feedback kinds ...) per rendering, fresh handler each time
func verifC12Matrix(args []vsx) vsx {
	exp := int(args[0].i)
	out := make([]vsx, len(args[1].l))
	pr := &verifC12Printer{}
	for i, a := range args[1].l {
		req := verifC12Expect(verifC12RenderActual(int(a.i)), exp, "t")
		res := verifC12Serve(verifC12Wrapper(pr), pr, req)
		if len(res.l) != 6 {
			return vL(vS("unexpected"), res)
		}
		out[i] = res.l[1]
	}
	return vL(out...)
}

func verifC12Render(args []vsx) vsx {
	return verifC12Expect(verifC12RenderActual(int(args[0].i)), int(args[1].i), "t").encode()
}

// protocol (value ...) -> outcome per timeout header value on an otherwise matching request
func verifC12Timeouts(args []vsx) vsx {
	p := int(args[0].i)
	var act, exp int
	var slot int
	switch p {
	case 1:
		act, exp, slot = (((1*7+1)*2+0)*6+0)*3+0, ((((1*2+0)*3+0)*2+0)*6+0)*3+0, 5
	case 2:
		act, exp, slot = (((1*7+3)*2+0)*6+0)*3+0, ((((1*2+0)*3+1)*2+0)*6+0)*3+0, 6
	case 3:
		act, exp, slot = (((1*7+5)*2+0)*6+0)*3+0, ((((1*2+0)*3+2)*2+0)*6+0)*3+0, 6
	default:
		return vL(vS("bad-case"))
	}
	base := verifC12Expect(verifC12RenderActual(act), exp, "t")
	out := make([]vsx, len(args[1].l))
	pr := &verifC12Printer{}
	for i, v := range args[1].l {
		req := base
		req.h[slot] = []string{v.str()}
		out[i] = verifC12Serve(verifC12Wrapper(pr), pr, req)
	}
	return vL(out...)
}

// ---- constants and tables the compiled code uses, as Coq definitions ----

func verifC12Bytes(s string) string {
	parts := make([]string, len(s))
	for i := 0; i < len(s); i++ {
		parts[i] = strconv.Itoa(int(s[i]))
	}
	return "[" + strings.Join(parts, "; ") + "]%N"
}

func verifC12EnumNumbers(d protoreflect.EnumDescriptor) string {
	var nums []int
	for i := 0; i < d.Values().Len(); i++ {
		nums = append(nums, int(d.Values().Get(i).Number()))
	}
	sort.Ints(nums)
	parts := make([]string, len(nums))
	for i, n := range nums {
		parts[i] = strconv.Itoa(n)
	}
	return "[" + strings.Join(parts, "; ") + "]%Z"
}

func TestVerifConsts(t *testing.T) {
	out := os.Getenv("VERIF_OUT")
	if out == "" {
		t.Skip("VERIF_OUT not set")
	}
	var sb strings.Builder
	sb.WriteString("Definition c12_http_versions : list Z := " + verifC12EnumNumbers(conformancev1.HTTPVersion(0).Descriptor()) + ".\n")
	sb.WriteString("Definition c12_protocols : list Z := " + verifC12EnumNumbers(conformancev1.Protocol(0).Descriptor()) + ".\n")
	sb.WriteString("Definition c12_codecs : list Z := " + verifC12EnumNumbers(conformancev1.Codec(0).Descriptor()) + ".\n")
	sb.WriteString("Definition c12_compressions : list Z := " + verifC12EnumNumbers(conformancev1.Compression(0).Descriptor()) + ".\n")
	// the name each enum value is compared with: read off the "expected ...; instead got ..." feedback
	// of a request that carries an unknown codec / compression
	pr := &verifC12Printer{}
	fbp := &feedbackPrinter{p: pr, testCaseName: "t"}
	probe := func(run func(n int32, req *http.Request), max int) string {
		var parts []string
		for n := 0; n <= max; n++ {
			pr.msgs = nil
			req := (&http.Request{Method: http.MethodPost, URL: &url.URL{Path: "/"}, Body: http.NoBody,
				Header: http.Header{"Content-Type": {"application/zz"}, "Content-Encoding": {"zz"}}}).WithContext(context.Background())
			run(int32(n), req)
			if len(pr.msgs) == 1 && len(pr.msgs[0].args) == 2 {
				if s, ok := pr.msgs[0].args[0].(string); ok {
					parts = append(parts, fmt.Sprintf("(%d%%Z, %s)", n, verifC12Bytes(s)))
				}
			}
		}
		return "[" + strings.Join(parts, "; ") + "]"
	}
	sb.WriteString("Definition c12_codec_names : list (Z * list N) := " +
		probe(func(n int32, req *http.Request) { checkCodec(conformancev1.Codec(n), req, fbp) }, 16) + ".\n")
	sb.WriteString("Definition c12_compression_names : list (Z * list N) := " +
		probe(func(n int32, req *http.Request) { checkCompression(conformancev1.Compression(n), req, fbp) }, 16) + ".\n")
	// digit limits and unit table: read off extractTimeout's behaviour
	accepted := func(p conformancev1.Protocol, name, val string) (time.Duration, bool) {
		pr.msgs = nil
		d, ok := extractTimeout(http.Header{name: {val}}, p, fbp)
		return d, ok && len(pr.msgs) == 0
	}
	maxDigits := func(p conformancev1.Protocol, name, suffix string) int {
		best := 0
		for k := 1; k <= 40; k++ {
			if _, ok := accepted(p, name, strings.Repeat("1", k)+suffix); ok {
				best = k
			}
		}
		return best
	}
	sb.WriteString(fmt.Sprintf("Definition c12_connect_max_digits : Z := %d%%Z.\n",
		maxDigits(conformancev1.Protocol_PROTOCOL_CONNECT, connectTimeoutHeader, "")))
	sb.WriteString(fmt.Sprintf("Definition c12_grpc_max_digits : Z := %d%%Z.\n",
		maxDigits(conformancev1.Protocol_PROTOCOL_GRPC, grpcTimeoutHeader, "n")))
	var units []string
	for b := 0; b < 256; b++ {
		if d, ok := accepted(conformancev1.Protocol_PROTOCOL_GRPC, grpcTimeoutHeader, "1"+string([]byte{byte(b)})); ok {
			units = append(units, fmt.Sprintf("(%d%%N, %d%%Z)", b, int64(d)))
		}
	}
	sb.WriteString("Definition c12_grpc_units : list (N * Z) := [" + strings.Join(units, "; ") + "].\n")
	sb.WriteString("Definition c12_client_cert_name : list N := " + verifC12Bytes(internal.ClientCertName) + ".\n")
	if err := os.WriteFile(out, []byte(sb.String()), 0o644); err != nil {
		t.Fatal(err)
	}
}

// ---- c12.wire: the same record sent by a real client over a real listener to referenceServerChecks ----
// mode: 0 HTTP/1.1 plain, 1 HTTP/1.1 TLS, 2 HTTP/1.1 TLS + client certificate, 3 HTTP/2 TLS,
// 4 HTTP/2 TLS + client certificate, 5 HTTP/2 plain (h2c, prior knowledge).
// ProtoMajor, req.TLS, header canonicalisation, query parsing, body and trailers are then what
// net/http delivers, not what the harness writes into an http.Request.

type verifC12Live struct {
	mu      sync.Mutex
	handler http.Handler
	plain   *httptest.Server
	secure  *httptest.Server
	clients [6]*http.Client

	noCert, withCert *tls.Config
}

var (
	verifC12LiveOnce sync.Once
	verifC12LiveEnv  *verifC12Live
	verifC12LiveErr  error
)

func verifC12LiveSetup() (*verifC12Live, error) {
	verifC12LiveOnce.Do(func() {
		env := &verifC12Live{}
		dispatch := http.HandlerFunc(func(w http.ResponseWriter, r *http.Request) {
			env.mu.Lock()
			h := env.handler
			env.mu.Unlock()
			h.ServeHTTP(w, r)
		})
		serverCert, serverKey, err := internal.NewServerCert()
		if err != nil {
			verifC12LiveErr = err
			return
		}
		clientCert, clientKey, err := internal.NewClientCert()
		if err != nil {
			verifC12LiveErr = err
			return
		}
		pair, err := internal.ParseServerCert(serverCert, serverKey)
		if err != nil {
			verifC12LiveErr = err
			return
		}
		serverTLS, err := internal.NewServerTLSConfig(pair, tls.VerifyClientCertIfGiven, clientCert)
		if err != nil {
			verifC12LiveErr = err
			return
		}
		env.plain = httptest.NewServer(h2c.NewHandler(dispatch, &http2.Server{}))
		env.secure = httptest.NewUnstartedServer(dispatch)
		env.secure.TLS = serverTLS
		env.secure.EnableHTTP2 = true
		env.secure.StartTLS()
		noCert, err := internal.NewClientTLSConfig(serverCert, nil, nil)
		if err != nil {
			verifC12LiveErr = err
			return
		}
		withCert, err := internal.NewClientTLSConfig(serverCert, clientCert, clientKey)
		if err != nil {
			verifC12LiveErr = err
			return
		}
		for mode := range env.clients {
			env.clients[mode] = verifC12NewClient(mode, noCert, withCert)
		}
		env.noCert, env.withCert = noCert, withCert
		verifC12LiveEnv = env
	})
	return verifC12LiveEnv, verifC12LiveErr
}

// mode request -> outcome (same shape as c12.seq's, one request on a fresh wrapped handler)
func verifC12LiveKind(args []vsx) vsx {
	env, err := verifC12LiveSetup()
	if err != nil {
		return vErr("live-setup")
	}
	mode := int(args[0].i)
	if mode < 0 || mode > 5 {
		return vL(vS("bad-case"))
	}
	if len(args[1].l) != 22 {
		return vL(vS("bad-case"))
	}
	r := verifC12Decode(args[1])
	// records that this client cannot put on the wire as they are: not cases (the shrinker skips them)
	if verifC12Unsendable(r, mode >= 3) {
		return vL(vS("bad-case"))
	}
	var called, hasConnect, hasGRPC bool
	var timeout *time.Duration
	var echo *int64
	inner := http.HandlerFunc(func(_ http.ResponseWriter, req *http.Request) {
		called = true
		_, hasConnect = req.Header["Connect-Timeout-Ms"]
		_, hasGRPC = req.Header["Grpc-Timeout"]
		if t, ok := req.Context().Value(timeoutContextKey{}).(time.Duration); ok {
			timeout = &t
		}
		echo = createRequestInfo(req.Context(), req.Header, nil, nil).TimeoutMs
	})
	pr := &verifC12Printer{}
	done := make(chan struct{})
	wrapped := referenceServerChecks(inner, pr)
	env.mu.Lock()
	env.handler = http.HandlerFunc(func(w http.ResponseWriter, req *http.Request) {
		defer close(done)
		wrapped.ServeHTTP(w, req)
	})
	env.mu.Unlock()

	base := env.plain.URL
	if mode >= 1 && mode <= 4 {
		base = env.secure.URL
	}
	query := url.Values{}
	if len(r.h[15]) > 0 {
		query["encoding"] = r.h[15]
	}
	if len(r.h[16]) > 0 {
		query["compression"] = r.h[16]
	}
	target := base + "/connectrpc.conformance.v1.ConformanceService/Unary"
	if enc := query.Encode(); enc != "" {
		target += "?" + enc
	}
	req, err := http.NewRequestWithContext(context.Background(), r.method, target, nil)
	if err != nil {
		return vErr("live-request")
	}
	if !r.bodyEmpty || r.trailers > 0 {
		content := "x"
		if r.bodyEmpty {
			content = ""
		}
		verifC12SetBody(req, content)
	}
	for i, n := range verifC12Names {
		if len(r.h[i]) > 0 {
			req.Header[n] = append([]string(nil), r.h[i]...)
		}
	}
	if r.trailers > 0 {
		req.Trailer = http.Header{}
		for i := 0; i < r.trailers; i++ {
			req.Trailer["X-Trailer-"+strconv.Itoa(i)] = []string{"v"}
		}
	}
	client := env.clients[mode]
	if mode >= 3 && r.trailers > 0 {
		client = verifC12NewClient(mode, env.noCert, env.withCert) // see verifC12NewClient
		defer client.CloseIdleConnections()
	}
	resp, err := client.Do(req)
	if err != nil {
		// the client refused to send it (invalid header value, ...)
		return vL(vS("bad-case"))
	}
	respBody, _ := io.ReadAll(resp.Body)
	_ = resp.Body.Close()
	select {
	case <-done:
	case <-time.After(30 * time.Second):
		return vErr("live-timeout")
	}
	if !called {
		wrote := strings.Contains(string(respBody), "invalid_argument") || resp.Header.Get("Grpc-Status") == "3" ||
			resp.Trailer.Get("Grpc-Status") == "3" || strings.Contains(strings.ToLower(string(respBody)), "grpc-status: 3")
		if wrote && len(pr.msgs) == 0 {
			return vL(vS("rejected"))
		}
		return vL(vS("not-called"), vBool(wrote), vInt(len(pr.msgs)))
	}
	kinds := make([]vsx, len(pr.msgs))
	prefix := ""
	for i, m := range pr.msgs {
		kinds[i] = verifC12Kind(m)
		if i == 0 {
			prefix = m.prefix
		} else if m.prefix != prefix {
			return vErr("mixed-prefix")
		}
	}
	opt := func(p *int64) vsx {
		if p == nil {
			return vL()
		}
		return vL(vI(*p))
	}
	var tns *int64
	if timeout != nil {
		v := int64(*timeout)
		tns = &v
	}
	return vL(vS(prefix), vL(kinds...), opt(tns), vBool(hasConnect), vBool(hasGRPC), opt(echo))
}

// records a real client cannot put on the wire as they are (or that the HTTP server itself refuses before any
// handler runs): not cases.  HTTP/2 allows no te other than "trailers".
func verifC12Unsendable(r verifC12Req, http2Mode bool) bool {
	chunked := r.method == http.MethodPost || r.method == http.MethodPut || r.method == http.MethodPatch
	if r.method == "" || (r.trailers > 0 && r.bodyEmpty && !chunked) {
		return true
	}
	for i := range r.h {
		for _, v := range r.h[i] {
			if i < 15 && v != strings.TrimSpace(v) {
				return true
			}
		}
	}
	if http2Mode && !(len(r.h[4]) == 0 || (len(r.h[4]) == 1 && r.h[4][0] == "trailers")) {
		return true
	}
	return false
}

// the client transports of the live kinds (index = mode); a factory, because a request with trailers over HTTP/2
// gets a connection of its own: when the server answers before it has read the whole request (no test name, or
// the RPC handler closed the body), the client's late trailers arrive for a stream the server has already
// closed, which Go's HTTP/2 server treats as a connection error (GOAWAY) - that must not hit the NEXT request.
func verifC12NewClient(mode int, noCert, withCert *tls.Config) *http.Client {
	plainDial := func(ctx context.Context, network, addr string, _ *tls.Config) (net.Conn, error) {
		return (&net.Dialer{}).DialContext(ctx, network, addr)
	}
	switch mode {
	case 0, 6:
		return &http.Client{Transport: &http.Transport{DisableCompression: true}}
	case 1, 7:
		return &http.Client{Transport: &http.Transport{DisableCompression: true, TLSClientConfig: noCert.Clone()}}
	case 2:
		return &http.Client{Transport: &http.Transport{DisableCompression: true, TLSClientConfig: withCert.Clone()}}
	case 3:
		return &http.Client{Transport: &http2.Transport{DisableCompression: true, TLSClientConfig: noCert.Clone()}}
	case 4:
		return &http.Client{Transport: &http2.Transport{DisableCompression: true, TLSClientConfig: withCert.Clone()}}
	default:
		return &http.Client{Transport: &http2.Transport{DisableCompression: true, AllowHTTP: true, DialTLSContext: plainDial}}
	}
}

// the body of a live request: unknown length (chunked on HTTP/1.1, needed for trailers) and replayable, so that
// the transport may re-send a request the server provably has not processed (stream above a GOAWAY's last id)
func verifC12SetBody(req *http.Request, content string) {
	req.Body = io.NopCloser(io.MultiReader(strings.NewReader(content)))
	req.ContentLength = -1
	req.GetBody = func() (io.ReadCloser, error) {
		return io.NopCloser(io.MultiReader(strings.NewReader(content))), nil
	}
}

// ---- a printer that may be written to by several goroutines ----

type verifC12SyncPrinter struct {
	mu   sync.Mutex
	msgs []verifC12Msg
}

func (p *verifC12SyncPrinter) Printf(msg string, args ...any) { p.PrefixPrintf("", msg, args...) }

func (p *verifC12SyncPrinter) PrefixPrintf(prefix, msg string, args ...any) {
	p.mu.Lock()
	defer p.mu.Unlock()
	p.msgs = append(p.msgs, verifC12Msg{prefix, msg, args})
}

func (p *verifC12SyncPrinter) mark() int {
	p.mu.Lock()
	defer p.mu.Unlock()
	return len(p.msgs)
}

func (p *verifC12SyncPrinter) since(mark int) []verifC12Msg {
	p.mu.Lock()
	defer p.mu.Unlock()
	return append([]verifC12Msg(nil), p.msgs[mark:]...)
}

var _ internal.Printer = (*verifC12SyncPrinter)(nil)

// prefix and kinds of a batch of messages (all must carry the same prefix)
func verifC12Kinds(msgs []verifC12Msg) (string, []vsx, bool) {
	kinds := make([]vsx, len(msgs))
	prefix := ""
	for i, m := range msgs {
		kinds[i] = verifC12Kind(m)
		if i == 0 {
			prefix = m.prefix
		} else if m.prefix != prefix {
			return "", nil, false
		}
	}
	return prefix, kinds, true
}

func verifC12Opt(p *int64) vsx {
	if p == nil {
		return vL()
	}
	return vL(vI(*p))
}

// ---- c12.events: overlapping requests on ONE wrapped handler; the inner handler parks on a channel ----
// ((0 request) | (1 index) ...): (0 r) starts a request in its own goroutine and waits until it has
// reached the inner handler (or returned without reaching it); (1 i) lets the inner handler of the i-th
// started request return and waits until that request has returned.  Exactly one request is running
// at any time, so what is printed during an event belongs to that event.

type verifC12Parked struct {
	entered, release, finished chan struct{}
	rec                        *httptest.ResponseRecorder
	open                       bool
	hasConnect, hasGRPC        bool
	timeout                    *int64
	echo                       *int64
	panicked                   bool
}

type verifC12ParkKey struct{}

func verifC12Events(args []vsx) vsx {
	pr := &verifC12SyncPrinter{}
	inner := http.HandlerFunc(func(_ http.ResponseWriter, req *http.Request) {
		st, _ := req.Context().Value(verifC12ParkKey{}).(*verifC12Parked)
		if st == nil {
			return
		}
		_, st.hasConnect = req.Header["Connect-Timeout-Ms"]
		_, st.hasGRPC = req.Header["Grpc-Timeout"]
		if t, ok := req.Context().Value(timeoutContextKey{}).(time.Duration); ok {
			v := int64(t)
			st.timeout = &v
		}
		st.echo = createRequestInfo(req.Context(), req.Header, nil, nil).TimeoutMs
		close(st.entered)
		<-st.release
	})
	handler := referenceServerChecks(inner, pr)
	var started []*verifC12Parked
	cleanup := func() {
		for _, st := range started {
			if st.open {
				st.open = false
				close(st.release)
			}
			select {
			case <-st.finished:
			case <-time.After(30 * time.Second):
			}
		}
	}
	defer cleanup()
	out := make([]vsx, 0, len(args[0].l))
	for _, ev := range args[0].l {
		if len(ev.l) != 2 {
			return vL(vS("bad-case"))
		}
		switch ev.l[0].i {
		case 0:
			if len(ev.l[1].l) != 22 {
				return vL(vS("bad-case"))
			}
			st := &verifC12Parked{entered: make(chan struct{}), release: make(chan struct{}), finished: make(chan struct{}),
				rec: httptest.NewRecorder(), open: true}
			req := verifC12Decode(ev.l[1]).build()
			req = req.WithContext(context.WithValue(req.Context(), verifC12ParkKey{}, st))
			mark := pr.mark()
			started = append(started, st)
			go func() {
				defer close(st.finished)
				defer func() {
					if r := recover(); r != nil {
						st.panicked = true
					}
				}()
				handler.ServeHTTP(st.rec, req)
			}()
			reached := false
			select {
			case <-st.entered:
				reached = true
			case <-st.finished:
			case <-time.After(30 * time.Second):
				return vErr("events-timeout")
			}
			msgs := pr.since(mark)
			if !reached {
				st.open = false
				if st.panicked {
					return vCrash()
				}
				res := st.rec.Result()
				body, _ := io.ReadAll(res.Body)
				wrote := strings.Contains(string(body), "invalid_argument") || res.Header.Get("Grpc-Status") == "3" ||
					res.Trailer.Get("Grpc-Status") == "3" || strings.Contains(strings.ToLower(string(body)), "grpc-status: 3") ||
					st.rec.Header().Get(http.TrailerPrefix+"Grpc-Status") == "3"
				if wrote && len(msgs) == 0 {
					out = append(out, vL(vI(0), vL(vS("rejected"))))
				} else {
					out = append(out, vL(vI(0), vL(vS("not-called"), vBool(wrote), vInt(len(msgs)))))
				}
				continue
			}
			prefix, kinds, ok := verifC12Kinds(msgs)
			if !ok {
				return vErr("mixed-prefix")
			}
			out = append(out, vL(vI(0), vL(vS(prefix), vL(kinds...), verifC12Opt(st.timeout), vBool(st.hasConnect), vBool(st.hasGRPC),
				verifC12Opt(st.echo))))
		case 1:
			i := int(ev.l[1].i)
			if ev.l[1].k != 'i' || i < 0 || i >= len(started) || !started[i].open {
				return vL(vS("bad-case"))
			}
			st := started[i]
			mark := pr.mark()
			st.open = false
			close(st.release)
			select {
			case <-st.finished:
			case <-time.After(30 * time.Second):
				return vErr("events-timeout")
			}
			if st.panicked {
				return vCrash()
			}
			prefix, kinds, ok := verifC12Kinds(pr.since(mark))
			if !ok {
				return vErr("mixed-prefix")
			}
			out = append(out, vL(vI(1), vS(prefix), vL(kinds...)))
		default:
			return vL(vS("bad-case"))
		}
	}
	return vL(out...)
}

// ---- c12.live: real clients against the servers that createServer builds (reference mode) ----
// mode: 0 HTTP/1.1 plain, 1 HTTP/1.1 TLS, 2 HTTP/1.1 TLS + client certificate, 3 HTTP/2 TLS,
// 4 HTTP/2 TLS + client certificate, 5 HTTP/2 plain (h2c, prior knowledge), 6 HTTP/1.1 plain to the
// h2c server, 7 HTTP/1.1 over TLS to the HTTP/2 server.
// procedure: 0 Unary, 1 ServerStream, 2 ClientStream, 3 BidiStream, 4 IdempotentUnary.
// Nothing of the handler chain is replaced: the only addition is an outermost wrapper (inside the h2c
// upgrade handler, which does not return per request) that reports when a request has been handled
// completely, so that the feedback written after the RPC handler returned is collected too.

type verifC12Srv struct {
	pr   *verifC12SyncPrinter
	url  string
	done chan string
}

type verifC12ServerEnv struct {
	servers [6]*verifC12Srv // H1 plain, H1 TLS, H1 TLS+cert, H2 plain (h2c), H2 TLS, H2 TLS+cert
	clients [8]*http.Client
	target  [8]int
	counter int

	noCert, withCert *tls.Config
}

var (
	verifC12SrvOnce sync.Once
	verifC12SrvEnv  *verifC12ServerEnv
	verifC12SrvErr  error
)

const verifC12IDHeader = "X-Verif-Request-Id"

var verifC12Procedures = [5]string{
	conformancev1connect.ConformanceServiceUnaryProcedure,
	conformancev1connect.ConformanceServiceServerStreamProcedure,
	conformancev1connect.ConformanceServiceClientStreamProcedure,
	conformancev1connect.ConformanceServiceBidiStreamProcedure,
	conformancev1connect.ConformanceServiceIdempotentUnaryProcedure,
}

func verifC12StartServer(version conformancev1.HTTPVersion, creds *conformancev1.TLSCreds, clientCert []byte) (*verifC12Srv, error) {
	srv := &verifC12Srv{pr: &verifC12SyncPrinter{}, done: make(chan string, 64)}
	req := &conformancev1.ServerCompatRequest{
		Protocol:      conformancev1.Protocol_PROTOCOL_CONNECT,
		HttpVersion:   version,
		UseTls:        creds != nil,
		ServerCreds:   creds,
		ClientTlsCert: clientCert,
	}
	server, _, err := createServer(req, "127.0.0.1:0", "", "", true, srv.pr, nil)
	if err != nil {
		return nil, err
	}
	std, ok := server.(*stdHTTPServer)
	if !ok {
		return nil, errors.New("not a std server")
	}
	report := func(next http.Handler) http.Handler {
		return http.HandlerFunc(func(w http.ResponseWriter, r *http.Request) {
			id := r.Header.Get(verifC12IDHeader)
			defer func() {
				select {
				case srv.done <- id:
				default:
				}
			}()
			next.ServeHTTP(w, r)
		})
	}
	if version == conformancev1.HTTPVersion_HTTP_VERSION_2 && creds == nil {
		// h2c.NewHandler(handler): its exported field Handler is the chain createServer built
		field := reflect.ValueOf(std.svr.Handler).Elem().FieldByName("Handler")
		inner, ok := field.Interface().(http.Handler)
		if !ok || !field.CanSet() {
			return nil, errors.New("h2c handler layout")
		}
		field.Set(reflect.ValueOf(report(inner)))
	} else {
		std.svr.Handler = report(std.svr.Handler)
	}
	go func() { _ = server.Serve() }()
	scheme := "http"
	if creds != nil {
		scheme = "https"
	}
	srv.url = scheme + "://" + server.Addr()
	return srv, nil
}

func verifC12ServerSetup() (*verifC12ServerEnv, error) {
	verifC12SrvOnce.Do(func() {
		env := &verifC12ServerEnv{}
		fail := func(err error) { verifC12SrvErr = err }
		serverCert, serverKey, err := internal.NewServerCert()
		if err != nil {
			fail(err)
			return
		}
		clientCert, clientKey, err := internal.NewClientCert()
		if err != nil {
			fail(err)
			return
		}
		creds := &conformancev1.TLSCreds{Cert: serverCert, Key: serverKey}
		h1, h2 := conformancev1.HTTPVersion_HTTP_VERSION_1, conformancev1.HTTPVersion_HTTP_VERSION_2
		specs := []struct {
			v     conformancev1.HTTPVersion
			creds *conformancev1.TLSCreds
			cert  []byte
		}{{h1, nil, nil}, {h1, creds, nil}, {h1, creds, clientCert}, {h2, nil, nil}, {h2, creds, nil}, {h2, creds, clientCert}}
		for i, sp := range specs {
			srv, err := verifC12StartServer(sp.v, sp.creds, sp.cert)
			if err != nil {
				fail(err)
				return
			}
			env.servers[i] = srv
		}
		noCert, err := internal.NewClientTLSConfig(serverCert, nil, nil)
		if err != nil {
			fail(err)
			return
		}
		withCert, err := internal.NewClientTLSConfig(serverCert, clientCert, clientKey)
		if err != nil {
			fail(err)
			return
		}
		for mode := range env.clients {
			env.clients[mode] = verifC12NewClient(mode, noCert, withCert)
		}
		env.noCert, env.withCert = noCert, withCert
		env.target = [8]int{0, 1, 2, 4, 5, 3, 3, 4}
		verifC12SrvEnv = env
	})
	return verifC12SrvEnv, verifC12SrvErr
}

// requests whose answer is a decodable unary response (same predicate as C12_Model.echo_observable): a Connect
// unary POST of an empty proto message or a gRPC-Web POST of one empty enveloped message, uncompressed, and
// no timeout header that connect-go would still find (none sent, or the announced protocol is the one whose
// header the checks remove)
func verifC12EchoCandidate(proc int, r verifC12Req) (grpcWeb, ok bool) {
	if (proc != 0 && proc != 4) || r.method != http.MethodPost || r.trailers != 0 || len(r.h[0]) != 1 {
		return false, false
	}
	announced := ""
	if len(r.h[10]) == 1 {
		announced = r.h[10][0]
	}
	switch r.h[0][0] {
	case "application/proto":
		return false, len(r.h[3]) == 0 && r.bodyEmpty && (len(r.h[5]) == 0 || announced == "1")
	case "application/grpc-web", "application/grpc-web+proto":
		return true, len(r.h[1]) == 0 && !r.bodyEmpty && (len(r.h[6]) == 0 || announced == "2" || announced == "3")
	}
	return false, false
}

func verifC12Server(args []vsx) vsx {
	env, err := verifC12ServerSetup()
	if err != nil {
		return vErr("server-setup")
	}
	mode, proc := int(args[0].i), int(args[1].i)
	if args[0].k != 'i' || args[1].k != 'i' || mode < 0 || mode > 7 || proc < 0 || proc > 4 {
		return vL(vS("bad-case"))
	}
	srv := env.servers[env.target[mode]]
	env.counter++
	suffix := "~" + strconv.Itoa(env.counter)
	out := make([]vsx, 0, len(args[2].l))
	for n, a := range args[2].l {
		if len(a.l) != 22 {
			return vL(vS("bad-case"))
		}
		r := verifC12Decode(a)
		if verifC12Unsendable(r, mode >= 3 && mode <= 5) {
			return vL(vS("bad-case"))
		}
		query := url.Values{}
		if len(r.h[15]) > 0 {
			query["encoding"] = r.h[15]
		}
		if len(r.h[16]) > 0 {
			query["compression"] = r.h[16]
		}
		target := srv.url + verifC12Procedures[proc]
		if enc := query.Encode(); enc != "" {
			target += "?" + enc
		}
		ctx, cancel := context.WithTimeout(context.Background(), 30*time.Second)
		defer cancel()
		req, err := http.NewRequestWithContext(ctx, r.method, target, nil)
		if err != nil {
			return vErr("live-request")
		}
		if !r.bodyEmpty || r.trailers > 0 {
			content := "\x00\x00\x00\x00\x00" // one empty enveloped message
			if r.bodyEmpty {
				content = ""
			}
			verifC12SetBody(req, content)
		}
		for i, name := range verifC12Names {
			if len(r.h[i]) > 0 {
				req.Header[name] = append([]string(nil), r.h[i]...)
			}
		}
		// the servers live as long as the test binary: every case gets test names of its own
		if vals := req.Header["X-Test-Case-Name"]; len(vals) > 0 {
			for i, v := range vals {
				if v != "" {
					vals[i] = v + suffix
				}
			}
		}
		id := suffix + "." + strconv.Itoa(n)
		req.Header.Set(verifC12IDHeader, id)
		if r.trailers > 0 {
			req.Trailer = http.Header{}
			for i := 0; i < r.trailers; i++ {
				req.Trailer["X-Trailer-"+strconv.Itoa(i)] = []string{"v"}
			}
		}
		mark := srv.pr.mark()
		client := env.clients[mode]
		if mode >= 3 && mode <= 5 && r.trailers > 0 {
			client = verifC12NewClient(mode, env.noCert, env.withCert) // see verifC12NewClient
			defer client.CloseIdleConnections()
		}
		resp, err := client.Do(req)
		if err != nil && os.Getenv("VERIF_DEBUG") != "" {
			fmt.Fprintf(os.Stderr, "verif: Do returned err=%v\n", err)
		}
		if err != nil {
			if ctx.Err() != nil {
				return vErr("live-timeout")
			}
			return vL(vS("bad-case")) // the client refused to send it
		}
		respBody, _ := io.ReadAll(resp.Body)
		_ = resp.Body.Close()
		deadline := time.After(30 * time.Second)
		for waiting := true; waiting; {
			select {
			case got := <-srv.done:
				waiting = got != id
			case <-deadline:
				return vErr("live-timeout")
			}
		}
		msgs := srv.pr.since(mark)
		wrote := strings.Contains(string(respBody), "invalid_argument") || resp.Header.Get("Grpc-Status") == "3" ||
			resp.Trailer.Get("Grpc-Status") == "3" || strings.Contains(strings.ToLower(string(respBody)), "grpc-status: 3")
		if len(msgs) == 0 && wrote && req.Header.Get("X-Test-Case-Name") == "" {
			out = append(out, vL(vS("rejected")))
			continue
		}
		prefix, kinds, ok := verifC12Kinds(msgs)
		if !ok {
			return vErr("mixed-prefix")
		}
		prefix = strings.TrimSuffix(prefix, suffix)
		sort.SliceStable(kinds, func(i, j int) bool { return kinds[i].l[0].i < kinds[j].l[0].i })
		echo := vL()
		if grpcWeb, cand := verifC12EchoCandidate(proc, r); cand {
			echo = verifC12Echo(proc, grpcWeb, resp, respBody)
		}
		out = append(out, vL(vS(prefix), vL(kinds...), vBool(resp.StatusCode == http.StatusHTTPVersionNotSupported), echo))
	}
	return vL(out...)
}

// what the RPC handler's answer says: (timeout_ms?) and whether the handler saw a Connect / gRPC timeout header
func verifC12Echo(proc int, grpcWeb bool, resp *http.Response, body []byte) vsx {
	if resp.StatusCode != http.StatusOK {
		return vL(vS("undecodable"), vInt(resp.StatusCode))
	}
	if grpcWeb {
		if len(body) < 5 || body[0] != 0 {
			return vL(vS("undecodable"), vInt(resp.StatusCode))
		}
		n := int(body[1])<<24 | int(body[2])<<16 | int(body[3])<<8 | int(body[4])
		if 5+n > len(body) {
			return vErr("echo-envelope")
		}
		body = body[5 : 5+n]
	}
	var payload *conformancev1.ConformancePayload
	if proc == 4 {
		msg := &conformancev1.IdempotentUnaryResponse{}
		if err := proto.Unmarshal(body, msg); err != nil {
			return vErr("echo-unmarshal")
		}
		payload = msg.GetPayload()
	} else {
		msg := &conformancev1.UnaryResponse{}
		if err := proto.Unmarshal(body, msg); err != nil {
			return vErr("echo-unmarshal")
		}
		payload = msg.GetPayload()
	}
	info := payload.GetRequestInfo()
	if info == nil {
		return vErr("echo-no-request-info")
	}
	var hasConnect, hasGRPC bool
	for _, h := range info.GetRequestHeaders() {
		hasConnect = hasConnect || strings.EqualFold(h.GetName(), "Connect-Timeout-Ms")
		hasGRPC = hasGRPC || strings.EqualFold(h.GetName(), "Grpc-Timeout")
	}
	return vL(verifC12Opt(info.TimeoutMs), vBool(hasConnect), vBool(hasGRPC))
}

// ---- c12.print: the checks over the REAL printer, as run() wires it (internal.NewPrinter over the server's stderr) ----

// the printer handed to referenceServerChecks: every call goes, with the very same prefix, format and
// arguments, to the real printer; the recording printer next to it only remembers format and arguments
type verifC12Tee struct {
	rec  *verifC12Printer
	real internal.Printer
}

func (t *verifC12Tee) Printf(msg string, args ...any) {
	t.rec.Printf(msg, args...)
	t.real.Printf(msg, args...)
}

func (t *verifC12Tee) PrefixPrintf(prefix, msg string, args ...any) {
	t.rec.PrefixPrintf(prefix, msg, args...)
	t.real.PrefixPrintf(prefix, msg, args...)
}

var _ internal.Printer = (*verifC12Tee)(nil)

// (request ...) on ONE wrapped handler writing to ONE real printer over a buffer.  Per request: rejected, or
// (exact, lines): exact = the bytes that reached the buffer are, per message, the test name as the request
// carries it ++ ": " ++ fmt.Sprintf(format, args...) ++ newline (unless the message ends in one); lines = the
// bytes read back the way server_runner.go reads the server's stderr (ReadString('\n'), TrimSpace, SplitN at
// the first ": ", first part among the batch's test names): per line (test name, kind) - the kind only when
// the text after the split is the message that was formatted
func verifC12Print(args []vsx) vsx {
	reqs := make([]verifC12Req, len(args[0].l))
	names := map[string]struct{}{}
	for i, a := range args[0].l {
		reqs[i] = verifC12Decode(a)
		if len(reqs[i].h[7]) > 0 {
			names[reqs[i].h[7][0]] = struct{}{}
		} else {
			names[""] = struct{}{}
		}
	}
	var buf bytes.Buffer
	rec := &verifC12Printer{}
	tee := &verifC12Tee{rec: rec, real: internal.NewPrinter(&buf)}
	called := false
	handler := referenceServerChecks(http.HandlerFunc(func(http.ResponseWriter, *http.Request) { called = true }), tee)
	const space = " \t\n\v\f\r"
	out := make([]vsx, len(reqs))
	for i, r := range reqs {
		rec.msgs, called = nil, false
		mark := buf.Len()
		handler.ServeHTTP(httptest.NewRecorder(), r.build())
		delta := append([]byte(nil), buf.Bytes()[mark:]...)
		if !called {
			if len(delta) != 0 || len(rec.msgs) != 0 {
				out[i] = vErr("rejected-but-wrote")
			} else {
				out[i] = vL(vS("rejected"))
			}
			continue
		}
		name := r.h[7][0]
		var want []byte
		texts := make([]string, len(rec.msgs))
		for j, m := range rec.msgs {
			texts[j] = fmt.Sprintf(m.format, m.args...)
			want = append(want, name+": "+texts[j]...)
			if !strings.HasSuffix(texts[j], "\n") {
				want = append(want, '\n')
			}
		}
		var lines []string
		for _, l := range strings.Split(string(delta), "\n") {
			if strings.TrimSpace(l) != "" {
				lines = append(lines, l)
			}
		}
		var attributed vsx
		if len(lines) != len(rec.msgs) {
			attributed = vErr("line-count")
		} else {
			ls := make([]vsx, len(lines))
			for j, l := range lines {
				parts := strings.SplitN(strings.TrimSpace(l), ": ", 2)
				_, known := names[parts[0]]
				switch {
				case len(parts) != 2 || !known:
					ls[j] = vErr("unattributed")
				case parts[1] != strings.TrimRight(texts[j], space):
					ls[j] = vL(vS(parts[0]), vErr("garbled-message"))
				default:
					ls[j] = vL(vS(parts[0]), verifC12Kind(rec.msgs[j]))
				}
			}
			attributed = vL(ls...)
		}
		out[i] = vL(vBool(bytes.Equal(delta, want)), attributed)
	}
	return vL(out...)
}
