//go:build verif

package connectconformance

import (
	"context"
	"encoding/binary"
	"errors"
	"fmt"
	"go/ast"
	"go/parser"
	"go/token"
	"io"
	"math/big"
	"os"
	"path/filepath"
	"regexp"
	"sort"
	"strconv"
	"strings"
	"testing"
	"time"

	"connectrpc.com/conformance/internal"
	conformancev1 "connectrpc.com/conformance/internal/gen/proto/go/connectrpc/conformance/v1"
	"google.golang.org/protobuf/proto"
	"google.golang.org/protobuf/types/known/anypb"
)

func init() {
	verifKinds["c03.assert"] = verifC03Assert
	verifKinds["c03.run"] = verifC03Run
	verifKinds["c03.rundef"] = verifC03RunDef
	verifKinds["c03.canon"] = verifC03Canon
	verifKinds["c03.merge"] = verifC03Merge
}

// TestVerifConsts prints the constants of results.go that the Coq model depends on.
//
// The grace period is read from its DECLARATION in the package's source (the test runs
// in the package directory), not through its identifier: the model wants to know which
// duration the constant is declared to be - its numeric value and the unit that value is
// counted in - so that the use checkRequestInfo makes of the number (a computation in
// milliseconds) is checked against it.  Understood forms: an untyped integer whose name
// says the unit (...Millis, ...Ms, ...Seconds, ...Micros, ...Nanos) and products of
// integers with time.Nanosecond ... time.Hour / time.Duration(n) (a time.Duration,
// counted in nanoseconds).
func TestVerifConsts(t *testing.T) {
	out := os.Getenv("VERIF_OUT")
	if out == "" {
		t.Skip("VERIF_OUT not set")
	}
	name, text, value, unitNs, err := c03GraceDeclaration(".")
	if err != nil {
		t.Fatal(err)
	}
	body := fmt.Sprintf("(* results.go: const %s = %s *)\nDefinition c03_grace_value : Z := %s%%Z.\nDefinition c03_grace_unit_ns : Z := %s%%Z.\n",
		name, text, value.String(), unitNs.String())
	if err := os.WriteFile(out, []byte(body), 0o644); err != nil {
		t.Fatal(err)
	}
}

var c03TimeUnits = map[string]int64{
	"Nanosecond": 1, "Microsecond": 1e3, "Millisecond": 1e6, "Second": 1e9, "Minute": 60e9, "Hour": 3600e9,
}

// value of a constant expression made of integer literals, products, sums, parentheses,
// the time units and time.Duration(...) conversions; typed = it is a time.Duration
func c03ConstExpr(e ast.Expr) (v *big.Int, typed bool, err error) {
	switch x := e.(type) {
	case *ast.BasicLit:
		if x.Kind != token.INT {
			return nil, false, fmt.Errorf("literal %s is not an integer", x.Value)
		}
		n, ok := new(big.Int).SetString(strings.ReplaceAll(x.Value, "_", ""), 0)
		if !ok {
			return nil, false, fmt.Errorf("cannot read literal %s", x.Value)
		}
		return n, false, nil
	case *ast.ParenExpr:
		return c03ConstExpr(x.X)
	case *ast.SelectorExpr:
		if pkg, ok := x.X.(*ast.Ident); ok && pkg.Name == "time" {
			if u, ok := c03TimeUnits[x.Sel.Name]; ok {
				return big.NewInt(u), true, nil
			}
		}
		return nil, false, errors.New("unknown selector in the declaration")
	case *ast.CallExpr:
		if sel, ok := x.Fun.(*ast.SelectorExpr); ok && len(x.Args) == 1 {
			if pkg, ok := sel.X.(*ast.Ident); ok && pkg.Name == "time" && sel.Sel.Name == "Duration" {
				n, _, err := c03ConstExpr(x.Args[0])
				return n, true, err
			}
		}
		return nil, false, errors.New("unknown call in the declaration")
	case *ast.BinaryExpr:
		a, ta, err := c03ConstExpr(x.X)
		if err != nil {
			return nil, false, err
		}
		b, tb, err := c03ConstExpr(x.Y)
		if err != nil {
			return nil, false, err
		}
		switch x.Op {
		case token.MUL:
			return new(big.Int).Mul(a, b), ta || tb, nil
		case token.ADD:
			return new(big.Int).Add(a, b), ta || tb, nil
		case token.SUB:
			return new(big.Int).Sub(a, b), ta || tb, nil
		}
		return nil, false, errors.New("unknown operator in the declaration")
	}
	return nil, false, errors.New("unknown expression in the declaration")
}

func c03GraceDeclaration(dir string) (name, text string, value, unitNs *big.Int, err error) {
	files, _ := filepath.Glob(filepath.Join(dir, "*.go"))
	fset := token.NewFileSet()
	found := 0
	for _, path := range files {
		if strings.HasSuffix(path, "_test.go") {
			continue
		}
		src, rerr := os.ReadFile(path)
		if rerr != nil {
			return "", "", nil, nil, rerr
		}
		file, perr := parser.ParseFile(fset, path, src, parser.SkipObjectResolution)
		if perr != nil {
			return "", "", nil, nil, perr
		}
		for _, decl := range file.Decls {
			gen, ok := decl.(*ast.GenDecl)
			if !ok || gen.Tok != token.CONST {
				continue
			}
			for _, spec := range gen.Specs {
				vs, ok := spec.(*ast.ValueSpec)
				if !ok {
					continue
				}
				for i, id := range vs.Names {
					if !strings.HasPrefix(id.Name, "timeoutCheckGracePeriod") || i >= len(vs.Values) {
						continue
					}
					found++
					v, typed, eerr := c03ConstExpr(vs.Values[i])
					if eerr != nil {
						return "", "", nil, nil, fmt.Errorf("%s: %w", id.Name, eerr)
					}
					if vs.Type != nil {
						sel, ok := vs.Type.(*ast.SelectorExpr)
						if !ok || sel.Sel.Name != "Duration" {
							return "", "", nil, nil, fmt.Errorf("%s: declared with a type that is not understood", id.Name)
						}
						typed = true
					}
					unit := int64(0)
					switch {
					case typed:
						unit = 1
					case strings.HasSuffix(id.Name, "Millis"), strings.HasSuffix(id.Name, "Ms"):
						unit = 1e6
					case strings.HasSuffix(id.Name, "Seconds"), strings.HasSuffix(id.Name, "Secs"):
						unit = 1e9
					case strings.HasSuffix(id.Name, "Micros"):
						unit = 1e3
					case strings.HasSuffix(id.Name, "Nanos"):
						unit = 1
					default:
						return "", "", nil, nil, fmt.Errorf("%s: an untyped number whose name does not say the unit", id.Name)
					}
					name, value, unitNs = id.Name, v, big.NewInt(unit)
					text = string(src[fset.Position(vs.Values[i].Pos()).Offset:fset.Position(vs.Values[i].End()).Offset])
				}
			}
		}
	}
	if found != 1 {
		return "", "", nil, nil, fmt.Errorf("%d declarations of the timeout grace period found, want 1", found)
	}
	return name, text, value, unitNs, nil
}

type c03BadCase struct{}

func c03Headers(v vsx) []*conformancev1.Header {
	if len(v.l) == 0 {
		return nil
	}
	out := make([]*conformancev1.Header, len(v.l))
	for i, h := range v.l {
		out[i] = &conformancev1.Header{Name: h.l[0].str(), Value: h.l[1].strs()}
		if len(h.l[1].l) == 0 {
			out[i].Value = nil
		}
	}
	return out
}

var c03UnknownURL = "type.googleapis.com/verif.Unknown"

// (ty data): ty < 4 is a message type linked into the binary, marshalled
// deterministically; anything else is an unknown URL with raw content.
func c03Any(v vsx) *anypb.Any {
	ty, data := v.l[0].i, v.l[1].b
	var msg proto.Message
	switch ty {
	case 0:
		msg = &conformancev1.UnaryRequest{RequestData: data}
	case 1:
		msg = &conformancev1.ServerStreamRequest{RequestData: data}
	case 2:
		msg = &conformancev1.ClientStreamRequest{RequestData: data}
	case 3:
		msg = &conformancev1.BidiStreamRequest{RequestData: data}
	default:
		return &anypb.Any{TypeUrl: c03UnknownURL + strconv.FormatInt(ty, 10), Value: data}
	}
	return c03Pack(msg)
}

func c03Pack(msg proto.Message) *anypb.Any {
	b, err := proto.MarshalOptions{Deterministic: true}.Marshal(msg)
	if err != nil {
		panic(c03BadCase{})
	}
	return &anypb.Any{TypeUrl: "type.googleapis.com/" + string(msg.ProtoReflect().Descriptor().FullName()), Value: b}
}

func c03ReqInfo(v vsx) *conformancev1.ConformancePayload_RequestInfo {
	info := &conformancev1.ConformancePayload_RequestInfo{RequestHeaders: c03Headers(v.l[0])}
	if len(v.l[1].l) == 1 {
		info.TimeoutMs = proto.Int64(v.l[1].l[0].i)
	}
	for _, a := range v.l[2].l {
		info.Requests = append(info.Requests, c03Any(a))
	}
	if len(v.l[3].l) == 1 {
		info.ConnectGetInfo = &conformancev1.ConformancePayload_ConnectGetInfo{QueryParams: c03Headers(v.l[3].l[0])}
	}
	return info
}

func c03Result(v vsx) *conformancev1.ClientResponseResult {
	res := &conformancev1.ClientResponseResult{
		ResponseHeaders:  c03Headers(v.l[0]),
		ResponseTrailers: c03Headers(v.l[1]),
	}
	for _, p := range v.l[2].l {
		pl := &conformancev1.ConformancePayload{Data: p.l[0].b}
		if len(p.l[1].l) == 1 {
			pl.RequestInfo = c03ReqInfo(p.l[1].l[0])
		}
		res.Payloads = append(res.Payloads, pl)
	}
	if len(v.l[3].l) == 1 {
		e := v.l[3].l[0]
		pe := &conformancev1.Error{Code: conformancev1.Code(e.l[0].i)}
		if len(e.l[1].l) == 1 {
			pe.Message = proto.String(e.l[1].l[0].str())
		}
		for _, d := range e.l[2].l {
			if d.l[0].i == 0 {
				pe.Details = append(pe.Details, c03Pack(c03ReqInfo(d.l[1])))
			} else {
				pe.Details = append(pe.Details, c03Any(d.l[1]))
			}
		}
		res.Error = pe
	}
	if len(v.l[4].l) == 1 {
		res.HttpStatusCode = proto.Int32(int32(v.l[4].l[0].i))
	}
	res.NumUnsentRequests = int32(v.l[5].i)
	return res
}

var (
	c03ReDetail  = regexp.MustCompile(`^actual error detail #(\d+) does not match expected error detail`)
	c03ReData    = regexp.MustCompile(`^response #(\d+): expecting data `)
	c03ReReq     = regexp.MustCompile(`^request #(\d+): (failed to unmarshal actual message|failed to unmarshal expected message|did not survive round-trip)`)
	c03RePCount  = regexp.MustCompile(`^expecting -?\d+ response messages but instead got -?\d+$`)
	c03ReRCount  = regexp.MustCompile(`^expecting -?\d+ request messages to be described but instead got -?\d+$`)
	c03ReDCount  = regexp.MustCompile(`^actual error contain -?\d+ details; expecting -?\d+$`)
	c03ReTMiss   = regexp.MustCompile(`^server did not echo back a timeout but one was expected \(-?\d+ ms\)$`)
	c03ReTMism   = regexp.MustCompile(`^server echoed back a timeout \(-?\d+ ms\) that did not match expected \(-?\d+ ms\)$`)
	c03ReTUnexp  = regexp.MustCompile(`^server echoed back a timeout \(-?\d+ ms\) but none was expected$`)
	c03ReStatus  = regexp.MustCompile(`^actual HTTP status code does not match: wanted -?\d+; got -?\d+$`)
	c03ReActErr  = regexp.MustCompile(`^actual error \{code: -?\d+ \([a-z_0-9 ]+\), message: `)
	c03WhatNames = [][2]string{
		{"response headers", "rh"}, {"response trailers", "rt"}, {"response metadata", "rm"},
		{"request headers", "qh"}, {"request query params", "qp"},
	}
)

func c03Idx(tag, num string) string {
	n, _ := strconv.ParseUint(num, 10, 32)
	var b [4]byte
	binary.BigEndian.PutUint32(b[:], uint32(n))
	return tag + string(b[:])
}

// the enum of discrepancy kinds, derived from the text of each reported error
func c03Kind(err error) string {
	t := err.Error()
	switch {
	case strings.HasPrefix(t, "received an unexpected error:\n"):
		return "err-unexpected"
	case t == "expecting an error but received none":
		return "err-missing"
	case c03ReDCount.MatchString(t):
		return "detail-count"
	case c03RePCount.MatchString(t):
		return "payload-count"
	case c03ReRCount.MatchString(t):
		return "req-count"
	case c03ReTMiss.MatchString(t):
		return "timeout-missing"
	case c03ReTMism.MatchString(t):
		return "timeout-mismatch"
	case c03ReTUnexp.MatchString(t):
		return "timeout-unexpected"
	case c03ReStatus.MatchString(t):
		return "status"
	}
	if m := c03ReDetail.FindStringSubmatch(t); m != nil {
		return c03Idx("detail:", m[1])
	}
	if m := c03ReData.FindStringSubmatch(t); m != nil {
		return c03Idx("data:", m[1])
	}
	if m := c03ReReq.FindStringSubmatch(t); m != nil {
		switch m[2][0] {
		case 'd':
			return c03Idx("req:", m[1])
		default:
			if strings.Contains(m[2], "actual") {
				return c03Idx("req-ua:", m[1])
			}
			return c03Idx("req-ue:", m[1])
		}
	}
	if loc := c03ReActErr.FindStringIndex(t); loc != nil {
		if q, err := strconv.QuotedPrefix(t[loc[1]:]); err == nil {
			rest := t[loc[1]+len(q):]
			switch {
			case strings.HasPrefix(rest, "} does not match expected code "):
				return "code"
			case strings.HasPrefix(rest, "} does not match expected message "):
				return "message"
			}
		}
	}
	for _, w := range c03WhatNames {
		if rest, ok := strings.CutPrefix(t, "actual "+w[0]+" missing "); ok {
			if name, err := strconv.Unquote(rest); err == nil {
				return "missing:" + w[1] + ":" + name
			}
		}
		if rest, ok := strings.CutPrefix(t, w[0]+" has incorrect values for "); ok {
			if q, err := strconv.QuotedPrefix(rest); err == nil && strings.HasPrefix(rest[len(q):], ": expected [") {
				name, _ := strconv.Unquote(q)
				return "values:" + w[1] + ":" + name
			}
		}
	}
	return "other:" + t
}

// (def expected actual) -> (pass (sorted discrepancy kinds)), through the real
// newResults / assert; the recorded outcome is read back from the results.
func verifC03Assert(args []vsx) (res vsx) {
	defer func() {
		if r := recover(); r != nil {
			if _, ok := r.(c03BadCase); ok {
				res = vL(vS("bad-case"))
				return
			}
			panic(r)
		}
	}()
	def := args[0]
	tc := &conformancev1.TestCase{
		Request:          &conformancev1.ClientCompatRequest{TestName: "verif/c03", StreamType: conformancev1.StreamType(def.l[0].i)},
		ExpectedResponse: c03Result(args[1]),
	}
	for _, c := range def.l[1].l {
		tc.OtherAllowedErrorCodes = append(tc.OtherAllowedErrorCodes, conformancev1.Code(c.i))
	}
	actual := c03Result(args[2])
	results := newResults(1, &testTrie{}, &testTrie{}, nil)
	results.assert("verif/c03", tc, actual)
	results.mu.Lock()
	outcome, ok := results.outcomes["verif/c03"]
	results.mu.Unlock()
	if !ok {
		return vErr("no-outcome-recorded")
	}
	if outcome.setupError || outcome.knownFailing || outcome.knownFlaky {
		return vErr("unexpected-outcome-flags")
	}
	var kinds []string
	switch e := outcome.actualFailure.(type) {
	case nil:
	case multiErrors:
		for _, x := range e {
			kinds = append(kinds, c03Kind(x))
		}
	default:
		kinds = append(kinds, c03Kind(e))
	}
	sort.Strings(kinds)
	return vL(vBool(outcome.actualFailure == nil), vStrs(kinds))
}

// ---------------------------------------------------------------------------
// c03.run: (reference-client def expected reported) through the real
// runTestCasesForServer.  The server is an in-process "process" that answers the
// ServerCompatRequest; the client is a recording fake clientRunner that reports
// `reported` for the one test case.  Observed: the outcome recorded for the case
// (as for c03.assert) - and that the message the client reported is still, field
// by field, what it reported (the runner hands it to assert, it does not own it).
// ---------------------------------------------------------------------------

type c03Client struct {
	reported *conformancev1.ClientResponseResult
	sent     []*conformancev1.ClientCompatRequest
}

func (c *c03Client) sendRequest(req *conformancev1.ClientCompatRequest, whenDone func(string, *conformancev1.ClientCompatResponse, error)) error {
	c.sent = append(c.sent, req)
	go whenDone(req.TestName, &conformancev1.ClientCompatResponse{
		TestName: req.TestName,
		Result:   &conformancev1.ClientCompatResponse_Response{Response: c.reported},
	}, nil)
	return nil
}
func (c *c03Client) closeSend()              {}
func (c *c03Client) waitForResponses() error { return nil }
func (c *c03Client) isRunning() bool         { return true }
func (c *c03Client) stop()                   {}

type c03Printer struct{}

func (c03Printer) Printf(string, ...any)               {}
func (c03Printer) PrefixPrintf(string, string, ...any) {}

func c03Outcome(results *testResults, name string) vsx {
	results.mu.Lock()
	outcome, ok := results.outcomes[name]
	n := len(results.outcomes)
	results.mu.Unlock()
	if !ok || n != 1 {
		return vErr("no-outcome-recorded")
	}
	if outcome.setupError || outcome.knownFailing || outcome.knownFlaky {
		return vErr("unexpected-outcome-flags")
	}
	var kinds []string
	switch e := outcome.actualFailure.(type) {
	case nil:
	case multiErrors:
		for _, x := range e {
			kinds = append(kinds, c03Kind(x))
		}
	default:
		kinds = append(kinds, c03Kind(e))
	}
	sort.Strings(kinds)
	return vL(vBool(outcome.actualFailure == nil), vStrs(kinds))
}

func verifC03Run(args []vsx) (res vsx) {
	defer func() {
		if r := recover(); r != nil {
			if _, ok := r.(c03BadCase); ok {
				res = vL(vS("bad-case"))
				return
			}
			panic(r)
		}
	}()
	return c03RunOnce(args[0].boolean(), args[1], args[2], args[3])
}

// one test case (definition def, expected result) through the real runTestCasesForServer
// with a client that reports `reportedV`
func c03RunOnce(isRef bool, def, expectedV, reportedV vsx) vsx {
	const name = "verif/c03"
	tc := &conformancev1.TestCase{
		Request:          &conformancev1.ClientCompatRequest{TestName: name, StreamType: conformancev1.StreamType(def.l[0].i)},
		ExpectedResponse: c03Result(expectedV),
	}
	for _, c := range def.l[1].l {
		tc.OtherAllowedErrorCodes = append(tc.OtherAllowedErrorCodes, conformancev1.Code(c.i))
	}
	reported := c03Result(reportedV)
	// what a reference client adds for the runner: feedback travels inside the result
	// (any other client may fill the field in as well; the runner then has no use for it)
	if reported.NumUnsentRequests%2 == 1 {
		reported.Feedback = []string{"the peer noticed something"}
	}
	asReported := proto.Clone(reported)
	wantCase := proto.Clone(tc)
	server := runInProcess([]string{"fake-server"}, func(ctx context.Context, _ []string, in io.ReadCloser, out, _ io.WriteCloser) error {
		var req conformancev1.ServerCompatRequest
		if err := internal.ReadDelimitedMessage(in, &req, "runner", time.Hour, 1<<20); err != nil {
			return err
		}
		if err := internal.WriteDelimitedMessage(out, &conformancev1.ServerCompatResponse{Host: "127.0.0.1", Port: 9}); err != nil {
			return err
		}
		<-ctx.Done()
		return nil
	})
	results := newResults(1, &testTrie{}, &testTrie{}, nil)
	client := &c03Client{reported: reported}
	runTestCasesForServer(context.Background(), isRef, false, serverInstance{}, []*conformancev1.TestCase{tc}, nil, nil,
		server, c03Printer{}, c03Printer{}, results, client, nil, false)
	if len(client.sent) != 1 || client.sent[0].TestName != name {
		return vErr("request-not-sent-once")
	}
	if !proto.Equal(reported, asReported) {
		return vErr("reported-result-altered")
	}
	if !proto.Equal(tc, wantCase) {
		return vErr("test-case-altered")
	}
	return c03Outcome(results, name)
}

// c03.rundef: (reference-client def expected) -> the outcome recorded by the real
// runTestCasesForServer for each probe of the model's def_probes: the expected result
// reported with each error code 1..16 in turn (message and details of the expected error
// kept), then with all its metadata as headers, then with all of it as trailers.  The
// verdicts read back the definition that reached assert, as far as assert reads it: the
// accepted codes (primary + other_allowed_error_codes) and whether the stream type allows
// the merged form - whatever object the runner hands over.
func verifC03RunDef(args []vsx) (res vsx) {
	defer func() {
		if r := recover(); r != nil {
			if _, ok := r.(c03BadCase); ok {
				res = vL(vS("bad-case"))
				return
			}
			panic(r)
		}
	}()
	isRef := args[0].boolean()
	def, e := args[1], args[2]
	if e.k != 'l' || len(e.l) != 6 {
		return vL(vS("bad-case"))
	}
	msg, details := vL(), vL()
	if len(e.l[3].l) == 1 {
		msg, details = e.l[3].l[0].l[1], e.l[3].l[0].l[2]
	}
	var out []vsx
	for c := int64(1); c <= 16; c++ {
		probe := vL(e.l[0], e.l[1], e.l[2], vL(vL(vI(c), msg, details)), e.l[4], e.l[5])
		out = append(out, c03RunOnce(isRef, def, e, probe))
	}
	all := vL(append(append([]vsx{}, e.l[0].l...), e.l[1].l...)...)
	out = append(out, c03RunOnce(isRef, def, e, vL(all, vL(), e.l[2], e.l[3], e.l[4], e.l[5])))
	out = append(out, c03RunOnce(isRef, def, e, vL(vL(), all, e.l[2], e.l[3], e.l[4], e.l[5])))
	return vL(out...)
}

func verifC03Canon(args []vsx) vsx {
	return vStrs(canonicalizeHeaderVals(args[0].strs()))
}

// (a b probe) -> (merged entries sorted by name, does the merged expectation hold on probe)
func verifC03Merge(args []vsx) vsx {
	merged := mergeHeaders(c03Headers(args[0]), c03Headers(args[1]))
	ok := len(checkHeaders("response metadata", merged, c03Headers(args[2]))) == 0
	sort.Slice(merged, func(i, j int) bool { return merged[i].Name < merged[j].Name })
	out := make([]vsx, len(merged))
	for i, h := range merged {
		out[i] = vL(vS(h.Name), vStrs(h.Value))
	}
	return vL(vL(out...), vBool(ok))
}
