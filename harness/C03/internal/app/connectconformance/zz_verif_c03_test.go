//go:build verif

package connectconformance

import (
	"encoding/binary"
	"fmt"
	"os"
	"regexp"
	"sort"
	"strconv"
	"strings"
	"testing"

	conformancev1 "connectrpc.com/conformance/internal/gen/proto/go/connectrpc/conformance/v1"
	"google.golang.org/protobuf/proto"
	"google.golang.org/protobuf/types/known/anypb"
)

func init() {
	verifKinds["c03.assert"] = verifC03Assert
	verifKinds["c03.canon"] = verifC03Canon
	verifKinds["c03.merge"] = verifC03Merge
}

// TestVerifConsts prints the constants of results.go that the Coq model depends on.
func TestVerifConsts(t *testing.T) {
	out := os.Getenv("VERIF_OUT")
	if out == "" {
		t.Skip("VERIF_OUT not set")
	}
	body := fmt.Sprintf("(* results.go: timeoutCheckGracePeriodMillis *)\nDefinition c03_grace : Z := %d%%Z.\n",
		int64(timeoutCheckGracePeriodMillis))
	if err := os.WriteFile(out, []byte(body), 0o644); err != nil {
		t.Fatal(err)
	}
}

type c03BadCase struct{}

func c03Headers(v vsx) []*conformancev1.Header {
	if len(v.l) == 0 {
		return nil
	}
	out := make([]*conformancev1.Header, len(v.l))
	for i, h := range v.l {
		out[i] = &conformancev1.Header{Name: h.l[0].str(), Value: h.l[1].strs()}
		if len(h.l[1].l) == 0 {
			out[i].Value = nil
		}
	}
	return out
}

var c03UnknownURL = "type.googleapis.com/verif.Unknown"

// (ty data): ty < 4 is a message type linked into the binary, marshalled
// deterministically; anything else is an unknown URL with raw content.
func c03Any(v vsx) *anypb.Any {
	ty, data := v.l[0].i, v.l[1].b
	var msg proto.Message
	switch ty {
	case 0:
		msg = &conformancev1.UnaryRequest{RequestData: data}
	case 1:
		msg = &conformancev1.ServerStreamRequest{RequestData: data}
	case 2:
		msg = &conformancev1.ClientStreamRequest{RequestData: data}
	case 3:
		msg = &conformancev1.BidiStreamRequest{RequestData: data}
	default:
		return &anypb.Any{TypeUrl: c03UnknownURL + strconv.FormatInt(ty, 10), Value: data}
	}
	return c03Pack(msg)
}

func c03Pack(msg proto.Message) *anypb.Any {
	b, err := proto.MarshalOptions{Deterministic: true}.Marshal(msg)
	if err != nil {
		panic(c03BadCase{})
	}
	return &anypb.Any{TypeUrl: "type.googleapis.com/" + string(msg.ProtoReflect().Descriptor().FullName()), Value: b}
}

func c03ReqInfo(v vsx) *conformancev1.ConformancePayload_RequestInfo {
	info := &conformancev1.ConformancePayload_RequestInfo{RequestHeaders: c03Headers(v.l[0])}
	if len(v.l[1].l) == 1 {
		info.TimeoutMs = proto.Int64(v.l[1].l[0].i)
	}
	for _, a := range v.l[2].l {
		info.Requests = append(info.Requests, c03Any(a))
	}
	if len(v.l[3].l) == 1 {
		info.ConnectGetInfo = &conformancev1.ConformancePayload_ConnectGetInfo{QueryParams: c03Headers(v.l[3].l[0])}
	}
	return info
}

func c03Result(v vsx) *conformancev1.ClientResponseResult {
	res := &conformancev1.ClientResponseResult{
		ResponseHeaders:  c03Headers(v.l[0]),
		ResponseTrailers: c03Headers(v.l[1]),
	}
	for _, p := range v.l[2].l {
		pl := &conformancev1.ConformancePayload{Data: p.l[0].b}
		if len(p.l[1].l) == 1 {
			pl.RequestInfo = c03ReqInfo(p.l[1].l[0])
		}
		res.Payloads = append(res.Payloads, pl)
	}
	if len(v.l[3].l) == 1 {
		e := v.l[3].l[0]
		pe := &conformancev1.Error{Code: conformancev1.Code(e.l[0].i)}
		if len(e.l[1].l) == 1 {
			pe.Message = proto.String(e.l[1].l[0].str())
		}
		for _, d := range e.l[2].l {
			if d.l[0].i == 0 {
				pe.Details = append(pe.Details, c03Pack(c03ReqInfo(d.l[1])))
			} else {
				pe.Details = append(pe.Details, c03Any(d.l[1]))
			}
		}
		res.Error = pe
	}
	if len(v.l[4].l) == 1 {
		res.HttpStatusCode = proto.Int32(int32(v.l[4].l[0].i))
	}
	res.NumUnsentRequests = int32(v.l[5].i)
	return res
}

var (
	c03ReDetail  = regexp.MustCompile(`^actual error detail #(\d+) does not match expected error detail`)
	c03ReData    = regexp.MustCompile(`^response #(\d+): expecting data `)
	c03ReReq     = regexp.MustCompile(`^request #(\d+): (failed to unmarshal actual message|failed to unmarshal expected message|did not survive round-trip)`)
	c03RePCount  = regexp.MustCompile(`^expecting -?\d+ response messages but instead got -?\d+$`)
	c03ReRCount  = regexp.MustCompile(`^expecting -?\d+ request messages to be described but instead got -?\d+$`)
	c03ReDCount  = regexp.MustCompile(`^actual error contain -?\d+ details; expecting -?\d+$`)
	c03ReTMiss   = regexp.MustCompile(`^server did not echo back a timeout but one was expected \(-?\d+ ms\)$`)
	c03ReTMism   = regexp.MustCompile(`^server echoed back a timeout \(-?\d+ ms\) that did not match expected \(-?\d+ ms\)$`)
	c03ReTUnexp  = regexp.MustCompile(`^server echoed back a timeout \(-?\d+ ms\) but none was expected$`)
	c03ReStatus  = regexp.MustCompile(`^actual HTTP status code does not match: wanted -?\d+; got -?\d+$`)
	c03ReActErr  = regexp.MustCompile(`^actual error \{code: -?\d+ \([a-z_0-9 ]+\), message: `)
	c03WhatNames = [][2]string{
		{"response headers", "rh"}, {"response trailers", "rt"}, {"response metadata", "rm"},
		{"request headers", "qh"}, {"request query params", "qp"},
	}
)

func c03Idx(tag, num string) string {
	n, _ := strconv.ParseUint(num, 10, 32)
	var b [4]byte
	binary.BigEndian.PutUint32(b[:], uint32(n))
	return tag + string(b[:])
}

// the enum of discrepancy kinds, derived from the text of each reported error
func c03Kind(err error) string {
	t := err.Error()
	switch {
	case strings.HasPrefix(t, "received an unexpected error:\n"):
		return "err-unexpected"
	case t == "expecting an error but received none":
		return "err-missing"
	case c03ReDCount.MatchString(t):
		return "detail-count"
	case c03RePCount.MatchString(t):
		return "payload-count"
	case c03ReRCount.MatchString(t):
		return "req-count"
	case c03ReTMiss.MatchString(t):
		return "timeout-missing"
	case c03ReTMism.MatchString(t):
		return "timeout-mismatch"
	case c03ReTUnexp.MatchString(t):
		return "timeout-unexpected"
	case c03ReStatus.MatchString(t):
		return "status"
	}
	if m := c03ReDetail.FindStringSubmatch(t); m != nil {
		return c03Idx("detail:", m[1])
	}
	if m := c03ReData.FindStringSubmatch(t); m != nil {
		return c03Idx("data:", m[1])
	}
	if m := c03ReReq.FindStringSubmatch(t); m != nil {
		switch m[2][0] {
		case 'd':
			return c03Idx("req:", m[1])
		default:
			if strings.Contains(m[2], "actual") {
				return c03Idx("req-ua:", m[1])
			}
			return c03Idx("req-ue:", m[1])
		}
	}
	if loc := c03ReActErr.FindStringIndex(t); loc != nil {
		if q, err := strconv.QuotedPrefix(t[loc[1]:]); err == nil {
			rest := t[loc[1]+len(q):]
			switch {
			case strings.HasPrefix(rest, "} does not match expected code "):
				return "code"
			case strings.HasPrefix(rest, "} does not match expected message "):
				return "message"
			}
		}
	}
	for _, w := range c03WhatNames {
		if rest, ok := strings.CutPrefix(t, "actual "+w[0]+" missing "); ok {
			if name, err := strconv.Unquote(rest); err == nil {
				return "missing:" + w[1] + ":" + name
			}
		}
		if rest, ok := strings.CutPrefix(t, w[0]+" has incorrect values for "); ok {
			if q, err := strconv.QuotedPrefix(rest); err == nil && strings.HasPrefix(rest[len(q):], ": expected [") {
				name, _ := strconv.Unquote(q)
				return "values:" + w[1] + ":" + name
			}
		}
	}
	return "other:" + t
}

// (def expected actual) -> (pass (sorted discrepancy kinds)), through the real
// newResults / assert; the recorded outcome is read back from the results.
func verifC03Assert(args []vsx) (res vsx) {
	defer func() {
		if r := recover(); r != nil {
			if _, ok := r.(c03BadCase); ok {
				res = vL(vS("bad-case"))
				return
			}
			panic(r)
		}
	}()
	def := args[0]
	tc := &conformancev1.TestCase{
		Request:          &conformancev1.ClientCompatRequest{TestName: "verif/c03", StreamType: conformancev1.StreamType(def.l[0].i)},
		ExpectedResponse: c03Result(args[1]),
	}
	for _, c := range def.l[1].l {
		tc.OtherAllowedErrorCodes = append(tc.OtherAllowedErrorCodes, conformancev1.Code(c.i))
	}
	actual := c03Result(args[2])
	results := newResults(1, &testTrie{}, &testTrie{}, nil)
	results.assert("verif/c03", tc, actual)
	results.mu.Lock()
	outcome, ok := results.outcomes["verif/c03"]
	results.mu.Unlock()
	if !ok {
		return vErr("no-outcome-recorded")
	}
	if outcome.setupError || outcome.knownFailing || outcome.knownFlaky {
		return vErr("unexpected-outcome-flags")
	}
	var kinds []string
	switch e := outcome.actualFailure.(type) {
	case nil:
	case multiErrors:
		for _, x := range e {
			kinds = append(kinds, c03Kind(x))
		}
	default:
		kinds = append(kinds, c03Kind(e))
	}
	sort.Strings(kinds)
	return vL(vBool(outcome.actualFailure == nil), vStrs(kinds))
}

func verifC03Canon(args []vsx) vsx {
	return vStrs(canonicalizeHeaderVals(args[0].strs()))
}

// (a b probe) -> (merged entries sorted by name, does the merged expectation hold on probe)
func verifC03Merge(args []vsx) vsx {
	merged := mergeHeaders(c03Headers(args[0]), c03Headers(args[1]))
	ok := len(checkHeaders("response metadata", merged, c03Headers(args[2]))) == 0
	sort.Slice(merged, func(i, j int) bool { return merged[i].Name < merged[j].Name })
	out := make([]vsx, len(merged))
	for i, h := range merged {
		out[i] = vL(vS(h.Name), vStrs(h.Value))
	}
	return vL(vL(out...), vBool(ok))
}
