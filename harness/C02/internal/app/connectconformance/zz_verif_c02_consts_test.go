//go:build verif

package connectconformance

import (
	"fmt"
	"go/ast"
	"go/parser"
	"go/token"
	"os"
	"path/filepath"
	"sort"
	"strconv"
	"strings"
	"testing"
)

// TestVerifConsts regenerates coq/theories/C02_Consts.v: the connect-go client options of the reference
// client that decide whether a call goes out as an HTTP GET (C02_Model: setup_of), read from the
// sources of internal/app/referenceclient in source order: 1 = connect.WithHTTPGet,
// 2 = connect.WithHTTPGetMaxURLSize.
func TestVerifConsts(t *testing.T) {
	out := os.Getenv("VERIF_OUT")
	if out == "" {
		t.Skip("VERIF_OUT not set")
	}
	options, err := verifC02GetOptions("../referenceclient")
	if err != nil {
		t.Fatal(err)
	}
	text := fmt.Sprintf("Definition c02_client_get_options : list Z := [%s]%%Z.\n", strings.Join(options, "; "))
	if err := os.WriteFile(out, []byte(text), 0o644); err != nil {
		t.Fatal(err)
	}
}

func verifC02GetOptions(dir string) ([]string, error) {
	files, err := filepath.Glob(filepath.Join(dir, "*.go"))
	if err != nil {
		return nil, err
	}
	sort.Strings(files)
	var options []string
	fset := token.NewFileSet()
	for _, file := range files {
		if strings.HasSuffix(file, "_test.go") {
			continue
		}
		parsed, err := parser.ParseFile(fset, file, nil, 0)
		if err != nil {
			return nil, err
		}
		connectName := ""
		for _, imp := range parsed.Imports {
			if path, _ := strconv.Unquote(imp.Path.Value); path == "connectrpc.com/connect" {
				connectName = "connect"
				if imp.Name != nil {
					connectName = imp.Name.Name
				}
			}
		}
		if connectName == "" {
			continue
		}
		ast.Inspect(parsed, func(node ast.Node) bool {
			// a call or a mention as a value (an option may be built by a helper): every use counts
			sel, ok := node.(*ast.SelectorExpr)
			if !ok {
				return true
			}
			if pkg, ok := sel.X.(*ast.Ident); ok && pkg.Name == connectName {
				switch sel.Sel.Name {
				case "WithHTTPGet":
					options = append(options, "1")
				case "WithHTTPGetMaxURLSize":
					options = append(options, "2")
				}
			}
			return true
		})
	}
	return options, nil
}
