//go:build verif

package connectconformance

import (
	"bytes"
	"context"
	"errors"
	"fmt"
	"io"
	"sort"
	"strings"
	"sync"
	"time"

	"connectrpc.com/conformance/internal"
	"connectrpc.com/conformance/internal/app/grpcclient"
	"connectrpc.com/conformance/internal/app/grpcserver"
	"connectrpc.com/conformance/internal/app/referenceclient"
	"connectrpc.com/conformance/internal/app/referenceserver"
	conformancev1 "connectrpc.com/conformance/internal/gen/proto/go/connectrpc/conformance/v1"
	"google.golang.org/protobuf/encoding/protojson"
	"google.golang.org/protobuf/proto"
	"google.golang.org/protobuf/types/known/anypb"
)

func init() {
	verifKinds["c02.live"] = verifC02Live
	verifKinds["c02.expect"] = verifC02Expect
}

// ---------------------------------------------------------------------------
// case tree -> TestSuite proto
//   test    := (name stype reqheaders (request ...)) | (name stype reqheaders (request ...) get)
//              get != 0: a Connect GET case (use_get_http_method; a unary one calls IdempotentUnary, message kind 0 is
//              then IdempotentUnaryRequest); GET cases go into a suite of their own that relies_on_connect_get
//   request := (kind full data def?)  def? := () | (def)
//   def     := (headers trailers (data ...) err?)   err? := () | (err)
//   err     := (code msg? (detail ...))   msg? := () | (bytes)   detail := (kind bytes)
//   headers := ((name (value ...)) ...)
// ---------------------------------------------------------------------------

func c02Headers(v vsx) []*conformancev1.Header {
	var out []*conformancev1.Header
	for _, h := range v.l {
		out = append(out, &conformancev1.Header{Name: h.l[0].str(), Value: h.l[1].strs()})
	}
	return out
}

func c02Detail(v vsx) *anypb.Any {
	var msg proto.Message
	switch v.l[0].i {
	case 0:
		msg = &conformancev1.Header{Name: v.l[1].str()}
	default:
		msg = &conformancev1.Error{Message: proto.String(v.l[1].str())}
	}
	a, err := anypb.New(msg)
	if err != nil {
		panic(err)
	}
	return a
}

func c02Error(v vsx) *conformancev1.Error {
	e := &conformancev1.Error{Code: conformancev1.Code(v.l[0].i)}
	if len(v.l[1].l) > 0 {
		e.Message = proto.String(v.l[1].l[0].str())
	}
	for _, d := range v.l[2].l {
		e.Details = append(e.Details, c02Detail(d))
	}
	return e
}

func c02Request(v vsx, get bool) *anypb.Any {
	kind, fullDuplex, data := v.l[0].i, v.l[1].i != 0, v.l[2].b
	var defv *vsx
	if len(v.l[3].l) > 0 {
		defv = &v.l[3].l[0]
	}
	var msg proto.Message
	unaryDef := func() *conformancev1.UnaryResponseDefinition {
		if defv == nil {
			return nil
		}
		d := &conformancev1.UnaryResponseDefinition{
			ResponseHeaders:  c02Headers(defv.l[0]),
			ResponseTrailers: c02Headers(defv.l[1]),
		}
		switch {
		case len(defv.l[3].l) > 0:
			d.Response = &conformancev1.UnaryResponseDefinition_Error{Error: c02Error(defv.l[3].l[0])}
		case len(defv.l[2].l) > 0:
			d.Response = &conformancev1.UnaryResponseDefinition_ResponseData{ResponseData: defv.l[2].l[0].b}
		}
		return d
	}
	streamDef := func() *conformancev1.StreamResponseDefinition {
		if defv == nil {
			return nil
		}
		d := &conformancev1.StreamResponseDefinition{
			ResponseHeaders:  c02Headers(defv.l[0]),
			ResponseTrailers: c02Headers(defv.l[1]),
		}
		for _, x := range defv.l[2].l {
			d.ResponseData = append(d.ResponseData, x.b)
		}
		if len(defv.l[3].l) > 0 {
			d.Error = c02Error(defv.l[3].l[0])
		}
		return d
	}
	switch kind {
	case 0:
		if get {
			msg = &conformancev1.IdempotentUnaryRequest{RequestData: data, ResponseDefinition: unaryDef()}
		} else {
			msg = &conformancev1.UnaryRequest{RequestData: data, ResponseDefinition: unaryDef()}
		}
	case 1:
		msg = &conformancev1.ClientStreamRequest{RequestData: data, ResponseDefinition: unaryDef()}
	case 2:
		msg = &conformancev1.ServerStreamRequest{RequestData: data, ResponseDefinition: streamDef()}
	case 3:
		msg = &conformancev1.BidiStreamRequest{RequestData: data, ResponseDefinition: streamDef(), FullDuplex: fullDuplex}
	case 4:
		msg = &conformancev1.Header{Name: fmt.Sprintf("%x", data)} // a linked message type that defines no response
	default:
		// stands for an Any whose type URL does not resolve: c02Library rewrites the type name in the
		// JSON text (protojson cannot marshal an unresolvable Any), so the real parser meets the unknown URL
		msg = &conformancev1.ConformancePayload{Data: data}
	}
	a, err := anypb.New(msg)
	if err != nil {
		panic(err)
	}
	return a
}

func c02IsGet(t vsx) bool { return len(t.l) > 4 && t.l[4].i != 0 }

// the suites "V" (ordinary cases) and "G" (Connect GET cases: relies_on_connect_get, hence Connect only; identity
// only, as in the shipped connect_with_get.yaml: the reference client never compresses a GET request of this
// size); a suite without test cases is nil
func c02Suites(tests vsx) (*conformancev1.TestSuite, *conformancev1.TestSuite) {
	suite := &conformancev1.TestSuite{Name: "V"}
	getSuite := &conformancev1.TestSuite{
		Name:                 "G",
		ReliesOnConnectGet:   true,
		RelevantProtocols:    []conformancev1.Protocol{conformancev1.Protocol_PROTOCOL_CONNECT},
		RelevantCompressions: []conformancev1.Compression{conformancev1.Compression_COMPRESSION_IDENTITY},
	}
	for _, t := range tests.l {
		stype := t.l[1].i
		get := c02IsGet(t)
		tc := &conformancev1.TestCase{Request: &conformancev1.ClientCompatRequest{
			TestName:         t.l[0].str(),
			StreamType:       conformancev1.StreamType(stype),
			RequestHeaders:   c02Headers(t.l[2]),
			UseGetHttpMethod: get,
		}}
		if get && stype == 1 {
			tc.Request.Service = proto.String("connectrpc.conformance.v1.ConformanceService")
			tc.Request.Method = proto.String("IdempotentUnary")
		}
		for _, r := range t.l[3].l {
			tc.Request.RequestMessages = append(tc.Request.RequestMessages, c02Request(r, get))
		}
		if get {
			getSuite.TestCases = append(getSuite.TestCases, tc)
		} else {
			suite.TestCases = append(suite.TestCases, tc)
		}
	}
	if len(suite.TestCases) == 0 {
		suite = nil
	}
	if len(getSuite.TestCases) == 0 {
		getSuite = nil
	}
	return suite, getSuite
}

// all test cases as generated (both suites)
func c02AllCases(suites ...*conformancev1.TestSuite) []*conformancev1.TestCase {
	var out []*conformancev1.TestCase
	for _, s := range suites {
		if s != nil {
			out = append(out, s.TestCases...)
		}
	}
	return out
}

// ---------------------------------------------------------------------------
// projections (what is compared with the model)
// ---------------------------------------------------------------------------

func c02SplitVals(vals []string) []vsx {
	var out []vsx
	for _, v := range vals {
		for _, p := range strings.Split(v, ",") {
			out = append(out, vS(strings.Trim(p, " ")))
		}
	}
	return out
}

// restrict a header list to the given (lower-cased) names; one entry per name that is
// present, sorted by name, values flattened on commas in order of appearance.
func c02Project(hdrs []*conformancev1.Header, names map[string]bool) vsx {
	vals := map[string][]vsx{}
	for _, h := range hdrs {
		n := strings.ToLower(h.Name)
		if names[n] {
			vals[n] = append(vals[n], c02SplitVals(h.Value)...)
		}
	}
	keys := make([]string, 0, len(vals))
	for k := range vals {
		keys = append(keys, k)
	}
	sort.Strings(keys)
	out := make([]vsx, 0, len(keys))
	for _, k := range keys {
		out = append(out, vL(vS(k), vL(vals[k]...)))
	}
	return vL(out...)
}

func c02Names(lists ...[]*conformancev1.Header) map[string]bool {
	m := map[string]bool{}
	for _, l := range lists {
		for _, h := range l {
			m[strings.ToLower(h.Name)] = true
		}
	}
	return m
}

var c02QueryNames = map[string]bool{"encoding": true, "connect": true, "compression": true}

type c02Proj struct {
	reqNames map[string]bool
	rspNames map[string]bool
}

// an echoed request message -> (type request-data); type as in the model (0 unary .. 3 bidi, 4 other, 5 unresolvable)
func c02ReqAny(a *anypb.Any) vsx {
	m, err := a.UnmarshalNew()
	if err != nil {
		return vL(vI(5), vB(a.Value))
	}
	switch m := m.(type) {
	case *conformancev1.UnaryRequest:
		return vL(vI(0), vB(m.RequestData))
	case *conformancev1.IdempotentUnaryRequest:
		return vL(vI(0), vB(m.RequestData)) // the unary request message of the method called
	case *conformancev1.ClientStreamRequest:
		return vL(vI(1), vB(m.RequestData))
	case *conformancev1.ServerStreamRequest:
		return vL(vI(2), vB(m.RequestData))
	case *conformancev1.BidiStreamRequest:
		return vL(vI(3), vB(m.RequestData))
	}
	return vL(vI(4), vB(a.Value))
}

func (p *c02Proj) reqInfo(ri *conformancev1.ConformancePayload_RequestInfo) vsx {
	// a nil request info and an empty one are the same thing to the assertion (getters on nil)
	idx := make([]vsx, len(ri.GetRequests()))
	for i, r := range ri.GetRequests() {
		idx[i] = c02ReqAny(r)
	}
	tmo := vL()
	if ri != nil && ri.TimeoutMs != nil {
		tmo = vL(vI(*ri.TimeoutMs))
	}
	// of the query parameters only encoding, connect and compression ("message" and "base64" depend on the encoder)
	return vL(c02Project(ri.GetRequestHeaders(), p.reqNames), vL(idx...), tmo,
		c02Project(ri.GetConnectGetInfo().GetQueryParams(), c02QueryNames))
}

func (p *c02Proj) errv(e *conformancev1.Error) vsx {
	if e == nil {
		return vL()
	}
	// an absent message and an empty one are the same thing on the wire and to the assertion
	msg := vS(e.GetMessage())
	var dets []vsx
	ri := &conformancev1.ConformancePayload_RequestInfo{}
	for _, d := range e.Details {
		if d.MessageIs(ri) {
			info := &conformancev1.ConformancePayload_RequestInfo{}
			if err := d.UnmarshalTo(info); err != nil {
				dets = append(dets, vL(vI(2)))
				continue
			}
			dets = append(dets, vL(vI(1), p.reqInfo(info)))
			continue
		}
		dets = append(dets, vL(vI(0), vS(d.TypeUrl), vB(d.Value)))
	}
	return vL(vL(vI(int64(e.Code)), msg, vL(dets...)))
}

func (p *c02Proj) result(r *conformancev1.ClientResponseResult, restrict bool) vsx {
	if r == nil {
		return vL(vS("nil"))
	}
	var hdrs, trls vsx
	if restrict {
		hdrs, trls = c02Project(r.ResponseHeaders, p.rspNames), c02Project(r.ResponseTrailers, p.rspNames)
	} else {
		hdrs, trls = c02Project(r.ResponseHeaders, c02Names(r.ResponseHeaders)), c02Project(r.ResponseTrailers, c02Names(r.ResponseTrailers))
	}
	pls := make([]vsx, len(r.Payloads))
	for i, pl := range r.Payloads {
		pls[i] = vL(vB(pl.GetData()), p.reqInfo(pl.GetRequestInfo()))
	}
	return vL(hdrs, trls, vL(pls...), p.errv(r.Error))
}

func c02ProjFor(tc *conformancev1.TestCase, orig *conformancev1.TestCase) *c02Proj {
	p := &c02Proj{reqNames: c02Names(orig.Request.RequestHeaders)}
	// response names: whatever ANY request's definition declares (only the first one's may show up: a peer that
	// honours a later definition is seen by its metadata too, not only by its payloads)
	p.rspNames = map[string]bool{}
	for _, rm := range orig.Request.RequestMessages {
		m, err := rm.UnmarshalNew()
		if err != nil {
			continue
		}
		var more map[string]bool
		switch m := m.(type) {
		case unaryResponseDefiner:
			more = c02Names(m.GetResponseDefinition().GetResponseHeaders(), m.GetResponseDefinition().GetResponseTrailers())
		case streamResponseDefiner:
			more = c02Names(m.GetResponseDefinition().GetResponseHeaders(), m.GetResponseDefinition().GetResponseTrailers())
		}
		for k := range more {
			p.rspNames[k] = true
		}
	}
	_ = tc
	return p
}

// ---------------------------------------------------------------------------
// library construction through the real loader
// ---------------------------------------------------------------------------

func c02Library(tests vsx, cfgv vsx) (*testCaseLibrary, []*conformancev1.TestCase, []configCase, error) {
	suite, getSuite := c02Suites(tests)
	all := c02AllCases(suite, getSuite)
	files := map[string][]byte{}
	for name, s := range map[string]*conformancev1.TestSuite{"verif.yaml": suite, "verif_get.yaml": getSuite} {
		if s == nil {
			continue
		}
		data, err := protojson.Marshal(s)
		if err != nil {
			panic(err)
		}
		files[name] = bytes.ReplaceAll(data, []byte("connectrpc.conformance.v1.ConformancePayload\""), []byte("verif.NoSuchMessage\""))
	}
	suites, err := parseTestSuites(files)
	if err != nil {
		return nil, all, nil, err
	}
	var cfgs []configCase
	stypes := map[conformancev1.StreamType]bool{}
	for _, tc := range all {
		stypes[tc.Request.StreamType] = true
	}
	for _, c := range cfgv.l {
		for st := range stypes {
			if c.l[0].i == 1 && st == conformancev1.StreamType_STREAM_TYPE_FULL_DUPLEX_BIDI_STREAM {
				continue // impossible combination (C06 valid_case): no full-duplex over HTTP/1.1
			}
			if c.l[1].i == 2 && c.l[0].i != 2 {
				continue // gRPC needs HTTP/2
			}
			cc := configCase{
				Version:     conformancev1.HTTPVersion(c.l[0].i),
				Protocol:    conformancev1.Protocol(c.l[1].i),
				Codec:       conformancev1.Codec(c.l[2].i),
				Compression: conformancev1.Compression(c.l[3].i),
				UseTLS:      c.l[4].i != 0,
				StreamType:  st,
			}
			cfgs = append(cfgs, cc)
			if cc.Protocol == conformancev1.Protocol_PROTOCOL_CONNECT {
				// the same config case with Connect GET support (config.go computes both for a peer that supports
				// it): the one the suite that relies_on_connect_get is expanded under
				cc.UseConnectGET = true
				cfgs = append(cfgs, cc)
			}
		}
	}
	lib, err := newTestCaseLibrary(suites, cfgs, conformancev1.TestSuite_TEST_MODE_UNSPECIFIED)
	return lib, all, cfgs, err
}

// (tests) -> per permutation (suite/name codec expected), sorted by suite/name then codec, through parseTestSuites +
// newTestCaseLibrary with two config cases that differ in the codec (the expectation of a permutation may depend on it)
func verifC02Expect(args []vsx) vsx {
	// h2c: the only plain-text version that carries all five stream types; Connect, identity; proto and json
	cfg := vL(vL(vI(2), vI(1), vI(1), vI(1), vI(0)), vL(vI(2), vI(1), vI(2), vI(1), vI(0)))
	lib, all, _, err := c02Library(args[0], cfg)
	if err != nil {
		return vErr("load")
	}
	orig := c02Orig(all)
	type perm struct {
		key   string
		codec int64
		tc    *conformancev1.TestCase
	}
	var perms []perm
	for n, tc := range lib.testCases {
		suiteName, _, _ := strings.Cut(n, "/")
		perms = append(perms, perm{key: suiteName + "/" + lib.testCaseNames[n], codec: int64(tc.Request.Codec), tc: tc})
	}
	sort.Slice(perms, func(i, j int) bool {
		if perms[i].key != perms[j].key {
			return perms[i].key < perms[j].key
		}
		return perms[i].codec < perms[j].codec
	})
	var out []vsx
	for _, p := range perms {
		o := orig[c02Key(lib.testCaseNames[p.tc.Request.TestName], p.tc.Request.StreamType, p.tc.Request.UseGetHttpMethod)]
		out = append(out, vL(vS(p.key), vI(p.codec), c02ProjFor(p.tc, o).result(p.tc.ExpectedResponse, false)))
	}
	return vL(out...)
}

// ---------------------------------------------------------------------------
// live execution against the real peers, in-process
// ---------------------------------------------------------------------------

type c02Recorder struct {
	inner clientRunner
	mu    sync.Mutex
	resps map[string]*conformancev1.ClientCompatResponse
	errs  map[string]error
}

func (r *c02Recorder) sendRequest(req *conformancev1.ClientCompatRequest, whenDone func(string, *conformancev1.ClientCompatResponse, error)) error {
	return r.inner.sendRequest(req, func(name string, resp *conformancev1.ClientCompatResponse, err error) {
		r.mu.Lock()
		r.resps[name] = resp
		r.errs[name] = err
		r.mu.Unlock()
		whenDone(name, resp, err)
	})
}
func (r *c02Recorder) closeSend()              { r.inner.closeSend() }
func (r *c02Recorder) waitForResponses() error { return r.inner.waitForResponses() }
func (r *c02Recorder) isRunning() bool         { return r.inner.isRunning() }
func (r *c02Recorder) stop()                   { r.inner.stop() }

func c02ClientStarter(grpc bool) processStarter {
	if grpc {
		return runInProcess([]string{"grpc-reference-client", "-p", "4"},
			func(ctx context.Context, args []string, in io.ReadCloser, out, errw io.WriteCloser) error {
				return grpcclient.RunWithTrace(ctx, args, in, out, errw, nil)
			})
	}
	return runInProcess([]string{"reference-client", "-p", "4"},
		func(ctx context.Context, args []string, in io.ReadCloser, out, errw io.WriteCloser) error {
			return referenceclient.RunInReferenceMode(ctx, args, in, out, errw, nil)
		})
}

func c02ServerStarter(grpc bool) processStarter {
	if grpc {
		return runInProcess([]string{"grpc-reference-server", "-port", "0", "-bind", "127.0.0.1"},
			func(ctx context.Context, args []string, in io.ReadCloser, out, errw io.WriteCloser) error {
				return grpcserver.RunWithTrace(ctx, args, in, out, errw, nil)
			})
	}
	return runInProcess([]string{"reference-server", "-port", "0", "-bind", "127.0.0.1", "-cert", "", "-key", ""},
		func(ctx context.Context, args []string, in io.ReadCloser, out, errw io.WriteCloser) error {
			return referenceserver.RunInReferenceMode(ctx, args, in, out, errw, nil)
		})
}

var (
	c02CredsOnce sync.Once
	c02Creds     *conformancev1.TLSCreds
)

// ((client server) (cfgcase ...) (test ...)) ->
//   per permutation, sorted by full name: (fullname expected verdict feedback actual)
func verifC02Live(args []vsx) vsx {
	grpcClient, grpcServer := args[0].l[0].i != 0, args[0].l[1].i != 0
	lib, all, _, err := c02Library(args[2], args[1])
	if err != nil {
		if strings.Contains(err.Error(), "no test cases apply") {
			return vL()
		}
		return vErr("load")
	}
	orig := c02Orig(all)
	// no deadline on this context: the in-process reference client would propagate it as an RPC timeout
	ctx, cancel := context.WithCancel(context.Background())
	defer cancel()
	watchdog := time.AfterFunc(180*time.Second, cancel)
	defer watchdog.Stop()
	inner, err := runClient(ctx, c02ClientStarter(grpcClient))
	if err != nil {
		return vErr("client-start")
	}
	defer inner.stop()
	rec := &c02Recorder{inner: inner, resps: map[string]*conformancev1.ClientCompatResponse{}, errs: map[string]error{}}
	pr := internal.NewPrinter(io.Discard)
	var errBuf bytes.Buffer
	epr := internal.NewPrinter(&errBuf)

	type permRes struct {
		name string
		tc   *conformancev1.TestCase
	}
	var perms []permRes
	var allCases []*conformancev1.TestCase
	instances := serverInstancesSlice(lib, true)
	total := 0
	batches := map[serverInstance][]*conformancev1.TestCase{}
	for _, inst := range instances {
		cases := lib.filterGRPCImplTestCases(lib.casesByServer[inst], grpcClient, grpcServer)
		sort.Slice(cases, func(i, j int) bool { return cases[i].Request.TestName < cases[j].Request.TestName })
		batches[inst] = cases
		total += len(cases)
		allCases = append(allCases, cases...)
	}
	results := newResults(total, &testTrie{}, &testTrie{}, nil)
	for _, inst := range instances {
		cases := batches[inst]
		if len(cases) == 0 {
			continue
		}
		var serverCreds *conformancev1.TLSCreds
		if inst.useTLS {
			c02CredsOnce.Do(func() {
				cert, key, err := internal.NewServerCert()
				if err != nil {
					panic(err)
				}
				c02Creds = &conformancev1.TLSCreds{Cert: cert, Key: key}
			})
			serverCreds = c02Creds
		}
		runTestCasesForServer(ctx, !grpcClient, !grpcServer, inst, cases, serverCreds, nil,
			c02ServerStarter(grpcServer), pr, epr, results, rec, nil, false)
	}
	rec.closeSend()
	done := make(chan error, 1)
	go func() { done <- rec.waitForResponses() }()
	select {
	case <-done:
	case <-time.After(30 * time.Second):
		return vErr("client-did-not-finish")
	}
	cfgIndex := map[string]int{}
	for i, c := range args[1].l {
		cfgIndex[fmt.Sprintf("%d.%d.%d.%d.%v", c.l[0].i, c.l[1].i, c.l[2].i, c.l[3].i, c.l[4].i != 0)] = i
	}
	testIndex := map[string]int{}
	for i, t := range args[2].l { // the order of the case file (names are distinct within a batch)
		testIndex[t.l[0].str()] = i
	}
	baseOf := func(name string) string {
		base := lib.testCaseNames[name]
		if base == "" {
			// gRPC-marked name: strip the marker component
			for _, m := range []string{grpcImplMarker, grpcClientImplMarker, grpcServerImplMarker} {
				if unmarked := strings.Replace(name, m+"/", "", 1); unmarked != name {
					base = lib.testCaseNames[unmarked]
				}
			}
		}
		return base
	}
	cfgOf := func(tc *conformancev1.TestCase) string {
		return fmt.Sprintf("%d.%d.%d.%d.%v", tc.Request.HttpVersion, tc.Request.Protocol, tc.Request.Codec,
			tc.Request.Compression, len(tc.Request.ServerTlsCert) > 0)
	}
	for _, tc := range allCases {
		perms = append(perms, permRes{name: tc.Request.TestName, tc: tc})
	}
	// the order of the model: config cases as given, then test cases as given
	sort.SliceStable(perms, func(i, j int) bool {
		ci, cj := cfgIndex[cfgOf(perms[i].tc)], cfgIndex[cfgOf(perms[j].tc)]
		if ci != cj {
			return ci < cj
		}
		return testIndex[baseOf(perms[i].name)] < testIndex[baseOf(perms[j].name)]
	})
	results.mu.Lock()
	defer results.mu.Unlock()
	out := make([]vsx, 0, len(perms))
	for _, p := range perms {
		base := baseOf(p.name)
		o := orig[c02Key(base, p.tc.Request.StreamType, p.tc.Request.UseGetHttpMethod)]
		proj := c02ProjFor(p.tc, o)
		verdict := vS("pass")
		if oc, ok := results.outcomes[p.name]; !ok {
			verdict = vS("no-outcome")
		} else if oc.actualFailure != nil {
			kind := "fail"
			var cnr *couldNotRunError
			if oc.setupError {
				kind = "setup"
			} else if errors.As(oc.actualFailure, &cnr) {
				kind = "could-not-run"
			}
			verdict = vL(vS(kind), vS(firstLines(oc.actualFailure.Error(), 6)))
		}
		if msg, ok := results.serverSideband[p.name]; ok {
			verdict = vL(vS("server-feedback"), verdict, vS(firstLines(msg, 3)))
		}
		actual := vL(vS("none"))
		if r := rec.resps[p.name]; r != nil && r.GetResponse() != nil {
			actual = proj.result(r.GetResponse(), true)
		} else if r != nil && r.GetError() != nil {
			actual = vL(vS("client-error"), vS(r.GetError().Message))
		}
		rq := p.tc.Request
		tls := int64(0)
		if len(rq.ServerTlsCert) > 0 {
			tls = 1
		}
		cfg := vL(vI(int64(rq.HttpVersion)), vI(int64(rq.Protocol)), vI(int64(rq.Codec)), vI(int64(rq.Compression)), vI(tls))
		out = append(out, vL(vS(base), cfg, verdict, actual))
	}
	return vL(out...)
}

func c02Key(name string, st conformancev1.StreamType, get bool) string {
	return fmt.Sprintf("%d/%v/%s", st, get, name)
}

// the definitions as generated, by (stream type, suite, name); the first one wins, as in the model
func c02Orig(all []*conformancev1.TestCase) map[string]*conformancev1.TestCase {
	orig := map[string]*conformancev1.TestCase{}
	for _, tc := range all {
		k := c02Key(tc.Request.TestName, tc.Request.StreamType, tc.Request.UseGetHttpMethod)
		if _, ok := orig[k]; !ok {
			orig[k] = tc
		}
	}
	return orig
}

func firstLines(s string, n int) string {
	lines := strings.Split(s, "\n")
	if len(lines) > n {
		lines = lines[:n]
	}
	return strings.Join(lines, " | ")
}
