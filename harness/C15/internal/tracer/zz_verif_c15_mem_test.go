//go:build verif

package tracer

import "runtime"

type runtimeMemStats = runtime.MemStats

func readMem(m *runtime.MemStats) { runtime.ReadMemStats(m) }
