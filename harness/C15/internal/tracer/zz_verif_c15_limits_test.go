//go:build verif

// C15: the sizes the tracer's framer and HPACK decoder are configured for (emitFrame builds a fresh
// http2.Framer per frame with the library defaults; TracingHTTP2Conn builds the decoders), probed with
// traffic too large for the differential case files: one gRPC stream whose DATA frames are as large as
// SETTINGS_MAX_FRAME_SIZE can ever allow (2^24-1), a 2 MiB header block in one HEADERS frame followed by 16 KiB
// CONTINUATION frames, a 9 MiB header value.  Each must yield exactly one trace with the whole message /
// header value, on the client and on the server side.
//
// output (TestVerifC15Limits): one line per probe and side
//
//	<label> server=<0|1> traces=<n> broken=<0|1> reqmsg=<len> respmsg=<len> hdr=<len of x-big in the request>
package tracer

import (
	"bytes"
	"fmt"
	"os"
	"strings"
	"sync"
	"testing"

	"golang.org/x/net/http2"
	"golang.org/x/net/http2/hpack"
)

type c15RawCollector struct {
	mu     sync.Mutex
	traces []Trace
}

func (c *c15RawCollector) Complete(tr Trace) {
	c.mu.Lock()
	defer c.mu.Unlock()
	c.traces = append(c.traces, tr)
}

// one gRPC stream: request HEADERS (+ CONTINUATIONs of at most maxFrag bytes), one request message in one
// DATA frame, response HEADERS, the same message back in one DATA frame, trailers
func c15LimitsExchange(extra []hpack.HeaderField, msgLen int, maxFrag int) (reqBytes, respBytes []byte) {
	var reqB, respB, hb bytes.Buffer
	reqF, respF := http2.NewFramer(&reqB, nil), http2.NewFramer(&respB, nil)
	enc := hpack.NewEncoder(&hb)
	fields := append([]hpack.HeaderField{{Name: ":method", Value: "POST"}, {Name: ":scheme", Value: "http"},
		{Name: ":authority", Value: "h"}, {Name: ":path", Value: "/s/M"}, {Name: "content-type", Value: "application/grpc"},
		{Name: "x-test-case-name", Value: "Suite/limits"}}, extra...)
	for _, f := range fields {
		if err := enc.WriteField(f); err != nil {
			panic(err)
		}
	}
	must := func(err error) {
		if err != nil {
			panic(err)
		}
	}
	reqB.WriteString(clientPreface)
	blk := append([]byte(nil), hb.Bytes()...)
	if len(blk) <= maxFrag {
		must(reqF.WriteHeaders(http2.HeadersFrameParam{StreamID: 1, BlockFragment: blk, EndHeaders: true}))
	} else {
		must(reqF.WriteHeaders(http2.HeadersFrameParam{StreamID: 1, BlockFragment: blk[:maxFrag]}))
		for blk = blk[maxFrag:]; len(blk) > 16384; blk = blk[16384:] {
			must(reqF.WriteContinuation(1, false, blk[:16384]))
		}
		must(reqF.WriteContinuation(1, true, blk))
	}
	msg := make([]byte, 5+msgLen)
	msg[1], msg[2], msg[3], msg[4] = byte(msgLen>>24), byte(msgLen>>16), byte(msgLen>>8), byte(msgLen)
	must(reqF.WriteData(1, true, msg))
	hb.Reset()
	enc2 := hpack.NewEncoder(&hb)
	must(enc2.WriteField(hpack.HeaderField{Name: ":status", Value: "200"}))
	must(enc2.WriteField(hpack.HeaderField{Name: "content-type", Value: "application/grpc"}))
	must(respF.WriteHeaders(http2.HeadersFrameParam{StreamID: 1, BlockFragment: append([]byte(nil), hb.Bytes()...), EndHeaders: true}))
	must(respF.WriteData(1, false, msg))
	hb.Reset()
	must(enc2.WriteField(hpack.HeaderField{Name: "grpc-status", Value: "0"}))
	must(respF.WriteHeaders(http2.HeadersFrameParam{StreamID: 1, BlockFragment: append([]byte(nil), hb.Bytes()...), EndHeaders: true, EndStream: true}))
	return reqB.Bytes(), respB.Bytes()
}

func c15LimitsRun(label string, reqB, respB []byte, chunk int) string {
	var sb strings.Builder
	for _, server := range []bool{false, true} {
		sb.WriteString(c15LimitsSide(label, reqB, respB, chunk, server))
	}
	return sb.String()
}

func c15LimitsSide(label string, reqB, respB []byte, chunk int, server bool) (line string) {
	s := 0
	if server {
		s = 1
	}
	// a panic inside the tracing conn's Read / Write is an answer (the property: never crashes), not a harness failure
	defer func() {
		if r := recover(); r != nil {
			line = fmt.Sprintf("%s server=%d traces=-1 broken=1 reqmsg=-1 respmsg=-1 hdr=-1 panic=%s\n", label, s,
				strings.Join(strings.Fields(fmt.Sprint(r)), "_"))
		}
	}()
	var sb strings.Builder
	{
		inner := &c15Inner{}
		coll := &c15RawCollector{}
		conn := TracingHTTP2Conn(inner, server, coll)
		tc := conn.(*tracingHTTP2Conn)
		write := func(b []byte) {
			for len(b) > 0 {
				n := min(chunk, len(b))
				inner.nextCount, inner.nextErr = n, nil
				if k, err := conn.Write(b[:n]); k != n || err != nil {
					panic("write not transparent")
				}
				b = b[n:]
			}
		}
		read := func(b []byte) {
			buf := make([]byte, min(chunk, len(b)))
			for len(b) > 0 {
				n := min(chunk, len(b))
				inner.nextRead, inner.nextErr = b[:n], nil
				if k, err := conn.Read(buf); k != n || err != nil || !bytes.Equal(buf[:k], b[:n]) {
					panic("read not transparent")
				}
				b = b[n:]
			}
		}
		if server {
			read(reqB)
			write(respB)
		} else {
			write(reqB)
			read(respB)
		}
		reqmsg, respmsg, hdr := -1, -1, -1
		coll.mu.Lock()
		if len(coll.traces) == 1 {
			tr := coll.traces[0]
			for _, ev := range tr.Events {
				switch ev := ev.(type) {
				case *RequestBodyData:
					reqmsg = int(ev.Len)
				case *ResponseBodyData:
					respmsg = int(ev.Len)
				}
			}
			if tr.Request != nil {
				hdr = len(tr.Request.Header.Get("x-big"))
			}
		}
		n := len(coll.traces)
		coll.mu.Unlock()
		broken := 0
		if tc.readTracer.broken || tc.writeTracer.broken {
			broken = 1
		}
		fmt.Fprintf(&sb, "%s server=%d traces=%d broken=%d reqmsg=%d respmsg=%d hdr=%d\n", label, s, n, broken, reqmsg, respmsg, hdr)
	}
	return sb.String()
}

func TestVerifC15Limits(t *testing.T) {
	out := os.Getenv("VERIF_OUT")
	if out == "" {
		t.Skip("VERIF_OUT not set")
	}
	var sb strings.Builder
	// DATA frames of the largest size any SETTINGS_MAX_FRAME_SIZE allows; handed over in one call and in 64 KiB calls
	q, p := c15LimitsExchange(nil, 1<<24-1-5, 16384)
	sb.WriteString(c15LimitsRun("data-frame-16777215 want-msg=16777210 want-hdr=0", q, p, 1<<30))
	sb.WriteString(c15LimitsRun("data-frame-16777215/64k-calls want-msg=16777210 want-hdr=0", q, p, 1<<16))
	// a 2 MiB header block: HEADERS of 16 KiB + 16 KiB CONTINUATIONs; and in one HEADERS frame of 2 MiB
	big := []hpack.HeaderField{{Name: "x-big", Value: strings.Repeat("v", 1<<20)}, {Name: "x-big2", Value: strings.Repeat("w", 1<<20)}}
	q, p = c15LimitsExchange(big, 7, 16384)
	sb.WriteString(c15LimitsRun("continuation-chain-2MiB want-msg=7 want-hdr=1048576", q, p, 1<<30))
	q, p = c15LimitsExchange(big, 7, 1<<24-1)
	sb.WriteString(c15LimitsRun("headers-frame-2MiB want-msg=7 want-hdr=1048576", q, p, 1<<16))
	// a header value of 9 MiB (below the 16 MiB header list limit of the gRPC peers the tracer is installed in)
	q, p = c15LimitsExchange([]hpack.HeaderField{{Name: "x-big", Value: strings.Repeat("v", 9<<20)}}, 7, 1<<24-1)
	sb.WriteString(c15LimitsRun("header-value-9MiB want-msg=7 want-hdr=9437184", q, p, 1<<30))
	if err := os.WriteFile(out, []byte(sb.String()), 0o644); err != nil {
		t.Fatal(err)
	}
}
