//go:build verif

// C15 harness: the real TracingHTTP2Conn around a scripted net.Conn.
//
//   c15.conn / c15.fuzz   side R W TR TW chk ops
//       R = the bytes the inner conn delivers to Read, W = the bytes the caller writes,
//       ops = (0 n e) Read returning the next n bytes of R and error e | (1 n k e) Write of the
//       next n bytes of W, the inner conn answering (k, e) | (2 e) Close answering e |
//       (3 name) the retry timer of `name` fires (http2RetryCollector.timesUp, what
//       time.AfterFunc would call after retryWait).
//       TR/TW (the HPACK oracle for the model) and chk are not used on this side.
//   TestVerifC15Synth     abstract exchanges -> byte streams with x/net/http2's Framer and
//       hpack.Encoder (one per direction), used by the generator before the cases are written.
package tracer

import (
	"bufio"
	"bytes"
	"context"
	"errors"
	"fmt"
	"io"
	"net"
	"net/http"
	"os"
	"reflect"
	"sort"
	"strings"
	"sync"
	"testing"
	"time"

	"golang.org/x/net/http2"
	"golang.org/x/net/http2/hpack"
)

// ---------------------------------------------------------------------------
// scripted inner connection
// ---------------------------------------------------------------------------
type c15Timeout struct{}

func (c15Timeout) Error() string   { return "i/o timeout (scripted)" }
func (c15Timeout) Timeout() bool   { return true }
func (c15Timeout) Temporary() bool { return true }

var errC15Boom = errors.New("scripted failure")

func c15Err(code int64) error {
	switch code {
	case 0:
		return nil
	case 1:
		return io.EOF
	case 2:
		return c15Timeout{}
	default:
		return errC15Boom
	}
}

func c15ErrCode(err error) int64 {
	switch {
	case err == nil:
		return 0
	case err == io.EOF:
		return 1
	case err == error(c15Timeout{}):
		return 2
	case err == errC15Boom:
		return 3
	default:
		return 9 // not an error the inner conn returned
	}
}

type c15Inner struct {
	nextRead  []byte
	nextErr   error
	nextCount int
	got       []byte // what Write was handed
	closed    int
}

func (c *c15Inner) Read(p []byte) (int, error) {
	n := copy(p, c.nextRead)
	return n, c.nextErr
}
func (c *c15Inner) Write(p []byte) (int, error) {
	c.got = append([]byte(nil), p...)
	return c.nextCount, c.nextErr
}
func (c *c15Inner) Close() error                     { c.closed++; return c.nextErr }
func (c *c15Inner) LocalAddr() net.Addr              { return nil }
func (c *c15Inner) RemoteAddr() net.Addr             { return nil }
func (c *c15Inner) SetDeadline(time.Time) error      { return nil }
func (c *c15Inner) SetReadDeadline(time.Time) error  { return nil }
func (c *c15Inner) SetWriteDeadline(time.Time) error { return nil }

// ---------------------------------------------------------------------------
// recording collector, canonical form of a completed trace
// ---------------------------------------------------------------------------
type c15Collector struct {
	mu     sync.Mutex
	traces []vsx
	keys   []string
}

func c15Hdrs(h http.Header) vsx {
	keys := make([]string, 0, len(h))
	for k := range h {
		keys = append(keys, strings.ToLower(k))
	}
	sort.Strings(keys)
	out := make([]vsx, 0, len(keys))
	for _, k := range keys {
		var vals []string
		for hk, hv := range h {
			if strings.ToLower(hk) == k {
				vals = hv
			}
		}
		out = append(out, vL(vS(k), vStrs(vals)))
	}
	return vL(out...)
}

func c15TraceErr(err error) vsx {
	if err == nil {
		return vL(vI(0))
	}
	var se http2.StreamError
	if errors.As(err, &se) {
		return vL(vI(1), vI(int64(se.Code)))
	}
	var ce http2.ConnectionError
	if errors.As(err, &ce) {
		return vL(vI(2), vI(int64(ce)))
	}
	if errors.Is(err, context.Canceled) {
		return vL(vI(4))
	}
	return vL(vI(3))
}

func c15Env(e *Envelope) vsx {
	if e == nil {
		return vL()
	}
	return vL(vI(int64(e.Flags)), vI(int64(e.Len)))
}

func c15Event(ev Event) vsx {
	switch ev := ev.(type) {
	case *RequestStart:
		return vL(vI(0))
	case *RequestBodyData:
		return vL(vI(1), vInt(ev.MessageIndex), c15Env(ev.Envelope), vI(int64(ev.Len)))
	case *RequestBodyEnd:
		return vL(vI(2), c15TraceErr(ev.Err))
	case *ResponseStart:
		return vL(vI(3), vInt(ev.Response.StatusCode), c15Hdrs(ev.Response.Header))
	case *ResponseBodyData:
		return vL(vI(4), vInt(ev.MessageIndex), c15Env(ev.Envelope), vI(int64(ev.Len)))
	case *ResponseBodyEndStream:
		return vL(vI(5), vS(ev.Content))
	case *ResponseBodyEnd:
		return vL(vI(6), c15TraceErr(ev.Err))
	case *RequestCanceled:
		return vL(vI(7))
	case *ResponseError:
		return vL(vI(8), c15TraceErr(ev.Err))
	}
	return vL(vI(99))
}

func (c *c15Collector) Complete(tr Trace) {
	// snapshot now: Request/Response are shared pointers
	var method, scheme, host, path, query string
	var forceq bool
	var reqH, reqT http.Header
	if tr.Request != nil {
		method = tr.Request.Method
		reqH, reqT = tr.Request.Header, tr.Request.Trailer
		if tr.Request.URL != nil {
			scheme, host, path, query, forceq = tr.Request.URL.Scheme, tr.Request.URL.Host, tr.Request.URL.Path, tr.Request.URL.RawQuery, tr.Request.URL.ForceQuery
		}
	}
	resp := vL()
	if tr.Response != nil {
		resp = vL(vInt(tr.Response.StatusCode), c15Hdrs(tr.Response.Header), c15Hdrs(tr.Response.Trailer))
	}
	evs := make([]vsx, len(tr.Events))
	for i, e := range tr.Events {
		evs[i] = c15Event(e)
	}
	v := vL(vS(tr.TestName), vS(method), vS(scheme), vS(host), vS(path), vS(query), vBool(forceq),
		c15Hdrs(reqH), c15Hdrs(reqT), resp, c15TraceErr(tr.Err), vL(evs...))
	c.mu.Lock()
	defer c.mu.Unlock()
	c.traces = append(c.traces, v)
	c.keys = append(c.keys, tr.TestName+"\x00"+path)
}

func (c *c15Collector) sorted() vsx {
	c.mu.Lock()
	defer c.mu.Unlock()
	idx := make([]int, len(c.traces))
	for i := range idx {
		idx[i] = i
	}
	sort.SliceStable(idx, func(a, b int) bool { return c.keys[idx[a]] < c.keys[idx[b]] })
	out := make([]vsx, len(idx))
	for i, j := range idx {
		out[i] = c.traces[j]
	}
	return vL(out...)
}

// ---------------------------------------------------------------------------
// c15.conn / c15.fuzz
// ---------------------------------------------------------------------------
func c15Run(args []vsx, withTraces bool) vsx {
	if len(args) != 7 {
		return vL(vS("bad-case"))
	}
	isServer := args[0].i != 0
	rbytes, wbytes := args[1].b, args[2].b
	inner := &c15Inner{}
	coll := &c15Collector{}
	conn := TracingHTTP2Conn(inner, isServer, coll)
	tc := conn.(*tracingHTTP2Conn)
	var pass []vsx
	rpos, wpos := 0, 0
	for _, op := range args[6].l {
		if len(op.l) == 0 {
			return vL(vS("bad-case"))
		}
		switch op.l[0].i {
		case 0:
			if len(op.l) != 3 {
				return vL(vS("bad-case"))
			}
			n := int(op.l[1].i)
			if n < 0 || n > len(rbytes)-rpos {
				n = len(rbytes) - rpos
			}
			inner.nextRead, inner.nextErr = rbytes[rpos:rpos+n], c15Err(op.l[2].i)
			rpos += n
			buf := make([]byte, n+3)
			for i := range buf {
				buf[i] = 0xA5
			}
			got, err := conn.Read(buf)
			if got < 0 || got > len(buf) {
				pass = append(pass, vL(vI(0), vInt(got), vI(c15ErrCode(err)), vS("out-of-range")))
				continue
			}
			tailOK := bytes.Equal(buf[got:], bytes.Repeat([]byte{0xA5}, len(buf)-got))
			pass = append(pass, vL(vI(0), vInt(got), vI(c15ErrCode(err)), vB(buf[:got]), vBool(tailOK)))
		case 1:
			if len(op.l) != 4 {
				return vL(vS("bad-case"))
			}
			n := int(op.l[1].i)
			if n < 0 || n > len(wbytes)-wpos {
				n = len(wbytes) - wpos
			}
			k := int(op.l[2].i)
			if k < 0 || k > n {
				k = n
			}
			data := append([]byte(nil), wbytes[wpos:wpos+n]...)
			wpos += n
			inner.nextCount, inner.nextErr, inner.got = k, c15Err(op.l[3].i), nil
			cnt, err := conn.Write(data)
			// the caller's buffer must be untouched, the inner conn must have been handed exactly it
			same := bytes.Equal(data, wbytes[wpos-n:wpos])
			pass = append(pass, vL(vI(1), vInt(cnt), vI(c15ErrCode(err)), vB(inner.got), vBool(same)))
		case 2:
			if len(op.l) != 2 {
				return vL(vS("bad-case"))
			}
			inner.nextErr = c15Err(op.l[1].i)
			before := inner.closed
			err := conn.Close()
			pass = append(pass, vL(vI(2), vI(c15ErrCode(err)), vInt(inner.closed-before)))
		case 3:
			if len(op.l) != 2 {
				return vL(vS("bad-case"))
			}
			tc.collector.timesUp(op.l[1].str())
			pass = append(pass, vL(vI(3)))
		default:
			return vL(vS("bad-case"))
		}
	}
	if !withTraces {
		return vL(vL(pass...))
	}
	tc.collector.mu.Lock()
	var waiting []string
	for name := range tc.collector.waiting {
		waiting = append(waiting, name)
	}
	tc.collector.mu.Unlock()
	sort.Strings(waiting)
	tc.mu.Lock()
	open := make([]int, 0, len(tc.streams))
	for id := range tc.streams {
		open = append(open, int(id))
	}
	tc.mu.Unlock()
	sort.Ints(open)
	openv := make([]vsx, len(open))
	for i, id := range open {
		openv[i] = vInt(id)
	}
	return vL(vL(pass...), vL(vBool(tc.readTracer.broken), vBool(tc.writeTracer.broken)), vL(openv...),
		vStrs(waiting), coll.sorted())
}

func init() {
	verifKinds["c15.conn"] = func(args []vsx) vsx { return c15Run(args, true) }
	verifKinds["c15.fuzz"] = func(args []vsx) vsx { return c15Run(args, false) }
}

// ---------------------------------------------------------------------------
// synthesis of byte streams from abstract exchanges (generator helper)
// ---------------------------------------------------------------------------
// input line:  (id reqPreface frames)   frames = list of (dir f...) in global order, dir 0 = request direction
//   (dir 0 sid endStream fields ncont pad prio)   HEADERS (+ ncont CONTINUATIONs), fields = ((name value)...)
//   (dir 1 sid endStream data pad)                DATA   (pad < 0: not padded)
//   (dir 2 sid code)                              RST_STREAM
//   (dir 3 last code debug)                       GOAWAY
//   (dir 4 ack data8)                             PING
//   (dir 5 ack (id val)...)                       SETTINGS
//   (dir 6 sid incr)                              WINDOW_UPDATE
//   (dir 7 type flags sid payload)                raw frame (unknown types, structural malformations)
//   (dir 8 name) / (dir 9 e)                      pseudo frames (timer / close): no bytes
// output line: (id reqBytes respBytes reqTable respTable lens)   lens = per frame (dir nbytes)
func c15Synth(c vsx) vsx {
	var bufs [2]bytes.Buffer
	var hbuf [2]bytes.Buffer
	var fr [2]*http2.Framer
	var enc [2]*hpack.Encoder
	var tables [2][]vsx
	for d := 0; d < 2; d++ {
		fr[d] = http2.NewFramer(&bufs[d], nil)
		fr[d].AllowIllegalWrites = true
		enc[d] = hpack.NewEncoder(&hbuf[d])
	}
	bufs[0].Write(c.l[1].b)
	var lens []vsx
	for _, f := range c.l[2].l {
		d := int(f.l[0].i)
		before := bufs[d].Len()
		var err error
		switch f.l[1].i {
		case 0:
			sid, es := uint32(f.l[2].i), f.l[3].i != 0
			hbuf[d].Reset()
			var fields []vsx
			for _, kv := range f.l[4].l {
				if err := enc[d].WriteField(hpack.HeaderField{Name: kv.l[0].str(), Value: kv.l[1].str()}); err != nil {
					panic(err)
				}
				fields = append(fields, vL(vB(kv.l[0].b), vB(kv.l[1].b)))
			}
			block := append([]byte(nil), hbuf[d].Bytes()...)
			tables[d] = append(tables[d], vL(vB(block), vL(fields...)))
			ncont := int(f.l[5].i)
			pad := int(f.l[6].i)
			// cut the block into ncont+1 fragments (some may be empty)
			cuts := make([]int, ncont+2)
			for i := 0; i <= ncont+1; i++ {
				cuts[i] = len(block) * i / (ncont + 1)
			}
			p := http2.HeadersFrameParam{StreamID: sid, BlockFragment: block[cuts[0]:cuts[1]], EndStream: es, EndHeaders: ncont == 0}
			if pad >= 0 {
				p.PadLength = uint8(pad)
			}
			if f.l[7].i != 0 {
				p.Priority = http2.PriorityParam{StreamDep: uint32(f.l[7].i), Weight: 7}
			}
			err = fr[d].WriteHeaders(p)
			for i := 1; i <= ncont && err == nil; i++ {
				err = fr[d].WriteContinuation(sid, i == ncont, block[cuts[i]:cuts[i+1]])
			}
		case 1:
			pad := int(f.l[5].i)
			if pad < 0 {
				err = fr[d].WriteData(uint32(f.l[2].i), f.l[3].i != 0, f.l[4].b)
			} else {
				err = fr[d].WriteDataPadded(uint32(f.l[2].i), f.l[3].i != 0, f.l[4].b, make([]byte, pad))
			}
		case 2:
			err = fr[d].WriteRSTStream(uint32(f.l[2].i), http2.ErrCode(f.l[3].i))
		case 3:
			err = fr[d].WriteGoAway(uint32(f.l[2].i), http2.ErrCode(f.l[3].i), f.l[4].b)
		case 4:
			var data [8]byte
			copy(data[:], f.l[3].b)
			err = fr[d].WritePing(f.l[2].i != 0, data)
		case 5:
			if f.l[2].i != 0 {
				err = fr[d].WriteSettingsAck()
			} else {
				var ss []http2.Setting
				for _, s := range f.l[3:] {
					ss = append(ss, http2.Setting{ID: http2.SettingID(s.l[0].i), Val: uint32(s.l[1].i)})
					if http2.SettingID(s.l[0].i) == http2.SettingHeaderTableSize {
						// the peer adopts the announced size: its encoder's next header block opens with a
						// dynamic table size update (RFC 7541 4.2) and uses the resized table from then on
						enc[1-d].SetMaxDynamicTableSizeLimit(uint32(s.l[1].i))
						enc[1-d].SetMaxDynamicTableSize(uint32(s.l[1].i))
					}
				}
				err = fr[d].WriteSettings(ss...)
			}
		case 6:
			err = fr[d].WriteWindowUpdate(uint32(f.l[2].i), uint32(f.l[3].i))
		case 7:
			err = fr[d].WriteRawFrame(http2.FrameType(f.l[2].i), http2.Flags(f.l[3].i), uint32(f.l[4].i), f.l[5].b)
		case 8, 9:
		default:
			panic("c15 synth: unknown frame kind")
		}
		if err != nil {
			panic(fmt.Sprintf("c15 synth: %v", err))
		}
		lens = append(lens, vL(vInt(d), vInt(bufs[d].Len()-before)))
	}
	return vL(c.l[0], vB(bufs[0].Bytes()), vB(bufs[1].Bytes()), vL(tables[0]...), vL(tables[1]...), vL(lens...))
}

func TestVerifC15Synth(t *testing.T) {
	in, out := os.Getenv("VERIF_CASES"), os.Getenv("VERIF_OUT")
	if in == "" || out == "" {
		t.Skip("VERIF_CASES / VERIF_OUT not set")
	}
	fin, err := os.Open(in)
	if err != nil {
		t.Fatal(err)
	}
	defer fin.Close()
	fout, err := os.Create(out)
	if err != nil {
		t.Fatal(err)
	}
	w := bufio.NewWriterSize(fout, 1<<20)
	sc := bufio.NewScanner(fin)
	sc.Buffer(make([]byte, 1<<20), 1<<30)
	var sb strings.Builder
	for sc.Scan() {
		line := sc.Text()
		if len(line) == 0 {
			continue
		}
		p := &vparser{s: line}
		res := c15Synth(p.item())
		sb.Reset()
		// printable form that core.parse_sx reads back (#hex atoms)
		res.print(&sb)
		sb.WriteByte('\n')
		w.WriteString(sb.String())
	}
	w.Flush()
	fout.Close()
}

// TestVerifConsts: how TracingHTTP2Conn configures its two HPACK decoders, on the client and on the server side
// (hpack.Decoder.dynTab.allowedMaxSize = the largest dynamic table size update the decoder accepts, .maxSize = the
// size it starts with), read off the constructed connection -> coq/theories/C15_Consts.v.
func TestVerifConsts(t *testing.T) {
	out := os.Getenv("VERIF_OUT")
	if out == "" {
		t.Skip("VERIF_OUT not set")
	}
	var allowed, initial []string
	for _, server := range []bool{false, true} {
		tc := TracingHTTP2Conn(&c15Inner{}, server, &c15Collector{}).(*tracingHTTP2Conn)
		for _, dec := range []*hpack.Decoder{tc.readTracer.decoder, tc.writeTracer.decoder} {
			a, m := "0", "0" // a missing decoder accepts nothing
			if dec != nil {
				tab := reflect.ValueOf(dec).Elem().FieldByName("dynTab")
				a = fmt.Sprint(tab.FieldByName("allowedMaxSize").Uint())
				m = fmt.Sprint(tab.FieldByName("maxSize").Uint())
			}
			allowed, initial = append(allowed, a), append(initial, m)
		}
	}
	body := fmt.Sprintf("(* client read, client write, server read, server write *)\n"+
		"Definition go_hpack_allowed : list N := [%s]%%N.\nDefinition go_hpack_initial : list N := [%s]%%N.\n",
		strings.Join(allowed, "; "), strings.Join(initial, "; "))
	if err := os.WriteFile(out, []byte(body), 0o644); err != nil {
		t.Fatal(err)
	}
}

// TestVerifC15Alloc: the hostile end-stream length (DESIGN.md section 9, #19).  Feeds a response
// DATA frame whose envelope announces 0xFFFFFFFF bytes and reports how much memory the tracer
// obtained from the OS for it.
func TestVerifC15Alloc(t *testing.T) {
	out := os.Getenv("VERIF_OUT")
	if out == "" {
		t.Skip("VERIF_OUT not set")
	}
	res := c15AllocProbe()
	if err := os.WriteFile(out, []byte(res+"\n"), 0o644); err != nil {
		t.Fatal(err)
	}
}

func c15AllocProbe() string {
	var reqB, respB, hb bytes.Buffer
	reqF, respF := http2.NewFramer(&reqB, nil), http2.NewFramer(&respB, nil)
	enc := hpack.NewEncoder(&hb)
	for _, kv := range [][2]string{{":method", "POST"}, {":scheme", "http"}, {":authority", "h"}, {":path", "/s/M"},
		{"content-type", "application/grpc"}, {"x-test-case-name", "alloc"}} {
		_ = enc.WriteField(hpack.HeaderField{Name: kv[0], Value: kv[1]})
	}
	reqB.WriteString(clientPreface)
	_ = reqF.WriteHeaders(http2.HeadersFrameParam{StreamID: 1, BlockFragment: append([]byte(nil), hb.Bytes()...), EndHeaders: true})
	hb.Reset()
	enc2 := hpack.NewEncoder(&hb)
	_ = enc2.WriteField(hpack.HeaderField{Name: ":status", Value: "200"})
	_ = enc2.WriteField(hpack.HeaderField{Name: "content-type", Value: "application/grpc"})
	_ = respF.WriteHeaders(http2.HeadersFrameParam{StreamID: 1, BlockFragment: append([]byte(nil), hb.Bytes()...), EndHeaders: true})
	_ = respF.WriteData(1, false, []byte{0x80, 0xFF, 0xFF, 0xFF, 0xFF, 0x00})
	inner := &c15Inner{}
	coll := &c15Collector{}
	conn := TracingHTTP2Conn(inner, false, coll)
	var before, after runtimeMemStats
	readMem(&before)
	inner.nextCount = reqB.Len()
	_, _ = conn.Write(reqB.Bytes())
	inner.nextRead = respB.Bytes()
	buf := make([]byte, respB.Len())
	_, _ = conn.Read(buf)
	readMem(&after)
	return fmt.Sprintf("total_alloc_delta=%d heap_sys_delta=%d", after.TotalAlloc-before.TotalAlloc, int64(after.HeapSys)-int64(before.HeapSys))
}
