//go:build verif

package connectconformance

// c05.load: which --test-file suite files take part in a run.
//   mode 0: the real testsuites.LoadTestSuitesFromFiles, then the real parseTestSuites,
//           on files written below a temp dir (a/suite.yaml, b/suite.yaml ...): the suites
//           loaded (name, number of cases), whatever key they are filed under.
//   mode 1: the real Run() with Flags.TestFiles and this test binary re-executed as
//           client and server: the test names the client was handed, and the total.

import (
	"fmt"
	"os"
	"path/filepath"
	"sort"
	"strings"
	"testing"
	"time"

	"connectrpc.com/conformance/internal"
	"connectrpc.com/conformance/internal/app/connectconformance/testsuites"
	conformancev1 "connectrpc.com/conformance/internal/gen/proto/go/connectrpc/conformance/v1"
	"google.golang.org/protobuf/encoding/protojson"
	"google.golang.org/protobuf/proto"
)

func init() {
	verifKinds["c05.load"] = verifC05Load
}

func verifC05Load(args []vsx) vsx {
	bad := vL(vS("bad-case"))
	if len(args) != 3 {
		return bad
	}
	mode := args[0].i
	dir, err := os.MkdirTemp("", "verif-c05l-")
	if err != nil {
		panic(err)
	}
	defer os.RemoveAll(dir)
	okRel := func(rel string) bool {
		if rel == "" || strings.HasPrefix(rel, "/") || strings.HasSuffix(rel, "/") {
			return false
		}
		for _, el := range strings.Split(rel, "/") {
			if el == "" || el == "." || el == ".." { // the model reads paths literally
				return false
			}
		}
		return true
	}
	onDisk := map[string]bool{}
	for _, f := range args[1].l {
		rel, suiteName, cases := f.l[0].str(), f.l[1].str(), f.l[2].strs()
		if !okRel(rel) || onDisk[rel] || suiteName == "" || strings.ContainsAny(suiteName, "/*") || len(cases) == 0 {
			return bad
		}
		for other := range onDisk { // a file cannot also be a directory
			if strings.HasPrefix(other, rel+"/") || strings.HasPrefix(rel, other+"/") {
				return bad
			}
		}
		onDisk[rel] = true
		suite := &conformancev1.TestSuite{
			Name:                 suiteName,
			RelevantProtocols:    []conformancev1.Protocol{conformancev1.Protocol_PROTOCOL_CONNECT},
			RelevantHttpVersions: []conformancev1.HTTPVersion{conformancev1.HTTPVersion_HTTP_VERSION_1},
			RelevantCodecs:       []conformancev1.Codec{conformancev1.Codec_CODEC_PROTO},
			RelevantCompressions: []conformancev1.Compression{conformancev1.Compression_COMPRESSION_IDENTITY},
		}
		seen := map[string]bool{}
		for _, c := range cases {
			if c == "" || seen[c] || strings.ContainsAny(c, "/*") {
				return bad
			}
			seen[c] = true
			suite.TestCases = append(suite.TestCases, &conformancev1.TestCase{
				Request: &conformancev1.ClientCompatRequest{
					TestName:   c,
					StreamType: conformancev1.StreamType_STREAM_TYPE_UNARY,
				},
				ExpectedResponse: &conformancev1.ClientResponseResult{},
			})
		}
		data, err := protojson.Marshal(suite)
		if err != nil {
			panic(err)
		}
		file := filepath.Join(dir, "d", filepath.FromSlash(rel))
		if err := os.MkdirAll(filepath.Dir(file), 0o700); err != nil {
			return bad
		}
		if err := os.WriteFile(file, data, 0o600); err != nil {
			return bad
		}
	}
	root := filepath.Join(dir, "d") + string(filepath.Separator)
	if err := os.MkdirAll(root, 0o700); err != nil {
		panic(err)
	}
	var paths []string
	for _, p := range args[2].strs() {
		if !okRel(p) {
			return bad
		}
		paths = append(paths, root+filepath.FromSlash(p))
	}

	if mode == 0 {
		data, err := testsuites.LoadTestSuitesFromFiles(paths)
		if err != nil {
			if strings.Contains(err.Error(), "not in YAML format") {
				return vErr("not-yaml")
			}
			return vErr("not-readable")
		}
		suites, err := parseTestSuites(data)
		if err != nil {
			return vErr("parse-error")
		}
		// the suites that were loaded, without the keys they are filed under
		type entry struct {
			name string
			n    int
		}
		entries := make([]entry, 0, len(suites))
		for _, suite := range suites {
			entries = append(entries, entry{suite.Name, len(suite.TestCases)})
		}
		sort.Slice(entries, func(i, j int) bool {
			if entries[i].name != entries[j].name {
				return entries[i].name < entries[j].name
			}
			return entries[i].n < entries[j].n
		})
		out := make([]vsx, 0, len(entries))
		for _, e := range entries {
			out = append(out, vL(vS(e.name), vInt(e.n)))
		}
		return vL(out...)
	}

	if len(paths) == 0 {
		return bad
	}
	config := &conformancev1.Config{Features: &conformancev1.Features{
		Versions:                    []conformancev1.HTTPVersion{conformancev1.HTTPVersion_HTTP_VERSION_1},
		Protocols:                   []conformancev1.Protocol{conformancev1.Protocol_PROTOCOL_CONNECT},
		Codecs:                      []conformancev1.Codec{conformancev1.Codec_CODEC_PROTO},
		Compressions:                []conformancev1.Compression{conformancev1.Compression_COMPRESSION_IDENTITY},
		StreamTypes:                 []conformancev1.StreamType{conformancev1.StreamType_STREAM_TYPE_UNARY},
		SupportsH2C:                 proto.Bool(false),
		SupportsTls:                 proto.Bool(false),
		SupportsConnectGet:          proto.Bool(false),
		SupportsMessageReceiveLimit: proto.Bool(false),
	}}
	cfgData, err := protojson.Marshal(config)
	if err != nil {
		panic(err)
	}
	cfgFile := filepath.Join(dir, "config.yaml")
	if err := os.WriteFile(cfgFile, cfgData, 0o600); err != nil {
		panic(err)
	}
	logFile := filepath.Join(dir, "client.log")
	child := func(role string) []string {
		return []string{os.Args[0], "-test.run=^TestVerifC05LoadChild$", "c05load:" + role, logFile}
	}
	var total = -1
	pr := c05LoadPrinter(func(line string) {
		var n int
		if k, _ := fmt.Sscanf(line, "Total cases: %d", &n); k == 1 {
			total = n
		}
	})
	_, err = Run(&Flags{
		ConfigFile:    cfgFile,
		TestFiles:     paths,
		ClientCommand: child("client"),
		ServerCommand: child("server"),
		MaxServers:    2,
		Parallelism:   1,
	}, pr, c05LoadPrinter(func(string) {}))
	if err != nil {
		return vErr("run-error")
	}
	logged, _ := os.ReadFile(logFile)
	var names []string
	for _, full := range strings.Split(string(logged), "\n") {
		if full == "" {
			continue
		}
		// <suite>/<axes the suite leaves open>/<case> -> <suite>/<case>
		i, j := strings.Index(full, "/"), strings.LastIndex(full, "/")
		if i < 0 {
			names = append(names, full)
			continue
		}
		names = append(names, full[:i]+full[j:])
	}
	sort.Strings(names)
	return vL(vInt(total), vStrs(names))
}

type c05LoadPrinter func(line string)

func (p c05LoadPrinter) Printf(msg string, args ...any) { p(fmt.Sprintf(msg, args...)) }
func (p c05LoadPrinter) PrefixPrintf(prefix, msg string, args ...any) {
	p(prefix + ": " + fmt.Sprintf(msg, args...))
}

// TestVerifC05LoadChild is the client / server process of c05.load mode 1.
func TestVerifC05LoadChild(t *testing.T) {
	var role, logFile string
	for i, a := range os.Args {
		if strings.HasPrefix(a, "c05load:") && i+1 < len(os.Args) {
			role, logFile = strings.TrimPrefix(a, "c05load:"), os.Args[i+1]
		}
	}
	switch role {
	case "":
		t.Skip("not a c05.load child")
	case "server":
		var req conformancev1.ServerCompatRequest
		if err := internal.ReadDelimitedMessage(os.Stdin, &req, "runner", time.Minute, 1<<20); err != nil {
			os.Exit(3)
		}
		if err := internal.WriteDelimitedMessage(os.Stdout, &conformancev1.ServerCompatResponse{Host: "127.0.0.1", Port: 9}); err != nil {
			os.Exit(3)
		}
		time.Sleep(time.Minute) // until the runner terminates it
		os.Exit(0)
	case "client":
		log, err := os.OpenFile(logFile, os.O_CREATE|os.O_WRONLY|os.O_APPEND, 0o600)
		if err != nil {
			os.Exit(3)
		}
		for {
			var req conformancev1.ClientCompatRequest
			if err := internal.ReadDelimitedMessage(os.Stdin, &req, "runner", time.Minute, 1<<20); err != nil {
				_ = log.Close()
				os.Exit(0) // end of input
			}
			if _, err := log.WriteString(req.TestName + "\n"); err != nil {
				os.Exit(3)
			}
			resp := &conformancev1.ClientCompatResponse{
				TestName: req.TestName,
				Result:   &conformancev1.ClientCompatResponse_Response{Response: &conformancev1.ClientResponseResult{}},
			}
			if err := internal.WriteDelimitedMessage(os.Stdout, resp); err != nil {
				os.Exit(3)
			}
		}
	}
	os.Exit(3)
}
