//go:build verif

package connectconformance

// C05 harness: drives the real run() with scripted peer PROCESSES (this test
// binary re-executed as TestVerifC05FakeServer / TestVerifC05FakeClient through
// flags.ServerCommand / flags.ClientCommand).  Every peer reports what it
// receives to a coordinator in the test process (unix socket) and waits for
// the coordinator's reply before it moves, so the coordinator's log is a
// logical clock over server starts/stops and over every request a client
// receives, and a case's script decides the schedule (no sleeps).

import (
	"bufio"
	"bytes"
	"context"
	"crypto/tls"
	"encoding/hex"
	"errors"
	"fmt"
	"io"
	"net"
	"net/http"
	"os"
	"os/signal"
	"path/filepath"
	"regexp"
	"sort"
	"strconv"
	"strings"
	"sync"
	"syscall"
	"testing"
	"time"

	"connectrpc.com/conformance/internal"
	conformancev1 "connectrpc.com/conformance/internal/gen/proto/go/connectrpc/conformance/v1"
	"golang.org/x/net/http2"
	"golang.org/x/net/http2/h2c"
	"google.golang.org/protobuf/proto"
	"google.golang.org/protobuf/types/known/anypb"
)

func init() {
	verifKinds["c05.run"] = verifC05Run
	verifKinds["c05.complete"] = verifC05Complete
}

const (
	c05EnvCtrl  = "VERIF_C05_CTRL"
	c05EnvEpoch = "VERIF_C05_EPOCH"
	// generous: run() generates RSA keys for TLS instances before the first batch, which under a
	// loaded machine has been seen to take more than 6 s (one false alarm, not reproducible)
	c05Deadline = 15 * time.Second
	// detail 3: the holding client answers once no request has arrived for this long
	c05HoldIdle = 400 * time.Millisecond
)

// ---------------------------------------------------------------------------
// the peers (child processes)
// ---------------------------------------------------------------------------

type c05Link struct {
	mu   sync.Mutex
	conn net.Conn
	r    *bufio.Reader
}

func c05Dial() *c05Link {
	conn, err := net.Dial("unix", os.Getenv(c05EnvCtrl))
	if err != nil {
		os.Exit(3)
	}
	return &c05Link{conn: conn, r: bufio.NewReaderSize(conn, 1<<16)}
}

func (l *c05Link) send(line string) {
	if _, err := io.WriteString(l.conn, line+"\n"); err != nil {
		os.Exit(3)
	}
}

func (l *c05Link) recv() string {
	line, err := l.r.ReadString('\n')
	if err != nil {
		os.Exit(3) // coordinator gone: the case is over
	}
	return strings.TrimSuffix(line, "\n")
}

// call = send + wait for the one-line reply, atomically
func (l *c05Link) call(line string) string {
	l.mu.Lock()
	defer l.mu.Unlock()
	l.send(line)
	return l.recv()
}

// TestVerifC05FakeServer is the server under test of a scripted run.
func TestVerifC05FakeServer(t *testing.T) {
	if os.Getenv(c05EnvCtrl) == "" {
		t.Skip("not a peer process")
	}
	term := make(chan os.Signal, 4)
	signal.Notify(term, syscall.SIGTERM, syscall.SIGINT)
	var req conformancev1.ServerCompatRequest
	if err := internal.ReadDelimitedMessage(os.Stdin, &req, "runner", time.Minute, 1<<22); err != nil {
		os.Exit(4)
	}
	link := c05Dial()
	reply := link.call(fmt.Sprintf("S %s %d %d %d %d %d", os.Getenv(c05EnvEpoch), req.Protocol, req.HttpVersion,
		c05b(req.UseTls), c05b(req.ServerCreds != nil), c05b(len(req.ClientTlsCert) > 0)))
	fields := strings.Fields(reply)
	bye := func(code int) {
		link.call("X")
		os.Exit(code)
	}
	switch fields[0] {
	case "ok":
		host, _ := hex.DecodeString(fields[1])
		port, _ := strconv.ParseUint(fields[2], 10, 32)
		cert, _ := hex.DecodeString(fields[3])
		resp := &conformancev1.ServerCompatResponse{Host: string(host), Port: uint32(port), PemCert: cert}
		if err := internal.WriteDelimitedMessage(os.Stdout, resp); err != nil {
			bye(5)
		}
	case "listen":
		lis, err := net.Listen("tcp", "127.0.0.1:0")
		if err != nil {
			bye(6)
		}
		handler := http.HandlerFunc(func(w http.ResponseWriter, r *http.Request) {
			_, _ = io.Copy(io.Discard, r.Body)
			if os.Getenv("VERIF_DEBUG") != "" {
				fmt.Fprintf(os.Stderr, "c05 server: hit %s %q\n", r.Proto, r.Header.Get("x-test-case-name"))
			}
			// the runner appends its header after whatever the test case itself carries
			nameVals := r.Header.Values("x-test-case-name")
			lastName := "?"
			if len(nameVals) > 0 {
				lastName = nameVals[len(nameVals)-1]
			}
			link.call(fmt.Sprintf("H %s %d %d %d", hex.EncodeToString([]byte(lastName)),
				r.ProtoMajor, c05b(r.TLS != nil), c05b(r.Header.Get("x-expect-protocol") != "")))
			w.WriteHeader(http.StatusTeapot)
		})
		srv := &http.Server{Handler: h2c.NewHandler(handler, &http2.Server{}), ReadHeaderTimeout: time.Minute}
		resp := &conformancev1.ServerCompatResponse{Host: "127.0.0.1", Port: uint32(lis.Addr().(*net.TCPAddr).Port)}
		if req.UseTls {
			pair, err := tls.X509KeyPair(req.ServerCreds.GetCert(), req.ServerCreds.GetKey())
			if err != nil {
				bye(7)
			}
			srv.Handler = handler
			srv.TLSConfig = &tls.Config{Certificates: []tls.Certificate{pair}, NextProtos: []string{"h2", "http/1.1"}, MinVersion: tls.VersionTLS12}
			lis = tls.NewListener(lis, srv.TLSConfig)
			resp.PemCert = req.ServerCreds.GetCert()
		}
		go func() { _ = srv.Serve(lis) }()
		if err := internal.WriteDelimitedMessage(os.Stdout, resp); err != nil {
			bye(5)
		}
	default: // "fail": leave without a response
		bye(1)
	}
	<-term
	bye(0)
}

// TestVerifC05FakeClient is the client under test of a scripted run.
func TestVerifC05FakeClient(t *testing.T) {
	if os.Getenv(c05EnvCtrl) == "" {
		t.Skip("not a peer process")
	}
	link := c05Dial()
	mode := link.call("C " + os.Getenv(c05EnvEpoch)) // "plain" or "dial"
	var outMu sync.Mutex
	// coordinator -> "ans <hexname>" lines, any time
	answers := make(chan string, 1024)
	acks := make(chan string, 16)
	go func() {
		for {
			line := link.recv()
			if strings.HasPrefix(line, "ans ") {
				answers <- strings.TrimPrefix(line, "ans ")
			} else {
				acks <- line
			}
		}
	}()
	go func() {
		for hexName := range answers {
			name, _ := hex.DecodeString(hexName)
			resp := &conformancev1.ClientCompatResponse{
				TestName: string(name),
				Result:   &conformancev1.ClientCompatResponse_Error{Error: &conformancev1.ClientErrorResult{Message: "scripted"}},
			}
			outMu.Lock()
			err := internal.WriteDelimitedMessage(os.Stdout, resp)
			outMu.Unlock()
			if err != nil {
				os.Exit(5)
			}
		}
	}()
	var seenAddrs []string
	for {
		var req conformancev1.ClientCompatRequest
		err := internal.ReadDelimitedMessage(os.Stdin, &req, "runner", 2*time.Minute, 1<<24)
		if err != nil {
			break
		}
		alive, aliveAll := 0, 0
		if mode == "dial" {
			// the in-process servers do not report to the coordinator: a server is alive as long as
			// something accepts connections at the address the runner gave out for it.  Every address
			// seen so far is tried at every request, so servers of different batches (and of the two
			// server kinds, reference and grpc-go) alive at the same moment are counted together.
			addr := net.JoinHostPort(req.Host, strconv.Itoa(int(req.Port)))
			known := false
			for _, a := range seenAddrs {
				known = known || a == addr
			}
			if !known {
				seenAddrs = append(seenAddrs, addr)
			}
			for _, a := range seenAddrs {
				conn, err := net.DialTimeout("tcp", a, 5*time.Second)
				if err == nil {
					aliveAll++
					if a == addr {
						alive = 1
					}
					_ = conn.Close()
				}
			}
		}
		data, _ := proto.Marshal(&req)
		link.send(fmt.Sprintf("R %d %s %d", alive, hex.EncodeToString(data), aliveAll))
	}
	link.send("E")
	<-acks
	os.Exit(0)
}

func c05b(b bool) int {
	if b {
		return 1
	}
	return 0
}

// ---------------------------------------------------------------------------
// the coordinator (test process)
// ---------------------------------------------------------------------------

type c05Key [4]int // protocol, http version, tls, client certs

type c05Decision struct {
	ok   bool
	host string
	port uint32
	cert []byte
}

type c05Server struct {
	key      c05Key
	conn     net.Conn
	state    int // 0 held, 1 serving, 2 told to fail, 3 stopped
	dec      c05Decision
	recv     int
	answered int
	listen   bool
}

type c05Send struct {
	name string
	key  c05Key
	ok   bool
	req  *conformancev1.ClientCompatRequest
	sref bool
}

type c05Pending struct {
	srv *c05Server
}

type c05Coord struct {
	mu   sync.Mutex
	cond *sync.Cond

	epoch     string
	detail    int
	auto      bool
	decisions map[c05Key]c05Decision
	maxSrv    int

	servers     []*c05Server
	client      net.Conn
	outstanding map[string]*c05Pending
	recvOrder   []string
	sends       []c05Send
	spawned     int
	stopped     int
	alive       int
	maxAlive    int
	startOrder  []c05Key
	acquired    int
	nByKey      map[c05Key]int
	total       int
	clientEOF   bool
	hold        bool      // detail 3: answers are held back while requests keep arriving
	lastRecv    time.Time // detail 2/3: arrival of the latest request
	finished    bool
	stuck       bool
	protoErr    string
}

var (
	c05Once       sync.Once
	c05Listener   net.Listener
	c05Cur        *c05Coord
	c05CurMu      sync.Mutex
	c05EpochNo    int
	c05StuckCount int
)

func c05Setup() {
	c05Once.Do(func() {
		dir, err := os.MkdirTemp("", "verif-c05-")
		if err != nil {
			panic(err)
		}
		path := filepath.Join(dir, "ctrl.sock")
		lis, err := net.Listen("unix", path)
		if err != nil {
			panic(err)
		}
		c05Listener = lis
		os.Setenv(c05EnvCtrl, path)
		go func() {
			for {
				conn, err := lis.Accept()
				if err != nil {
					return
				}
				go c05Serve(conn)
			}
		}()
	})
}

func c05Serve(conn net.Conn) {
	r := bufio.NewReaderSize(conn, 1<<16)
	first, err := r.ReadString('\n')
	if err != nil {
		conn.Close()
		return
	}
	f := strings.Fields(first)
	c05CurMu.Lock()
	co := c05Cur
	c05CurMu.Unlock()
	if co == nil || len(f) < 2 || f[1] != co.epoch {
		conn.Close() // a straggler of an earlier case
		return
	}
	switch f[0] {
	case "S":
		co.serveServer(conn, r, f)
	case "C":
		co.serveClient(conn, r)
	default:
		conn.Close()
	}
}

func (co *c05Coord) write(conn net.Conn, line string) {
	_, _ = io.WriteString(conn, line+"\n")
}

func (co *c05Coord) serveServer(conn net.Conn, r *bufio.Reader, f []string) {
	var key c05Key
	n := make([]int, 5)
	for i := 0; i < 5 && i+2 < len(f); i++ {
		n[i], _ = strconv.Atoi(f[i+2])
	}
	key = c05Key{n[0], n[1], n[2], n[4]}
	srv := &c05Server{key: key, conn: conn}
	co.mu.Lock()
	if n[2] != n[3] { // server creds must be present iff TLS
		co.protoErr = "server-creds-mismatch"
	}
	co.servers = append(co.servers, srv)
	co.spawned++
	co.alive++
	if co.alive > co.maxAlive {
		co.maxAlive = co.alive
	}
	co.startOrder = append(co.startOrder, key)
	if co.auto {
		co.decideLocked(srv)
	}
	co.cond.Broadcast()
	co.mu.Unlock()
	for {
		line, err := r.ReadString('\n')
		if err != nil {
			// connection lost without "X": count it as stopped so that nothing hangs
			co.mu.Lock()
			if srv.state != 3 {
				srv.state = 3
				co.stopped++
				co.alive--
				co.cond.Broadcast()
			}
			co.mu.Unlock()
			return
		}
		g := strings.Fields(line)
		switch g[0] {
		case "X":
			co.mu.Lock()
			if srv.state == 2 && srv.dec.ok && !co.finished {
				// A server the runner rejected (TLS without certificate) that is slow to die: it stays alive
				// until the runner visibly moves on (a further server is spawned: only possible if the
				// permit was released before this process ended) or a grace period has passed.
				seen := co.spawned
				grace := time.AfterFunc(300*time.Millisecond, func() { co.mu.Lock(); co.cond.Broadcast(); co.mu.Unlock() })
				until := time.Now().Add(300 * time.Millisecond)
				for co.spawned == seen && time.Now().Before(until) && !co.finished {
					co.cond.Wait()
				}
				grace.Stop()
			}
			if srv.state != 3 {
				srv.state = 3
				co.stopped++
				co.alive--
			}
			co.cond.Broadcast()
			co.mu.Unlock()
			co.write(conn, "ack")
		case "H":
			name, _ := hex.DecodeString(g[1])
			major, _ := strconv.Atoi(g[2])
			isTLS := g[3] == "1"
			sref := g[4] == "1"
			co.mu.Lock()
			ok := srv.state == 1 && isTLS == (key[2] == 1) && ((key[1] == 1 && major == 1) || (key[1] == 2 && major == 2))
			co.sends = append(co.sends, c05Send{name: string(name), key: key, ok: ok, sref: sref})
			srv.recv++
			co.cond.Broadcast()
			co.mu.Unlock()
			co.write(conn, "ack")
		}
	}
}

// decideLocked lets a held server act as the case's decisions say.
func (co *c05Coord) decideLocked(srv *c05Server) {
	if srv.state != 0 {
		return
	}
	dec, found := co.decisions[srv.key]
	switch {
	case found && dec.ok && co.detail == 1:
		srv.state = 1
		srv.listen = true
		co.write(srv.conn, "listen")
	case found && dec.ok:
		srv.dec = dec
		if srv.key[2] == 1 && len(dec.cert) == 0 {
			srv.state = 2 // the runner will reject it: TLS without a certificate
		} else {
			srv.state = 1
		}
		co.write(srv.conn, fmt.Sprintf("ok %s %d %s", c05Hex([]byte(dec.host)), dec.port, c05Hex(dec.cert)))
	default:
		srv.state = 2
		co.write(srv.conn, "fail")
	}
}

func c05Hex(b []byte) string {
	if len(b) == 0 {
		return "-"
	}
	return hex.EncodeToString(b)
}

func (co *c05Coord) serveClient(conn net.Conn, r *bufio.Reader) {
	co.mu.Lock()
	co.client = conn
	co.clientEOF = false
	co.mu.Unlock()
	if co.detail == 2 {
		co.write(conn, "dial")
	} else {
		co.write(conn, "plain")
	}
	for {
		line, err := r.ReadString('\n')
		if err != nil {
			return
		}
		g := strings.Fields(line)
		switch g[0] {
		case "E":
			co.mu.Lock()
			co.clientEOF = true
			co.cond.Broadcast()
			co.mu.Unlock()
			co.write(conn, "ack")
		case "R":
			data, _ := hex.DecodeString(g[2])
			req := &conformancev1.ClientCompatRequest{}
			if err := proto.Unmarshal(data, req); err != nil {
				continue
			}
			co.mu.Lock()
			send := c05Send{name: req.TestName, req: req}
			wantKey := c05Key{int(req.Protocol), int(req.HttpVersion), c05b(len(req.ServerTlsCert) > 0), c05b(req.ClientTlsCreds != nil)}
			var target *c05Server
			if co.detail == 2 {
				// the servers are the in-process reference servers: all we can see is that something
				// listens at the address, and which kind of server the expectation headers announce
				send.key = wantKey
				send.ok = g[1] == "1"
				if len(g) > 3 {
					if n, err := strconv.Atoi(g[3]); err == nil && n > co.maxAlive {
						co.maxAlive = n
					}
				}
				co.lastRecv = time.Now()
				for _, h := range req.RequestHeaders {
					if h.Name == "x-expect-protocol" {
						send.sref = true
					}
				}
			} else {
				for _, srv := range co.servers {
					host := srv.dec.host
					if host == "" {
						host = internal.DefaultHost
					}
					if srv.state == 1 && srv.dec.port == req.Port && host == req.Host && bytes.Equal(srv.dec.cert, req.ServerTlsCert) {
						target = srv
					}
				}
				if target != nil {
					send.key = target.key
					send.ok = target.key[0] == wantKey[0] && target.key[1] == wantKey[1] && target.key[3] == wantKey[3]
					target.recv++
				} else {
					send.key = wantKey
				}
			}
			co.sends = append(co.sends, send)
			if _, dup := co.outstanding[req.TestName]; dup {
				co.protoErr = "duplicate-name-at-client"
			}
			co.outstanding[req.TestName] = &c05Pending{srv: target}
			co.recvOrder = append(co.recvOrder, req.TestName)
			if co.auto {
				co.answerLocked(req.TestName)
			}
			co.cond.Broadcast()
			co.mu.Unlock()
		}
	}
}

func (co *c05Coord) answerLocked(name string) bool {
	p, ok := co.outstanding[name]
	if !ok || co.client == nil {
		return false
	}
	delete(co.outstanding, name)
	if p.srv != nil {
		p.srv.answered++
	}
	co.write(co.client, "ans "+hex.EncodeToString([]byte(name)))
	return true
}

// goAuto: from now on every held server and every request is released at once.
func (co *c05Coord) goAutoLocked() {
	co.auto = true
	for _, srv := range co.servers {
		co.decideLocked(srv)
	}
	names := append([]string(nil), co.recvOrder...)
	for _, n := range names {
		co.answerLocked(n)
	}
}

// quiescentLocked: nothing in the runner can move before a peer does.
func (co *c05Coord) quiescentLocked() bool {
	if co.finished {
		return true
	}
	if co.total < 0 || co.spawned != co.acquired {
		return false
	}
	for _, srv := range co.servers {
		switch srv.state {
		case 1:
			n, known := co.nByKey[srv.key]
			if !known || srv.recv != n {
				return false
			}
			if srv.answered == n {
				return false // all answered: it is about to be stopped
			}
		case 2:
			return false // about to exit
		}
	}
	return co.acquired == co.total || co.acquired-co.stopped == co.maxSrv
}

func (co *c05Coord) waitQuiescent() {
	co.mu.Lock()
	defer co.mu.Unlock()
	if co.stuck {
		return
	}
	deadline := time.Now().Add(c05Deadline)
	timer := time.AfterFunc(c05Deadline, func() { co.mu.Lock(); co.cond.Broadcast(); co.mu.Unlock() })
	defer timer.Stop()
	for !co.quiescentLocked() {
		// more servers than permits, or more batches than announced: no point in waiting
		broken := co.alive > co.maxSrv || co.acquired-co.stopped > co.maxSrv || (co.total >= 0 && co.acquired > co.total)
		if broken || time.Now().After(deadline) {
			co.stuck = true
			co.goAutoLocked()
			return
		}
		co.cond.Wait()
	}
}

var (
	c05RunningRe = regexp.MustCompile(`^Running (\d+) tests with .* for server config \{HTTP_VERSION_(\d), PROTOCOL_(\w+), TLS:(.*)\}\.\.\.$`)
	c05AcrossRe  = regexp.MustCompile(`test case permutation\(s\) across (\d+) server configuration\(s\)`)
)

// c05Printer is the runner's log: "Running N tests ..." announces a batch (after its
// semaphore acquire, before its goroutine) and tells how many requests it will send.
type c05Printer struct{ co *c05Coord }

func (p c05Printer) Printf(msg string, args ...any) {
	line := fmt.Sprintf(msg, args...)
	co := p.co
	if m := c05RunningRe.FindStringSubmatch(line); m != nil {
		n, _ := strconv.Atoi(m[1])
		ver, _ := strconv.Atoi(m[2])
		protoNo := map[string]int{"CONNECT": 1, "GRPC": 2, "GRPC_WEB": 3}[m[3]]
		key := c05Key{protoNo, ver, 0, 0}
		switch m[4] {
		case "true":
			key[2] = 1
		case "true (with client certs)":
			key[2], key[3] = 1, 1
		}
		co.mu.Lock()
		co.acquired++
		co.nByKey[key] = n
		co.cond.Broadcast()
		co.mu.Unlock()
	} else if m := c05AcrossRe.FindStringSubmatch(line); m != nil {
		n, _ := strconv.Atoi(m[1])
		co.mu.Lock()
		co.total = n
		co.cond.Broadcast()
		co.mu.Unlock()
	}
}

func (p c05Printer) PrefixPrintf(_, _ string, _ ...any) {}

// ---------------------------------------------------------------------------
// case -> suites, flags
// ---------------------------------------------------------------------------

func c05Headers(v vsx) []*conformancev1.Header {
	var out []*conformancev1.Header
	for _, h := range v.l {
		out = append(out, &conformancev1.Header{Name: h.l[0].str(), Value: h.l[1].strs()})
	}
	return out
}

// (name mode proto ver codec comp tls certs (templates)), template = (simple rawreq? (rawheaders) rawresp? get? (headers))
func c05Suites(v vsx) (map[string]*conformancev1.TestSuite, []configCase) {
	suites := map[string]*conformancev1.TestSuite{}
	var cfg []configCase
	for i, s := range v.l {
		suite := &conformancev1.TestSuite{
			Name:                   s.l[0].str(),
			Mode:                   conformancev1.TestSuite_TestMode(s.l[1].i),
			RelevantProtocols:      []conformancev1.Protocol{conformancev1.Protocol(s.l[2].i)},
			RelevantHttpVersions:   []conformancev1.HTTPVersion{conformancev1.HTTPVersion(s.l[3].i)},
			RelevantCodecs:         []conformancev1.Codec{conformancev1.Codec(s.l[4].i)},
			RelevantCompressions:   []conformancev1.Compression{conformancev1.Compression(s.l[5].i)},
			ReliesOnTls:            s.l[6].boolean(),
			ReliesOnTlsClientCerts: s.l[6].boolean() && s.l[7].boolean(),
		}
		for _, t := range s.l[8].l {
			req := &conformancev1.ClientCompatRequest{
				TestName:         t.l[0].str(),
				StreamType:       conformancev1.StreamType_STREAM_TYPE_UNARY,
				UseGetHttpMethod: t.l[4].boolean(),
				RequestHeaders:   c05Headers(t.l[5]),
			}
			if t.l[1].boolean() {
				req.RawRequest = &conformancev1.RawHTTPRequest{Verb: "POST", Uri: "/raw", Headers: c05Headers(t.l[2])}
			}
			unary := &conformancev1.UnaryRequest{}
			if t.l[3].boolean() {
				unary.ResponseDefinition = &conformancev1.UnaryResponseDefinition{
					RawResponse: &conformancev1.RawHTTPResponse{StatusCode: 200},
				}
			}
			msg, err := anypb.New(unary)
			if err != nil {
				panic(err)
			}
			req.RequestMessages = []*anypb.Any{msg}
			suite.TestCases = append(suite.TestCases, &conformancev1.TestCase{
				Request:          req,
				ExpectedResponse: &conformancev1.ClientResponseResult{},
			})
		}
		suites[fmt.Sprintf("s%03d.yaml", i)] = suite
		cfg = append(cfg, configCase{
			Version:           conformancev1.HTTPVersion(s.l[3].i),
			Protocol:          conformancev1.Protocol(s.l[2].i),
			Codec:             conformancev1.Codec(s.l[4].i),
			Compression:       conformancev1.Compression(s.l[5].i),
			StreamType:        conformancev1.StreamType_STREAM_TYPE_UNARY,
			UseTLS:            s.l[6].boolean(),
			UseTLSClientCerts: s.l[6].boolean() && s.l[7].boolean(),
		})
	}
	return suites, cfg
}

func c05KeyOf(v vsx) c05Key {
	return c05Key{int(v.l[0].i), int(v.l[1].i), int(v.l[2].i), int(v.l[3].i)}
}

func c05KeySx(k c05Key) vsx { return vL(vInt(k[0]), vInt(k[1]), vInt(k[2]), vInt(k[3])) }

func c05HeadersSx(hs []*conformancev1.Header) vsx {
	out := make([]vsx, len(hs))
	for i, h := range hs {
		out[i] = vL(vS(h.Name), vStrs(h.Value))
	}
	return vL(out...)
}

func c05SortKeys(ks []c05Key) []vsx {
	sort.Slice(ks, func(i, j int) bool {
		for x := 0; x < 4; x++ {
			if ks[i][x] != ks[j][x] {
				return ks[i][x] < ks[j][x]
			}
		}
		return false
	})
	out := make([]vsx, len(ks))
	for i, k := range ks {
		out[i] = c05KeySx(k)
	}
	return out
}

func (co *c05Coord) snapshot() vsx {
	co.mu.Lock()
	defer co.mu.Unlock()
	var held, up []c05Key
	for _, srv := range co.servers {
		switch srv.state {
		case 0:
			held = append(held, srv.key)
		case 1:
			up = append(up, srv.key)
		}
	}
	names := make([]string, 0, len(co.outstanding))
	for n := range co.outstanding {
		names = append(names, n)
	}
	sort.Strings(names)
	return vL(vL(c05SortKeys(held)...), vL(c05SortKeys(up)...), vStrs(names))
}

// (detail lockstep verbose maxservers missing (run) (skip) (suites) (decisions) (script))
func verifC05Run(args []vsx) vsx {
	if len(args) != 10 || args[3].i < 1 || args[3].i > 64 || args[0].i < 0 || args[0].i > 3 {
		return vL(vS("bad-case"))
	}
	if args[0].i == 3 && args[1].boolean() {
		return vL(vS("bad-case")) // the holding client has no script
	}
	if c05StuckCount >= 3 {
		return vErr("skipped-after-three-stuck-runs")
	}
	for _, d := range args[8].l {
		if len(d.l) != 5 || len(d.l[0].l) != 4 {
			return vL(vS("bad-case"))
		}
		if d.l[3].i <= 0 || d.l[3].i > 65535 {
			// an all-default ServerCompatResponse is an empty message: reading it is C09/C11's business
			return vL(vS("bad-case"))
		}
	}
	for _, su := range args[7].l {
		// enum values outside the defined range make ill-formed suites (the shrinker produces them)
		if len(su.l) != 9 || su.l[2].i < 1 || su.l[2].i > 3 || su.l[3].i < 1 || su.l[3].i > 3 ||
			su.l[4].i < 1 || su.l[4].i > 2 || su.l[5].i < 1 || su.l[5].i > 6 || su.l[1].i < 0 || su.l[1].i > 2 {
			return vL(vS("bad-case"))
		}
		for _, t := range su.l[8].l {
			if len(t.l) != 6 || len(t.l[0].b) == 0 {
				return vL(vS("bad-case"))
			}
		}
	}
	for _, mv := range args[9].l {
		if len(mv.l) != 2 || (mv.l[0].i == 0 && len(mv.l[1].l) != 4) {
			return vL(vS("bad-case"))
		}
	}
	c05Setup()
	detail := int(args[0].i)
	hold := detail == 3
	if hold {
		detail = 2
	}
	lockstep, verbose := args[1].boolean(), args[2].boolean()
	maxServers := int(args[3].i)
	missing := args[4].boolean()
	runP, skipP := args[5].strs(), args[6].strs()
	suites, cfg := c05Suites(args[7])

	c05EpochNo++
	co := &c05Coord{
		epoch:       strconv.Itoa(c05EpochNo),
		detail:      detail,
		auto:        !lockstep && !hold,
		hold:        hold,
		decisions:   map[c05Key]c05Decision{},
		maxSrv:      maxServers,
		outstanding: map[string]*c05Pending{},
		nByKey:      map[c05Key]int{},
		total:       -1,
	}
	co.cond = sync.NewCond(&co.mu)
	for _, d := range args[8].l {
		co.decisions[c05KeyOf(d.l[0])] = c05Decision{ok: d.l[1].boolean(), host: d.l[2].str(), port: uint32(d.l[3].i), cert: d.l[4].b}
	}
	c05CurMu.Lock()
	c05Cur = co
	c05CurMu.Unlock()
	os.Setenv(c05EnvEpoch, co.epoch)

	self, err := os.Executable()
	if err != nil {
		panic(err)
	}
	flags := &Flags{Verbose: verbose, MaxServers: uint(maxServers), Parallelism: 8, ServerBind: "127.0.0.1"}
	if detail != 2 {
		flags.ServerCommand = []string{self, "-test.run=^TestVerifC05FakeServer$", "-test.timeout=300s"}
		if missing {
			flags.ServerCommand = []string{"/nonexistent/verif-c05-server"}
		}
	}
	if detail != 1 {
		flags.ClientCommand = []string{self, "-test.run=^TestVerifC05FakeClient$", "-test.timeout=300s"}
	}
	empty := func(t *testTrie) *testTrie {
		if t == nil {
			return &testTrie{}
		}
		return t
	}
	type runResult struct {
		res *testResults
		err error
	}
	done := make(chan runResult, 1)
	go func() {
		defer func() {
			if r := recover(); r != nil {
				done <- runResult{nil, fmt.Errorf("panic: %v", r)}
			}
		}()
		pr := c05Printer{co}
		res, err := run(cfg, empty(nil), empty(nil), parsePatterns(runP), parsePatterns(skipP), suites, pr, pr, flags)
		co.mu.Lock()
		co.finished = true
		co.cond.Broadcast()
		co.mu.Unlock()
		done <- runResult{res, err}
	}()

	if hold {
		// The client keeps every answer back until no request has arrived for c05HoldIdle: the runner
		// then has every batch open that its semaphore admits, and the client counts the servers alive
		// at that moment.  Too short an idle time only makes batches overlap less (nothing is
		// reported that did not happen).
		go func() {
			for {
				time.Sleep(c05HoldIdle / 6)
				co.mu.Lock()
				if co.finished {
					co.mu.Unlock()
					return
				}
				if len(co.outstanding) > 0 && time.Since(co.lastRecv) > c05HoldIdle {
					names := append([]string(nil), co.recvOrder...)
					for _, n := range names {
						co.answerLocked(n)
					}
				}
				co.mu.Unlock()
			}
		}()
	}
	var snaps []vsx
	if lockstep {
		co.waitQuiescent()
		snaps = append(snaps, co.snapshot())
		for _, mv := range args[9].l {
			co.mu.Lock()
			switch mv.l[0].i {
			case 0:
				key := c05KeyOf(mv.l[1])
				for _, srv := range co.servers {
					if srv.state == 0 && srv.key == key {
						co.decideLocked(srv)
						break
					}
				}
			case 1:
				co.answerLocked(mv.l[1].str())
			}
			co.mu.Unlock()
			co.waitQuiescent()
			snaps = append(snaps, co.snapshot())
		}
		co.mu.Lock()
		co.goAutoLocked()
		co.mu.Unlock()
	}

	var rr runResult
	timedOut := false
	select {
	case rr = <-done:
	case <-time.After(3 * c05Deadline):
		timedOut = true
	}
	if timedOut || co.stuck {
		c05StuckCount++
	}
	c05CurMu.Lock()
	c05Cur = nil
	c05CurMu.Unlock()
	co.mu.Lock()
	defer co.mu.Unlock()
	for _, srv := range co.servers {
		_ = srv.conn.Close()
	}
	if co.client != nil {
		_ = co.client.Close()
	}
	if timedOut {
		return vErr("run-did-not-return")
	}
	if rr.res == nil {
		switch {
		case rr.err != nil && strings.Contains(rr.err.Error(), "no test cases apply"):
			return vL(vS("no-cases"))
		case rr.err != nil && strings.Contains(rr.err.Error(), "unmatched and possibly invalid patterns"):
			return vL(vS("unmatched"))
		default:
			return vL(vS("bad-case"), vS(fmt.Sprint(rr.err)))
		}
	}
	bad := rr.err != nil || co.stuck || co.protoErr != ""
	if os.Getenv("VERIF_DEBUG") != "" && bad {
		fmt.Fprintf(os.Stderr, "c05: err=%v stuck=%v proto=%q acquired=%d total=%d spawned=%d stopped=%d\n",
			rr.err, co.stuck, co.protoErr, co.acquired, co.total, co.spawned, co.stopped)
	}

	sort.SliceStable(co.sends, func(i, j int) bool { return co.sends[i].name < co.sends[j].name })
	sends := make([]vsx, len(co.sends))
	for i, s := range co.sends {
		item := []vsx{vS(s.name), c05KeySx(s.key), vBool(s.ok)}
		switch detail {
		case 0:
			raw := vL()
			if s.req.RawRequest != nil {
				raw = vL(c05HeadersSx(s.req.RawRequest.Headers))
			}
			item = append(item, vS(s.req.Host), vI(int64(s.req.Port)), vB(s.req.ServerTlsCert), vBool(s.req.ClientTlsCreds != nil),
				c05HeadersSx(s.req.RequestHeaders), raw)
		case 2:
			item = append(item, vBool(s.sref))
		}
		sends[i] = vL(item...)
	}
	summary := vL(vBool(co.maxAlive <= maxServers))
	if detail != 2 {
		first := vBool(co.maxAlive <= maxServers)
		if lockstep {
			first = vInt(co.maxAlive)
		}
		summary = vL(first, vInt(co.spawned), vInt(co.stopped), vInt(co.alive))
	}
	rr.res.mu.Lock()
	names := make([]string, 0, len(rr.res.outcomes))
	for n := range rr.res.outcomes {
		names = append(names, n)
	}
	sort.Strings(names)
	outcomes := make([]vsx, len(names))
	for i, n := range names {
		outcomes[i] = vL(vS(n), vBool(rr.res.outcomes[n].setupError))
	}
	rr.res.mu.Unlock()
	order := vL()
	if lockstep && verbose {
		ks := make([]vsx, len(co.startOrder))
		for i, k := range co.startOrder {
			ks[i] = c05KeySx(k)
		}
		// servers of one burst start concurrently: only the order between bursts is fixed, so the
		// start order is compared when one server runs at a time
		if maxServers == 1 {
			order = vL(ks...)
		}
	}
	return vL(vBool(bad), vL(snaps...), vL(sends...), summary, vL(outcomes...), order)
}

// ---------------------------------------------------------------------------
// c05.complete: one batch through runTestCasesForServer, scripted server response,
// a client that records what it is handed
// ---------------------------------------------------------------------------

type c05LogClient struct {
	mu   sync.Mutex
	reqs []*conformancev1.ClientCompatRequest
}

func (c *c05LogClient) sendRequest(req *conformancev1.ClientCompatRequest, whenDone func(string, *conformancev1.ClientCompatResponse, error)) error {
	c.mu.Lock()
	c.reqs = append(c.reqs, req)
	c.mu.Unlock()
	whenDone(req.TestName, &conformancev1.ClientCompatResponse{
		TestName: req.TestName,
		Result:   &conformancev1.ClientCompatResponse_Error{Error: &conformancev1.ClientErrorResult{Message: "scripted"}},
	}, nil)
	return nil
}
func (c *c05LogClient) closeSend()              {}
func (c *c05LogClient) waitForResponses() error { return nil }
func (c *c05LogClient) isRunning() bool         { return true }
func (c *c05LogClient) stop()                   {}

// (inst sref (host port cert) suite)
func verifC05Complete(args []vsx) vsx {
	key := c05KeyOf(args[0])
	sref := args[1].boolean()
	resp := &conformancev1.ServerCompatResponse{Host: args[2].l[0].str(), Port: uint32(args[2].l[1].i), PemCert: args[2].l[2].b}
	suites, cfg := c05Suites(vL(args[3]))
	lib, err := newTestCaseLibrary(suites, cfg, conformancev1.TestSuite_TEST_MODE_UNSPECIFIED)
	if err != nil {
		return vL(vS("bad-case"), vS(err.Error()))
	}
	var cases []*conformancev1.TestCase
	for _, tc := range lib.testCases {
		cases = append(cases, tc)
	}
	sort.Slice(cases, func(i, j int) bool { return cases[i].Request.TestName < cases[j].Request.TestName })
	// the originals must stay untouched by request completion
	before := make([]*conformancev1.TestCase, len(cases))
	for i, tc := range cases {
		before[i] = proto.Clone(tc).(*conformancev1.TestCase) //nolint:forcetypeassert
	}

	var respBuf, reqBuf bytes.Buffer
	if err := internal.WriteDelimitedMessage(&respBuf, resp); err != nil {
		panic(err)
	}
	results := newResults(len(cases), &testTrie{}, &testTrie{}, nil)
	client := &c05LogClient{}
	meta := serverInstance{
		protocol:          conformancev1.Protocol(key[0]),
		httpVersion:       conformancev1.HTTPVersion(key[1]),
		useTLS:            key[2] == 1,
		useTLSClientCerts: key[3] == 1,
	}
	creds := &conformancev1.TLSCreds{Cert: []byte("SC"), Key: []byte("SK")}
	ccreds := &conformancev1.TLSCreds{Cert: []byte("CC"), Key: []byte("CK")}
	runTestCasesForServer(context.Background(), !sref, sref, meta, cases, creds, ccreds,
		newFakeProcess(&reqBuf, bytes.NewReader(respBuf.Bytes()), strings.NewReader("")),
		discardPrinter{}, discardPrinter{}, results, client, nil, false)
	for i, tc := range cases {
		if !proto.Equal(tc, before[i]) {
			return vErr("library-case-modified")
		}
	}
	var sreq conformancev1.ServerCompatRequest
	if err := internal.ReadDelimitedMessage(&reqBuf, &sreq, "x", time.Second, 1<<20); err != nil {
		return vErr("no-server-request")
	}
	if sreq.ServerCreds != nil && !proto.Equal(sreq.ServerCreds, creds) {
		return vErr("wrong-server-creds")
	}
	if len(sreq.ClientTlsCert) > 0 && !bytes.Equal(sreq.ClientTlsCert, ccreds.Cert) {
		return vErr("wrong-client-cert")
	}
	reqs := make([]vsx, len(client.reqs))
	for i, r := range client.reqs {
		if r.ClientTlsCreds != nil && !proto.Equal(r.ClientTlsCreds, ccreds) {
			return vErr("wrong-client-creds")
		}
		raw := vL()
		if r.RawRequest != nil {
			raw = vL(c05HeadersSx(r.RawRequest.Headers))
		}
		reqs[i] = vL(vS(r.TestName), vS(r.Host), vI(int64(r.Port)), vB(r.ServerTlsCert), vBool(r.ClientTlsCreds != nil),
			c05HeadersSx(r.RequestHeaders), raw)
	}
	results.mu.Lock()
	names := make([]string, 0, len(results.outcomes))
	for n := range results.outcomes {
		names = append(names, n)
	}
	sort.Strings(names)
	outcomes := make([]vsx, len(names))
	for i, n := range names {
		outcomes[i] = vL(vS(n), vBool(results.outcomes[n].setupError))
	}
	results.mu.Unlock()
	return vL(
		vL(vI(int64(sreq.Protocol)), vI(int64(sreq.HttpVersion)), vBool(sreq.UseTls), vBool(sreq.ServerCreds != nil), vBool(len(sreq.ClientTlsCert) > 0)),
		vL(reqs...), vL(outcomes...))
}

var _ = errors.New
