//go:build verif

package referenceserver

// C14 harness for the GLUE around the tracer in the reference server: the real createServer (reference
// mode, with a tracer.Tracer) is started on loopback - once for HTTP/1.1, once for h2c - and asked by a
// plain net/http client, and the response events of the server's trace (awaited for the test name, with a
// bound) are reported next to the bytes the client actually received.
//
//   c14.server (h2c rpc status headers table raw-body)
//       the test case carries a RAW response (unary body or enveloped stream items): the model predicts the
//       bytes on the wire and the events (C14_Server: createServer's handler chain; C14_Model: the tracer)
//   c14.probe  (h2c rpc payload n)
//       an ORDINARY response (it echoes the request's headers in map order, so its bytes are not predictable):
//       the observation (response headers, status, body, traced status, events) is turned by vlib/props/c14.py
//       into a c14.observed case, where the model is run on the received bytes.

import (
	"bytes"
	"context"
	"crypto/tls"
	"encoding/binary"
	"fmt"
	"io"
	"net"
	"net/http"
	"sync"
	"sync/atomic"
	"time"

	"connectrpc.com/conformance/internal"
	conformancev1 "connectrpc.com/conformance/internal/gen/proto/go/connectrpc/conformance/v1"
	"connectrpc.com/conformance/internal/gen/proto/go/connectrpc/conformance/v1/conformancev1connect"
	"connectrpc.com/conformance/internal/tracer"
	"golang.org/x/net/http2"
	"google.golang.org/protobuf/proto"
)

func init() {
	verifKinds["c14.server"] = verifC14Server
	verifKinds["c14.probe"] = verifC14Probe
}

type verifC14Srv struct {
	once   sync.Once
	err    error
	addr   string
	trace  tracer.Tracer
	client *http.Client
}

var (
	verifC14Servers [2]verifC14Srv // 0: HTTP/1.1, 1: h2c
	verifC14Counter atomic.Int64
)

const verifC14TraceWait = 2 * time.Second

func verifC14GetServer(h2c bool) (*verifC14Srv, error) {
	idx := 0
	if h2c {
		idx = 1
	}
	srv := &verifC14Servers[idx]
	srv.once.Do(func() {
		version := conformancev1.HTTPVersion_HTTP_VERSION_1
		if h2c {
			version = conformancev1.HTTPVersion_HTTP_VERSION_2
		}
		server, _, err := createServer(
			&conformancev1.ServerCompatRequest{Protocol: conformancev1.Protocol_PROTOCOL_CONNECT, HttpVersion: version},
			"127.0.0.1:0", "", "", true, internal.NewPrinter(io.Discard), &srv.trace,
		)
		if err != nil {
			srv.err = err
			return
		}
		go func() { _ = server.Serve() }()
		srv.addr = server.Addr()
		if h2c {
			srv.client = &http.Client{Transport: &http2.Transport{
				AllowHTTP: true, DisableCompression: true,
				DialTLS:   func(network, addr string, _ *tls.Config) (net.Conn, error) { return net.Dial(network, addr) },
			}}
		} else {
			srv.client = &http.Client{Transport: &http.Transport{DisableCompression: true}}
		}
	})
	return srv, srv.err
}

func verifC14Envelope(msg []byte) []byte {
	out := make([]byte, 5, 5+len(msg))
	binary.BigEndian.PutUint32(out[1:], uint32(len(msg)))
	return append(out, msg...)
}

type verifC14Exchange struct {
	status       int
	hdr          http.Header
	body         []byte
	tracedStatus int
	events       vsx
}

// one exchange: rpc 0 = Unary (Connect, application/proto), 1 = ServerStream (Connect, enveloped),
// 2 = ServerStream asked the gRPC-Web way
func verifC14Do(h2c bool, rpc int64, unary *conformancev1.UnaryRequest, stream *conformancev1.ServerStreamRequest) (*verifC14Exchange, string) {
	srv, err := verifC14GetServer(h2c)
	if err != nil {
		return nil, "server-did-not-start"
	}
	var path, contentType string
	var reqBody []byte
	switch rpc {
	case 0:
		path, contentType = conformancev1connect.ConformanceServiceUnaryProcedure, "application/proto"
		reqBody, err = proto.Marshal(unary)
	case 1, 2:
		path, contentType = conformancev1connect.ConformanceServiceServerStreamProcedure, "application/connect+proto"
		if rpc == 2 {
			contentType = "application/grpc-web+proto"
		}
		reqBody, err = proto.Marshal(stream)
		reqBody = verifC14Envelope(reqBody)
	default:
		return nil, "bad-case"
	}
	if err != nil {
		return nil, "bad-case"
	}
	name := fmt.Sprintf("verif-c14/%d", verifC14Counter.Add(1))
	srv.trace.Init(name)
	defer srv.trace.Clear(name)
	ctx, cancel := context.WithTimeout(context.Background(), 10*time.Second)
	defer cancel()
	req, err := http.NewRequestWithContext(ctx, http.MethodPost, "http://"+srv.addr+path, bytes.NewReader(reqBody))
	if err != nil {
		return nil, "bad-case"
	}
	req.Header.Set("Content-Type", contentType)
	req.Header.Set("X-Test-Case-Name", name)
	req.Header.Set("User-Agent", "verif/1")
	if rpc == 2 {
		req.Header.Set("X-Grpc-Web", "1")
	} else {
		req.Header.Set("Connect-Protocol-Version", "1")
	}
	resp, err := srv.client.Do(req)
	if err != nil {
		return nil, "exchange-failed"
	}
	body, err := io.ReadAll(resp.Body)
	_ = resp.Body.Close()
	if err != nil {
		return nil, "exchange-failed"
	}
	out := &verifC14Exchange{status: resp.StatusCode, hdr: resp.Header, body: body, tracedStatus: -1}
	actx, acancel := context.WithTimeout(context.Background(), verifC14TraceWait)
	defer acancel()
	got, err := srv.trace.Await(actx, name)
	if err != nil {
		out.events = vErr("trace-of-a-finished-exchange-never-completed")
		return out, ""
	}
	if got.Response != nil {
		out.tracedStatus = got.Response.StatusCode
	}
	events := []vsx{}
	env := func(e *tracer.Envelope) vsx {
		if e == nil {
			return vL()
		}
		return vL(vL(vI(int64(e.Flags)), vI(int64(e.Len))))
	}
	for _, ev := range got.Events {
		switch e := ev.(type) {
		case *tracer.ResponseBodyData:
			events = append(events, vL(vS("data"), vI(0), vInt(e.MessageIndex), env(e.Envelope), vI(int64(e.Len))))
		case *tracer.ResponseBodyEndStream:
			events = append(events, vL(vS("eos"), vS(e.Content)))
		case *tracer.ResponseBodyEnd:
			tag := "nil"
			if e.Err != nil {
				tag = "other"
			}
			events = append(events, vL(vS("end"), vI(0), vS(tag)))
		}
	}
	out.events = vL(events...)
	return out, ""
}

func verifC14RawResponse(st int64, hdr vsx, body vsx) (*conformancev1.RawHTTPResponse, bool) {
	if st < 0 || st > 999 || hdr.k != 'l' || len(hdr.l) != 4 || body.k != 'l' || len(body.l) != 2 || body.l[0].k != 'i' {
		return nil, false
	}
	raw := &conformancev1.RawHTTPResponse{StatusCode: uint32(st)}
	for i, n := range []string{"Content-Type", "Content-Encoding", "Connect-Content-Encoding", "Grpc-Encoding"} {
		if hdr.l[i].k != 'b' {
			return nil, false
		}
		if v := hdr.l[i].str(); v != "" {
			raw.Headers = append(raw.Headers, &conformancev1.Header{Name: n, Value: []string{v}})
		}
	}
	contents := func(b []byte) *conformancev1.MessageContents {
		return &conformancev1.MessageContents{Data: &conformancev1.MessageContents_Binary{Binary: b}}
	}
	switch body.l[0].i {
	case 0:
		if body.l[1].k != 'b' {
			return nil, false
		}
		raw.Body = &conformancev1.RawHTTPResponse_Unary{Unary: contents(body.l[1].b)}
	case 1:
		if body.l[1].k != 'l' {
			return nil, false
		}
		items := &conformancev1.StreamContents{}
		for _, it := range body.l[1].l {
			if it.k != 'l' || len(it.l) != 3 || it.l[0].k != 'i' || it.l[1].k != 'i' || it.l[2].k != 'b' ||
				it.l[0].i < 0 || it.l[0].i > 255 || it.l[1].i < -1 || it.l[1].i > 4294967295 {
				return nil, false
			}
			item := &conformancev1.StreamContents_StreamItem{Flags: uint32(it.l[0].i), Payload: contents(it.l[2].b)}
			if it.l[1].i >= 0 {
				item.Length = proto.Uint32(uint32(it.l[1].i))
			}
			items.Items = append(items.Items, item)
		}
		raw.Body = &conformancev1.RawHTTPResponse_Stream{Stream: items}
	default:
		return nil, false
	}
	return raw, true
}

// (h2c rpc status headers table raw-body) -> (status on the wire, status in the trace, body on the wire, events)
func verifC14Server(args []vsx) vsx {
	bad := vL(vS("bad-case"))
	if len(args) != 6 || args[0].k != 'i' || args[1].k != 'i' || args[2].k != 'i' {
		return bad
	}
	raw, ok := verifC14RawResponse(args[2].i, args[3], args[5])
	if !ok || (args[2].i != 0 && (args[2].i < 200 || args[2].i > 599 || args[2].i == 204 || args[2].i == 304)) {
		return bad // a status without a body cannot carry the raw body to the client
	}
	ex, failure := verifC14Do(args[0].boolean(), args[1].i,
		&conformancev1.UnaryRequest{ResponseDefinition: &conformancev1.UnaryResponseDefinition{RawResponse: raw}},
		&conformancev1.ServerStreamRequest{ResponseDefinition: &conformancev1.StreamResponseDefinition{RawResponse: raw}})
	if failure == "bad-case" {
		return bad
	}
	if failure != "" {
		return vErr(failure)
	}
	return vL(vInt(ex.status), vInt(ex.tracedStatus), vB(ex.body), ex.events)
}

// (h2c rpc payload n) -> ((content-type content-encoding connect-content-encoding grpc-encoding) status body
//                         traced-status events)
func verifC14Probe(args []vsx) vsx {
	bad := vL(vS("bad-case"))
	if len(args) != 4 || args[0].k != 'i' || args[1].k != 'i' || args[2].k != 'b' || args[3].k != 'i' || args[3].i < 0 || args[3].i > 8 {
		return bad
	}
	var datas [][]byte
	for i := int64(0); i < args[3].i; i++ {
		datas = append(datas, args[2].b)
	}
	unary := &conformancev1.UnaryRequest{ResponseDefinition: &conformancev1.UnaryResponseDefinition{
		Response: &conformancev1.UnaryResponseDefinition_ResponseData{ResponseData: args[2].b},
	}}
	if args[3].i == 0 { // an error instead of a response
		unary.ResponseDefinition.Response = &conformancev1.UnaryResponseDefinition_Error{
			Error: &conformancev1.Error{Code: conformancev1.Code_CODE_RESOURCE_EXHAUSTED, Message: proto.String(string(args[2].b))},
		}
	}
	stream := &conformancev1.ServerStreamRequest{ResponseDefinition: &conformancev1.StreamResponseDefinition{ResponseData: datas}}
	if args[3].i == 0 {
		stream.ResponseDefinition.Error = &conformancev1.Error{
			Code: conformancev1.Code_CODE_RESOURCE_EXHAUSTED, Message: proto.String(string(args[2].b)),
		}
	}
	ex, failure := verifC14Do(args[0].boolean(), args[1].i, unary, stream)
	if failure == "bad-case" {
		return bad
	}
	if failure != "" {
		return vErr(failure)
	}
	hdr := vL(vS(ex.hdr.Get("Content-Type")), vS(ex.hdr.Get("Content-Encoding")),
		vS(ex.hdr.Get("Connect-Content-Encoding")), vS(ex.hdr.Get("Grpc-Encoding")))
	return vL(hdr, vInt(ex.status), vB(ex.body), vInt(ex.tracedStatus), ex.events)
}
