//go:build verif

package tracer

// C14 harness, third part:
//   c14.long      long bodies from a compact description (pieces: explicit bytes or (length seed)), cut as the
//                 case says, through the same five entry points as the other kinds; long byte strings in the
//                 result are projected to (length, sum mod 2^32, sum of the running sums mod 2^32, first 16, last 16)
//                 - the same projection as C14_Model.proj_sx.
//   c14.observed  an exchange with the real reference server recorded by the c14.probe kind of
//                 internal/app/referenceserver: the bytes the plain client received, against the response
//                 events the server's trace held.
//   c14.rt        responses WITHOUT a body (http.NoBody / an empty reader) and real exchanges over loopback
//                 (Content-Length: 0, 204, 304, HEAD): one body-end event, the trace completed - waited for
//                 with a bound, so a trace that is never completed is an answer, not a hang.

import (
	"bytes"
	"io"
	"net/http"
	"strconv"
	"strings"
	"sync"
	"time"
)

func verifC14PatBytes(n, seed int64) []byte {
	out := make([]byte, n)
	for i := int64(0); i < n; i++ {
		out[i] = byte(((seed & 255) + 13*(i&255) + ((i >> 8) & 255)) & 255)
	}
	return out
}

func verifC14Pieces(v vsx) ([]byte, bool) {
	if v.k != 'l' {
		return nil, false
	}
	var out []byte
	for _, p := range v.l {
		switch {
		case p.k == 'b':
			out = append(out, p.b...)
		case p.k == 'l' && len(p.l) == 2 && p.l[0].k == 'i' && p.l[1].k == 'i' && p.l[0].i >= 0 && p.l[0].i <= 4194304 && p.l[1].i >= 0:
			out = append(out, verifC14PatBytes(p.l[0].i, p.l[1].i)...)
		default:
			return nil, false
		}
	}
	return out, true
}

func verifC14Digest(b []byte) vsx {
	var s1, s2 uint64
	for _, x := range b {
		s1 += uint64(x)
		s2 += s1 // sum of the running sums: position-weighted; < 2^53 for the few MiB a body may have
	}
	return vL(vInt(len(b)), vI(int64(s1%(1<<32))), vI(int64(s2%(1<<32))), vB(b[:16]), vB(b[len(b)-16:]))
}

func verifC14Proj(v vsx) vsx {
	switch v.k {
	case 'b':
		if len(v.b) > 64 {
			return verifC14Digest(v.b)
		}
		return v
	case 'l':
		out := make([]vsx, len(v.l))
		for i, e := range v.l {
			out[i] = verifC14Proj(e)
		}
		return vL(out...)
	default:
		return v
	}
}

// (entry req headers table pieces cuts)
func verifC14Long(args []vsx) vsx {
	bad := vL(vS("bad-case"))
	if len(args) != 6 || args[0].k != 'i' || args[1].k != 'i' || args[2].k != 'l' || len(args[2].l) != 4 || args[5].k != 'l' {
		return bad
	}
	for _, h := range args[2].l {
		if h.k != 'b' {
			return bad
		}
	}
	body, ok := verifC14Pieces(args[4])
	if !ok {
		return bad
	}
	var chunks [][]byte
	rest := body
	for _, c := range args[5].l {
		if c.k != 'i' || c.i < 0 {
			return bad
		}
		k := int(min(c.i, int64(len(rest))))
		chunks = append(chunks, rest[:k])
		rest = rest[k:]
	}
	if len(rest) > 0 {
		chunks = append(chunks, rest)
	}
	entry, req, hdr := args[0].i, args[1], args[2]
	switch entry {
	case 0:
		h := verifC14Headers(hdr)
		props := verifC14Props([]vsx{hdr})
		name := h.Get("Grpc-Encoding")
		if strings.HasPrefix(strings.ToLower(h.Get("Content-Type")), "application/connect") {
			name = h.Get("Connect-Content-Encoding")
		}
		list := make([]vsx, len(chunks))
		for i, ch := range chunks {
			list[i] = vB(ch)
		}
		return verifC14Proj(verifC14Raw([]vsx{req, props.l[0], props.l[1], vS(strings.ToLower(name)), vL(), vL(list...)}))
	case 1, 3:
		ops := make([]vsx, 0, len(chunks)+1)
		for _, ch := range chunks {
			ops = append(ops, vL(vI(0), vB(ch), vI(0), vI(0)))
		}
		ops = append(ops, vL(vI(0), vB(nil), vI(1), vI(0)))
		if entry == 1 {
			return verifC14Proj(verifC14Reader([]vsx{req, hdr, vL(), vL(ops...)}))
		}
		if req.boolean() {
			return bad
		}
		return verifC14Proj(verifC14RoundTrip([]vsx{vI(0), hdr, vL(), vL(ops...)}))
	case 2, 4:
		if req.boolean() {
			return bad
		}
		ops := make([]vsx, len(chunks))
		for i, ch := range chunks {
			ops[i] = vL(vB(ch), vInt(len(ch)), vI(0))
		}
		if entry == 2 {
			return verifC14Proj(verifC14Writer([]vsx{hdr, vL(), vL(ops...)}))
		}
		return verifC14Proj(verifC14Handler([]vsx{hdr, vL(), vL(ops...)}))
	}
	return bad
}

// (headers table wire-status wire-body traced-status observed-events) -> (traced-status observed-events);
// the observation is what it is (the exchange cannot be repeated byte for byte), but the tracer is run
// again on the wire bytes, and must agree with it.
func verifC14Observed(args []vsx) vsx {
	if len(args) != 6 || args[0].k != 'l' || len(args[0].l) != 4 || args[3].k != 'b' || args[4].k != 'i' || args[5].k != 'l' {
		return vL(vS("bad-case"))
	}
	again := verifC14WriterRun([]vsx{args[0], args[1], vL(vL(vB(args[3].b), vInt(len(args[3].b)), vI(0)))}, false)
	if len(again.l) == 2 && again.l[0].k == 'l' && verifC14Text(again.l[1]) != verifC14Text(args[5]) {
		return vL(vS("err"), vS("server-trace-is-not-the-trace-of-the-bytes-on-the-wire"), args[5], again.l[1])
	}
	return vL(args[4], args[5])
}

// ---- c14.rt: a response without a body ----

func verifC14EmptyScript(ops []vsx) bool {
	if len(ops) == 0 || ops[0].k != 'l' || len(ops[0].l) != 4 || ops[0].l[0].i != 0 || len(ops[0].l[1].b) != 0 || ops[0].l[2].i != 1 {
		return false
	}
	for _, op := range ops[1:] {
		if op.k != 'l' || len(op.l) != 2 || op.l[0].i != 1 || op.l[1].boolean() {
			return false
		}
	}
	return true
}

func verifC14RoundTripNoBodyRun(args []vsx, spec *verifC14ReqSpec, rs *verifC14RespSpec) vsx {
	ops := args[3].l
	if !verifC14EmptyScript(ops) || len(rs.trailer) != 0 {
		return vL(vS("bad-case"))
	}
	var results [2][]vsx
	var views [2]vsx
	var asked [2]*verifC14SeenReq
	var bodyNil [2]bool
	var coll *verifC14Collector
	var caller vsx
	for run := 0; run < 2; run++ { // 0: without tracing, 1: with
		coll = &verifC14Collector{}
		resp := &http.Response{
			Status: "scripted", StatusCode: rs.status, Proto: "HTTP/1.1", ProtoMajor: 1, ProtoMinor: 1,
			Header: verifC14MakeHeader(rs.hdr), Trailer: http.Header{}, ContentLength: rs.clen,
		}
		if rs.bodyKind == 1 {
			resp.Body = http.NoBody // what net/http's transport hands out for Content-Length: 0, 204, 304, HEAD
		} else {
			resp.Body = io.NopCloser(strings.NewReader(""))
		}
		transport := &verifC14RecordingTransport{resp: resp, bufLen: spec.maxChunk() + 8}
		req := spec.build()
		if req == nil {
			return vL(vS("bad-case"))
		}
		var got *http.Response
		var err error
		if run == 1 {
			got, err = TracingRoundTripper(transport, coll).RoundTrip(req)
		} else {
			got, err = transport.RoundTrip(req)
		}
		if err != nil || got != resp || got.Body == nil {
			return vErr("response-not-passed-through")
		}
		buf := make([]byte, 8+int(ops[0].l[3].i))
		n, err := got.Body.Read(buf)
		results[run] = append(results[run], vL(vB(append([]byte(nil), buf[:n]...)), verifC14IOTag(err)))
		for range ops[1:] {
			results[run] = append(results[run], vL(verifC14IOTag(got.Body.Close())))
		}
		views[run] = vL(vInt(got.StatusCode), vI(got.ContentLength), verifC14HdrSx(got.Header), verifC14HdrSx(got.Trailer))
		asked[run] = transport.seen
		bodyNil[run] = transport.bodyNil
		caller = verifC14HdrSx(req.Header)
	}
	if verifC14Text(views[0]) != verifC14Text(views[1]) || verifC14Text(vL(results[0]...)) != verifC14Text(vL(results[1]...)) {
		return vL(vS("err"), vS("application-saw-a-different-response-with-tracing"), views[0], views[1])
	}
	if bodyNil[0] != bodyNil[1] || !asked[1].same(asked[0], true) {
		return vErr("transport-was-given-a-different-request-with-tracing")
	}
	return vL(vL(results[1]...), verifC14Events(coll), vL(asked[1].sx(), views[1], caller))
}

// ---- c14.rt: a real exchange over loopback (HTTP/1.1), net/http's own transport underneath ----

type verifC14LockedCollector struct {
	mu     sync.Mutex
	traces []Trace
}

func (c *verifC14LockedCollector) Complete(t Trace) {
	c.mu.Lock()
	defer c.mu.Unlock()
	c.traces = append(c.traces, t)
}

func (c *verifC14LockedCollector) snapshot() []Trace {
	c.mu.Lock()
	defer c.mu.Unlock()
	return append([]Trace(nil), c.traces...)
}

const verifC14CompletionWait = 2 * time.Second

func verifC14RoundTripLiveRun(args []vsx, spec *verifC14ReqSpec, rs *verifC14RespSpec) vsx {
	bad := vL(vS("bad-case"))
	ops := args[3].l
	var body []byte
	eofAt := -1
	for i, op := range ops {
		if op.k != 'l' || len(op.l) < 2 {
			return bad
		}
		if op.l[0].i == 0 {
			if len(op.l) != 4 || eofAt >= 0 || op.l[2].i == 2 {
				return bad
			}
			body = append(body, op.l[1].b...)
			if op.l[2].i == 1 {
				eofAt = i
			}
		} else if eofAt < 0 || len(op.l) != 2 || op.l[1].boolean() {
			return bad
		}
	}
	noBody := spec.method == http.MethodHead || rs.status == http.StatusNoContent || rs.status == http.StatusNotModified
	if eofAt < 0 || spec.mode != 0 || (noBody && len(body) > 0) || rs.status < 200 || rs.status > 599 ||
		(rs.clen != -1 && rs.clen != int64(len(body))) || len(rs.trailer) != 0 || spec.method == http.MethodConnect {
		return bad
	}
	for _, c := range []byte(spec.method) {
		if c < 'A' || c > 'Z' {
			return bad
		}
	}
	for _, e := range append(append([][]string{}, spec.hdr...), rs.hdr...) {
		if !verifC14ValidField(e[0], e[1:]) || e[0] == "Host" || e[0] == "Transfer-Encoding" || e[0] == "Connection" ||
			e[0] == "Trailer" || e[0] == "Date" {
			return bad
		}
	}
	for _, e := range rs.hdr {
		if e[0] == "Content-Length" {
			return bad
		}
	}
	var reqData []byte
	for _, ch := range spec.chunks {
		reqData = append(reqData, ch...)
	}
	srv := verifC14LiveServer()
	app := http.HandlerFunc(func(w http.ResponseWriter, req *http.Request) {
		_, _ = io.Copy(io.Discard, req.Body)
		for _, e := range rs.hdr {
			w.Header()[e[0]] = append([]string{}, e[1:]...)
		}
		if rs.clen >= 0 && rs.status != http.StatusNoContent && rs.status != http.StatusNotModified {
			w.Header().Set("Content-Length", strconv.Itoa(len(body)))
		}
		w.WriteHeader(rs.status)
		if rs.clen < 0 {
			if fl, ok := w.(http.Flusher); ok {
				fl.Flush() // unknown length: chunked, even when nothing follows
			}
		}
		if !noBody {
			for _, op := range ops[:eofAt+1] {
				if len(op.l[1].b) > 0 {
					_, _ = w.Write(op.l[1].b)
					if fl, ok := w.(http.Flusher); ok && rs.clen < 0 {
						fl.Flush()
					}
				}
			}
		}
	})
	verifC14Live.mu.Lock()
	verifC14Live.handler = app
	verifC14Live.mu.Unlock()
	type seen struct {
		status int
		clen   int64
		body   []byte
	}
	var got [2]seen
	coll := &verifC14LockedCollector{}
	for run := 0; run < 2; run++ { // 0: without tracing, 1: with
		var transport http.RoundTripper = srv.Client().Transport
		if run == 1 {
			transport = TracingRoundTripper(transport, coll)
		}
		var rd io.Reader
		if len(spec.chunks) > 0 {
			rd = bytes.NewReader(reqData)
		}
		req, err := http.NewRequest(spec.method, srv.URL+spec.path(), rd)
		if err != nil {
			return bad
		}
		for _, e := range spec.hdr {
			if e[0] != "Content-Length" {
				req.Header[e[0]] = append([]string{}, e[1:]...)
			}
		}
		resp, err := transport.RoundTrip(req)
		if err != nil || resp.Body == nil {
			return vErr("live-exchange-failed")
		}
		data, err := io.ReadAll(resp.Body)
		for range ops[eofAt+1:] {
			_ = resp.Body.Close()
		}
		if len(ops) == eofAt+1 {
			_ = resp.Body.Close() // the connection goes back to the pool; the trace is finished by then
		}
		if err != nil {
			return vErr("live-exchange-failed")
		}
		got[run] = seen{resp.StatusCode, resp.ContentLength, data}
	}
	if got[0].status != got[1].status || got[0].clen != got[1].clen || !bytes.Equal(got[0].body, got[1].body) {
		return vErr("application-saw-a-different-response-with-tracing")
	}
	if got[1].status != rs.status || !bytes.Equal(got[1].body, body) {
		return vErr("live-exchange-failed")
	}
	// the trace of the finished exchange: completed (bounded wait), exactly once
	deadline := time.Now().Add(verifC14CompletionWait)
	for len(coll.snapshot()) == 0 && time.Now().Before(deadline) {
		time.Sleep(time.Millisecond)
	}
	traces := coll.snapshot()
	if len(traces) == 0 {
		return vL(vB(got[1].body), vErr("trace-of-a-finished-exchange-never-completed"), vInt(0))
	}
	all := verifC14Events(&verifC14Collector{traces: traces[:1]})
	var respEvents []vsx
	for _, ev := range all.l {
		if ev.k != 'l' || len(ev.l) < 2 {
			continue
		}
		switch ev.l[0].str() {
		case "eos":
			respEvents = append(respEvents, ev)
		case "data", "end":
			if ev.l[1].i == 0 {
				respEvents = append(respEvents, ev)
			}
		case "unexpected-event":
			respEvents = append(respEvents, ev)
		}
	}
	return vL(vB(got[1].body), vL(respEvents...), vInt(len(traces)))
}
