//go:build verif

package tracer

// C14 harness, second part: what the APPLICATION sees around the bodies - request line, headers,
// ContentLength and body behind TracingHandler; status, headers, ContentLength and trailers in front of
// TracingRoundTripper - compared (a) with an untraced run of the same exchange and (b) with the model
// (C14_Http: identity, and the headers the trace reports with the synthesised Content-Length).
//
// c14.handler (headers table ops (mode method clen request-headers body-chunks))
//   mode 0: the request is constructed the way net/http's server constructs it (Header map, ContentLength,
//           TransferEncoding, Body = http.NoBody or a scripted body) and served through a scripted
//           ResponseWriter;  mode 1: a real exchange over a loopback httptest server (HTTP/1.1).
// c14.rt (0 _ table ops (mode method clen request-headers ()) (status clen response-headers trailers))
//   scripted transport: the response's Header / Trailer maps are its own; the trailer values are stored
//   when the body returns io.EOF, as net/http does.

import (
	"bytes"
	"io"
	"net/http"
	"net/http/httptest"
	"net/textproto"
	"sort"
	"strings"
	"sync"
)

type verifC14ReqSpec struct {
	mode   int64
	method string
	clen   int64
	hdr    [][]string // name, values...
	chunks [][]byte
}

func verifC14ParseHdrs(v vsx) ([][]string, bool) {
	if v.k != 'l' {
		return nil, false
	}
	var out [][]string
	for _, e := range v.l {
		if e.k != 'l' || len(e.l) != 2 || e.l[0].k != 'b' || e.l[1].k != 'l' {
			return nil, false
		}
		entry := []string{e.l[0].str()}
		for _, val := range e.l[1].l {
			if val.k != 'b' {
				return nil, false
			}
			entry = append(entry, val.str())
		}
		out = append(out, entry)
	}
	return out, true
}

func verifC14ParseReq(v vsx) (*verifC14ReqSpec, bool) {
	if v.k != 'l' || len(v.l) != 5 || v.l[0].k != 'i' || v.l[1].k != 'b' || v.l[2].k != 'i' || v.l[4].k != 'l' {
		return nil, false
	}
	spec := &verifC14ReqSpec{mode: v.l[0].i, method: v.l[1].str(), clen: v.l[2].i}
	var ok bool
	if spec.hdr, ok = verifC14ParseHdrs(v.l[3]); !ok || spec.clen < -1 || spec.mode < 0 || spec.mode > 2 ||
		(spec.mode == 2 && len(v.l[4].l) != 0) {
		return nil, false
	}
	for _, ch := range v.l[4].l {
		if ch.k != 'b' {
			return nil, false
		}
		spec.chunks = append(spec.chunks, ch.b)
	}
	if spec.method == "" { // http.NewRequest would make it a GET
		return nil, false
	}
	// without a test name nothing is traced (builder.add ignores every event): not modelled
	return spec, verifC14MakeHeader(spec.hdr).Get(testCaseNameHeader) != ""
}

func verifC14MakeHeader(entries [][]string) http.Header {
	hdr := http.Header{}
	for _, e := range entries {
		hdr[e[0]] = append([]string{}, e[1:]...)
	}
	return hdr
}

// canonical form of a header map: ((name (values...))...) sorted by name
func verifC14HdrSx(h http.Header) vsx {
	names := make([]string, 0, len(h))
	for name := range h {
		names = append(names, name)
	}
	sort.Strings(names)
	out := make([]vsx, 0, len(names))
	for _, name := range names {
		vals := make([]vsx, 0, len(h[name]))
		for _, val := range h[name] {
			vals = append(vals, vS(val))
		}
		out = append(out, vL(vS(name), vL(vals...)))
	}
	return vL(out...)
}

// scripted request body: the chunks, then (0, io.EOF)
type verifC14Body struct {
	chunks [][]byte
	next   int
}

func (b *verifC14Body) Read(p []byte) (int, error) {
	if b.next >= len(b.chunks) {
		return 0, io.EOF
	}
	n := copy(p, b.chunks[b.next])
	b.next++
	return n, nil
}
func (b *verifC14Body) Close() error { return nil }

func (s *verifC14ReqSpec) maxChunk() int {
	m := 0
	for _, ch := range s.chunks {
		m = max(m, len(ch))
	}
	return m
}

func (s *verifC14ReqSpec) path() string {
	if s.method == http.MethodGet {
		return "/svc/Method?encoding=json&message=%7B%7D"
	}
	return "/svc/Method"
}

// the request as net/http's server (mode 0, server side) or an application (client side) constructs it
func (s *verifC14ReqSpec) build() *http.Request {
	req, err := http.NewRequest(s.method, "http://verif.invalid"+s.path(), nil)
	if err != nil {
		return nil
	}
	req.Header = verifC14MakeHeader(s.hdr)
	req.ContentLength = s.clen
	if s.mode == 2 {
		req.Body = nil // "For client requests, a nil body means the request has no body, such as a GET request."
	} else if len(s.chunks) == 0 {
		req.Body = http.NoBody
	} else {
		req.Body = &verifC14Body{chunks: s.chunks}
		if s.clen == -1 {
			req.TransferEncoding = []string{"chunked"}
		}
	}
	return req
}

// what the application (the wrapped handler) can see of a request
type verifC14SeenReq struct {
	method, url string
	clen        int64
	te          string
	hdr         http.Header
	reads       []vsx
	body        []byte
	last        error
}

func verifC14Observe(req *http.Request, bufLen int) *verifC14SeenReq {
	seen := &verifC14SeenReq{
		method: req.Method, url: req.URL.RequestURI(), clen: req.ContentLength,
		te: strings.Join(req.TransferEncoding, ","), hdr: req.Header.Clone(),
	}
	buf := make([]byte, bufLen)
	for k := 0; k < 100000; k++ {
		n, err := req.Body.Read(buf)
		seen.reads = append(seen.reads, vL(vB(append([]byte(nil), buf[:n]...)), verifC14IOTag(err)))
		seen.body = append(seen.body, buf[:n]...)
		seen.last = err
		if err != nil {
			break
		}
	}
	return seen
}

func (s *verifC14SeenReq) same(o *verifC14SeenReq, chunking bool) bool {
	if s == nil || o == nil {
		return false
	}
	if s.method != o.method || s.url != o.url || s.clen != o.clen || s.te != o.te || !verifC14SameHeader(s.hdr, o.hdr) ||
		!bytes.Equal(s.body, o.body) || s.last != o.last { //nolint:errorlint
		return false
	}
	return !chunking || verifC14Text(vL(s.reads...)) == verifC14Text(vL(o.reads...))
}

func (s *verifC14SeenReq) sx() vsx { return vL(vS(s.method), vI(s.clen), verifC14HdrSx(s.hdr)) }

func verifC14TraceHeaders(coll *verifC14Collector) vsx {
	if len(coll.traces) != 1 || len(coll.traces[0].Events) == 0 {
		return vL(vS("complete-calls"), vInt(len(coll.traces)))
	}
	start, ok := coll.traces[0].Events[0].(*RequestStart)
	if !ok {
		return vL(vS("no-request-start"))
	}
	return verifC14HdrSx(start.getHeaders())
}

const (
	verifC14ReqErr    = "handler-saw-a-different-request-with-tracing"
	verifC14CallerErr = "callers-request-altered"
)

// (headers table ops reqspec), mode 0
func verifC14HandlerReqRun(args []vsx, spec *verifC14ReqSpec, accumulate bool) vsx {
	var meter verifC14Meter
	bufLen := spec.maxChunk() + 8
	var seen [2]*verifC14SeenReq
	var results []vsx
	var coll *verifC14Collector
	var inner *verifC14RespWriter
	callerAltered := false
	for run := 0; run < 2; run++ { // 0: without tracing, 1: with
		traced := run == 1
		coll = &verifC14Collector{}
		inner = &verifC14RespWriter{hdr: http.Header{}}
		failure := ""
		app := http.HandlerFunc(func(w http.ResponseWriter, req *http.Request) {
			seen[run] = verifC14Observe(req, bufLen)
			for name, vals := range verifC14Headers(args[0]) {
				w.Header()[name] = vals
			}
			w.Header().Set("Trailer", "X-Verif-Trailer")
			results, failure = verifC14DriveWriter(w, inner, args[2].l, &meter, accumulate)
			if failure != "" {
				return
			}
			w.Header().Set("X-Verif-Trailer", "t")
		})
		req := spec.build()
		if req == nil {
			return vL(vS("bad-case"))
		}
		if traced {
			TracingHandler(app, coll).ServeHTTP(inner, req)
		} else {
			app.ServeHTTP(inner, req)
		}
		if failure != "" {
			return vErr(failure)
		}
		want := verifC14Headers(args[0])
		want.Set("Trailer", "X-Verif-Trailer")
		want.Set("X-Verif-Trailer", "t")
		if !verifC14SameHeader(inner.hdr, want) || (traced && (len(inner.status) != 1 || inner.status[0] != http.StatusOK)) {
			return vErr("status-headers-or-trailers-altered")
		}
		// the request the caller (net/http's server) handed in is still what it was
		callerAltered = req.Method != spec.method || req.ContentLength != spec.clen ||
			!verifC14SameHeader(req.Header, verifC14MakeHeader(spec.hdr))
	}
	if !seen[1].same(seen[0], true) {
		return vL(vS("err"), vS(verifC14ReqErr), seen[0].sx(), seen[1].sx())
	}
	if callerAltered {
		return vErr(verifC14CallerErr)
	}
	if meter.exceeded() {
		return vErr(verifC14AllocErr)
	}
	return vL(vL(results...), verifC14Events(coll), vL(seen[1].reads...), vL(seen[1].sx(), verifC14TraceHeaders(coll)))
}

// ---- mode 1: a real exchange over loopback ----

var verifC14Live struct {
	once    sync.Once
	srv     *httptest.Server
	mu      sync.Mutex
	handler http.Handler
}

func verifC14LiveServer() *httptest.Server {
	verifC14Live.once.Do(func() {
		verifC14Live.srv = httptest.NewServer(http.HandlerFunc(func(w http.ResponseWriter, req *http.Request) {
			verifC14Live.mu.Lock()
			handler := verifC14Live.handler
			verifC14Live.mu.Unlock()
			handler.ServeHTTP(w, req)
		}))
	})
	return verifC14Live.srv
}

func verifC14ValidField(name string, vals []string) bool {
	if name == "" || textproto.CanonicalMIMEHeaderKey(name) != name {
		return false
	}
	for _, c := range []byte(name) {
		if !(c == '-' || (c >= '0' && c <= '9') || (c >= 'A' && c <= 'Z') || (c >= 'a' && c <= 'z')) {
			return false
		}
	}
	for _, val := range vals {
		if val != strings.TrimSpace(val) {
			return false
		}
		for _, c := range []byte(val) {
			if c < 0x20 || c > 0x7e {
				return false
			}
		}
	}
	return len(vals) > 0
}

// what a client of the (traced or untraced) handler got back
type verifC14SeenResp struct {
	status  int
	hdr     http.Header
	trailer http.Header
	body    []byte
}

func (s *verifC14SeenResp) same(o *verifC14SeenResp) bool {
	return s != nil && o != nil && s.status == o.status && verifC14SameHeader(s.hdr, o.hdr) &&
		verifC14SameHeader(s.trailer, o.trailer) && bytes.Equal(s.body, o.body)
}

func verifC14HandlerLiveRun(args []vsx, spec *verifC14ReqSpec) vsx {
	for _, e := range spec.hdr {
		if !verifC14ValidField(e[0], e[1:]) || e[0] == "Host" || e[0] == "Transfer-Encoding" || e[0] == "Connection" {
			return vL(vS("bad-case"))
		}
	}
	for _, c := range []byte(spec.method) {
		if c < 'A' || c > 'Z' {
			return vL(vS("bad-case"))
		}
	}
	if spec.method == "" || spec.method == http.MethodHead || spec.method == http.MethodConnect {
		return vL(vS("bad-case"))
	}
	var data []byte
	for _, ch := range spec.chunks {
		data = append(data, ch...)
	}
	for _, op := range args[2].l {
		if len(op.l) != 3 || op.l[2].boolean() || int(op.l[1].i) != len(op.l[0].b) {
			return vL(vS("bad-case")) // a real ResponseWriter cannot be scripted to fail
		}
	}
	srv := verifC14LiveServer()
	var seen [2]*verifC14SeenReq
	var got [2]*verifC14SeenResp
	var results []vsx
	var coll *verifC14Collector
	for run := 0; run < 2; run++ {
		coll = &verifC14Collector{}
		app := http.HandlerFunc(func(w http.ResponseWriter, req *http.Request) {
			seen[run] = verifC14Observe(req, len(data)+512)
			for name, vals := range verifC14Headers(args[0]) {
				w.Header()[name] = vals
			}
			w.Header().Set("Trailer", "X-Verif-Trailer")
			results = nil
			for _, op := range args[2].l {
				n, err := w.Write(op.l[0].b)
				results = append(results, vL(vInt(n), verifC14IOTag(err)))
			}
			w.Header().Set("X-Verif-Trailer", "t")
		})
		verifC14Live.mu.Lock()
		if run == 1 {
			verifC14Live.handler = TracingHandler(app, coll)
		} else {
			verifC14Live.handler = app
		}
		verifC14Live.mu.Unlock()
		var body io.Reader
		if len(spec.chunks) > 0 {
			if spec.clen == -1 {
				body = struct{ io.Reader }{bytes.NewReader(data)} // length unknown to net/http: chunked
			} else {
				body = bytes.NewReader(data)
			}
		}
		req, err := http.NewRequest(spec.method, srv.URL+spec.path(), body)
		if err != nil {
			return vL(vS("bad-case"))
		}
		for _, e := range spec.hdr {
			if e[0] != "Content-Length" { // net/http writes it from ContentLength
				req.Header[e[0]] = append([]string{}, e[1:]...)
			}
		}
		resp, err := srv.Client().Do(req)
		if err != nil {
			return vErr("live-exchange-failed")
		}
		respBody, err := io.ReadAll(resp.Body)
		_ = resp.Body.Close()
		if err != nil {
			return vErr("live-exchange-failed")
		}
		hdr := resp.Header.Clone()
		hdr.Del("Date")
		got[run] = &verifC14SeenResp{status: resp.StatusCode, hdr: hdr, trailer: resp.Trailer.Clone(), body: respBody}
	}
	if !seen[1].same(seen[0], false) {
		return vL(vS("err"), vS(verifC14ReqErr), seen[0].sx(), seen[1].sx())
	}
	if !got[1].same(got[0]) {
		return vErr("client-of-the-traced-handler-got-a-different-response")
	}
	var want []byte
	for _, op := range args[2].l {
		want = append(want, op.l[0].b...)
	}
	if got[1].status != http.StatusOK || !bytes.Equal(got[1].body, want) || got[1].trailer.Get("X-Verif-Trailer") != "t" {
		return vErr("status-headers-or-trailers-altered")
	}
	// how net/http's server cut the body into reads is not ours to choose: reported as the script's
	// chunks when the bytes and the ending are the script's
	reads := seen[1].reads
	if bytes.Equal(seen[1].body, data) && seen[1].last == io.EOF { //nolint:errorlint
		reads = nil
		for _, ch := range spec.chunks {
			reads = append(reads, vL(vB(ch), verifC14IOTag(nil)))
		}
		reads = append(reads, vL(vB(nil), verifC14IOTag(io.EOF)))
	}
	return vL(vL(results...), verifC14Events(coll), vL(reads...), vL(seen[1].sx(), verifC14TraceHeaders(coll)))
}

// ---- TracingRoundTripper with the response around the body ----

type verifC14RespSpec struct {
	status  int
	clen    int64
	hdr     [][]string
	trailer [][]string
	// 0: scripted body; 1: the transport returns http.NoBody; 2: a real exchange over loopback;
	// 3: the transport returns an empty body that is not http.NoBody
	bodyKind int64
}

func verifC14ParseResp(v vsx) (*verifC14RespSpec, bool) {
	if v.k != 'l' || (len(v.l) != 4 && len(v.l) != 5) || v.l[0].k != 'i' || v.l[1].k != 'i' || v.l[0].i < 0 || v.l[1].i < -1 {
		return nil, false
	}
	spec := &verifC14RespSpec{status: int(v.l[0].i), clen: v.l[1].i}
	if len(v.l) == 5 {
		if v.l[4].k != 'i' || v.l[4].i < 0 || v.l[4].i > 3 {
			return nil, false
		}
		spec.bodyKind = v.l[4].i
	}
	var ok bool
	if spec.hdr, ok = verifC14ParseHdrs(v.l[2]); !ok {
		return nil, false
	}
	if spec.trailer, ok = verifC14ParseHdrs(v.l[3]); !ok {
		return nil, false
	}
	return spec, true
}

// scripted response body that stores the trailers when it returns io.EOF (as net/http's bodies do)
type verifC14TrailerBody struct {
	*verifC14Inner
	resp *http.Response
	fill [][]string
}

func (b *verifC14TrailerBody) Read(p []byte) (int, error) {
	n, err := b.verifC14Inner.Read(p)
	if err == io.EOF { //nolint:errorlint
		for _, e := range b.fill {
			b.resp.Trailer[e[0]] = append([]string{}, e[1:]...)
		}
	}
	return n, err
}

// the inner transport: notes what it is asked, sends the request body (reads it to the end) when there is one
type verifC14RecordingTransport struct {
	resp    *http.Response
	bufLen  int
	seen    *verifC14SeenReq
	bodyNil bool
}

func (t *verifC14RecordingTransport) RoundTrip(req *http.Request) (*http.Response, error) {
	t.bodyNil = req.Body == nil
	if t.bodyNil {
		t.seen = &verifC14SeenReq{method: req.Method, url: req.URL.RequestURI(), clen: req.ContentLength, hdr: req.Header.Clone()}
	} else {
		t.seen = verifC14Observe(req, t.bufLen)
	}
	return t.resp, nil
}

func verifC14RoundTripSpecRun(args []vsx, spec *verifC14ReqSpec, rs *verifC14RespSpec, accumulate bool) vsx {
	if rs.bodyKind == 1 || rs.bodyKind == 3 {
		return verifC14RoundTripNoBodyRun(args, spec, rs)
	}
	// the script must end the response body (EOF, error or Close): only then is the trace delivered
	finishing := false
	for _, op := range args[3].l {
		if len(op.l) < 2 || (op.l[0].i == 0 && len(op.l) != 4) {
			return vL(vS("bad-case"))
		}
		if op.l[0].i != 0 || op.l[2].i != 0 {
			finishing = true
		}
	}
	if !finishing {
		return vL(vS("bad-case"))
	}
	var meter verifC14Meter
	var results [2][]vsx
	var views [2]vsx
	var asked [2]*verifC14SeenReq
	var bodyNil [2]bool
	var coll *verifC14Collector
	var caller vsx
	for run := 0; run < 2; run++ { // 0: without tracing, 1: with
		coll = &verifC14Collector{}
		inner := &verifC14Inner{}
		trailer := http.Header{}
		for _, e := range rs.trailer {
			trailer[e[0]] = nil // announced, no value yet
		}
		resp := &http.Response{
			Status: "scripted", StatusCode: rs.status, Proto: "HTTP/1.1", ProtoMajor: 1, ProtoMinor: 1,
			Header: verifC14MakeHeader(rs.hdr), Trailer: trailer, ContentLength: rs.clen,
		}
		resp.Body = &verifC14TrailerBody{verifC14Inner: inner, resp: resp, fill: rs.trailer}
		transport := &verifC14RecordingTransport{resp: resp, bufLen: spec.maxChunk() + 8}
		req := spec.build()
		if req == nil {
			return vL(vS("bad-case"))
		}
		var got *http.Response
		var err error
		if run == 1 {
			got, err = TracingRoundTripper(transport, coll).RoundTrip(req)
		} else {
			got, err = transport.RoundTrip(req)
		}
		if err != nil || got != resp {
			return vErr("response-not-passed-through")
		}
		var failure string
		results[run], failure = verifC14DriveReader(got.Body, inner, args[3].l, &meter, accumulate)
		if failure != "" {
			return vErr(failure)
		}
		views[run] = vL(vInt(got.StatusCode), vI(got.ContentLength), verifC14HdrSx(got.Header), verifC14HdrSx(got.Trailer))
		asked[run] = transport.seen
		bodyNil[run] = transport.bodyNil
		caller = verifC14HdrSx(req.Header)
	}
	if verifC14Text(views[0]) != verifC14Text(views[1]) || verifC14Text(vL(results[0]...)) != verifC14Text(vL(results[1]...)) {
		return vL(vS("err"), vS("application-saw-a-different-response-with-tracing"), views[0], views[1])
	}
	if bodyNil[0] != bodyNil[1] || !asked[1].same(asked[0], true) {
		return vErr("transport-was-given-a-different-request-with-tracing")
	}
	if meter.exceeded() {
		return vErr(verifC14AllocErr)
	}
	return vL(vL(results[1]...), verifC14Events(coll), vL(asked[1].sx(), views[1], caller))
}
