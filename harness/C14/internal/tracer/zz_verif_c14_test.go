//go:build verif

package tracer

// C14 harness: drives the real dataTracer / tracingReader / tracingResponseWriter with scripted
// chunkings and scripted inner readers/writers, records the trace the Collector receives and
// prints the body events in the canonical form C14_Model.sx_event prints.
//
// The caller's memory.  The Coq model's state holds VALUES; the Go code only implements that if
// it copies whatever it keeps from the slice it is handed (io.Reader / io.Writer contract: the
// callee must not retain p, and must not write to it beyond what Read itself delivers).  So the
// scripted drivers behave like the real callers do (io.Copy, bufio, http bodies, the http2
// framer): every slice handed to the tracer is a window of ONE long-lived array (verifC14Arena)
// with spare capacity behind it, and every script is run under two disciplines:
//   reuse       the same window position for every call; the whole array is scribbled over
//               between calls, so anything retained from an earlier call turns into garbage and an
//               append into a retained slice lands in the bytes of the call in progress;
//   accumulate  consecutive windows (io.ReadAll / bufio style), earlier data left in place, so a
//               late overwrite of bytes the application still holds is seen.
// After EVERY call (Read, Write, trace, Close) the whole array is compared with the harness's
// private image of it (built from copies taken before the call): the bytes the application sees
// are the bytes the inner reader produced / the caller wrote, nothing else in its memory moved.
// The results of the two disciplines must be identical.

import (
	"bytes"
	"encoding/hex"
	"errors"
	"fmt"
	"io"
	"net/http"
	"os"
	"reflect"
	"runtime/metrics"
	"strings"
	"testing"

	"connectrpc.com/conformance/internal/compression"
	conformancev1 "connectrpc.com/conformance/internal/gen/proto/go/connectrpc/conformance/v1"
	"connectrpc.com/connect"
)

func init() {
	verifKinds["c14.raw"] = verifC14Raw
	verifKinds["c14.reader"] = verifC14Reader
	verifKinds["c14.writer"] = verifC14Writer
	verifKinds["c14.props"] = verifC14Props
	verifKinds["c14.rt"] = verifC14RoundTrip
	verifKinds["c14.handler"] = verifC14Handler
	verifKinds["c14.long"] = verifC14Long
	verifKinds["c14.observed"] = verifC14Observed
}

var errVerifC14 = errors.New("verif: scripted error of the inner reader/writer")

// Allocation meter: tracing must not ask for memory out of proportion to the bytes it has
// seen (a 5-byte hostile prefix must not make the tracer allocate the declared length).
// Cumulative heap allocation is sampled around the calls into the tracer.
var (
	verifC14Sample  = []metrics.Sample{{Name: "/gc/heap/allocs:bytes"}}
	verifC14Tripped bool
	verifC14MaxSeen uint64
)

const verifC14AllocSlack = 16 << 20 // decompressor set-up and the like

func verifC14Allocated() uint64 {
	metrics.Read(verifC14Sample)
	return verifC14Sample[0].Value.Uint64()
}

type verifC14Meter struct{ total, bytes uint64 }

func (m *verifC14Meter) around(n int, f func()) {
	before := verifC14Allocated()
	f()
	m.total += verifC14Allocated() - before
	m.bytes += uint64(n)
}

// exceeded reports (and remembers: later cases of this process are not run, so that one
// oversized request is the only one) an allocation volume beyond slack + 64 x bytes seen.
func (m *verifC14Meter) exceeded() bool {
	if m.total > verifC14MaxSeen {
		verifC14MaxSeen = m.total
		if os.Getenv("VERIF_DEBUG") != "" {
			fmt.Fprintf(os.Stderr, "verif c14: max allocation around tracer calls so far: %d bytes (%d traced)\n", m.total, m.bytes)
		}
	}
	if m.total > verifC14AllocSlack+64*m.bytes {
		verifC14Tripped = true
		return true
	}
	return false
}

var verifC14AllocErr = "allocation-out-of-proportion-to-bytes-seen"

// ---- the caller's memory ----

type verifC14Arena struct {
	mem        []byte // the caller's long-lived array
	want       []byte // private image: what mem must hold
	accumulate bool
	w          int // accumulate: where the next window starts
	gen        int
}

const verifC14ArenaLead = 3 // bytes in front of the first window

func verifC14NewArena(maxWindow int, accumulate bool) *verifC14Arena {
	n := verifC14ArenaLead + maxWindow + 61
	if accumulate {
		n += 2*maxWindow + 32
	}
	a := &verifC14Arena{mem: make([]byte, n), want: make([]byte, n), accumulate: accumulate, w: verifC14ArenaLead}
	a.scribble()
	return a
}

// scribble overwrites the whole array (and the image) with a pattern that differs from call to call
func (a *verifC14Arena) scribble() {
	a.gen++
	for i := range a.mem {
		a.mem[i] = byte(0xA5 ^ (a.gen * 29) ^ (i * 13))
	}
	copy(a.want, a.mem)
}

// window returns the next slice the caller hands out: k bytes long, its capacity reaching to the
// end of the array.  What earlier calls left in the array is scribbled over (reuse), or kept until
// the array is full (accumulate).
func (a *verifC14Arena) window(k int) []byte {
	if !a.accumulate {
		a.scribble()
		return a.mem[verifC14ArenaLead : verifC14ArenaLead+k]
	}
	if a.w+k+16 > len(a.mem) {
		a.scribble() // bufio slides its data down; here: start over
		a.w = verifC14ArenaLead
	}
	return a.mem[a.w : a.w+k]
}

// expect records in the image what the harness (as caller or as inner reader) put into win
func (a *verifC14Arena) expect(win []byte, content []byte) {
	off := cap(a.mem) - cap(win)
	copy(a.want[off:off+len(win)], content)
}

// consumed: the application keeps the first n bytes of the last window (accumulate)
func (a *verifC14Arena) consumed(n int) {
	if a.accumulate {
		a.w += n
	}
}

func (a *verifC14Arena) intact() bool { return bytes.Equal(a.mem, a.want) }

const verifC14MemErr = "tracer-wrote-into-the-callers-memory"

func verifC14Text(v vsx) string {
	var sb strings.Builder
	v.print(&sb)
	return sb.String()
}

// verifC14Both runs a script under both buffer disciplines; the result must not depend on it
func verifC14Both(run func(accumulate bool) vsx) vsx {
	if verifC14Tripped {
		return vErr(verifC14AllocErr)
	}
	r1 := run(false)
	if verifC14Tripped {
		return r1
	}
	r2 := run(true)
	if verifC14Text(r1) != verifC14Text(r2) {
		return vL(vS("err"), vS("result-depends-on-how-the-caller-reuses-its-buffers"), r1, r2)
	}
	return r1
}

type verifC14Collector struct{ traces []Trace }

func (c *verifC14Collector) Complete(t Trace) { c.traces = append(c.traces, t) }

func verifC14Request() *http.Request {
	req, err := http.NewRequest(http.MethodPost, "http://verif.invalid/svc/Method", nil)
	if err != nil {
		panic(err)
	}
	req.Header.Set(testCaseNameHeader, "verif-c14")
	return req
}

func verifC14Builder(coll Collector) *builder {
	b, _ := newBuilder(verifC14Request(), false, coll)
	return b
}

func verifC14ErrTag(err error) vsx {
	switch {
	case err == nil:
		return vS("nil")
	case errors.Is(err, errVerifC14):
		return vS("inner")
	default:
		return vS("other")
	}
}

// exact identity of what the wrapper hands back to its caller
func verifC14IOTag(err error) vsx {
	switch {
	case err == nil:
		return vS("nil")
	case err == io.EOF: //nolint:errorlint
		return vS("eof")
	case err == errVerifC14: //nolint:errorlint
		return vS("inner")
	default:
		return vS("changed")
	}
}

func verifC14Env(e *Envelope) vsx {
	if e == nil {
		return vL()
	}
	return vL(vL(vI(int64(e.Flags)), vI(int64(e.Len))))
}

// the body events of the one trace the collector must have received by now
func verifC14Events(coll *verifC14Collector) vsx {
	if len(coll.traces) != 1 {
		return vL(vS("complete-calls"), vInt(len(coll.traces)))
	}
	out := []vsx{}
	for _, ev := range coll.traces[0].Events {
		switch e := ev.(type) {
		case *RequestStart, *ResponseStart:
		case *RequestBodyData:
			out = append(out, vL(vS("data"), vI(1), vInt(e.MessageIndex), verifC14Env(e.Envelope), vI(int64(e.Len))))
		case *ResponseBodyData:
			out = append(out, vL(vS("data"), vI(0), vInt(e.MessageIndex), verifC14Env(e.Envelope), vI(int64(e.Len))))
		case *ResponseBodyEndStream:
			out = append(out, vL(vS("eos"), vS(e.Content)))
		case *RequestBodyEnd:
			out = append(out, vL(vS("end"), vI(1), verifC14ErrTag(e.Err)))
		case *ResponseBodyEnd:
			out = append(out, vL(vS("end"), vI(0), verifC14ErrTag(e.Err)))
		default:
			out = append(out, vL(vS("unexpected-event"), vS(fmt.Sprintf("%T", ev))))
		}
	}
	return vL(out...)
}

func verifC14Decompressor(kind int64, name string) connect.Decompressor {
	switch kind {
	case 0:
		return nil
	case 1:
		return GetDecompressor("identity")
	case 2:
		return brokenDecompressor{}
	default:
		return GetDecompressor(name)
	}
}

// (req stream deckind name table chunks) -> (events)
func verifC14Raw(args []vsx) vsx {
	return verifC14Both(func(accumulate bool) vsx { return verifC14RawRun(args, accumulate) })
}

func verifC14RawRun(args []vsx, accumulate bool) vsx {
	coll := &verifC14Collector{}
	bld := verifC14Builder(coll)
	isReq := args[0].boolean()
	tr := &dataTracer{
		isRequest:        isReq,
		isStreamProtocol: args[1].boolean(),
		decompressor:     verifC14Decompressor(args[2].i, args[3].str()),
		builder:          bld,
	}
	var meter verifC14Meter
	maxWin := 0
	for _, ch := range args[5].l {
		maxWin = max(maxWin, len(ch.b))
	}
	arena := verifC14NewArena(maxWin, accumulate)
	for _, ch := range args[5].l {
		// the chunk sits in the caller's array, with spare capacity and foreign bytes around it
		win := arena.window(len(ch.b))
		copy(win, ch.b)
		arena.expect(win, ch.b)
		meter.around(len(ch.b), func() { tr.trace(win) })
		if !arena.intact() {
			return vErr(verifC14MemErr)
		}
		arena.consumed(len(ch.b))
	}
	if meter.exceeded() {
		return vErr(verifC14AllocErr)
	}
	arena.scribble()
	// what tryFinish(nil) does
	tr.emitUnfinished()
	if isReq {
		bld.add(&RequestBodyEnd{})
	} else {
		bld.add(&ResponseBodyEnd{})
	}
	bld.build()
	if !arena.intact() {
		return vErr(verifC14MemErr)
	}
	return verifC14Events(coll)
}

func verifC14Headers(h vsx) http.Header {
	hdr := http.Header{}
	names := []string{"Content-Type", "Content-Encoding", "Connect-Content-Encoding", "Grpc-Encoding"}
	for i, n := range names {
		if v := h.l[i].str(); v != "" {
			hdr.Set(n, v)
		}
	}
	return hdr
}

type verifC14Inner struct {
	data     []byte
	err      error
	closeErr error
	gotLen   int
	reads    int
	closes   int
}

func (r *verifC14Inner) Read(p []byte) (int, error) {
	r.reads++
	r.gotLen = len(p)
	n := copy(p, r.data)
	for i := n; i < len(p); i++ {
		p[i] = 0xEE // stale bytes beyond n: the tracer must not look at them
	}
	return n, r.err
}

func (r *verifC14Inner) Close() error {
	r.closes++
	return r.closeErr
}

// verifC14DriveReader runs a Read/Close script on rd (whose inner reader is inner) the way a real
// caller does: windows of one re-used array, compared with copies taken before the call.
func verifC14DriveReader(rd io.ReadCloser, inner *verifC14Inner, ops []vsx, meter *verifC14Meter, accumulate bool) ([]vsx, string) {
	maxWin := 0
	for _, op := range ops {
		if op.l[0].i == 0 {
			maxWin = max(maxWin, len(op.l[1].b)+int(op.l[3].i))
		}
	}
	arena := verifC14NewArena(maxWin, accumulate)
	var results []vsx
	for _, op := range ops {
		if op.l[0].i == 0 {
			produced := append([]byte(nil), op.l[1].b...) // what the inner reader is going to produce
			inner.data = op.l[1].b
			switch op.l[2].i {
			case 0:
				inner.err = nil
			case 1:
				inner.err = io.EOF
			default:
				inner.err = errVerifC14
			}
			buf := arena.window(len(produced) + int(op.l[3].i))
			filled := append([]byte(nil), produced...)
			for len(filled) < len(buf) {
				filled = append(filled, 0xEE) // the inner reader's stale bytes beyond n
			}
			arena.expect(buf, filled)
			before := inner.reads
			var n int
			var err error
			meter.around(len(produced), func() { n, err = rd.Read(buf) })
			if inner.reads != before+1 || inner.gotLen != len(buf) {
				return nil, "inner-read-not-called-once-with-the-callers-buffer"
			}
			if n < 0 || n > len(buf) {
				return nil, "bad-n"
			}
			// the bytes the application sees, now that the call has returned
			results = append(results, vL(vB(append([]byte(nil), buf[:n]...)), verifC14IOTag(err)))
			if !arena.intact() {
				if n == len(produced) && !bytes.Equal(buf[:n], produced) {
					return nil, "application-did-not-get-the-bytes-the-inner-reader-produced"
				}
				return nil, verifC14MemErr
			}
			arena.consumed(n)
		} else {
			if !accumulate {
				arena.scribble()
			}
			inner.closeErr = nil
			if op.l[1].boolean() {
				inner.closeErr = errVerifC14
			}
			before := inner.closes
			err := rd.Close()
			if inner.closes != before+1 {
				return nil, "inner-close-not-called-once"
			}
			if !arena.intact() {
				return nil, verifC14MemErr
			}
			results = append(results, vL(verifC14IOTag(err)))
		}
	}
	return results, ""
}

// (req headers table ops) -> ((per call: what the caller got) (events))
func verifC14Reader(args []vsx) vsx {
	return verifC14Both(func(accumulate bool) vsx { return verifC14ReaderRun(args, accumulate) })
}

func verifC14ReaderRun(args []vsx, accumulate bool) vsx {
	var meter verifC14Meter
	coll := &verifC14Collector{}
	bld := verifC14Builder(coll)
	inner := &verifC14Inner{}
	done := 0
	rd := newReader(verifC14Headers(args[1]), inner, args[0].boolean(), bld, func() { done++ })
	results, failure := verifC14DriveReader(rd, inner, args[3].l, &meter, accumulate)
	if failure != "" {
		return vErr(failure)
	}
	if done > 1 {
		return vErr("when-done-called-twice")
	}
	if meter.exceeded() {
		return vErr(verifC14AllocErr)
	}
	bld.build()
	return vL(vL(results...), verifC14Events(coll))
}

type verifC14RespWriter struct {
	hdr     http.Header
	n       int
	err     error
	got     []byte
	writes  int
	status  []int
	flushed int
}

func (w *verifC14RespWriter) Header() http.Header { return w.hdr }
func (w *verifC14RespWriter) WriteHeader(code int) { w.status = append(w.status, code) }
func (w *verifC14RespWriter) Write(p []byte) (int, error) {
	w.writes++
	w.got = append([]byte(nil), p...)
	return w.n, w.err
}

// verifC14DriveWriter runs a Write script on w (whose inner writer is inner): every Write gets a
// window of one re-used array; when the call has returned the array must be as the caller left it
// (io.Writer: no modification of p, not even temporarily - the latter cannot be seen), and the
// caller then overwrites it (io.Writer: the callee must not retain p).
func verifC14DriveWriter(w io.Writer, inner *verifC14RespWriter, ops []vsx, meter *verifC14Meter, accumulate bool) ([]vsx, string) {
	maxWin := 0
	for _, op := range ops {
		maxWin = max(maxWin, len(op.l[0].b))
	}
	arena := verifC14NewArena(maxWin, accumulate)
	var results []vsx
	for _, op := range ops {
		written := append([]byte(nil), op.l[0].b...)
		data := arena.window(len(written))
		copy(data, written)
		arena.expect(data, written)
		inner.n = int(op.l[1].i)
		inner.err = nil
		if op.l[2].boolean() {
			inner.err = errVerifC14
		}
		before := inner.writes
		var n int
		var err error
		meter.around(len(data), func() { n, err = w.Write(data) })
		if inner.writes != before+1 || !bytes.Equal(inner.got, written) {
			return nil, "inner-write-did-not-get-exactly-the-callers-bytes"
		}
		if !arena.intact() || !bytes.Equal(data, written) {
			return nil, verifC14MemErr
		}
		arena.consumed(len(data))
		results = append(results, vL(vInt(n), verifC14IOTag(err)))
	}
	arena.scribble()
	return results, ""
}

// (headers table ops) -> ((per Write: n err) (events))
func verifC14Writer(args []vsx) vsx {
	return verifC14Both(func(accumulate bool) vsx { return verifC14WriterRun(args, accumulate) })
}

func verifC14WriterRun(args []vsx, accumulate bool) vsx {
	var meter verifC14Meter
	coll := &verifC14Collector{}
	bld := verifC14Builder(coll)
	inner := &verifC14RespWriter{hdr: verifC14Headers(args[0])}
	tw := &tracingResponseWriter{respWriter: inner, req: verifC14Request(), builder: bld}
	results, failure := verifC14DriveWriter(tw, inner, args[2].l, &meter, accumulate)
	if failure != "" {
		return vErr(failure)
	}
	if meter.exceeded() {
		return vErr(verifC14AllocErr)
	}
	tw.tryFinish(nil) // what TracingHandler does when the handler returns
	bld.build()
	if len(inner.status) != 1 || inner.status[0] != http.StatusOK {
		return vErr("write-header-not-passed-through-once")
	}
	if reflect.ValueOf(tw.Header()).Pointer() != reflect.ValueOf(inner.hdr).Pointer() {
		return vErr("header-map-not-the-inner-one")
	}
	return vL(vL(results...), verifC14Events(coll))
}

// (headers) -> (isStream decompressor-kind)
func verifC14Props(args []vsx) vsx {
	isStream, dec := propertiesFromHeaders(verifC14Headers(args[0]))
	kind := 3
	switch name := fmt.Sprintf("%T", dec); {
	case dec == nil:
		kind = 0
	case strings.HasSuffix(name, "noOpDecompressor"):
		kind = 1
	case strings.HasSuffix(name, "brokenDecompressor"):
		kind = 2
	}
	return vL(vBool(isStream), vInt(kind))
}

// TestVerifC14Fixtures prints compressed samples (python dict literal) for the generator's table
// of known (compressed -> plain) pairs; run by hand when vlib/props/c14.py's FIXTURES are renewed.
func TestVerifC14Fixtures(t *testing.T) {
	out := os.Getenv("VERIF_OUT")
	if out == "" {
		t.Skip("VERIF_OUT not set")
	}
	plains := []string{
		"{}",
		`{"error":{"code":"internal","message":"boom"}}`,
		`{"metadata":{"x-trailer":["a","b"]}}`,
		"grpc-status: 0\r\n",
		"grpc-status: 13\r\ngrpc-message: oops\r\nx-bin: AAE\r\n",
		"Z",
	}
	encs := []struct {
		name string
		comp conformancev1.Compression
	}{
		{"gzip", conformancev1.Compression_COMPRESSION_GZIP},
		{"br", conformancev1.Compression_COMPRESSION_BR},
		{"zstd", conformancev1.Compression_COMPRESSION_ZSTD},
		{"deflate", conformancev1.Compression_COMPRESSION_DEFLATE},
		{"snappy", conformancev1.Compression_COMPRESSION_SNAPPY},
	}
	var sb strings.Builder
	sb.WriteString("FIXTURES = {\n")
	for _, enc := range encs {
		fmt.Fprintf(&sb, "    %q: [\n", enc.name)
		for _, p := range plains {
			comp, err := compression.GetCompressor(enc.comp)
			if err != nil {
				t.Fatal(err)
			}
			var buf bytes.Buffer
			comp.Reset(&buf)
			if _, err := comp.Write([]byte(p)); err != nil {
				t.Fatal(err)
			}
			if err := comp.Close(); err != nil {
				t.Fatal(err)
			}
			fmt.Fprintf(&sb, "        (%q, %q),\n", hex.EncodeToString([]byte(p)), hex.EncodeToString(buf.Bytes()))
		}
		sb.WriteString("    ],\n")
	}
	sb.WriteString("}\n")
	// garbage that every decompressor must refuse
	sb.WriteString("GARBAGE_OK = {\n")
	garbage := [][]byte{{0xff, 0xff, 0xff, 0xff}, []byte("{}"), []byte("not compressed at all"), {0x00}}
	for _, enc := range encs {
		fmt.Fprintf(&sb, "    %q: [", enc.name)
		for _, g := range garbage {
			dec := GetDecompressor(enc.name)
			var un bytes.Buffer
			err := dec.Reset(bytes.NewBuffer(g))
			if err == nil {
				_, err = un.ReadFrom(dec)
			}
			if err != nil {
				fmt.Fprintf(&sb, "%q, ", hex.EncodeToString(g))
			}
		}
		sb.WriteString("],\n")
	}
	sb.WriteString("}\n")
	if err := os.WriteFile(out, []byte(sb.String()), 0o600); err != nil {
		t.Fatal(err)
	}
}

// ---- the same scripts through the net/http middleware (TracingRoundTripper / TracingHandler) ----

type verifC14Transport struct{ resp *http.Response }

func (t *verifC14Transport) RoundTrip(*http.Request) (*http.Response, error) { return t.resp, nil }

func verifC14SameHeader(a, b http.Header) bool {
	if len(a) != len(b) {
		return false
	}
	for k, v := range a {
		w, ok := b[k]
		if !ok || len(v) != len(w) {
			return false
		}
		for i := range v {
			if v[i] != w[i] {
				return false
			}
		}
	}
	return true
}

// (0 headers table ops) -> as c14.reader, the response body being read through the *http.Response
// that TracingRoundTripper hands back; the script must end the body (EOF, error or Close).
func verifC14RoundTrip(args []vsx) vsx {
	if args[0].boolean() {
		return vL(vS("bad-case"))
	}
	if len(args) == 6 { // with the request and the response around the body: zz_verif_c14_http_test.go
		spec, ok1 := verifC14ParseReq(args[4])
		rs, ok2 := verifC14ParseResp(args[5])
		if !ok1 || !ok2 {
			return vL(vS("bad-case"))
		}
		if rs.bodyKind == 2 {
			if verifC14Tripped {
				return vErr(verifC14AllocErr)
			}
			return verifC14RoundTripLiveRun(args, spec, rs)
		}
		return verifC14Both(func(accumulate bool) vsx { return verifC14RoundTripSpecRun(args, spec, rs, accumulate) })
	}
	return verifC14Both(func(accumulate bool) vsx { return verifC14RoundTripRun(args, accumulate) })
}

func verifC14RoundTripRun(args []vsx, accumulate bool) vsx {
	var meter verifC14Meter
	coll := &verifC14Collector{}
	inner := &verifC14Inner{}
	hdr := verifC14Headers(args[1])
	hdr.Set("X-Verif", "h")
	hdr.Add("X-Verif", "h2")
	trailer := http.Header{"X-Verif-Trailer": {"t1", "t2"}}
	resp := &http.Response{
		Status: "200 OK", StatusCode: http.StatusOK, Proto: "HTTP/1.1", ProtoMajor: 1, ProtoMinor: 1,
		Header: hdr, Trailer: trailer, Body: inner, ContentLength: -1,
	}
	hdrCopy, trailerCopy := hdr.Clone(), trailer.Clone()
	got, err := TracingRoundTripper(&verifC14Transport{resp: resp}, coll).RoundTrip(verifC14Request())
	if err != nil || got != resp {
		return vErr("response-not-passed-through")
	}
	results, failure := verifC14DriveReader(got.Body, inner, args[3].l, &meter, accumulate)
	if failure != "" {
		return vErr(failure)
	}
	if got.StatusCode != http.StatusOK || !verifC14SameHeader(got.Header, hdrCopy) || !verifC14SameHeader(got.Trailer, trailerCopy) {
		return vErr("status-headers-or-trailers-altered")
	}
	if meter.exceeded() {
		return vErr(verifC14AllocErr)
	}
	return vL(vL(results...), verifC14Events(coll))
}

// (headers table ops) -> as c14.writer, the handler writing through the ResponseWriter that
// TracingHandler passes to it (headers set before the first Write, a trailer after the last).
func verifC14Handler(args []vsx) vsx {
	if len(args) == 4 { // with the request the handler is given: zz_verif_c14_http_test.go
		spec, ok := verifC14ParseReq(args[3])
		if !ok {
			return vL(vS("bad-case"))
		}
		if spec.mode == 2 {
			return vL(vS("bad-case"))
		}
		if spec.mode == 1 {
			if verifC14Tripped {
				return vErr(verifC14AllocErr)
			}
			return verifC14HandlerLiveRun(args, spec)
		}
		return verifC14Both(func(accumulate bool) vsx { return verifC14HandlerReqRun(args, spec, accumulate) })
	}
	return verifC14Both(func(accumulate bool) vsx { return verifC14HandlerRun(args, accumulate) })
}

func verifC14HandlerRun(args []vsx, accumulate bool) vsx {
	var meter verifC14Meter
	coll := &verifC14Collector{}
	inner := &verifC14RespWriter{hdr: http.Header{}}
	var results []vsx
	failure := ""
	handler := http.HandlerFunc(func(w http.ResponseWriter, _ *http.Request) {
		for name, vals := range verifC14Headers(args[0]) {
			w.Header()[name] = vals
		}
		w.Header().Set("Trailer", "X-Verif-Trailer")
		results, failure = verifC14DriveWriter(w, inner, args[2].l, &meter, accumulate)
		if failure != "" {
			return
		}
		w.Header().Set("X-Verif-Trailer", "t")
	})
	TracingHandler(handler, coll).ServeHTTP(inner, verifC14Request())
	if failure != "" {
		return vErr(failure)
	}
	want := verifC14Headers(args[0])
	want.Set("Trailer", "X-Verif-Trailer")
	want.Set("X-Verif-Trailer", "t")
	if len(inner.status) != 1 || inner.status[0] != http.StatusOK || !verifC14SameHeader(inner.hdr, want) {
		return vErr("status-headers-or-trailers-altered")
	}
	if meter.exceeded() {
		return vErr(verifC14AllocErr)
	}
	return vL(vL(results...), verifC14Events(coll))
}
