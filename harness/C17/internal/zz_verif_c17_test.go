//go:build verif

package internal

import (
	"bytes"
	"encoding/binary"
	"io"

	"connectrpc.com/conformance/internal/compression"
	conformancev1 "connectrpc.com/conformance/internal/gen/proto/go/connectrpc/conformance/v1"
	"google.golang.org/protobuf/types/known/anypb"
)

func init() {
	verifKinds["c17.oracle"] = verifC17Oracle
	verifKinds["c17.msg"] = verifC17Msg
	verifKinds["c17.stream"] = verifC17Stream
}

// ---- case decoding (shared shape with the other two C17 harness files) ----

// contents: () = nil pointer | (dk data comp), dk 0 none, 1 binary, 2 text, 3 binary_message
func verifC17Contents(v vsx) *conformancev1.MessageContents {
	if len(v.l) == 0 {
		return nil
	}
	c := &conformancev1.MessageContents{Compression: conformancev1.Compression(v.l[2].i)}
	d := append([]byte{}, v.l[1].b...)
	switch v.l[0].i {
	case 1:
		c.Data = &conformancev1.MessageContents_Binary{Binary: d}
	case 2:
		c.Data = &conformancev1.MessageContents_Text{Text: string(d)}
	case 3:
		c.Data = &conformancev1.MessageContents_BinaryMessage{BinaryMessage: &anypb.Any{TypeUrl: "type.googleapis.com/verif.C17", Value: d}}
	}
	return c
}

// item: (flags (len?) contents)
func verifC17Items(v vsx) *conformancev1.StreamContents {
	sc := &conformancev1.StreamContents{}
	for _, it := range v.l {
		item := &conformancev1.StreamContents_StreamItem{Flags: uint32(it.l[0].i), Payload: verifC17Contents(it.l[2])}
		if len(it.l[1].l) == 1 {
			n := uint32(it.l[1].l[0].i)
			item.Length = &n
		}
		sc.Items = append(sc.Items, item)
	}
	return sc
}

// the oracle: the compressor / decompressor objects of internal/compression used directly
func verifC17Compress(comp int64, data []byte) ([]byte, bool) {
	c, err := compression.GetCompressor(conformancev1.Compression(comp))
	if err != nil {
		return nil, false
	}
	var buf bytes.Buffer
	c.Reset(&buf)
	if _, err := c.Write(data); err != nil {
		return nil, false
	}
	if err := c.Close(); err != nil {
		return nil, false
	}
	return buf.Bytes(), true
}

func verifC17Decompress(comp int64, data []byte) ([]byte, bool) {
	d, err := compression.GetDecompressor(conformancev1.Compression(comp))
	if err != nil {
		return nil, false
	}
	if err := d.Reset(bytes.NewReader(data)); err != nil {
		return nil, false
	}
	out, err := io.ReadAll(d)
	if err != nil {
		return nil, false
	}
	_ = d.Close()
	return out, true
}

// ((comp data)...) -> ((cdata roundtrips)...) : compressed form of every pair and whether the
// decompressor gives the data back (the hypothesis of the invertibility theorems).
func verifC17Oracle(args []vsx) vsx {
	out := make([]vsx, 0, len(args[0].l))
	for _, p := range args[0].l {
		cd, ok := verifC17Compress(p.l[0].i, p.l[1].b)
		if !ok {
			out = append(out, vL())
			continue
		}
		back, ok2 := verifC17Decompress(p.l[0].i, cd)
		out = append(out, vL(vB(cd), vBool(ok2 && bytes.Equal(back, p.l[1].b))))
	}
	return vL(out...)
}

func verifC17DataOf(v vsx) (int64, []byte, bool) {
	if len(v.l) == 0 || v.l[0].i == 0 {
		return 0, nil, false
	}
	return v.l[2].i, v.l[1].b, true
}

// table contents -> (err #bytes (decoded?))
func verifC17Msg(args []vsx) vsx {
	if !verifC17TableOK(args[0]) {
		return vL(vS("bad-case"))
	}
	var buf bytes.Buffer
	err := WriteRawMessageContents(verifC17Contents(args[1]), &buf)
	dec := vL()
	if comp, _, has := verifC17DataOf(args[1]); err == nil && has {
		if d, ok := verifC17Decompress(comp, buf.Bytes()); ok {
			dec = vL(vB(d))
		}
	}
	return vL(vBool(err != nil), vB(buf.Bytes()), dec)
}

// an independent parser of the 5-byte envelopes
func verifC17Parse(b []byte) ([]vsx, [][]byte, []byte) {
	var envs []vsx
	var payloads [][]byte
	for len(b) >= 5 {
		n := int(binary.BigEndian.Uint32(b[1:5]))
		if n > len(b)-5 {
			break
		}
		envs = append(envs, vL(vI(int64(b[0])), vI(int64(n)), vB(b[5:5+n])))
		payloads = append(payloads, b[5:5+n])
		b = b[5+n:]
	}
	return envs, payloads, b
}

// table items -> (err #bytes ((flags len #payload)...) #rest (decoded...)?)
func verifC17Stream(args []vsx) vsx {
	if !verifC17TableOK(args[0]) {
		return vL(vS("bad-case"))
	}
	var buf bytes.Buffer
	err := WriteRawStreamContents(verifC17Items(args[1]), &buf)
	return verifC17StreamResult(args[1], err != nil, buf.Bytes())
}

func verifC17StreamResult(items vsx, failed bool, body []byte) vsx {
	envs, payloads, rest := verifC17Parse(body)
	// decompress only when every explicit length equals the real (compressed) payload length
	consistent := !failed
	for _, it := range items.l {
		comp, data, has := verifC17DataOf(it.l[2])
		if len(it.l[2].l) == 0 {
			consistent = false
			break
		}
		if len(it.l[1].l) == 1 {
			var cd []byte
			if has {
				var ok bool
				if cd, ok = verifC17Compress(comp, data); !ok {
					consistent = false
					break
				}
			}
			if int64(len(cd)) != it.l[1].l[0].i {
				consistent = false
				break
			}
		}
	}
	dec := vL()
	if consistent && len(envs) == len(items.l) {
		ds := make([]vsx, len(envs))
		for i, it := range items.l {
			comp, _, has := verifC17DataOf(it.l[2])
			if !has {
				ds[i] = vL(vB(payloads[i]))
				continue
			}
			if d, ok := verifC17Decompress(comp, payloads[i]); ok {
				ds[i] = vL(vB(d))
			} else {
				ds[i] = vL()
			}
		}
		dec = vL(vL(ds...))
	}
	return vL(vBool(failed), vB(body), vL(envs...), vB(rest), dec)
}

// the oracle table of a case must be what the repository's compressors produce (the shrinker
// mutates tables; such candidates are ill-formed)
func verifC17TableOK(t vsx) bool {
	for _, e := range t.l {
		if len(e.l) != 3 {
			return false
		}
		c, err := compression.GetCompressor(conformancev1.Compression(e.l[0].i))
		if err != nil {
			return false
		}
		var buf bytes.Buffer
		c.Reset(&buf)
		_, _ = c.Write(e.l[1].b)
		_ = c.Close()
		if !bytes.Equal(buf.Bytes(), e.l[2].b) {
			return false
		}
	}
	return true
}
