//go:build verif

package referenceserver

import (
	"bytes"
	"context"
	"crypto/tls"
	"encoding/base64"
	"encoding/binary"
	"fmt"
	"io"
	"net"
	"net/http"
	"net/http/httptest"
	"net/textproto"
	"sort"
	"strings"
	"sync"
	"sync/atomic"
	"time"

	"connectrpc.com/conformance/internal"
	"connectrpc.com/conformance/internal/compression"
	conformancev1 "connectrpc.com/conformance/internal/gen/proto/go/connectrpc/conformance/v1"
	"golang.org/x/net/http2"
	"google.golang.org/protobuf/proto"
	"google.golang.org/protobuf/types/known/anypb"
)

func init() {
	verifKinds["c17.writer"] = verifC17Writer
	verifKinds["c17.live"] = verifC17Live
}

// ---- case decoding (same shapes as harness/C17/internal) ----

func verifC17Contents(v vsx) *conformancev1.MessageContents {
	if len(v.l) == 0 {
		return nil
	}
	c := &conformancev1.MessageContents{Compression: conformancev1.Compression(v.l[2].i)}
	d := append([]byte{}, v.l[1].b...)
	switch v.l[0].i {
	case 1:
		c.Data = &conformancev1.MessageContents_Binary{Binary: d}
	case 2:
		c.Data = &conformancev1.MessageContents_Text{Text: string(d)}
	case 3:
		c.Data = &conformancev1.MessageContents_BinaryMessage{BinaryMessage: &anypb.Any{TypeUrl: "type.googleapis.com/verif.C17", Value: d}}
	}
	return c
}

func verifC17Items(v vsx) *conformancev1.StreamContents {
	sc := &conformancev1.StreamContents{}
	for _, it := range v.l {
		item := &conformancev1.StreamContents_StreamItem{Flags: uint32(it.l[0].i), Payload: verifC17Contents(it.l[2])}
		if len(it.l[1].l) == 1 {
			n := uint32(it.l[1].l[0].i)
			item.Length = &n
		}
		sc.Items = append(sc.Items, item)
	}
	return sc
}

func verifC17Headers(v vsx) []*conformancev1.Header {
	var out []*conformancev1.Header
	for _, h := range v.l {
		out = append(out, &conformancev1.Header{Name: h.l[0].str(), Value: h.l[1].strs()})
	}
	return out
}

// resp: (status (headers) body (trailers)); body: (0) | (1 contents) | (2 (items))
func verifC17Resp(v vsx) *conformancev1.RawHTTPResponse {
	r := &conformancev1.RawHTTPResponse{
		StatusCode: uint32(v.l[0].i),
		Headers:    verifC17Headers(v.l[1]),
		Trailers:   verifC17Headers(v.l[3]),
	}
	switch b := v.l[2]; b.l[0].i {
	case 1:
		r.Body = &conformancev1.RawHTTPResponse_Unary{Unary: verifC17Contents(b.l[1])}
	case 2:
		r.Body = &conformancev1.RawHTTPResponse_Stream{Stream: verifC17Items(b.l[1])}
	}
	return r
}

func verifC17HeaderSx(h http.Header, skip func(k string, vv []string) bool) vsx {
	keys := make([]string, 0, len(h))
	for k := range h {
		keys = append(keys, k)
	}
	sort.Strings(keys)
	var out []vsx
	for _, k := range keys {
		if skip != nil && skip(k, h[k]) {
			continue
		}
		out = append(out, vL(vS(k), vStrs(h[k])))
	}
	return vL(out...)
}

// ---- kind 1: the real rawResponseWriter over an httptest.ResponseRecorder ----
// table snapshot ops -> ((op results) status (headers) #body (trailers) flushed)
// ops: (1 n v) Header().Add  (2 n v) Header().Set  (3 n) Header().Del  (4 code) WriteHeader
//      (5 bytes) Write  (6) Flush  (7 resp) setRawResponse (through the context, as handlers do)
//      (8) canSendResponse
func verifC17Writer(args []vsx) vsx {
	if !verifC17TableOK(args[0]) {
		return vL(vS("bad-case"))
	}
	rec := httptest.NewRecorder()
	note := func(name string) {}
	for _, h := range args[1].l {
		note(h.l[0].str())
		for _, v := range h.l[1].strs() {
			rec.Header().Add(h.l[0].str(), v)
		}
	}
	var results []vsx
	var firstWrite []byte
	var rw *rawResponseWriter
	var snapshot http.Header
	// exactly what rawResponder does around the handler
	handler := http.HandlerFunc(func(w http.ResponseWriter, req *http.Request) {
		rw, _ = w.(*rawResponseWriter)
		for _, op := range args[2].l {
			switch op.l[0].i {
			case 1:
				note(op.l[1].str())
				w.Header().Add(op.l[1].str(), op.l[2].str())
			case 2:
				note(op.l[1].str())
				w.Header().Set(op.l[1].str(), op.l[2].str())
			case 3:
				w.Header().Del(op.l[1].str())
			case 4:
				w.WriteHeader(int(op.l[1].i))
			case 5:
				if firstWrite == nil {
					firstWrite = append([]byte{}, op.l[1].b...)
				}
				n, err := w.Write(op.l[1].b)
				if err != nil {
					n = -1
				}
				results = append(results, vInt(n))
			case 6:
				w.(http.Flusher).Flush()
			case 7:
				resp := verifC17Resp(op.l[1])
				for _, h := range resp.Headers {
					note(h.Name)
				}
				results = append(results, vBool(setRawResponse(req.Context(), resp) == nil))
			case 8:
				results = append(results, vBool(rw.canSendResponse()))
			}
		}
	})
	_ = snapshot
	req := httptest.NewRequest(http.MethodPost, "/x", nil)
	rawResponder(handler).ServeHTTP(rec, req)
	res := rec.Result()
	body := rec.Body.Bytes()
	hdrs := verifC17HeaderSx(res.Header, func(k string, vv []string) bool {
		// net/http's content sniffing is not part of the model
		return k == "Content-Type" && len(vv) == 1 &&
			(vv[0] == http.DetectContentType(body) || firstWrite != nil && vv[0] == http.DetectContentType(firstWrite))
	})
	return vL(vL(results...), vInt(res.StatusCode), hdrs, vB(body), verifC17HeaderSx(res.Trailer, nil), vBool(rec.Flushed))
}

// ---- kind 2: the reference server as createServer builds it, over TCP, seen by a plain client ----

type verifC17Srv struct {
	addr   string
	client *http.Client
}

var (
	verifC17Mu   sync.Mutex
	verifC17Srvs = map[int64]*verifC17Srv{}
	verifC17Seq  atomic.Int64
)

func verifC17Server(version int64) *verifC17Srv {
	verifC17Mu.Lock()
	defer verifC17Mu.Unlock()
	if s := verifC17Srvs[version]; s != nil {
		return s
	}
	req := &conformancev1.ServerCompatRequest{
		Protocol:    conformancev1.Protocol_PROTOCOL_CONNECT,
		HttpVersion: conformancev1.HTTPVersion(version),
	}
	srv, _, err := createServer(req, "127.0.0.1:0", "", "", true, internal.NewPrinter(io.Discard), nil)
	if err != nil {
		panic(err)
	}
	go func() { _ = srv.Serve() }()
	s := &verifC17Srv{addr: srv.Addr()}
	if version == 1 {
		s.client = &http.Client{Transport: &http.Transport{DisableCompression: true}}
	} else {
		s.client = &http.Client{Transport: &http2.Transport{
			AllowHTTP:          true,
			DisableCompression: true,
			DialTLSContext: func(ctx context.Context, network, addr string, _ *tls.Config) (net.Conn, error) {
				return (&net.Dialer{}).DialContext(ctx, network, addr)
			},
		}}
	}
	for i := 0; i < 200; i++ {
		c, err := net.Dial("tcp", s.addr)
		if err == nil {
			c.Close()
			break
		}
		time.Sleep(10 * time.Millisecond)
	}
	verifC17Srvs[version] = s
	return s
}

const verifC17Marker = "X-Verif-Handler-Marker"

func verifC17Envelope(msgs ...proto.Message) []byte {
	var out []byte
	for _, m := range msgs {
		b, _ := proto.Marshal(m)
		var p [5]byte
		binary.BigEndian.PutUint32(p[1:], uint32(len(b)))
		out = append(out, p[:]...)
		out = append(out, b...)
	}
	return out
}

// table version rpc (raw?) nreq -> (1) when the handler's own response arrived (marker header seen),
// else (0 status (headers) (trailers) #body date-present)
// rpc: 0 Unary, 1 IdempotentUnary (POST), 2 IdempotentUnary (GET), 3 ClientStream, 4 ServerStream, 5 BidiStream
func verifC17Live(args []vsx) vsx {
	if !verifC17TableOK(args[0]) {
		return vL(vS("bad-case"))
	}
	version, rpc, nreq := args[1].i, args[2].i, int(args[4].i)
	if version != 1 && version != 2 {
		return vL(vS("bad-case"))
	}
	var raw *conformancev1.RawHTTPResponse
	if len(args[3].l) == 1 {
		raw = verifC17Resp(args[3].l[0])
	}
	marker := []*conformancev1.Header{{Name: verifC17Marker, Value: []string{"1"}}}
	unaryDef := &conformancev1.UnaryResponseDefinition{
		ResponseHeaders: marker,
		Response:        &conformancev1.UnaryResponseDefinition_ResponseData{ResponseData: []byte("VERIF-HANDLER-BODY")},
		RawResponse:     raw,
	}
	streamDef := &conformancev1.StreamResponseDefinition{
		ResponseHeaders: marker,
		ResponseData:    [][]byte{[]byte("VERIF-HANDLER-BODY-1"), []byte("VERIF-HANDLER-BODY-2")},
		RawResponse:     raw,
	}
	s := verifC17Server(version)
	base := "http://" + s.addr + "/connectrpc.conformance.v1.ConformanceService/"
	method, url, ctype := http.MethodPost, "", "application/connect+proto"
	var body []byte
	switch rpc {
	case 0:
		url, ctype = base+"Unary", "application/proto"
		body, _ = proto.Marshal(&conformancev1.UnaryRequest{ResponseDefinition: unaryDef, RequestData: []byte("q")})
	case 1:
		url, ctype = base+"IdempotentUnary", "application/proto"
		body, _ = proto.Marshal(&conformancev1.IdempotentUnaryRequest{ResponseDefinition: unaryDef, RequestData: []byte("q")})
	case 2:
		msg, _ := proto.Marshal(&conformancev1.IdempotentUnaryRequest{ResponseDefinition: unaryDef, RequestData: []byte("q")})
		method, ctype = http.MethodGet, ""
		url = base + "IdempotentUnary?connect=v1&encoding=proto&base64=1&message=" + base64.RawURLEncoding.EncodeToString(msg)
	case 3:
		url = base + "ClientStream"
		msgs := []proto.Message{&conformancev1.ClientStreamRequest{ResponseDefinition: unaryDef, RequestData: []byte("q")}}
		for i := 1; i < nreq; i++ {
			msgs = append(msgs, &conformancev1.ClientStreamRequest{RequestData: []byte("more")})
		}
		body = verifC17Envelope(msgs...)
	case 4:
		url = base + "ServerStream"
		body = verifC17Envelope(&conformancev1.ServerStreamRequest{ResponseDefinition: streamDef, RequestData: []byte("q")})
	case 5:
		url = base + "BidiStream"
		msgs := []proto.Message{&conformancev1.BidiStreamRequest{ResponseDefinition: streamDef, RequestData: []byte("q")}}
		for i := 1; i < nreq; i++ {
			msgs = append(msgs, &conformancev1.BidiStreamRequest{RequestData: []byte("more")})
		}
		body = verifC17Envelope(msgs...)
	default:
		return vL(vS("bad-case"))
	}
	ctx, cancel := context.WithTimeout(context.Background(), 20*time.Second)
	defer cancel()
	var rd io.Reader
	if method == http.MethodPost {
		rd = bytes.NewReader(body)
	}
	req, err := http.NewRequestWithContext(ctx, method, url, rd)
	if err != nil {
		return vErr("request")
	}
	if ctype != "" {
		req.Header.Set("Content-Type", ctype)
	}
	req.Header.Set("Connect-Protocol-Version", "1")
	req.Header.Set("X-Test-Case-Name", fmt.Sprintf("verif-c17-%d", verifC17Seq.Add(1)))
	resp, err := s.client.Do(req)
	if err != nil {
		return vErr("transport")
	}
	defer resp.Body.Close()
	got, err := io.ReadAll(resp.Body)
	if err != nil {
		return vErr("body")
	}
	if version == 1 && resp.ProtoMajor != 1 || version == 2 && resp.ProtoMajor != 2 {
		return vErr("http-version")
	}
	if len(resp.Header.Values(verifC17Marker)) > 0 {
		return vL(vI(1))
	}
	_, date := resp.Header["Date"]
	hdrs := verifC17HeaderSx(resp.Header, func(k string, vv []string) bool {
		switch k {
		case "Date", "Trailer", "Content-Length", "Transfer-Encoding", "Connection":
			return true
		case "Content-Type":
			return len(vv) == 1 && vv[0] == http.DetectContentType(got)
		}
		return false
	})
	// keys that were only announced in the Trailer header carry no value
	trls := verifC17HeaderSx(resp.Trailer, func(k string, vv []string) bool { return len(vv) == 0 })
	return vL(vI(0), vInt(resp.StatusCode), hdrs, trls, vB(got), vBool(date))
}

var _ = strings.TrimSpace
var _ = textproto.TrimString

// the oracle table of a case must be what the repository's compressors produce (the shrinker
// mutates tables; such candidates are ill-formed)
func verifC17TableOK(t vsx) bool {
	for _, e := range t.l {
		if len(e.l) != 3 {
			return false
		}
		c, err := compression.GetCompressor(conformancev1.Compression(e.l[0].i))
		if err != nil {
			return false
		}
		var buf bytes.Buffer
		c.Reset(&buf)
		_, _ = c.Write(e.l[1].b)
		_ = c.Close()
		if !bytes.Equal(buf.Bytes(), e.l[2].b) {
			return false
		}
	}
	return true
}
