//go:build verif

package referenceserver

import (
	"bytes"
	"context"
	"crypto/tls"
	"encoding/base64"
	"encoding/binary"
	"errors"
	"fmt"
	"io"
	"net"
	"net/http"
	"net/http/httptest"
	"net/textproto"
	"sort"
	"strings"
	"sync"
	"sync/atomic"
	"time"

	"connectrpc.com/conformance/internal"
	connect "connectrpc.com/connect"
	"connectrpc.com/conformance/internal/gen/proto/go/connectrpc/conformance/v1/conformancev1connect"
	"connectrpc.com/conformance/internal/compression"
	conformancev1 "connectrpc.com/conformance/internal/gen/proto/go/connectrpc/conformance/v1"
	"golang.org/x/net/http2"
	"google.golang.org/protobuf/proto"
	"google.golang.org/protobuf/types/known/anypb"
)

func init() {
	verifKinds["c17.writer"] = verifC17Writer
	verifKinds["c17.live"] = verifC17Live
	verifKinds["c17.cache"] = verifC17Cache
}

// ---- case decoding (same shapes as harness/C17/internal) ----

func verifC17Contents(v vsx) *conformancev1.MessageContents {
	if len(v.l) == 0 {
		return nil
	}
	c := &conformancev1.MessageContents{Compression: conformancev1.Compression(v.l[2].i)}
	d := append([]byte{}, v.l[1].b...)
	switch v.l[0].i {
	case 1:
		c.Data = &conformancev1.MessageContents_Binary{Binary: d}
	case 2:
		c.Data = &conformancev1.MessageContents_Text{Text: string(d)}
	case 3:
		c.Data = &conformancev1.MessageContents_BinaryMessage{BinaryMessage: &anypb.Any{TypeUrl: "type.googleapis.com/verif.C17", Value: d}}
	}
	return c
}

func verifC17Items(v vsx) *conformancev1.StreamContents {
	sc := &conformancev1.StreamContents{}
	for _, it := range v.l {
		item := &conformancev1.StreamContents_StreamItem{Flags: uint32(it.l[0].i), Payload: verifC17Contents(it.l[2])}
		if len(it.l[1].l) == 1 {
			n := uint32(it.l[1].l[0].i)
			item.Length = &n
		}
		sc.Items = append(sc.Items, item)
	}
	return sc
}

func verifC17Headers(v vsx) []*conformancev1.Header {
	var out []*conformancev1.Header
	for _, h := range v.l {
		out = append(out, &conformancev1.Header{Name: h.l[0].str(), Value: h.l[1].strs()})
	}
	return out
}

// resp: (status (headers) body (trailers)); body: (0) | (1 contents) | (2 (items))
func verifC17Resp(v vsx) *conformancev1.RawHTTPResponse {
	r := &conformancev1.RawHTTPResponse{
		StatusCode: uint32(v.l[0].i),
		Headers:    verifC17Headers(v.l[1]),
		Trailers:   verifC17Headers(v.l[3]),
	}
	switch b := v.l[2]; b.l[0].i {
	case 1:
		r.Body = &conformancev1.RawHTTPResponse_Unary{Unary: verifC17Contents(b.l[1])}
	case 2:
		r.Body = &conformancev1.RawHTTPResponse_Stream{Stream: verifC17Items(b.l[1])}
	}
	return r
}

func verifC17HeaderSx(h http.Header, skip func(k string, vv []string) bool) vsx {
	keys := make([]string, 0, len(h))
	for k := range h {
		keys = append(keys, k)
	}
	sort.Strings(keys)
	var out []vsx
	for _, k := range keys {
		if skip != nil && skip(k, h[k]) {
			continue
		}
		out = append(out, vL(vS(k), vStrs(h[k])))
	}
	return vL(out...)
}

// ---- kind 1: the real rawResponseWriter over an httptest.ResponseRecorder ----
// table snapshot ops -> ((op results) status (headers) #body (trailers) flushed)
// ops: (1 n v) Header().Add  (2 n v) Header().Set  (3 n) Header().Del  (4 code) WriteHeader
//      (5 bytes) Write  (6) Flush  (7 resp) setRawResponse (through the context, as handlers do)
//      (8) canSendResponse
func verifC17Writer(args []vsx) vsx {
	if !verifC17TableOK(args[0]) {
		return vL(vS("bad-case"))
	}
	rec := httptest.NewRecorder()
	note := func(name string) {}
	for _, h := range args[1].l {
		note(h.l[0].str())
		for _, v := range h.l[1].strs() {
			rec.Header().Add(h.l[0].str(), v)
		}
	}
	var results []vsx
	var firstWrite []byte
	var rw *rawResponseWriter
	var snapshot http.Header
	// exactly what rawResponder does around the handler
	handler := http.HandlerFunc(func(w http.ResponseWriter, req *http.Request) {
		rw, _ = w.(*rawResponseWriter)
		for _, op := range args[2].l {
			switch op.l[0].i {
			case 1:
				note(op.l[1].str())
				w.Header().Add(op.l[1].str(), op.l[2].str())
			case 2:
				note(op.l[1].str())
				w.Header().Set(op.l[1].str(), op.l[2].str())
			case 3:
				w.Header().Del(op.l[1].str())
			case 4:
				w.WriteHeader(int(op.l[1].i))
			case 5:
				if firstWrite == nil {
					firstWrite = append([]byte{}, op.l[1].b...)
				}
				n, err := w.Write(op.l[1].b)
				if err != nil {
					n = -1
				}
				results = append(results, vInt(n))
			case 6:
				w.(http.Flusher).Flush()
			case 7:
				resp := verifC17Resp(op.l[1])
				for _, h := range resp.Headers {
					note(h.Name)
				}
				results = append(results, vBool(setRawResponse(req.Context(), resp) == nil))
			case 8:
				results = append(results, vBool(rw.canSendResponse()))
			}
		}
	})
	_ = snapshot
	req := httptest.NewRequest(http.MethodPost, "/x", nil)
	rawResponder(handler).ServeHTTP(rec, req)
	res := rec.Result()
	body := rec.Body.Bytes()
	hdrs := verifC17HeaderSx(res.Header, func(k string, vv []string) bool {
		// net/http's content sniffing is not part of the model
		return k == "Content-Type" && len(vv) == 1 &&
			(vv[0] == http.DetectContentType(body) || firstWrite != nil && vv[0] == http.DetectContentType(firstWrite))
	})
	return vL(vL(results...), vInt(res.StatusCode), hdrs, vB(body), verifC17HeaderSx(res.Trailer, nil), vBool(rec.Flushed))
}

// ---- kind 2: the reference server as createServer builds it, over TCP, seen by a plain client ----

type verifC17Srv struct {
	addr   string
	client *http.Client
}

var (
	verifC17Mu   sync.Mutex
	verifC17Srvs = map[int64]*verifC17Srv{}
	verifC17Seq  atomic.Int64
)

func verifC17Server(version int64) *verifC17Srv {
	verifC17Mu.Lock()
	defer verifC17Mu.Unlock()
	if s := verifC17Srvs[version]; s != nil {
		return s
	}
	req := &conformancev1.ServerCompatRequest{
		Protocol:    conformancev1.Protocol_PROTOCOL_CONNECT,
		HttpVersion: conformancev1.HTTPVersion(version),
	}
	srv, _, err := createServer(req, "127.0.0.1:0", "", "", true, internal.NewPrinter(io.Discard), nil)
	if err != nil {
		panic(err)
	}
	go func() { _ = srv.Serve() }()
	s := &verifC17Srv{addr: srv.Addr()}
	if version == 1 {
		s.client = &http.Client{Transport: &http.Transport{DisableCompression: true}}
	} else {
		s.client = &http.Client{Transport: &http2.Transport{
			AllowHTTP:          true,
			DisableCompression: true,
			DialTLSContext: func(ctx context.Context, network, addr string, _ *tls.Config) (net.Conn, error) {
				return (&net.Dialer{}).DialContext(ctx, network, addr)
			},
		}}
	}
	for i := 0; i < 200; i++ {
		c, err := net.Dial("tcp", s.addr)
		if err == nil {
			c.Close()
			break
		}
		time.Sleep(10 * time.Millisecond)
	}
	verifC17Srvs[version] = s
	return s
}

const verifC17Marker = "X-Verif-Handler-Marker"

// mirrors live_observable of the model: what a net/http server can put on the wire at all
func verifC17LiveObservable(r *conformancev1.RawHTTPResponse) bool {
	st := r.StatusCode
	if !(st == 0 || st >= 200 && st <= 999) {
		return false
	}
	if st != 204 && st != 304 {
		return true
	}
	switch b := r.Body.(type) {
	case nil:
	case *conformancev1.RawHTTPResponse_Unary:
		if b.Unary != nil {
			return false
		}
	case *conformancev1.RawHTTPResponse_Stream:
		if len(b.Stream.GetItems()) > 0 {
			return false
		}
	}
	if len(r.Trailers) > 0 {
		return false
	}
	if st == 304 {
		for _, h := range r.Headers {
			if k := textproto.CanonicalMIMEHeaderKey(h.Name); k == "Content-Type" || k == "Content-Length" {
				return false
			}
		}
	}
	return true
}

func verifC17Envelope(msgs ...proto.Message) []byte {
	var out []byte
	for _, m := range msgs {
		b, _ := proto.Marshal(m)
		var p [5]byte
		binary.BigEndian.PutUint32(p[1:], uint32(len(b)))
		out = append(out, p[:]...)
		out = append(out, b...)
	}
	return out
}

// table version rpc (raw?) nreq -> (1) when the handler's own response arrived (marker header seen),
// else (0 status (headers) (trailers) #body date-present)
// rpc: 0 Unary, 1 IdempotentUnary (POST), 2 IdempotentUnary (GET), 3 ClientStream, 4 ServerStream, 5 BidiStream
func verifC17Live(args []vsx) vsx {
	if !verifC17TableOK(args[0]) {
		return vL(vS("bad-case"))
	}
	version, rpc, nreq := args[1].i, args[2].i, int(args[4].i)
	if version != 1 && version != 2 {
		return vL(vS("bad-case"))
	}
	var raw *conformancev1.RawHTTPResponse
	if len(args[3].l) == 1 {
		raw = verifC17Resp(args[3].l[0])
	}
	if raw != nil && !verifC17LiveObservable(raw) {
		return vL(vS("bad-case"))
	}
	marker := []*conformancev1.Header{{Name: verifC17Marker, Value: []string{"1"}}}
	unaryDef := &conformancev1.UnaryResponseDefinition{
		ResponseHeaders: marker,
		Response:        &conformancev1.UnaryResponseDefinition_ResponseData{ResponseData: []byte("VERIF-HANDLER-BODY")},
		RawResponse:     raw,
	}
	streamDef := &conformancev1.StreamResponseDefinition{
		ResponseHeaders: marker,
		ResponseData:    [][]byte{[]byte("VERIF-HANDLER-BODY-1"), []byte("VERIF-HANDLER-BODY-2")},
		RawResponse:     raw,
	}
	s := verifC17Server(version)
	base := "http://" + s.addr + "/connectrpc.conformance.v1.ConformanceService/"
	method, url, ctype := http.MethodPost, "", "application/connect+proto"
	var body []byte
	switch rpc {
	case 0:
		url, ctype = base+"Unary", "application/proto"
		body, _ = proto.Marshal(&conformancev1.UnaryRequest{ResponseDefinition: unaryDef, RequestData: []byte("q")})
	case 1:
		url, ctype = base+"IdempotentUnary", "application/proto"
		body, _ = proto.Marshal(&conformancev1.IdempotentUnaryRequest{ResponseDefinition: unaryDef, RequestData: []byte("q")})
	case 2:
		msg, _ := proto.Marshal(&conformancev1.IdempotentUnaryRequest{ResponseDefinition: unaryDef, RequestData: []byte("q")})
		method, ctype = http.MethodGet, ""
		url = base + "IdempotentUnary?connect=v1&encoding=proto&base64=1&message=" + base64.RawURLEncoding.EncodeToString(msg)
	case 3:
		url = base + "ClientStream"
		msgs := []proto.Message{&conformancev1.ClientStreamRequest{ResponseDefinition: unaryDef, RequestData: []byte("q")}}
		for i := 1; i < nreq; i++ {
			msgs = append(msgs, &conformancev1.ClientStreamRequest{RequestData: []byte("more")})
		}
		body = verifC17Envelope(msgs...)
	case 4:
		url = base + "ServerStream"
		body = verifC17Envelope(&conformancev1.ServerStreamRequest{ResponseDefinition: streamDef, RequestData: []byte("q")})
	case 5:
		url = base + "BidiStream"
		msgs := []proto.Message{&conformancev1.BidiStreamRequest{ResponseDefinition: streamDef, RequestData: []byte("q")}}
		for i := 1; i < nreq; i++ {
			msgs = append(msgs, &conformancev1.BidiStreamRequest{RequestData: []byte("more")})
		}
		body = verifC17Envelope(msgs...)
	default:
		return vL(vS("bad-case"))
	}
	ctx, cancel := context.WithTimeout(context.Background(), 20*time.Second)
	defer cancel()
	var rd io.Reader
	if method == http.MethodPost {
		rd = bytes.NewReader(body)
	}
	req, err := http.NewRequestWithContext(ctx, method, url, rd)
	if err != nil {
		return vErr("request")
	}
	if ctype != "" {
		req.Header.Set("Content-Type", ctype)
	}
	req.Header.Set("Connect-Protocol-Version", "1")
	req.Header.Set("X-Test-Case-Name", fmt.Sprintf("verif-c17-%d", verifC17Seq.Add(1)))
	resp, err := s.client.Do(req)
	if err != nil {
		return vErr("transport")
	}
	defer resp.Body.Close()
	got, err := io.ReadAll(resp.Body)
	if err != nil {
		return vErr("body")
	}
	if version == 1 && resp.ProtoMajor != 1 || version == 2 && resp.ProtoMajor != 2 {
		return vErr("http-version")
	}
	if len(resp.Header.Values(verifC17Marker)) > 0 {
		return vL(vI(1))
	}
	_, date := resp.Header["Date"]
	hdrs := verifC17HeaderSx(resp.Header, func(k string, vv []string) bool {
		switch k {
		case "Date", "Trailer", "Content-Length", "Transfer-Encoding", "Connection":
			return true
		case "Content-Type":
			return len(vv) == 1 && vv[0] == http.DetectContentType(got)
		}
		return false
	})
	// keys that were only announced in the Trailer header carry no value
	trls := verifC17HeaderSx(resp.Trailer, func(k string, vv []string) bool { return len(vv) == 0 })
	return vL(vI(0), vInt(resp.StatusCode), hdrs, trls, vB(got), vBool(date))
}

// ---- kind 3: rawResponseRecorder.WrapStreamingHandler / firstReqCachingStream over a scripted stream ----

// a connect.StreamingHandlerConn whose Receive outcomes are scripted: (0 code) an error (0 = io.EOF),
// (1 #data raw) a request message with that request data, with or without a raw response in its
// response definition; after the script io.EOF for ever
type verifC17Conn struct {
	proc   string
	script []vsx
	calls  int
	errs   map[int64]error
}

func (c *verifC17Conn) Spec() connect.Spec               { return connect.Spec{Procedure: c.proc, StreamType: connect.StreamTypeBidi} }
func (c *verifC17Conn) Peer() connect.Peer               { return connect.Peer{} }
func (c *verifC17Conn) RequestHeader() http.Header       { return http.Header{} }
func (c *verifC17Conn) Send(any) error                   { return nil }
func (c *verifC17Conn) ResponseHeader() http.Header      { return http.Header{} }
func (c *verifC17Conn) ResponseTrailer() http.Header     { return http.Header{} }
func (c *verifC17Conn) errOf(code int64) error {
	if code == 0 {
		return io.EOF
	}
	if c.errs[code] == nil {
		c.errs[code] = connect.NewError(connect.CodeInternal, fmt.Errorf("verif-%d", code))
	}
	return c.errs[code]
}
func (c *verifC17Conn) codeOf(err error) int64 {
	if err == io.EOF {
		return 0
	}
	for k, e := range c.errs {
		if e == err {
			return k
		}
	}
	return -1
}

func (c *verifC17Conn) Receive(dest any) error {
	c.calls++
	if len(c.script) == 0 {
		return io.EOF
	}
	x := c.script[0]
	c.script = c.script[1:]
	if x.l[0].i == 0 {
		return c.errOf(x.l[1].i)
	}
	msg, ok := dest.(proto.Message)
	if !ok {
		return fmt.Errorf("verif: not a message")
	}
	proto.Reset(msg)
	proto.Merge(msg, verifC17StreamMsg(c.proc, x.l[1].b, x.l[2].boolean()))
	return nil
}

func verifC17StreamMsg(proc string, data []byte, raw bool) proto.Message {
	var rr *conformancev1.RawHTTPResponse
	if raw {
		rr = &conformancev1.RawHTTPResponse{StatusCode: 201}
	}
	data = append([]byte{}, data...)
	switch proc {
	case conformancev1connect.ConformanceServiceClientStreamProcedure:
		return &conformancev1.ClientStreamRequest{RequestData: data, ResponseDefinition: &conformancev1.UnaryResponseDefinition{RawResponse: rr}}
	case conformancev1connect.ConformanceServiceServerStreamProcedure:
		return &conformancev1.ServerStreamRequest{RequestData: data, ResponseDefinition: &conformancev1.StreamResponseDefinition{RawResponse: rr}}
	default:
		return &conformancev1.BidiStreamRequest{RequestData: data, ResponseDefinition: &conformancev1.StreamResponseDefinition{RawResponse: rr}}
	}
}

func verifC17MsgSx(m proto.Message) vsx {
	switch msg := m.(type) {
	case *conformancev1.ClientStreamRequest:
		return vL(vI(1), vB(msg.GetRequestData()), vBool(msg.GetResponseDefinition().GetRawResponse() != nil))
	case *conformancev1.ServerStreamRequest:
		return vL(vI(1), vB(msg.GetRequestData()), vBool(msg.GetResponseDefinition().GetRawResponse() != nil))
	case *conformancev1.BidiStreamRequest:
		return vL(vI(1), vB(msg.GetRequestData()), vBool(msg.GetResponseDefinition().GetRawResponse() != nil))
	}
	return vL(vS("unknown-message"))
}

// proc started script n -> (1 (outcomes) calls) the handler ran | (0 calls stored ret) it did not
func verifC17Cache(all []vsx) vsx {
	if len(all) != 5 {
		return vL(vS("bad-case"))
	}
	args := all[1:] // all[0] is the (unused) oracle table
	var proc string
	switch args[0].i {
	case 0:
		proc = "/verif.Other/Stream"
	case 3:
		proc = conformancev1connect.ConformanceServiceClientStreamProcedure
	case 4:
		proc = conformancev1connect.ConformanceServiceServerStreamProcedure
	case 5:
		proc = conformancev1connect.ConformanceServiceBidiStreamProcedure
	default:
		return vL(vS("bad-case"))
	}
	n := int(args[3].i)
	if n < 0 || n > 8 {
		return vL(vS("bad-case"))
	}
	for _, x := range args[2].l {
		if len(x.l) < 2 || x.l[0].i == 0 && x.l[1].i < 0 {
			return vL(vS("bad-case"))
		}
	}
	conn := &verifC17Conn{proc: proc, script: args[2].l, errs: map[int64]error{}}
	rw := &rawResponseWriter{respWriter: httptest.NewRecorder()}
	if args[1].i != 0 {
		rw.canSendResponse() // a normal response has started
	}
	ctx := context.WithValue(context.Background(), rawResponseKey{}, rw)
	called := false
	var seen []vsx
	next := func(_ context.Context, stream connect.StreamingHandlerConn) error {
		called = true
		for i := 0; i < n; i++ {
			// the destination is dirty: Receive must replace, not merge into, its content
			dest := verifC17StreamMsg(proc, []byte("VERIF-JUNK"), true)
			if err := stream.Receive(dest); err != nil {
				seen = append(seen, vL(vI(0), vI(conn.codeOf(err))))
			} else {
				seen = append(seen, verifC17MsgSx(dest))
			}
		}
		return nil
	}
	err := rawResponseRecorder{}.WrapStreamingHandler(next)(ctx, conn)
	if called {
		if err != nil {
			return vErr("handler-error")
		}
		return vL(vI(1), vL(seen...), vInt(conn.calls))
	}
	ret := int64(3)
	var cerr *connect.Error
	switch {
	case err == nil:
		ret = 0
	case errors.Is(err, errNonRawResponseStarted):
		ret = 2
	case errors.As(err, &cerr) && cerr.Code() == connect.CodeAborted:
		ret = 1
	}
	return vL(vI(0), vInt(conn.calls), vBool(rw.rawResponse() != nil), vI(ret))
}

var _ = strings.TrimSpace
var _ = textproto.TrimString

// the oracle table of a case must be what the repository's compressors produce (the shrinker
// mutates tables; such candidates are ill-formed)
func verifC17TableOK(t vsx) bool {
	for _, e := range t.l {
		if len(e.l) != 3 {
			return false
		}
		c, err := compression.GetCompressor(conformancev1.Compression(e.l[0].i))
		if err != nil {
			return false
		}
		var buf bytes.Buffer
		c.Reset(&buf)
		_, _ = c.Write(e.l[1].b)
		_ = c.Close()
		if !bytes.Equal(buf.Bytes(), e.l[2].b) {
			return false
		}
	}
	return true
}
