//go:build verif

package referenceclient

import (
	"bytes"
	"context"
	"crypto/tls"
	"errors"
	"io"
	"net"
	"net/http"
	"net/http/httptest"
	"net/textproto"
	"sort"
	"strings"
	"sync"
	"time"

	"connectrpc.com/conformance/internal/compression"
	conformancev1 "connectrpc.com/conformance/internal/gen/proto/go/connectrpc/conformance/v1"
	"golang.org/x/net/http2"
	"golang.org/x/net/http2/h2c"
	"google.golang.org/protobuf/types/known/anypb"
)

func init() {
	verifKinds["c17.request"] = verifC17Request
}

func verifC17Contents(v vsx) *conformancev1.MessageContents {
	if len(v.l) == 0 {
		return nil
	}
	c := &conformancev1.MessageContents{Compression: conformancev1.Compression(v.l[2].i)}
	d := append([]byte{}, v.l[1].b...)
	switch v.l[0].i {
	case 1:
		c.Data = &conformancev1.MessageContents_Binary{Binary: d}
	case 2:
		c.Data = &conformancev1.MessageContents_Text{Text: string(d)}
	case 3:
		c.Data = &conformancev1.MessageContents_BinaryMessage{BinaryMessage: &anypb.Any{TypeUrl: "type.googleapis.com/verif.C17", Value: d}}
	}
	return c
}

func verifC17Items(v vsx) *conformancev1.StreamContents {
	sc := &conformancev1.StreamContents{}
	for _, it := range v.l {
		item := &conformancev1.StreamContents_StreamItem{Flags: uint32(it.l[0].i), Payload: verifC17Contents(it.l[2])}
		if len(it.l[1].l) == 1 {
			n := uint32(it.l[1].l[0].i)
			item.Length = &n
		}
		sc.Items = append(sc.Items, item)
	}
	return sc
}

func verifC17Headers(v vsx) []*conformancev1.Header {
	var out []*conformancev1.Header
	for _, h := range v.l {
		out = append(out, &conformancev1.Header{Name: h.l[0].str(), Value: h.l[1].strs()})
	}
	return out
}

// raw request: (verb uri (headers) (raw query params) ((name contents base64?)...) body)
func verifC17RawRequest(v vsx) *conformancev1.RawHTTPRequest {
	r := &conformancev1.RawHTTPRequest{
		Verb:           v.l[0].str(),
		Uri:            v.l[1].str(),
		Headers:        verifC17Headers(v.l[2]),
		RawQueryParams: verifC17Headers(v.l[3]),
	}
	for _, p := range v.l[4].l {
		r.EncodedQueryParams = append(r.EncodedQueryParams, &conformancev1.RawHTTPRequest_EncodedQueryParam{
			Name: p.l[0].str(), Value: verifC17Contents(p.l[1]), Base64Encode: p.l[2].boolean(),
		})
	}
	switch b := v.l[5]; b.l[0].i {
	case 1:
		r.Body = &conformancev1.RawHTTPRequest_Unary{Unary: verifC17Contents(b.l[1])}
	case 2:
		r.Body = &conformancev1.RawHTTPRequest_Stream{Stream: verifC17Items(b.l[1])}
	}
	return r
}

type verifC17Seen struct {
	method, target string
	query        map[string][]string
	header       http.Header
	body         []byte
	proto        int
}

var (
	verifC17Once sync.Once
	verifC17Srv  *httptest.Server
	verifC17Got  = make(chan *verifC17Seen, 16)
	verifC17H1   http.RoundTripper
	verifC17H2   http.RoundTripper
)

// a plain recording server (HTTP/1.1 and h2c on the same port)
func verifC17Start() {
	verifC17Once.Do(func() {
		rec := http.HandlerFunc(func(w http.ResponseWriter, r *http.Request) {
			body, _ := io.ReadAll(r.Body)
			verifC17Got <- &verifC17Seen{method: r.Method, target: verifC17Target(r), query: r.URL.Query(), header: r.Header.Clone(), body: body, proto: r.ProtoMajor}
			_, _ = w.Write([]byte("ok"))
		})
		verifC17Srv = httptest.NewServer(h2c.NewHandler(rec, &http2.Server{}))
		verifC17H1 = &http.Transport{DisableCompression: true}
		verifC17H2 = &http2.Transport{
			AllowHTTP:          true,
			DisableCompression: true,
			DialTLSContext: func(ctx context.Context, network, addr string, _ *tls.Config) (net.Conn, error) {
				return (&net.Dialer{}).DialContext(ctx, network, addr)
			},
		}
	})
}

// the request target as it was on the wire: r.RequestURI (request line / :path); it must agree with what
// net/http parsed from it (EscapedPath + RawQuery), else the observation is marked
func verifC17Target(r *http.Request) string {
	t := r.URL.EscapedPath()
	if r.URL.ForceQuery || r.URL.RawQuery != "" {
		t += "?" + r.URL.RawQuery
	}
	if t != r.RequestURI {
		return "INCONSISTENT " + r.RequestURI + " vs " + t
	}
	return r.RequestURI
}

var errVerifC17Glued = errors.New("verif: request is for another authority")

// the transport below rawRequestSender: refuses a request whose authority is not the given server's
// (a URI that does not start with '/', '?' or '#' runs into host, port or userinfo)
type verifC17Guard struct {
	next http.RoundTripper
	host string
}

func (g verifC17Guard) RoundTrip(req *http.Request) (*http.Response, error) {
	if req.URL.Host != g.host || req.URL.User != nil {
		if req.Body != nil {
			_ = req.Body.Close()
		}
		return nil, errVerifC17Glued
	}
	return g.next.RoundTrip(req)
}

// the query string written in the URI itself (before the fragment), nil if there is none
func verifC17URIQuery(uri string) (string, bool) {
	u, _, _ := strings.Cut(uri, "#")
	_, q, ok := strings.Cut(u, "?")
	return q, ok
}

// table version rawrequest -> (err) | (0 method path ((name (values))...) ((header (values))...) #body)
// The request connect-go "would have built" is a POST to /orig/path?orig=1 with its own header and body.
func verifC17Request(args []vsx) vsx {
	if !verifC17TableOK(args[0]) {
		return vL(vS("bad-case"))
	}
	verifC17Start()
	version := args[1].i
	if version != 1 && version != 2 {
		return vL(vS("bad-case"))
	}
	raw := verifC17RawRequest(args[2])
	// outside what the recording server can observe / what is modelled (mirrors uri_observable, uri_class)
	if q, ok := verifC17URIQuery(raw.Uri); ok {
		for i := 0; i < len(q); i++ {
			if q[i] == ' ' || q[i] >= 0x80 {
				return vL(vS("bad-case"))
			}
		}
	}
	if raw.Verb == "CONNECT" {
		return vL(vS("bad-case"))
	}
	hasParams := len(raw.RawQueryParams) > 0 || len(raw.EncodedQueryParams) > 0
	if hasParams && strings.HasPrefix(raw.Uri, "//") && !strings.HasPrefix(raw.Uri, "///") {
		return vL(vS("bad-case"))
	}
	transport := verifC17H1
	if version == 2 {
		transport = verifC17H2
	}
	for len(verifC17Got) > 0 {
		<-verifC17Got
	}
	ctx, cancel := context.WithTimeout(context.Background(), 20*time.Second)
	defer cancel()
	orig, err := http.NewRequestWithContext(ctx, http.MethodPost, verifC17Srv.URL+"/orig/path?orig=1", strings.NewReader("VERIF-ORIG-BODY"))
	if err != nil {
		return vL(vS("bad-case"))
	}
	orig.Header.Set("X-Verif-Orig-Marker", "1")
	orig.Header.Set("Content-Type", "application/x-verif-orig")
	sender := &rawRequestSender{transport: verifC17Guard{next: transport, host: orig.URL.Host}, rawRequest: raw}
	resp, err := sender.RoundTrip(orig)
	if err != nil {
		return vErr("roundtrip")
	}
	_, _ = io.Copy(io.Discard, resp.Body)
	_ = resp.Body.Close()
	var seen *verifC17Seen
	select {
	case seen = <-verifC17Got:
	case <-time.After(10 * time.Second):
		return vErr("nothing-received")
	}
	if int64(seen.proto) != version {
		return vErr("http-version")
	}
	names := map[string]bool{"X-Verif-Orig-Marker": true, "Content-Type": true}
	for _, h := range raw.Headers {
		names[textproto.CanonicalMIMEHeaderKey(h.Name)] = true
	}
	var hk []string
	for k := range seen.header {
		if names[k] {
			hk = append(hk, k)
		}
	}
	sort.Strings(hk)
	hdrs := make([]vsx, 0, len(hk))
	for _, k := range hk {
		hdrs = append(hdrs, vL(vS(k), vStrs(seen.header[k])))
	}
	var qk []string
	for k, vv := range seen.query {
		if len(vv) > 0 {
			qk = append(qk, k)
		}
	}
	sort.Strings(qk)
	qs := make([]vsx, 0, len(qk))
	for _, k := range qk {
		qs = append(qs, vL(vS(k), vStrs(seen.query[k])))
	}
	return vL(vI(0), vS(seen.method), vS(seen.target), vL(qs...), vL(hdrs...), vB(seen.body))
}

var _ = bytes.Equal

// the oracle table of a case must be what the repository's compressors produce (the shrinker
// mutates tables; such candidates are ill-formed)
func verifC17TableOK(t vsx) bool {
	for _, e := range t.l {
		if len(e.l) != 3 {
			return false
		}
		c, err := compression.GetCompressor(conformancev1.Compression(e.l[0].i))
		if err != nil {
			return false
		}
		var buf bytes.Buffer
		c.Reset(&buf)
		_, _ = c.Write(e.l[1].b)
		_ = c.Close()
		if !bytes.Equal(buf.Bytes(), e.l[2].b) {
			return false
		}
	}
	return true
}
