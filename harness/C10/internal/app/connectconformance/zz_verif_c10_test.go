//go:build verif

package connectconformance

import (
	"bytes"
	"context"
	"encoding/binary"
	"errors"
	"fmt"
	"io"
	"math/rand"
	"os"
	"runtime"
	"sort"
	"strconv"
	"strings"
	"sync"
	"sync/atomic"
	"testing"
	"time"

	"connectrpc.com/conformance/internal"
	conformancev1 "connectrpc.com/conformance/internal/gen/proto/go/connectrpc/conformance/v1"
	"google.golang.org/protobuf/proto"
)

func init() {
	verifKinds["c10.script"] = verifC10Script
}

// How long the harness waits for an expected event before declaring the run stuck.
// Nothing depends on this value when the code behaves (all waits are for conditions).
const verifC10Patience = 15 * time.Second

// verifC10Until polls cond (cheap, mutex/atomic reads) until it holds.
func verifC10Until(cond func() bool) bool {
	for i := 0; i < 200; i++ {
		if cond() {
			return true
		}
		runtime.Gosched()
	}
	deadline := time.Now().Add(verifC10Patience)
	for !cond() {
		if time.Now().After(deadline) {
			return false
		}
		time.Sleep(30 * time.Microsecond)
	}
	return true
}

// ---------------------------------------------------------------------------
// instrumentation wrapped around the REAL process/pipes made by runInProcess
// ---------------------------------------------------------------------------

// verifC10Gate sits between consumeOutput and the real stdout pipe: the reader may only
// pull as many bytes (and see EOF only) when the script says so.
type verifC10Gate struct {
	inner     io.Reader
	mu        sync.Mutex
	cond      *sync.Cond
	budget    int
	eofOK     bool
	enters    int
	exits     int
	parked    bool
	gotErr    bool
	delivered int
}

func (g *verifC10Gate) Read(p []byte) (int, error) {
	g.mu.Lock()
	g.enters++
	for g.budget == 0 && !g.eofOK {
		g.parked = true
		g.cond.Wait()
	}
	g.parked = false
	n := len(p)
	limited := g.budget > 0
	if limited && n > g.budget {
		n = g.budget
	}
	g.mu.Unlock()
	k, err := g.inner.Read(p[:n])
	g.mu.Lock()
	if limited {
		g.budget -= k
	}
	g.delivered += k
	g.exits++
	if err != nil {
		g.gotErr = true
	}
	g.mu.Unlock()
	return k, err
}

func (g *verifC10Gate) allow(n int) {
	g.mu.Lock()
	g.budget += n
	g.cond.Broadcast()
	g.mu.Unlock()
}

func (g *verifC10Gate) allowEOF() {
	g.mu.Lock()
	g.eofOK = true
	g.cond.Broadcast()
	g.mu.Unlock()
}

// reader consumed `total` bytes so far and is parked again asking for more
func (g *verifC10Gate) parkedAfter(total int) bool {
	g.mu.Lock()
	defer g.mu.Unlock()
	return g.delivered == total && g.budget == 0 && g.parked && g.enters == g.exits+1
}

func (g *verifC10Gate) sawErr() bool {
	g.mu.Lock()
	defer g.mu.Unlock()
	return g.gotErr
}

// verifC10In records which goroutines reached a Write on the client's stdin (a sender that
// is registered and inside WriteDelimitedMessage).
type verifC10In struct {
	inner io.WriteCloser
	mu    sync.Mutex
	seen  map[string]bool
}

func (w *verifC10In) Write(p []byte) (int, error) {
	id := verifC10Goid()
	w.mu.Lock()
	w.seen[id] = true
	w.mu.Unlock()
	return w.inner.Write(p)
}
func (w *verifC10In) entered(goid string) bool {
	w.mu.Lock()
	defer w.mu.Unlock()
	return w.seen[goid]
}
func (w *verifC10In) Close() error { return w.inner.Close() }

// verifC10Ctl wraps the real processController: abort() is observable, and the whenDone
// callback registered by runClient runs only when the script says so.
type verifC10Ctl struct {
	inner   processController
	aborted atomic.Bool
	aborts  atomic.Int64
	release chan struct{}
	noticed atomic.Bool
}

func (c *verifC10Ctl) result() error { return c.inner.result() }
func (c *verifC10Ctl) abort() {
	c.inner.abort()
	c.aborted.Store(true)
	c.aborts.Add(1)
}
func (c *verifC10Ctl) whenDone(action func(error)) {
	c.inner.whenDone(func(err error) {
		<-c.release
		action(err)
		c.noticed.Store(true)
	})
}

// the scripted client: does exactly what the harness tells it, one command at a time
type verifC10Cmd struct {
	op   int // 0 read one request, 1 read 4 bytes, 2 write data, 3 close stdout, 4 close stdin, 5 exit
	data []byte
	fail bool
}

type verifC10Fake struct {
	cmds chan verifC10Cmd
	acks chan string
	out  io.WriteCloser
	set  chan struct{}
}

var errVerifC10Exit = errors.New("verif: scripted client exits with an error")

func (f *verifC10Fake) run(_ context.Context, _ []string, in io.ReadCloser, out, _ io.WriteCloser) error {
	f.out = out
	close(f.set)
	for c := range f.cmds {
		switch c.op {
		case 0:
			var pre [4]byte
			if _, err := io.ReadFull(in, pre[:]); err != nil {
				f.acks <- "!" + err.Error()
				continue
			}
			body := make([]byte, binary.BigEndian.Uint32(pre[:]))
			if _, err := io.ReadFull(in, body); err != nil {
				f.acks <- "!" + err.Error()
				continue
			}
			req := &conformancev1.ClientCompatRequest{}
			if err := protoUnmarshalC10(body, req); err != nil {
				f.acks <- "!" + err.Error()
				continue
			}
			f.acks <- req.TestName
		case 1:
			var pre [4]byte
			_, _ = io.ReadFull(in, pre[:])
			f.acks <- ""
		case 2:
			if _, err := out.Write(c.data); err != nil {
				f.acks <- "!" + err.Error()
			} else {
				f.acks <- ""
			}
		case 3:
			_ = out.Close()
			f.acks <- ""
		case 4:
			_ = in.Close()
			f.acks <- ""
		case 5:
			f.acks <- ""
			if c.fail {
				return errVerifC10Exit
			}
			return nil
		}
	}
	return nil
}

func (f *verifC10Fake) do(c verifC10Cmd) (string, bool) {
	select {
	case f.cmds <- c:
	case <-time.After(verifC10Patience):
		return "", false
	}
	select {
	case a := <-f.acks:
		return a, true
	case <-time.After(verifC10Patience):
		return "", false
	}
}

type verifC10Fire struct {
	id   int64
	name string
	resp bool
	tag  string
	code int64
}

type verifC10Sender struct {
	id       int64
	name     string
	goid     string
	done     chan error
	returned bool
	ret      error
}

func (s *verifC10Sender) poll() bool {
	if s.returned {
		return true
	}
	select {
	case e := <-s.done:
		s.returned, s.ret = true, e
		return true
	default:
		return false
	}
}

func verifC10Goid() string {
	var buf [64]byte
	n := runtime.Stack(buf[:], false)
	f := strings.Fields(string(buf[:n]))
	if len(f) >= 2 {
		return f[1]
	}
	return "?"
}

// is goroutine `goid` parked in sync.Mutex.Lock ?
func verifC10BlockedOnMutex(goid string) bool {
	buf := make([]byte, 1<<18)
	n := runtime.Stack(buf, true)
	s := string(buf[:n])
	i := strings.Index(s, "goroutine "+goid+" [")
	if i < 0 {
		return false
	}
	j := strings.IndexByte(s[i:], '\n')
	if j < 0 {
		return false
	}
	head := s[i : i+j]
	return strings.Contains(head, "sync.Mutex.Lock") || strings.Contains(head, "semacquire")
}

func verifC10ErrCode(err error) int64 {
	switch {
	case err == nil:
		return 0
	case errors.Is(err, errClosed):
		return 1
	case errors.Is(err, errDuplicate):
		return 2
	case errors.Is(err, io.ErrUnexpectedEOF):
		return 3
	case errors.Is(err, errNoOutcome):
		return 5
	case errors.Is(err, errVerifC10Exit):
		return 6
	case errors.Is(err, context.DeadlineExceeded):
		return 7
	default:
		return 4
	}
}

func protoUnmarshalC10(b []byte, m *conformancev1.ClientCompatRequest) error {
	// go through the package's own reader so that the fake decodes what the runner framed
	var buf bytes.Buffer
	var pre [4]byte
	binary.BigEndian.PutUint32(pre[:], uint32(len(b)))
	buf.Write(pre[:])
	buf.Write(b)
	return internal.ReadDelimitedMessage(&buf, m, "verif", time.Second, 1<<24)
}

var verifC10Stuck atomic.Int64

type verifC10Run struct {
	runner  *clientProcessRunner
	fake    *verifC10Fake
	gate    *verifC10Gate
	stdin   *verifC10In
	ctl     *verifC10Ctl
	local   *localProcess
	mu      sync.Mutex
	fires   []verifC10Fire
	senders map[int64]*verifC10Sender

	unsent      []byte
	written     int  // bytes handed to the real stdout pipe so far
	outClosed   bool // script closed stdout (real close may be pending)
	realClosed  bool
	inClosed    bool
	exited      bool
	inflight    int64 // sender inside its write, -1 none
	blocked     int64 // sender parked on sendMu, -1 none
	reader      int   // 0 running, 1 stopped (wants sendMu), 2 closed send, 3 done
	stopDone    chan struct{}
	waitRes     *int64
}

func verifC10Start() (*verifC10Run, error) {
	r := &verifC10Run{senders: map[int64]*verifC10Sender{}, inflight: -1, blocked: -1}
	r.fake = &verifC10Fake{cmds: make(chan verifC10Cmd), acks: make(chan string, 1), set: make(chan struct{})}
	real := runInProcess([]string{"verif-c10"}, r.fake.run)
	starter := func(ctx context.Context, pipeStderr bool) (*process, error) {
		p, err := real(ctx, pipeStderr)
		if err != nil {
			return nil, err
		}
		r.local, _ = p.processController.(*localProcess)
		r.ctl = &verifC10Ctl{inner: p.processController, release: make(chan struct{})}
		p.processController = r.ctl
		r.gate = &verifC10Gate{inner: p.stdout}
		r.gate.cond = sync.NewCond(&r.gate.mu)
		p.stdout = r.gate
		r.stdin = &verifC10In{inner: p.stdin, seen: map[string]bool{}}
		p.stdin = r.stdin
		return p, nil
	}
	cr, err := runClient(context.Background(), starter)
	if err != nil {
		return nil, err
	}
	var ok bool
	r.runner, ok = cr.(*clientProcessRunner)
	if !ok || r.local == nil {
		return nil, errors.New("unexpected runner/process type")
	}
	select {
	case <-r.fake.set:
	case <-time.After(verifC10Patience):
		return nil, errors.New("fake client did not start")
	}
	return r, nil
}

func (r *verifC10Run) readerDone() bool {
	select {
	case <-r.runner.done:
		return true
	default:
		return false
	}
}

func (r *verifC10Run) procDone() bool {
	select {
	case <-r.local.done:
		return true
	default:
		return false
	}
}

// next complete item at the head of the unsent client output (framing as in delimited.go)
func (r *verifC10Run) nextItem() int {
	if len(r.unsent) < 4 {
		return 0
	}
	size := int(binary.BigEndian.Uint32(r.unsent[:4]))
	if size > maxClientResponseSize {
		return 4
	}
	if len(r.unsent)-4 < size {
		return 0
	}
	return 4 + size
}

func (r *verifC10Run) deliver(n int) string {
	data := r.unsent[:n]
	r.unsent = r.unsent[n:]
	r.written += n
	r.gate.allow(n)
	if a, ok := r.fake.do(verifC10Cmd{op: 2, data: data}); !ok || a != "" {
		return "client-write-not-consumed"
	}
	return ""
}

// after the reader left its loop: with sendMu free the clean-up runs through
func (r *verifC10Run) readerStopped() {
	r.reader = 1
}

// the model decodes exactly the message shapes the generator writes; a body on which the
// model's decoder and protobuf-go would disagree is outside the compared domain
func verifC10ShapeOK(m []byte) bool {
	if len(m) == 0 {
		return true
	}
	if len(m) < 2 || m[0] != 10 {
		return false
	}
	l := int(m[1])
	r := m[2:]
	if l >= 128 || l > len(r) {
		return false
	}
	rest := r[l:]
	if len(rest) == 0 {
		return true
	}
	if len(rest) >= 4 && rest[0] == 26 && rest[2] == 10 {
		l2, l3, t := int(rest[1]), int(rest[3]), rest[4:]
		return l3 < 126 && l2 == l3+2 && len(t) == l3
	}
	return false
}

func (r *verifC10Run) rstep() string {
	if r.reader != 0 {
		return ""
	}
	if n := r.nextItem(); n > 4 {
		body := r.unsent[4:n]
		probe := &conformancev1.ClientCompatResponse{}
		if (proto.Unmarshal(body, probe) == nil) != verifC10ShapeOK(body) {
			return "bad-case"
		}
	} else if n == 4 && binary.BigEndian.Uint32(r.unsent[:4]) == 0 {
		return "bad-case" // zero-length frame: io.Pipe parks a zero-length Read until the next write
	}
	aborts0 := r.ctl.aborts.Load()
	failed := func() bool { return r.ctl.aborts.Load() > aborts0 }
	if n := r.nextItem(); n > 0 {
		if s := r.deliver(n); s != "" {
			return s
		}
		total := r.written
		if !verifC10Until(func() bool { return r.gate.parkedAfter(total) || failed() }) {
			return "reader-did-not-settle"
		}
		if !r.gate.parkedAfter(total) {
			r.readerStopped()
		}
		return ""
	}
	if !r.outClosed {
		return "" // blocked in Read
	}
	tail := len(r.unsent)
	if tail > 0 {
		if s := r.deliver(tail); s != "" {
			return s
		}
		total := r.written
		if !verifC10Until(func() bool { return r.gate.parkedAfter(total) || failed() }) {
			return "reader-did-not-settle"
		}
	}
	if !r.realClosed {
		if _, ok := r.fake.do(verifC10Cmd{op: 3}); !ok {
			return "fake-stuck"
		}
		r.realClosed = true
	}
	r.gate.allowEOF()
	if !verifC10Until(func() bool { return r.gate.sawErr() }) {
		return "reader-did-not-see-eof"
	}
	if tail > 0 {
		if !verifC10Until(failed) {
			return "no-abort-after-truncated-output"
		}
	}
	r.readerStopped()
	return ""
}

func (r *verifC10Run) startSender(id int64, name string) *verifC10Sender {
	s := &verifC10Sender{id: id, name: name, done: make(chan error, 1)}
	r.senders[id] = s
	ready := make(chan struct{})
	go func() {
		s.goid = verifC10Goid()
		close(ready)
		req := &conformancev1.ClientCompatRequest{TestName: name}
		s.done <- r.runner.sendRequest(req, func(n string, resp *conformancev1.ClientCompatResponse, err error) {
			f := verifC10Fire{id: id, name: n}
			if resp != nil {
				f.resp = true
				f.tag = resp.GetError().GetMessage()
				if resp.TestName != n {
					f.tag = "!name-mismatch"
				}
			}
			f.code = verifC10ErrCode(err)
			if err != nil {
				var fe *failedToGetResultError
				if !errors.As(err, &fe) {
					f.code = 9
				}
			}
			r.mu.Lock()
			r.fires = append(r.fires, f)
			r.mu.Unlock()
		})
	}()
	<-ready
	return s
}

func (r *verifC10Run) act(a vsx, next *vsx) string {
	op := a.l[0].i
	nextIs := func(code int64, id int64) bool {
		if next == nil || next.l[0].i != code {
			return false
		}
		return id < 0 || next.l[1].i == id
	}
	// forceability: a reader that left its loop runs its clean-up as soon as sendMu is free
	if r.reader == 1 && r.inflight < 0 && op != 10 {
		return "bad-case"
	}
	if r.reader == 2 && op != 11 {
		return "bad-case"
	}
	switch op {
	case 0: // SendCheck i n
		id := a.l[1].i
		if _, dup := r.senders[id]; dup || len(a.l[2].b) == 0 || len(a.l[2].b) > 100 {
			return "bad-case"
		}
		if r.blocked >= 0 {
			return "bad-case"
		}
		ep := r.runner.err.Load()
		errSet := ep != nil && *ep != nil
		if r.inflight >= 0 && r.reader == 1 && !errSet {
			return "bad-case" // two goroutines would wait for sendMu
		}
		if r.inflight < 0 && !errSet && !nextIs(1, id) {
			return "bad-case" // nothing can hold a sender between its err check and sendMu.Lock
		}
		s := r.startSender(id, a.l[2].str())
		if r.inflight >= 0 {
			// sendMu is held by a writer: the new sender returns at the err check or parks on the mutex
			if !verifC10Until(func() bool { return s.poll() || verifC10BlockedOnMutex(s.goid) }) {
				return "sender-neither-returned-nor-parked"
			}
			if !s.returned {
				r.blocked = id
			}
			return ""
		}
		if !verifC10Until(func() bool { return s.poll() || r.stdin.entered(s.goid) }) {
			return "sender-neither-returned-nor-writing"
		}
		if r.stdin.entered(s.goid) { // (it may have failed and returned already)
			r.inflight = id
		}
		return ""
	case 1: // SendLock i
		id := a.l[1].i
		s := r.senders[id]
		if s == nil {
			return "bad-case"
		}
		if r.blocked == id {
			// it got the mutex when the previous writer released it
			if r.inflight >= 0 {
				return "bad-case"
			}
			if !verifC10Until(func() bool { return s.poll() || r.stdin.entered(s.goid) }) {
				return "sender-neither-returned-nor-writing"
			}
			r.blocked = -1
			if r.stdin.entered(s.goid) { // (it may have failed and returned already)
				r.inflight = id
			}
		}
		if r.inflight == id && r.inClosed && !nextIs(3, id) {
			return "bad-case"
		}
		return ""
	case 2, 3: // WriteOk i / WriteFail i
		id := a.l[1].i
		s := r.senders[id]
		if s == nil || r.inflight != id {
			return "bad-case"
		}
		if op == 2 {
			if r.inClosed || r.exited {
				return "bad-case"
			}
			got, ok := r.fake.do(verifC10Cmd{op: 0})
			if !ok {
				return "fake-stuck"
			}
			if got != s.name {
				return "client-read-other-request"
			}
		} else if !r.inClosed {
			return "bad-case"
		}
		if !verifC10Until(s.poll) {
			return "writer-did-not-return"
		}
		r.inflight = -1
		if r.blocked >= 0 && (r.reader == 1 || !nextIs(1, r.blocked)) {
			return "bad-case"
		}
		return ""
	case 4: // COut bytes
		if r.exited || r.outClosed {
			return "bad-case"
		}
		r.unsent = append(r.unsent, a.l[1].b...)
		return ""
	case 5: // CCloseOut
		if r.exited {
			return "bad-case"
		}
		r.outClosed = true
		return ""
	case 6: // CCloseIn
		if r.exited {
			return "bad-case"
		}
		if _, ok := r.fake.do(verifC10Cmd{op: 4}); !ok {
			return "fake-stuck"
		}
		r.inClosed = true
		if r.inflight >= 0 && !nextIs(3, r.inflight) {
			return "bad-case"
		}
		return ""
	case 7: // ProcExit failed peek
		if r.exited {
			return "bad-case"
		}
		if a.l[2].i != 0 && r.inflight >= 0 && !r.inClosed {
			if _, ok := r.fake.do(verifC10Cmd{op: 1}); !ok {
				return "fake-stuck"
			}
		}
		if _, ok := r.fake.do(verifC10Cmd{op: 5, fail: a.l[1].i != 0}); !ok {
			return "fake-stuck"
		}
		if !verifC10Until(r.procDone) {
			return "process-did-not-end"
		}
		r.exited, r.inClosed, r.outClosed, r.realClosed = true, true, true, true
		r.unsent = nil
		if r.inflight >= 0 && !nextIs(3, r.inflight) {
			return "bad-case"
		}
		return ""
	case 8: // ExitNotice
		if !r.exited || r.ctl.noticed.Load() {
			return "bad-case"
		}
		close(r.ctl.release)
		if !verifC10Until(r.ctl.noticed.Load) {
			return "no-exit-notice"
		}
		return ""
	case 9:
		if r.blocked >= 0 {
			// a stopping reader would compete with the parked sender for sendMu: only
			// steps that keep the reader running are forceable here (the generator knows)
			s := r.rstep()
			if s == "" && r.reader != 0 {
				return "bad-case"
			}
			return s
		}
		return r.rstep()
	case 10: // RClose
		if r.reader != 1 || r.inflight >= 0 {
			return "bad-case"
		}
		r.reader = 2
		if !nextIs(11, -1) {
			return "bad-case"
		}
		return ""
	case 11: // RDrain
		if r.reader != 2 {
			return "bad-case"
		}
		if !verifC10Until(r.readerDone) {
			return "reader-clean-up-did-not-finish"
		}
		r.reader = 3
		r.inClosed = true
		return ""
	case 12: // CloseSend
		if r.inflight >= 0 || r.reader == 1 || r.reader == 2 {
			return "bad-case"
		}
		done := make(chan struct{})
		go func() { r.runner.closeSend(); close(done) }()
		select {
		case <-done:
		case <-time.After(verifC10Patience):
			return "closeSend-stuck"
		}
		r.inClosed = true
		return ""
	case 13: // Stop
		if r.stopDone != nil {
			return "bad-case"
		}
		r.stopDone = make(chan struct{})
		go func() { r.runner.stop(); close(r.stopDone) }()
		if !verifC10Until(func() bool { return r.ctl.aborted.Load() && r.runner.terminated.Load() }) {
			return "stop-did-not-mark-terminated"
		}
		return ""
	case 14: // Wait
		if r.reader != 3 || !r.exited {
			return "bad-case"
		}
		ch := make(chan error, 1)
		go func() { ch <- r.runner.waitForResponses() }()
		select {
		case e := <-ch:
			c := verifC10ErrCode(e)
			r.waitRes = &c
		case <-time.After(verifC10Patience):
			return "waitForResponses-did-not-return"
		}
		return ""
	}
	return "bad-case"
}

// cleanup ends every goroutine of the run; a run that cannot be ended is a hang
func (r *verifC10Run) cleanup() string {
	if !r.exited {
		done := make(chan struct{})
		go func() {
			defer close(done)
			select {
			case r.fake.cmds <- verifC10Cmd{op: 5}:
				<-r.fake.acks
			case <-r.local.done:
			}
		}()
		select {
		case <-done:
		case <-time.After(verifC10Patience):
			_ = r.fake.out.Close()
			return "fake-client-stuck"
		}
	}
	r.gate.allow(1 << 30)
	r.gate.allowEOF()
	select {
	case <-r.ctl.release:
	default:
		close(r.ctl.release)
	}
	if !verifC10Until(func() bool {
		for _, s := range r.senders {
			if !s.poll() {
				return false
			}
		}
		return r.readerDone() && r.procDone() && r.ctl.noticed.Load()
	}) {
		return "goroutines-left-behind"
	}
	if r.stopDone != nil {
		select {
		case <-r.stopDone:
		case <-time.After(verifC10Patience):
			return "stop-did-not-return"
		}
	}
	return ""
}

// (actions) (request ids) -> ((isRunning after each action) ((id ret (callbacks))...) done wait)
func verifC10Script(args []vsx) vsx {
	if verifC10Stuck.Load() >= 4 {
		// every stuck run costs the full patience; do not let a broken tree take hours
		return vL(vS("stuck"), vS("skipped-after-several-stuck-runs"))
	}
	r, err := verifC10Start()
	if err != nil {
		return vErr("start")
	}
	acts := args[0].l
	running := make([]vsx, 0, len(acts))
	problem := ""
	for k := range acts {
		var next *vsx
		if k+1 < len(acts) {
			next = &acts[k+1]
		}
		if problem = r.act(acts[k], next); problem != "" {
			break
		}
		running = append(running, vBool(r.runner.isRunning()))
	}
	if problem == "" && ((r.reader == 1 && r.inflight < 0) || r.reader == 2) {
		problem = "bad-case" // the real clean-up has already run on
	}
	var per []vsx
	if problem == "" {
		r.mu.Lock()
		fires := append([]verifC10Fire(nil), r.fires...)
		r.mu.Unlock()
		for _, idv := range args[1].l {
			id := idv.i
			ret := vL()
			if s := r.senders[id]; s != nil && s.poll() {
				ret = vL(vI(verifC10ErrCode(s.ret)))
			}
			var fs []vsx
			for _, f := range fires {
				if f.id != id {
					continue
				}
				if f.resp && f.code == 0 {
					fs = append(fs, vL(vI(0), vS(f.name), vS(f.tag)))
				} else if !f.resp && f.code != 0 {
					fs = append(fs, vL(vI(1), vS(f.name), vI(f.code)))
				} else {
					fs = append(fs, vL(vI(2), vS(f.name))) // neither/both: never in the model
				}
			}
			per = append(per, vL(vI(id), ret, vL(fs...)))
		}
	}
	done := r.readerDone()
	wait := vL()
	if r.waitRes != nil {
		wait = vL(vI(*r.waitRes))
	}
	if c := r.cleanup(); c != "" && problem == "" {
		problem = "cleanup:" + c
	}
	if problem == "bad-case" {
		return vL(vS("bad-case"))
	}
	if problem != "" {
		verifC10Stuck.Add(1)
		return vL(vS("stuck"), vS(problem))
	}
	return vL(vL(running...), vL(vL(per...), vBool(done), wait))
}

// TestVerifConsts prints the constants of the compiled code as Coq definitions.
func TestVerifConsts(t *testing.T) {
	out := os.Getenv("VERIF_OUT")
	if out == "" {
		t.Skip("VERIF_OUT not set")
	}
	var b bytes.Buffer
	if err := internal.WriteDelimitedMessage(&b, &conformancev1.ClientCompatResponse{}); err != nil {
		t.Fatal(err)
	}
	s := fmt.Sprintf("Definition c10_max_response : N := %d%%N.\nDefinition c10_prefix_len : N := %d%%N.\n",
		maxClientResponseSize, b.Len())
	if err := os.WriteFile(out, []byte(s), 0o644); err != nil {
		t.Fatal(err)
	}
}

// ---------------------------------------------------------------------------
// free-running stress under the race detector: concurrent senders against a client that
// answers in random order and fails at a random point; only the property's invariants
// are checked (no schedule is forced, nothing is compared with the model).
// ---------------------------------------------------------------------------
type verifC10Loose struct {
	rng      *rand.Rand
	failKind int // 0 none (answer all, exit at stdin EOF), 1 exit ok, 2 exit err, 3 unknown, 4 dup answer, 5 oversize, 6 garbage, 7 truncated, 8 close stdout and keep reading
	failAt   int
	batch    int
}

func (c *verifC10Loose) run(ctx context.Context, _ []string, in io.ReadCloser, out, _ io.WriteCloser) error {
	reqs := make(chan string, 1024)
	go func() {
		defer close(reqs)
		for {
			req := &conformancev1.ClientCompatRequest{}
			if err := internal.ReadDelimitedMessage(in, req, "verif", time.Minute, 1<<24); err != nil {
				return
			}
			reqs <- req.TestName
		}
	}()
	write := func(b []byte) bool {
		done := make(chan error, 1)
		go func() { _, err := out.Write(b); done <- err }()
		select {
		case err := <-done:
			return err == nil
		case <-ctx.Done():
			return false
		}
	}
	respBytes := func(name string) []byte {
		var b bytes.Buffer
		_ = internal.WriteDelimitedMessage(&b, &conformancev1.ClientCompatResponse{
			TestName: name,
			Result:   &conformancev1.ClientCompatResponse_Error{Error: &conformancev1.ClientErrorResult{Message: "t:" + name}},
		})
		return b.Bytes()
	}
	answered := 0
	var last string
	var held []string
	flush := func() (bool, error) {
		c.rng.Shuffle(len(held), func(i, j int) { held[i], held[j] = held[j], held[i] })
		for _, n := range held {
			if c.failKind != 0 && answered >= c.failAt {
				switch c.failKind {
				case 1:
					return true, nil
				case 2:
					return true, errVerifC10Exit
				case 3:
					write(respBytes("nobody-asked"))
				case 4:
					if last == "" {
						return true, nil
					}
					write(respBytes(last))
				case 5:
					write([]byte{0x7f, 0xff, 0xff, 0xff, 1, 2})
				case 6:
					write([]byte{0, 0, 0, 3, 10, 5, 97})
				case 7:
					b := respBytes(n)
					write(b[:1+c.rng.Intn(len(b)-1)])
					return true, nil
				case 8:
					_ = out.Close()
					for range reqs {
					}
					return true, nil
				}
				<-ctx.Done() // the runner aborts a client that misbehaved
				return true, nil
			}
			if !write(respBytes(n)) {
				return true, nil
			}
			answered++
			last = n
		}
		held = held[:0]
		return false, nil
	}
	for {
		select {
		case n, ok := <-reqs:
			if !ok {
				if stop, err := flush(); stop {
					return err
				}
				return nil
			}
			held = append(held, n)
			if len(held) >= c.batch {
				if stop, err := flush(); stop {
					return err
				}
			}
		case <-ctx.Done():
			return nil
		}
	}
}

func TestVerifC10Race(t *testing.T) {
	out := os.Getenv("VERIF_OUT")
	if out == "" {
		t.Skip("VERIF_OUT not set")
	}
	rounds, _ := strconv.Atoi(os.Getenv("VERIF_C10_ROUNDS"))
	if rounds <= 0 {
		rounds = 100
	}
	seed, _ := strconv.ParseInt(os.Getenv("VERIF_SEED"), 10, 64)
	rng := rand.New(rand.NewSource(seed*7919 + 10))
	problem := ""
	total, accepted, refused, failedRounds := 0, 0, 0, 0
	for round := 0; round < rounds && problem == ""; round++ {
		nSenders := 1 + rng.Intn(8)
		perSender := 1 + rng.Intn(12)
		client := &verifC10Loose{rng: rand.New(rand.NewSource(rng.Int63())), failKind: rng.Intn(9), batch: 1 + rng.Intn(6)}
		if rng.Intn(3) == 0 {
			client.failKind = 0
		}
		client.failAt = rng.Intn(nSenders*perSender + 1)
		runner, err := runClient(context.Background(), runInProcess([]string{"verif-c10-race"}, client.run))
		if err != nil {
			problem = "problem: runClient: " + err.Error()
			break
		}
		type call struct {
			name  string
			ret   error
			fires atomic.Int64
			bad   atomic.Bool
		}
		var mu sync.Mutex
		var calls []*call
		var wg sync.WaitGroup
		for s := 0; s < nSenders; s++ {
			wg.Add(1)
			go func(s int, dupes bool) {
				defer wg.Done()
				for k := 0; k < perSender; k++ {
					name := fmt.Sprintf("S%d/case%d", s, k)
					if dupes && k%3 == 2 {
						name = fmt.Sprintf("shared/case%d", k)
					}
					c := &call{name: name}
					c.ret = runner.sendRequest(&conformancev1.ClientCompatRequest{TestName: name},
						func(n string, resp *conformancev1.ClientCompatResponse, err error) {
							c.fires.Add(1)
							if n != name || (resp == nil) == (err == nil) {
								c.bad.Store(true)
							}
							if resp != nil && (resp.TestName != name || resp.GetError().GetMessage() != "t:"+name) {
								c.bad.Store(true)
							}
						})
					mu.Lock()
					calls = append(calls, c)
					mu.Unlock()
				}
			}(s, rng.Intn(2) == 0)
		}
		sent := make(chan struct{})
		go func() { wg.Wait(); close(sent) }()
		select {
		case <-sent:
		case <-time.After(60 * time.Second):
			problem = fmt.Sprintf("problem: round %d: a sendRequest call never returned (client kind %d)", round, client.failKind)
			continue
		}
		runner.closeSend()
		waited := make(chan error, 1)
		go func() { waited <- runner.waitForResponses() }()
		select {
		case <-waited:
		case <-time.After(60 * time.Second):
			problem = fmt.Sprintf("problem: round %d: waitForResponses did not return (client kind %d)", round, client.failKind)
			continue
		}
		if !verifC10Until(func() bool { return !runner.isRunning() }) {
			problem = fmt.Sprintf("problem: round %d: isRunning() still true after the client ended and waitForResponses returned (client kind %d)", round, client.failKind)
			continue
		}
		if err := runner.sendRequest(&conformancev1.ClientCompatRequest{TestName: "after-the-end"}, func(string, *conformancev1.ClientCompatResponse, error) {}); err == nil {
			problem = fmt.Sprintf("problem: round %d: a request sent after the end was accepted", round)
			continue
		}
		anyRefused := false
		for _, c := range calls {
			total++
			n := c.fires.Load()
			switch {
			case c.bad.Load():
				problem = fmt.Sprintf("problem: round %d: callback of %q got another test's response, or neither/both of response and error", round, c.name)
			case c.ret == nil && n != 1:
				problem = fmt.Sprintf("problem: round %d: request %q was accepted but its callback fired %d times (client kind %d)", round, c.name, n, client.failKind)
			case c.ret != nil && n != 0:
				problem = fmt.Sprintf("problem: round %d: request %q was refused but its callback fired %d times", round, c.name, n)
			}
			if c.ret == nil {
				accepted++
			} else {
				refused++
				anyRefused = true
			}
		}
		if anyRefused {
			failedRounds++
		}
	}
	if problem == "" {
		problem = fmt.Sprintf("ok rounds=%d requests=%d accepted=%d refused=%d rounds_with_refusals=%d", rounds, total, accepted, refused, failedRounds)
	}
	if err := os.WriteFile(out, []byte(problem+"\n"), 0o644); err != nil {
		t.Fatal(err)
	}
}

var _ = sort.Strings
