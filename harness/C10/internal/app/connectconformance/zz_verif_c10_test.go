//go:build verif

package connectconformance

import (
	"bytes"
	"context"
	"encoding/binary"
	"errors"
	"fmt"
	"io"
	"math/rand"
	"os"
	"path/filepath"
	"runtime"
	"sort"
	"strconv"
	"strings"
	"sync"
	"sync/atomic"
	"testing"
	"time"

	"connectrpc.com/conformance/internal"
	conformancev1 "connectrpc.com/conformance/internal/gen/proto/go/connectrpc/conformance/v1"
	"google.golang.org/protobuf/proto"
)

func init() {
	verifKinds["c10.script"] = func(args []vsx) vsx { return verifC10Watchdog(verifC10Script, args) }
	verifKinds["c10.proc"] = func(args []vsx) vsx { return verifC10Watchdog(verifC10Proc, args) }
	verifKinds["c10.whendone"] = func(args []vsx) vsx { return verifC10Watchdog(verifC10WhenDone, args) }
}

// How long the harness waits for an expected event before declaring the run hung.
// Nothing depends on this value when the code behaves (all waits are for conditions, and
// every wait of every case is bounded by it: a Go-side hang is the outcome `(hang <where>)`
// of that case, never a dead test binary).  The first hang of a test binary is given the
// full patience (generous: the machine may be loaded); once one hang has been established
// the tree is broken anyway and later waits in the same binary are cut short, and after a
// few hangs the remaining cases are not run at all (so that a tree on which thousands of
// cases hang - and the shrinker working on it - still finishes in minutes).
// Runs on behalf of the shrinker ($VERIF_CASES = shrink.*) only look for the first candidate
// that still fails, and what they find is evaluated once more in a run of its own with the
// full patience before it is reported: they wait 3 s and stop at the first hang.
const (
	verifC10Patience      = 15 * time.Second
	verifC10PatienceAfter = 2500 * time.Millisecond
	verifC10MaxHangs      = 3
	verifC10CaseDeadline  = 120 * time.Second
)

var verifC10Hangs atomic.Int64

var verifC10ShrinkRun = strings.HasPrefix(filepath.Base(os.Getenv("VERIF_CASES")), "shrink.")

func verifC10Wait() time.Duration {
	if verifC10ShrinkRun {
		return 3 * time.Second
	}
	if verifC10Hangs.Load() > 0 {
		return verifC10PatienceAfter
	}
	return verifC10Patience
}

func verifC10TooManyHangs() bool {
	n := verifC10Hangs.Load()
	return n >= verifC10MaxHangs || (verifC10ShrinkRun && n >= 1)
}

// per-case watchdog: whatever blocks inside a case (also something the step-wise waits do not
// cover), the case answers (hang ...) and the binary goes on with the next one
func verifC10Watchdog(f func([]vsx) vsx, args []vsx) vsx {
	if verifC10TooManyHangs() {
		return vL(vS("bad-case")) // not run: see above (the first hangs have been reported)
	}
	ch := make(chan vsx, 1)
	go func() {
		defer func() {
			if recover() != nil {
				ch <- vCrash()
			}
		}()
		ch <- f(args)
	}()
	select {
	case v := <-ch:
		return v
	case <-time.After(verifC10CaseDeadline):
		verifC10Hangs.Add(1)
		return vL(vS("hang"), vS("case-deadline"))
	}
}

// verifC10Until polls cond (cheap, mutex/atomic reads) until it holds.
func verifC10Until(cond func() bool) bool {
	for i := 0; i < 200; i++ {
		if cond() {
			return true
		}
		runtime.Gosched()
	}
	deadline := time.Now().Add(verifC10Wait())
	for !cond() {
		if time.Now().After(deadline) {
			return false
		}
		time.Sleep(30 * time.Microsecond)
	}
	return true
}

// ---------------------------------------------------------------------------
// instrumentation wrapped around the REAL process/pipes made by runInProcess
// ---------------------------------------------------------------------------

// verifC10Gate sits between consumeOutput and the real stdout pipe: the reader may only
// pull as many bytes (and see EOF only) when the script says so.
type verifC10Gate struct {
	inner     io.Reader
	mu        sync.Mutex
	cond      *sync.Cond
	budget    int
	eofOK     bool
	enters    int
	exits     int
	parked    bool
	gotErr    bool
	delivered int
}

func (g *verifC10Gate) Read(p []byte) (int, error) {
	g.mu.Lock()
	g.enters++
	for g.budget == 0 && !g.eofOK {
		g.parked = true
		g.cond.Wait()
	}
	g.parked = false
	n := len(p)
	limited := g.budget > 0
	if limited && n > g.budget {
		n = g.budget
	}
	g.mu.Unlock()
	k, err := g.inner.Read(p[:n])
	g.mu.Lock()
	if limited {
		g.budget -= k
	}
	g.delivered += k
	g.exits++
	if err != nil {
		g.gotErr = true
	}
	g.mu.Unlock()
	return k, err
}

func (g *verifC10Gate) allow(n int) {
	g.mu.Lock()
	g.budget += n
	g.cond.Broadcast()
	g.mu.Unlock()
}

func (g *verifC10Gate) allowEOF() {
	g.mu.Lock()
	g.eofOK = true
	g.cond.Broadcast()
	g.mu.Unlock()
}

// reader consumed `total` bytes so far and is parked again asking for more
func (g *verifC10Gate) parkedAfter(total int) bool {
	g.mu.Lock()
	defer g.mu.Unlock()
	return g.delivered == total && g.budget == 0 && g.parked && g.enters == g.exits+1
}

// bytes the reader has taken so far
func (g *verifC10Gate) pulled() int {
	g.mu.Lock()
	defer g.mu.Unlock()
	return g.delivered
}

func (g *verifC10Gate) sawErr() bool {
	g.mu.Lock()
	defer g.mu.Unlock()
	return g.gotErr
}

// verifC10In records which goroutines reached a Write on the client's stdin (a sender that
// is registered and inside WriteDelimitedMessage), and plays the pipe that fails the write
// of one request after k bytes with an error that is NOT io.ErrClosedPipe.
type verifC10In struct {
	inner io.WriteCloser
	mu    sync.Mutex
	seen  map[string]bool
	plan  map[string]int // goroutine -> number of bytes of its request that get through
	off   map[string]int
}

var errVerifC10Pipe = errors.New("verif: scripted failure of the client's stdin (not a closed pipe)")

func (w *verifC10In) Write(p []byte) (int, error) {
	id := verifC10Goid()
	w.mu.Lock()
	w.seen[id] = true
	limit, planned := w.plan[id]
	off := w.off[id]
	if planned && off+len(p) <= limit {
		w.off[id] = off + len(p)
	}
	w.mu.Unlock()
	if planned && off+len(p) > limit {
		n := limit - off
		if n > 0 {
			if k, err := w.inner.Write(p[:n]); err != nil {
				return k, err // the pipe was closed first
			}
		}
		return n, errVerifC10Pipe
	}
	return w.inner.Write(p)
}
func (w *verifC10In) failAfter(goid string, k int) {
	w.mu.Lock()
	w.plan[goid] = k
	w.mu.Unlock()
}
func (w *verifC10In) entered(goid string) bool {
	w.mu.Lock()
	defer w.mu.Unlock()
	return w.seen[goid]
}
func (w *verifC10In) Close() error { return w.inner.Close() }

// verifC10Ctl wraps the real processController: abort() is observable, and the whenDone
// callback registered by runClient runs only when the script says so.
type verifC10Ctl struct {
	inner   processController
	aborted atomic.Bool
	aborts  atomic.Int64
	release chan struct{}
	noticed atomic.Bool
}

func (c *verifC10Ctl) result() error { return c.inner.result() }
func (c *verifC10Ctl) abort() {
	c.inner.abort()
	c.aborted.Store(true)
	c.aborts.Add(1)
}
func (c *verifC10Ctl) whenDone(action func(error)) {
	c.inner.whenDone(func(err error) {
		<-c.release
		action(err)
		c.noticed.Store(true)
	})
}

// the scripted client: does exactly what the harness tells it, one command at a time
type verifC10Cmd struct {
	op   int // 0 read one request, 1 read 4 bytes, 2 write data, 3 close stdout, 4 close stdin, 5 exit, 6 read n bytes
	data []byte
	fail bool
	n    int
}

type verifC10Fake struct {
	cmds chan verifC10Cmd
	acks chan string
	out  io.WriteCloser
	set  chan struct{}
}

var errVerifC10Exit = errors.New("verif: scripted client exits with an error")

func (f *verifC10Fake) run(_ context.Context, _ []string, in io.ReadCloser, out, _ io.WriteCloser) error {
	f.out = out
	close(f.set)
	for c := range f.cmds {
		switch c.op {
		case 0:
			var pre [4]byte
			if _, err := io.ReadFull(in, pre[:]); err != nil {
				f.acks <- "!" + err.Error()
				continue
			}
			body := make([]byte, binary.BigEndian.Uint32(pre[:]))
			if _, err := io.ReadFull(in, body); err != nil {
				f.acks <- "!" + err.Error()
				continue
			}
			req := &conformancev1.ClientCompatRequest{}
			if err := protoUnmarshalC10(body, req); err != nil {
				f.acks <- "!" + err.Error()
				continue
			}
			f.acks <- req.TestName
		case 1:
			var pre [4]byte
			_, _ = io.ReadFull(in, pre[:])
			f.acks <- ""
		case 2:
			if _, err := out.Write(c.data); err != nil {
				f.acks <- "!" + err.Error()
			} else {
				f.acks <- ""
			}
		case 3:
			_ = out.Close()
			f.acks <- ""
		case 4:
			_ = in.Close()
			f.acks <- ""
		case 5:
			f.acks <- ""
			if c.fail {
				return errVerifC10Exit
			}
			return nil
		case 6:
			if _, err := io.ReadFull(in, make([]byte, c.n)); err != nil {
				f.acks <- "!" + err.Error()
			} else {
				f.acks <- ""
			}
		}
	}
	return nil
}

func (f *verifC10Fake) do(c verifC10Cmd) (string, bool) {
	select {
	case f.cmds <- c:
	case <-time.After(verifC10Wait()):
		return "", false
	}
	select {
	case a := <-f.acks:
		return a, true
	case <-time.After(verifC10Wait()):
		return "", false
	}
}

// one callback invocation: what the callback saw when it ran, and the response object it was
// handed, which is kept and looked at AGAIN at the end of the case (a callback may keep its
// response: "that test's own response" must still be that test's own then)
type verifC10Fire struct {
	id     int64
	name   string
	resp   bool
	tag    string
	code   int64
	kept   *conformancev1.ClientCompatResponse
	digest string
}

func verifC10Digest(m *conformancev1.ClientCompatResponse) string {
	b, err := proto.MarshalOptions{Deterministic: true}.Marshal(m)
	if err != nil {
		return "!" + err.Error()
	}
	return string(b)
}

func verifC10NewFire(id int64, n string, resp *conformancev1.ClientCompatResponse, err error) verifC10Fire {
	f := verifC10Fire{id: id, name: n}
	if resp != nil {
		f.resp = true
		f.kept = resp
		f.digest = verifC10Digest(resp)
		f.tag = resp.GetError().GetMessage()
		if resp.TestName != n {
			f.tag = "!name-mismatch"
		}
	}
	f.code = verifC10ErrCode(err)
	if err != nil {
		var fe *failedToGetResultError
		if !errors.As(err, &fe) {
			f.code = 9
		}
	}
	return f
}

// the response as it reads NOW (at the end of the case)
func (f *verifC10Fire) final() vsx {
	if f.resp && f.code == 0 {
		tag := f.tag
		switch {
		case f.kept.GetTestName() != f.name:
			tag = "!response-now-names-" + f.kept.GetTestName()
		case verifC10Digest(f.kept) != f.digest || f.kept.GetError().GetMessage() != f.tag:
			tag = "!response-changed-after-the-callback"
		}
		return vL(vI(0), vS(f.name), vS(tag))
	}
	if !f.resp && f.code != 0 {
		return vL(vI(1), vS(f.name), vI(f.code))
	}
	return vL(vI(2), vS(f.name)) // neither/both: never in the model
}

type verifC10Sender struct {
	id       int64
	name     string
	kind     int64 // 0 ordinary, 1 cannot be marshalled, 2 stdin fails after failAt bytes
	failAt   int
	instant  bool // its write fails without touching the pipe: the goroutine cannot be held in it
	goid     string
	done     chan error
	returned bool
	ret      error
}

func (s *verifC10Sender) poll() bool {
	if s.returned {
		return true
	}
	select {
	case e := <-s.done:
		s.returned, s.ret = true, e
		return true
	default:
		return false
	}
}

func verifC10Goid() string {
	var buf [64]byte
	n := runtime.Stack(buf[:], false)
	f := strings.Fields(string(buf[:n]))
	if len(f) >= 2 {
		return f[1]
	}
	return "?"
}

// is goroutine `goid` parked in sync.Mutex.Lock ?
func verifC10BlockedOnMutex(goid string) bool {
	buf := make([]byte, 1<<18)
	n := runtime.Stack(buf, true)
	s := string(buf[:n])
	i := strings.Index(s, "goroutine "+goid+" [")
	if i < 0 {
		return false
	}
	j := strings.IndexByte(s[i:], '\n')
	if j < 0 {
		return false
	}
	head := s[i : i+j]
	return strings.Contains(head, "sync.Mutex.Lock") || strings.Contains(head, "semacquire")
}

func verifC10ErrCode(err error) int64 {
	switch {
	case err == nil:
		return 0
	case errors.Is(err, errClosed):
		return 1
	case errors.Is(err, errDuplicate):
		return 2
	case errors.Is(err, io.ErrUnexpectedEOF):
		return 3
	case errors.Is(err, errNoOutcome):
		return 5
	case errors.Is(err, errVerifC10Exit):
		return 6
	case errors.Is(err, errVerifC10Pipe):
		return 4
	case errors.Is(err, context.DeadlineExceeded):
		return 7
	default:
		return 4
	}
}

func protoUnmarshalC10(b []byte, m *conformancev1.ClientCompatRequest) error {
	// go through the package's own reader so that the fake decodes what the runner framed
	var buf bytes.Buffer
	var pre [4]byte
	binary.BigEndian.PutUint32(pre[:], uint32(len(b)))
	buf.Write(pre[:])
	buf.Write(b)
	return internal.ReadDelimitedMessage(&buf, m, "verif", time.Second, 1<<24)
}

type verifC10Run struct {
	runner  *clientProcessRunner
	fake    *verifC10Fake
	gate    *verifC10Gate
	stdin   *verifC10In
	ctl     *verifC10Ctl
	local   *localProcess
	mu      sync.Mutex
	fires   []verifC10Fire
	senders map[int64]*verifC10Sender

	unsent      []byte
	written     int  // bytes handed to the real stdout pipe so far
	outClosed   bool // script closed stdout (real close may be pending)
	realClosed  bool
	inClosed    bool
	exited      bool
	inflight    int64 // sender inside its write, -1 none
	blocked     int64 // sender parked on sendMu, -1 none
	reader      int   // 0 running, 1 stopped (wants sendMu), 2 closed send, 3 done
	prevOp      int64 // the previous action of the script
	prevID      int64
	stopDone    chan struct{}
	waitRes     *int64
}

func verifC10Start() (*verifC10Run, error) {
	r := &verifC10Run{senders: map[int64]*verifC10Sender{}, inflight: -1, blocked: -1}
	r.fake = &verifC10Fake{cmds: make(chan verifC10Cmd), acks: make(chan string, 1), set: make(chan struct{})}
	real := runInProcess([]string{"verif-c10"}, r.fake.run)
	starter := func(ctx context.Context, pipeStderr bool) (*process, error) {
		p, err := real(ctx, pipeStderr)
		if err != nil {
			return nil, err
		}
		r.local, _ = p.processController.(*localProcess)
		r.ctl = &verifC10Ctl{inner: p.processController, release: make(chan struct{})}
		p.processController = r.ctl
		r.gate = &verifC10Gate{inner: p.stdout}
		r.gate.cond = sync.NewCond(&r.gate.mu)
		p.stdout = r.gate
		r.stdin = &verifC10In{inner: p.stdin, seen: map[string]bool{}, plan: map[string]int{}, off: map[string]int{}}
		p.stdin = r.stdin
		return p, nil
	}
	cr, err := runClient(context.Background(), starter)
	if err != nil {
		return nil, err
	}
	var ok bool
	r.runner, ok = cr.(*clientProcessRunner)
	if !ok || r.local == nil {
		return nil, errors.New("unexpected runner/process type")
	}
	select {
	case <-r.fake.set:
	case <-time.After(verifC10Wait()):
		return nil, errors.New("fake client did not start")
	}
	return r, nil
}

func (r *verifC10Run) readerDone() bool {
	select {
	case <-r.runner.done:
		return true
	default:
		return false
	}
}

func (r *verifC10Run) procDone() bool {
	select {
	case <-r.local.done:
		return true
	default:
		return false
	}
}

// next complete item at the head of the unsent client output (framing as in delimited.go)
func (r *verifC10Run) nextItem() int {
	if len(r.unsent) < 4 {
		return 0
	}
	size := int(binary.BigEndian.Uint32(r.unsent[:4]))
	if size > maxClientResponseSize {
		return 4
	}
	if len(r.unsent)-4 < size {
		return 0
	}
	return 4 + size
}

func (r *verifC10Run) deliver(n int) string {
	data := r.unsent[:n]
	r.unsent = r.unsent[n:]
	r.written += n
	r.gate.allow(n)
	aborts0 := r.ctl.aborts.Load()
	select {
	case r.fake.cmds <- verifC10Cmd{op: 2, data: data}:
	case <-time.After(verifC10Wait()):
		return "client-write-not-consumed"
	}
	deadline := time.After(verifC10Wait() + time.Duration(n/1000)*time.Millisecond)
	tick := time.NewTicker(20 * time.Millisecond)
	defer tick.Stop()
	for {
		select {
		case a := <-r.fake.acks:
			if a != "" {
				return "client-write-not-consumed"
			}
			return ""
		case <-tick.C:
			// the reader consumes a complete item that the client may send IN FULL before it decides
			// anything; if it has aborted the client while the client is still writing, it has
			// turned down a message it must take (nobody will ever read the rest)
			if r.ctl.aborts.Load() > aborts0 && r.gate.pulled() < r.written {
				return "reader-aborted-the-client-in-the-middle-of-a-complete-message-within-the-size-limit"
			}
		case <-deadline:
			return "client-write-not-consumed"
		}
	}
}

// after the reader left its loop: with sendMu free the clean-up runs through
func (r *verifC10Run) readerStopped() {
	r.reader = 1
}

// the model decodes exactly the message shapes the generator writes; a body on which the
// model's decoder and protobuf-go would disagree is outside the compared domain
func verifC10ShapeOK(m []byte) bool {
	if len(m) == 0 {
		return true
	}
	if len(m) < 2 || m[0] != 10 {
		return false
	}
	l := int(m[1])
	r := m[2:]
	if l >= 128 || l > len(r) {
		return false
	}
	rest := r[l:]
	if len(rest) == 0 {
		return true
	}
	if len(rest) >= 4 && rest[0] == 26 && rest[2] == 10 {
		l2, l3, t := int(rest[1]), int(rest[3]), rest[4:]
		return l3 < 126 && l2 == l3+2 && l3 <= len(t) && verifC10IsPad(t[l3:])
	}
	if rest[0] == 122 {
		return verifC10IsPad(rest)
	}
	return false
}

// C10_Model.is_pad: nothing, or ONE padding field (field 15 - unknown to ClientCompatResponse -,
// length-delimited, varint of at most 5 bytes) that takes everything up to the end
func verifC10IsPad(t []byte) bool {
	if len(t) == 0 {
		return true
	}
	if t[0] != 122 {
		return false
	}
	v, k, shift := 0, 1, 0
	for {
		if k >= len(t) || k > 5 {
			return false
		}
		b := int(t[k])
		v += (b & 127) << shift
		shift += 7
		k++
		if b < 128 {
			break
		}
	}
	return len(t)-k == v
}

func verifC10VarintLen(v int) int {
	switch {
	case v < 1<<7:
		return 1
	case v < 1<<14:
		return 2
	case v < 1<<21:
		return 3
	case v < 1<<28:
		return 4
	}
	return 5
}

// C10_Model.padded_out / pad_for: the answer (name, marker) padded to an encoded size of exactly
// <base> + delta bytes (base 0: 0, 1: the limit of the server-response reader, 2: the limit of the
// client-output reader - the constants this binary was compiled with), framed.  An answer larger
// than what the client may send is not built: its 4-byte prefix is all a correct reader looks at.
func verifC10Padded(name, tag []byte, base, delta int64) ([]byte, bool) {
	var lb int64
	switch base {
	case 0:
	case 1:
		lb = maxServerResponseSize
	case 2:
		lb = maxClientResponseSize
	default:
		return nil, false
	}
	total := lb + delta
	if total < 0 || total >= 1<<32 || len(name) == 0 || len(name) >= 100 || len(tag) >= 100 {
		return nil, false
	}
	plain := []byte{10, byte(len(name))}
	plain = append(plain, name...)
	if len(tag) > 0 {
		plain = append(plain, 26, byte(len(tag)+2), 10, byte(len(tag)))
		plain = append(plain, tag...)
	}
	pad := -1
	for k := 1; k <= 4 && pad < 0; k++ {
		if p := int(total) - len(plain) - 1 - k; p >= 0 && verifC10VarintLen(p) == k {
			pad = p
		}
	}
	if pad < 0 {
		return nil, false
	}
	var pre [4]byte
	binary.BigEndian.PutUint32(pre[:], uint32(total))
	if total > maxClientResponseSize {
		return pre[:], true
	}
	out := make([]byte, 0, 4+int(total))
	out = append(out, pre[:]...)
	out = append(out, plain...)
	out = append(out, 122)
	for v := pad; ; v >>= 7 {
		if v < 128 {
			out = append(out, byte(v))
			break
		}
		out = append(out, byte(128+v&127))
	}
	out = append(out, make([]byte, pad)...)
	if len(out) != 4+int(total) {
		return nil, false
	}
	return out, true
}

func (r *verifC10Run) rstep() string {
	if r.reader != 0 {
		return ""
	}
	if n := r.nextItem(); n > 4 {
		body := r.unsent[4:n]
		probe := &conformancev1.ClientCompatResponse{}
		if (proto.Unmarshal(body, probe) == nil) != verifC10ShapeOK(body) {
			return "bad-case"
		}
	} else if n == 4 && binary.BigEndian.Uint32(r.unsent[:4]) == 0 {
		return "bad-case" // zero-length frame: io.Pipe parks a zero-length Read until the next write
	}
	aborts0 := r.ctl.aborts.Load()
	failed := func() bool { return r.ctl.aborts.Load() > aborts0 }
	if n := r.nextItem(); n > 0 {
		if s := r.deliver(n); s != "" {
			return s
		}
		total := r.written
		if !verifC10Until(func() bool { return r.gate.parkedAfter(total) || failed() }) {
			return "reader-did-not-settle"
		}
		if !r.gate.parkedAfter(total) {
			r.readerStopped()
		}
		return ""
	}
	if !r.outClosed {
		return "" // blocked in Read
	}
	tail := len(r.unsent)
	if tail > 0 {
		if s := r.deliver(tail); s != "" {
			return s
		}
		total := r.written
		if !verifC10Until(func() bool { return r.gate.parkedAfter(total) || failed() }) {
			return "reader-did-not-settle"
		}
	}
	if !r.realClosed {
		if _, ok := r.fake.do(verifC10Cmd{op: 3}); !ok {
			return "fake-stuck"
		}
		r.realClosed = true
	}
	r.gate.allowEOF()
	if !verifC10Until(func() bool { return r.gate.sawErr() }) {
		return "reader-did-not-see-eof"
	}
	if tail > 0 {
		if !verifC10Until(failed) {
			return "no-abort-after-truncated-output"
		}
	}
	r.readerStopped()
	return ""
}

// kind 0: an ordinary request; 1: a request that proto.Marshal refuses (invalid UTF-8 in a proto3
// string field); 2: the client's stdin fails after k bytes (mod the request's framed length) of it
func (r *verifC10Run) startSender(id int64, name string, kind int64, k int64) *verifC10Sender {
	s := &verifC10Sender{id: id, name: name, kind: kind, done: make(chan error, 1)}
	req := &conformancev1.ClientCompatRequest{TestName: name}
	switch kind {
	case 1:
		req.Host = "caf\xe9"
		s.instant = true
	case 2:
		s.failAt = int(k % int64(4+proto.Size(req)))
		s.instant = s.failAt == 0
	}
	r.senders[id] = s
	ready := make(chan struct{})
	go func() {
		s.goid = verifC10Goid()
		if kind == 2 {
			r.stdin.failAfter(s.goid, s.failAt)
		}
		close(ready)
		s.done <- r.runner.sendRequest(req, func(n string, resp *conformancev1.ClientCompatResponse, err error) {
			f := verifC10NewFire(id, n, resp, err)
			r.mu.Lock()
			r.fires = append(r.fires, f)
			r.mu.Unlock()
		})
	}()
	<-ready
	return s
}

func (r *verifC10Run) act(a vsx, next *vsx) string {
	prevOp, prevID := r.prevOp, r.prevID
	r.prevOp, r.prevID = a.l[0].i, -1
	if len(a.l) > 1 && a.l[1].k == 'i' {
		r.prevID = a.l[1].i
	}
	op := a.l[0].i
	nextIs := func(code int64, id int64) bool {
		if next == nil || next.l[0].i != code {
			return false
		}
		return id < 0 || next.l[1].i == id
	}
	// forceability: a reader that left its loop runs its clean-up as soon as sendMu is free
	if r.reader == 1 && r.inflight < 0 && op != 10 {
		return "bad-case"
	}
	if r.reader == 2 && op != 11 {
		return "bad-case"
	}
	switch op {
	case 0: // SendCheck i n
		id := a.l[1].i
		if _, dup := r.senders[id]; dup || len(a.l[2].b) == 0 || len(a.l[2].b) > 100 {
			return "bad-case"
		}
		kind, failAt := int64(0), int64(0)
		if len(a.l) > 3 {
			kind = a.l[3].i
			if kind == 2 && len(a.l) > 4 {
				failAt = a.l[4].i
			}
			if kind < 0 || kind > 2 || failAt < 0 {
				return "bad-case"
			}
		}
		if r.blocked >= 0 {
			return "bad-case"
		}
		ep := r.runner.err.Load()
		errSet := ep != nil && *ep != nil
		if r.inflight >= 0 && r.reader == 1 && !errSet {
			return "bad-case" // two goroutines would wait for sendMu
		}
		if r.inflight < 0 && !errSet && !nextIs(1, id) {
			return "bad-case" // nothing can hold a sender between its err check and sendMu.Lock
		}
		s := r.startSender(id, a.l[2].str(), kind, failAt)
		if r.inflight >= 0 {
			// sendMu is held by a writer: the new sender returns at the err check or parks on the mutex
			if !verifC10Until(func() bool { return s.poll() || verifC10BlockedOnMutex(s.goid) }) {
				return "sender-neither-returned-nor-parked"
			}
			if !s.returned {
				r.blocked = id
			}
			return ""
		}
		if !verifC10Until(func() bool { return s.poll() || r.stdin.entered(s.goid) }) {
			return "sender-neither-returned-nor-writing"
		}
		if s.instant {
			// its write (if it gets that far) fails at once: SendLock and WriteFail follow directly
			if !verifC10Until(s.poll) {
				return "sender-did-not-return"
			}
		} else if r.stdin.entered(s.goid) { // (it may have failed and returned already)
			r.inflight = id
		}
		return ""
	case 1: // SendLock i
		id := a.l[1].i
		s := r.senders[id]
		if s == nil {
			return "bad-case"
		}
		if r.blocked == id {
			// it got the mutex when the previous writer released it
			if r.inflight >= 0 {
				return "bad-case"
			}
			if !verifC10Until(func() bool { return s.poll() || r.stdin.entered(s.goid) }) {
				return "sender-neither-returned-nor-writing"
			}
			r.blocked = -1
			if s.instant {
				if !verifC10Until(s.poll) {
					return "sender-did-not-return"
				}
			} else if r.stdin.entered(s.goid) { // (it may have failed and returned already)
				r.inflight = id
			}
		}
		if s.instant && !s.poll() {
			return "bad-case"
		}
		if s.instant && !nextIs(3, id) {
			return "bad-case" // it has (maybe) been through its failing write already: WriteFail must follow
		}
		if r.inflight == id && r.inClosed && !nextIs(3, id) {
			return "bad-case"
		}
		return ""
	case 2, 3: // WriteOk i / WriteFail i [how]
		id := a.l[1].i
		s := r.senders[id]
		if s == nil {
			return "bad-case"
		}
		how := int64(0) // 0 closed pipe, 1 marshalling, 2 other pipe error
		if op == 3 && len(a.l) > 2 {
			how = a.l[2].i
		}
		if s.instant {
			// the goroutine went through lock, registration and the failing write in one go
			if op != 3 || how != s.kind || prevOp != 1 || prevID != id || !s.poll() {
				return "bad-case"
			}
			return ""
		}
		if r.inflight != id {
			return "bad-case"
		}
		if op == 2 {
			if r.inClosed || r.exited || s.kind != 0 {
				return "bad-case"
			}
			got, ok := r.fake.do(verifC10Cmd{op: 0})
			if !ok {
				return "fake-stuck"
			}
			if got != s.name {
				return "client-read-other-request"
			}
		} else if how == 0 {
			if !r.inClosed {
				return "bad-case"
			}
		} else if how == 2 {
			if s.kind != 2 || r.inClosed || r.exited {
				return "bad-case"
			}
			if got, ok := r.fake.do(verifC10Cmd{op: 6, n: s.failAt}); !ok || got != "" {
				return "fake-stuck"
			}
		} else {
			return "bad-case"
		}
		if !verifC10Until(s.poll) {
			return "writer-did-not-return"
		}
		r.inflight = -1
		if r.blocked >= 0 && (r.reader == 1 || !nextIs(1, r.blocked)) {
			return "bad-case"
		}
		return ""
	case 4: // COut bytes
		if r.exited || r.outClosed {
			return "bad-case"
		}
		r.unsent = append(r.unsent, a.l[1].b...)
		return ""
	case 5: // CCloseOut
		if r.exited {
			return "bad-case"
		}
		r.outClosed = true
		return ""
	case 15: // the client writes the answer (name, marker) padded to an encoded size of <base> + delta
		if r.exited || r.outClosed || len(a.l) != 5 {
			return "bad-case"
		}
		if len(r.unsent) != 0 || r.reader != 0 {
			return "bad-case" // the model's short-cut for such answers holds at a frame boundary
		}
		data, ok := verifC10Padded(a.l[1].b, a.l[2].b, a.l[3].i, a.l[4].i)
		if !ok {
			return "bad-case"
		}
		r.unsent = append(r.unsent, data...)
		return ""
	case 6: // CCloseIn
		if r.exited {
			return "bad-case"
		}
		if _, ok := r.fake.do(verifC10Cmd{op: 4}); !ok {
			return "fake-stuck"
		}
		r.inClosed = true
		if r.inflight >= 0 && !nextIs(3, r.inflight) {
			return "bad-case"
		}
		return ""
	case 7: // ProcExit failed peek
		if r.exited {
			return "bad-case"
		}
		if a.l[2].i != 0 && r.inflight >= 0 && !r.inClosed && r.senders[r.inflight].kind == 0 {
			if _, ok := r.fake.do(verifC10Cmd{op: 1}); !ok {
				return "fake-stuck"
			}
		}
		if _, ok := r.fake.do(verifC10Cmd{op: 5, fail: a.l[1].i != 0}); !ok {
			return "fake-stuck"
		}
		if !verifC10Until(r.procDone) {
			return "process-did-not-end"
		}
		r.exited, r.inClosed, r.outClosed, r.realClosed = true, true, true, true
		r.unsent = nil
		if r.inflight >= 0 && !nextIs(3, r.inflight) {
			return "bad-case"
		}
		return ""
	case 8: // ExitNotice
		if !r.exited || r.ctl.noticed.Load() {
			return "bad-case"
		}
		close(r.ctl.release)
		if !verifC10Until(r.ctl.noticed.Load) {
			return "no-exit-notice"
		}
		return ""
	case 9:
		if r.blocked >= 0 {
			// a stopping reader would compete with the parked sender for sendMu: only
			// steps that keep the reader running are forceable here (the generator knows)
			s := r.rstep()
			if s == "" && r.reader != 0 {
				return "bad-case"
			}
			return s
		}
		return r.rstep()
	case 10: // RClose
		if r.reader != 1 || r.inflight >= 0 {
			return "bad-case"
		}
		r.reader = 2
		if !nextIs(11, -1) {
			return "bad-case"
		}
		return ""
	case 11: // RDrain
		if r.reader != 2 {
			return "bad-case"
		}
		if !verifC10Until(r.readerDone) {
			return "reader-clean-up-did-not-finish"
		}
		r.reader = 3
		r.inClosed = true
		return ""
	case 12: // CloseSend
		if r.inflight >= 0 || r.reader == 1 || r.reader == 2 {
			return "bad-case"
		}
		done := make(chan struct{})
		go func() { r.runner.closeSend(); close(done) }()
		select {
		case <-done:
		case <-time.After(verifC10Wait()):
			return "closeSend-stuck"
		}
		r.inClosed = true
		return ""
	case 13: // Stop
		if r.stopDone != nil {
			return "bad-case"
		}
		r.stopDone = make(chan struct{})
		go func() { r.runner.stop(); close(r.stopDone) }()
		if !verifC10Until(func() bool { return r.ctl.aborted.Load() && r.runner.terminated.Load() }) {
			return "stop-did-not-mark-terminated"
		}
		return ""
	case 14: // Wait
		if r.reader != 3 || !r.exited {
			return "bad-case"
		}
		ch := make(chan error, 1)
		go func() { ch <- r.runner.waitForResponses() }()
		select {
		case e := <-ch:
			c := verifC10ErrCode(e)
			r.waitRes = &c
		case <-time.After(verifC10Wait()):
			return "waitForResponses-did-not-return"
		}
		return ""
	}
	return "bad-case"
}

// after a hang: unblock whatever can be unblocked from outside (best effort, nothing is compared
// any more), so that the goroutines of this run do not pile up in the test binary
func (r *verifC10Run) abandon() {
	_ = r.stdin.inner.Close()
	if r.fake.out != nil {
		_ = r.fake.out.Close()
	}
	r.gate.allow(1 << 30)
	r.gate.allowEOF()
	select {
	case <-r.ctl.release:
	default:
		close(r.ctl.release)
	}
	go func() {
		for {
			select {
			case r.fake.cmds <- verifC10Cmd{op: 5}:
			case <-r.fake.acks:
			case <-r.local.done:
				return
			case <-time.After(time.Minute):
				return
			}
		}
	}()
}

// cleanup ends every goroutine of the run; a run that cannot be ended is a hang
func (r *verifC10Run) cleanup() string {
	if !r.exited {
		done := make(chan struct{})
		go func() {
			defer close(done)
			select {
			case r.fake.cmds <- verifC10Cmd{op: 5}:
				<-r.fake.acks
			case <-r.local.done:
			}
		}()
		select {
		case <-done:
		case <-time.After(verifC10Wait()):
			return "fake-client-stuck"
		}
	}
	r.gate.allow(1 << 30)
	r.gate.allowEOF()
	select {
	case <-r.ctl.release:
	default:
		close(r.ctl.release)
	}
	if !verifC10Until(func() bool {
		for _, s := range r.senders {
			if !s.poll() {
				return false
			}
		}
		return r.readerDone() && r.procDone() && r.ctl.noticed.Load()
	}) {
		return "goroutines-left-behind"
	}
	if r.stopDone != nil {
		select {
		case <-r.stopDone:
		case <-time.After(verifC10Wait()):
			return "stop-did-not-return"
		}
	}
	return ""
}

// (actions) (request ids) -> ((isRunning after each action) ((id ret (callbacks))...) done wait)
func verifC10Script(args []vsx) vsx {
	r, err := verifC10Start()
	if err != nil {
		return vErr("start")
	}
	acts := args[0].l
	running := make([]vsx, 0, len(acts))
	problem := ""
	for k := range acts {
		var next *vsx
		if k+1 < len(acts) {
			next = &acts[k+1]
		}
		if problem = r.act(acts[k], next); problem != "" {
			break
		}
		running = append(running, vBool(r.runner.isRunning()))
	}
	if problem == "" && ((r.reader == 1 && r.inflight < 0) || r.reader == 2) {
		problem = "bad-case" // the real clean-up has already run on
	}
	var per []vsx
	if problem == "" {
		r.mu.Lock()
		fires := append([]verifC10Fire(nil), r.fires...)
		r.mu.Unlock()
		for _, idv := range args[1].l {
			id := idv.i
			ret := vL()
			if s := r.senders[id]; s != nil && s.poll() {
				ret = vL(vI(verifC10ErrCode(s.ret)))
			}
			var fs []vsx
			for k := range fires {
				if fires[k].id == id {
					fs = append(fs, fires[k].final()) // every kept response is read again NOW
				}
			}
			per = append(per, vL(vI(id), ret, vL(fs...)))
		}
	}
	done := r.readerDone()
	wait := vL()
	if r.waitRes != nil {
		wait = vL(vI(*r.waitRes))
	}
	if problem != "" && problem != "bad-case" {
		r.abandon()
	} else if c := r.cleanup(); c != "" && problem == "" {
		problem = "cleanup:" + c
		r.abandon()
	}
	if problem == "bad-case" {
		return vL(vS("bad-case"))
	}
	if problem != "" {
		verifC10Hangs.Add(1)
		return vL(vS("hang"), vS(problem))
	}
	return vL(vL(running...), vL(vL(per...), vBool(done), wait))
}

// ---------------------------------------------------------------------------
// c10.proc: a free-running in-process client on the REAL runInProcess (nothing gated; the
// only instrumentation is the recorder on stdin that tells when a sender is inside its
// write).  One sender hands requests 0..n-1 to the runner; the client function reads the
// first r of them, answers those listed (in that order), reads `peek` bytes of the next
// request, and RETURNS - nil or an error - while the sender is inside the write of request r.
// (names) r (answers) failed peek -> (isRunning ((id ret (callbacks))...) done wait)
// ---------------------------------------------------------------------------
func verifC10Proc(args []vsx) vsx {
	if len(args) != 5 && len(args) != 6 {
		return vL(vS("bad-case"))
	}
	// early: the client function returns at once and start() hands the process to runClient only
	// after it has ended, so runClient registers its whenDone callback on a finished process
	early := false
	if len(args) == 6 {
		if args[5].i != 0 && args[5].i != 1 {
			return vL(vS("bad-case"))
		}
		early = args[5].i == 1
	}
	names := args[0].strs()
	n, r := len(names), int(args[1].i)
	if early && r != 0 {
		return vL(vS("bad-case"))
	}
	failed, peek := args[3].i != 0, int(args[4].i)
	seenName := map[string]bool{}
	for _, nm := range names {
		if len(nm) == 0 || len(nm) >= 100 || seenName[nm] {
			return vL(vS("bad-case"))
		}
		seenName[nm] = true
	}
	var answers []int
	seenAns := map[int]bool{}
	for _, a := range args[2].l {
		j := int(a.i)
		if j < 0 || j >= r || seenAns[j] {
			return vL(vS("bad-case"))
		}
		seenAns[j] = true
		answers = append(answers, j)
	}
	if r < 0 || r > n || peek < 0 {
		return vL(vS("bad-case"))
	}
	reqs := make([]*conformancev1.ClientCompatRequest, n)
	for i := range reqs {
		reqs[i] = &conformancev1.ClientCompatRequest{TestName: names[i]}
	}
	if r < n {
		if max := 4 + proto.Size(reqs[r]) - 1; peek > max {
			peek = max
		}
	}
	goOn := make(chan struct{})
	clientProblem := make(chan string, 1)
	client := func(_ context.Context, _ []string, in io.ReadCloser, out, _ io.WriteCloser) error {
		for i := 0; i < r; i++ {
			req := &conformancev1.ClientCompatRequest{}
			if err := internal.ReadDelimitedMessage(in, req, "verif", time.Minute, 1<<24); err != nil || req.TestName != names[i] {
				clientProblem <- fmt.Sprintf("client-could-not-read-request-%d", i)
				return errVerifC10Exit
			}
		}
		for _, j := range answers {
			err := internal.WriteDelimitedMessage(out, &conformancev1.ClientCompatResponse{
				TestName: names[j],
				Result:   &conformancev1.ClientCompatResponse_Error{Error: &conformancev1.ClientErrorResult{Message: "r-" + names[j]}},
			})
			if err != nil {
				clientProblem <- fmt.Sprintf("client-could-not-write-answer-%d", j)
				return errVerifC10Exit
			}
		}
		if early {
			if failed {
				return errVerifC10Exit
			}
			return nil // at once: no request read, no output, before runClient has the process
		}
		<-goOn
		if r < n && peek > 0 {
			_, _ = io.ReadFull(in, make([]byte, peek))
		}
		if failed {
			return errVerifC10Exit
		}
		return nil // early, with "status zero", the sender still inside its write
	}
	var stdin *verifC10In
	var local *localProcess
	earlyStuck := false
	real := runInProcess([]string{"verif-c10-proc"}, client)
	starter := func(ctx context.Context, pipeStderr bool) (*process, error) {
		p, err := real(ctx, pipeStderr)
		if err != nil {
			return nil, err
		}
		local, _ = p.processController.(*localProcess)
		stdin = &verifC10In{inner: p.stdin, seen: map[string]bool{}, plan: map[string]int{}, off: map[string]int{}}
		p.stdin = stdin
		if early && local != nil {
			select {
			case <-local.done: // the process is gone when start returns
			case <-time.After(verifC10Wait()):
				earlyStuck = true
			}
		}
		return p, nil
	}
	cr, err := runClient(context.Background(), starter)
	if err != nil {
		return vErr("start")
	}
	if earlyStuck {
		verifC10Hangs.Add(1)
		return vL(vS("hang"), vS("client-function-that-returns-at-once-did-not-end-the-process"))
	}
	runner, ok := cr.(*clientProcessRunner)
	if !ok || local == nil {
		return vErr("start")
	}
	var mu sync.Mutex
	var fires []verifC10Fire
	nfires := func() int { mu.Lock(); defer mu.Unlock(); return len(fires) }
	type sent struct {
		goid string
		done chan error
		ret  error
		back bool
	}
	calls := make([]*sent, n)
	send := func(i int) *sent {
		c := &sent{done: make(chan error, 1)}
		calls[i] = c
		ready := make(chan struct{})
		go func() {
			c.goid = verifC10Goid()
			close(ready)
			c.done <- runner.sendRequest(reqs[i], func(nm string, resp *conformancev1.ClientCompatResponse, err error) {
				f := verifC10NewFire(int64(i), nm, resp, err)
				mu.Lock()
				fires = append(fires, f)
				mu.Unlock()
			})
		}()
		<-ready
		return c
	}
	returned := func(c *sent) bool {
		if c.back {
			return true
		}
		select {
		case c.ret = <-c.done:
			c.back = true
		default:
		}
		return c.back
	}
	released := false
	release := func() {
		if !released {
			released = true
			close(goOn)
		}
	}
	problem := ""
	clientFailed := func() bool {
		select {
		case p := <-clientProblem:
			problem = p
			return true
		default:
			return problem != ""
		}
	}
	if early {
		// the reader meets the end of the output and cleans up; the sends come after that (refused)
		if !verifC10Until(func() bool {
			select {
			case <-runner.done:
				return true
			default:
				return false
			}
		}) {
			problem = "reader-did-not-finish-after-the-client-function-returned"
		}
	}
	for i := 0; i < n && problem == ""; i++ {
		if i == r && !early {
			// every answer has been delivered; then the sender enters the write the client never completes
			if !verifC10Until(func() bool { return nfires() == len(answers) || clientFailed() }) {
				problem = "answers-not-delivered"
			}
			if problem != "" {
				break
			}
			c := send(i)
			if !verifC10Until(func() bool { return returned(c) || stdin.entered(c.goid) }) {
				problem = "sender-neither-returned-nor-writing"
				break
			}
			release() // the client function returns now
			if !verifC10Until(func() bool { return returned(c) }) {
				problem = "sendRequest-did-not-return-after-the-client-function-returned"
			}
			continue
		}
		c := send(i)
		if !verifC10Until(func() bool { return returned(c) || clientFailed() }) {
			problem = fmt.Sprintf("sendRequest-%d-did-not-return", i)
		}
	}
	if problem == "" && r == n && !early {
		if !verifC10Until(func() bool { return nfires() == len(answers) || clientFailed() }) {
			problem = "answers-not-delivered"
		}
		release()
	}
	var waitRes *int64
	if problem == "" {
		closed := make(chan struct{})
		go func() { runner.closeSend(); close(closed) }()
		select {
		case <-closed:
		case <-time.After(verifC10Wait()):
			problem = "closeSend-did-not-return"
		}
	}
	if problem == "" {
		ch := make(chan error, 1)
		go func() { ch <- runner.waitForResponses() }()
		select {
		case e := <-ch:
			c := verifC10ErrCode(e)
			waitRes = &c
		case <-time.After(verifC10Wait() + 10*time.Second): // (its own grace periods are 3 s + 5 s)
			problem = "waitForResponses-did-not-return"
		}
	}
	if problem != "" {
		release()
		_ = stdin.inner.Close()
		verifC10Hangs.Add(1)
		return vL(vS("hang"), vS(problem))
	}
	// the exit notice (runClient's whenDone) runs in its own goroutine once the process is done
	if !verifC10Until(func() bool { return !runner.isRunning() }) && early {
		verifC10Hangs.Add(1) // (the tree is broken: later waits of this binary are cut short)
	}
	running := runner.isRunning()
	done := false
	select {
	case <-runner.done:
		done = true
	default:
	}
	mu.Lock()
	final := append([]verifC10Fire(nil), fires...)
	mu.Unlock()
	var per []vsx
	for i := 0; i < n; i++ {
		ret := vL()
		if c := calls[i]; c != nil && returned(c) {
			ret = vL(vI(verifC10ErrCode(c.ret)))
		}
		var fs []vsx
		for k := range final {
			if final[k].id == int64(i) {
				fs = append(fs, final[k].final())
			}
		}
		per = append(per, vL(vI(int64(i)), ret, vL(fs...)))
	}
	return vL(vBool(running), vL(vL(per...), vBool(done), vL(vI(*waitRes))))
}

// ---------------------------------------------------------------------------
// c10.whendone: registrations and the exit, in the order of the script, on a REAL localProcess
// made by runInProcess (the client function returns when the script says "exit").
// ((0 k) | (1))... -> (exited ((k times-its-callbacks-ran)...)), keys in order of first registration
// ---------------------------------------------------------------------------
func verifC10WhenDone(args []vsx) vsx {
	if len(args) != 1 || len(args[0].l) > 64 {
		return vL(vS("bad-case"))
	}
	type act struct {
		exit bool
		k    int64
	}
	var acts []act
	for _, a := range args[0].l {
		switch {
		case len(a.l) == 2 && a.l[0].i == 0 && a.l[1].i >= 0 && a.l[1].i < 64:
			acts = append(acts, act{k: a.l[1].i})
		case len(a.l) == 1 && a.l[0].i == 1:
			acts = append(acts, act{exit: true})
		default:
			return vL(vS("bad-case"))
		}
	}
	release := make(chan struct{})
	client := func(_ context.Context, _ []string, _ io.ReadCloser, _, _ io.WriteCloser) error {
		<-release
		return nil
	}
	p, err := runInProcess([]string{"verif-c10-whendone"}, client)(context.Background(), false)
	if err != nil {
		return vErr("start")
	}
	local, ok := p.processController.(*localProcess)
	if !ok {
		close(release)
		return vErr("start")
	}
	var mu sync.Mutex
	counts := map[int64]int64{}
	total := 0
	var keys []int64
	exited, registered := false, 0
	for _, a := range acts {
		if a.exit {
			if !exited {
				exited = true
				close(release)
				select {
				case <-local.done:
				case <-time.After(verifC10Wait()):
					verifC10Hangs.Add(1)
					return vL(vS("hang"), vS("process-did-not-end-after-its-function-returned"))
				}
			}
			continue
		}
		k := a.k
		mu.Lock() // callbacks registered after the exit are already running: they write the map
		_, seen := counts[k]
		if !seen {
			counts[k] = 0
		}
		mu.Unlock()
		if !seen {
			keys = append(keys, k)
		}
		registered++
		local.whenDone(func(error) {
			mu.Lock()
			counts[k]++
			total++
			mu.Unlock()
		})
	}
	if exited {
		// every callback runs in a goroutine of its own: wait for the expected number (bounded)
		if !verifC10Until(func() bool { mu.Lock(); defer mu.Unlock(); return total >= registered }) {
			verifC10Hangs.Add(1) // (the tree is broken: later waits of this binary are cut short)
		}
	}
	mu.Lock()
	var per []vsx
	for _, k := range keys {
		per = append(per, vL(vI(k), vI(counts[k])))
	}
	mu.Unlock()
	if !exited {
		close(release)
	}
	return vL(vBool(exited), vL(per...))
}

// TestVerifConsts prints the constants of the compiled code as Coq definitions.
func TestVerifConsts(t *testing.T) {
	out := os.Getenv("VERIF_OUT")
	if out == "" {
		t.Skip("VERIF_OUT not set")
	}
	var b bytes.Buffer
	if err := internal.WriteDelimitedMessage(&b, &conformancev1.ClientCompatResponse{}); err != nil {
		t.Fatal(err)
	}
	s := fmt.Sprintf("Definition c10_max_response : N := %d%%N.\nDefinition c10_max_server_response : N := %d%%N.\n"+
		"Definition c10_prefix_len : N := %d%%N.\n",
		maxClientResponseSize, maxServerResponseSize, b.Len())
	if err := os.WriteFile(out, []byte(s), 0o644); err != nil {
		t.Fatal(err)
	}
}

// ---------------------------------------------------------------------------
// free-running stress under the race detector: concurrent senders against a client that
// answers in random order and fails at a random point; only the property's invariants
// are checked (no schedule is forced, nothing is compared with the model).
// ---------------------------------------------------------------------------
type verifC10Loose struct {
	rng      *rand.Rand
	failKind int // 0 none (answer all, exit at stdin EOF), 1 exit ok, 2 exit err, 3 unknown, 4 dup answer, 5 oversize, 6 garbage, 7 truncated, 8 close stdout and keep reading
	failAt   int
	batch    int
}

func (c *verifC10Loose) run(ctx context.Context, _ []string, in io.ReadCloser, out, _ io.WriteCloser) error {
	reqs := make(chan string, 1024)
	go func() {
		defer close(reqs)
		for {
			req := &conformancev1.ClientCompatRequest{}
			if err := internal.ReadDelimitedMessage(in, req, "verif", time.Minute, 1<<24); err != nil {
				return
			}
			reqs <- req.TestName
		}
	}()
	write := func(b []byte) bool {
		done := make(chan error, 1)
		go func() { _, err := out.Write(b); done <- err }()
		select {
		case err := <-done:
			return err == nil
		case <-ctx.Done():
			return false
		}
	}
	respBytes := func(name string) []byte {
		var b bytes.Buffer
		_ = internal.WriteDelimitedMessage(&b, &conformancev1.ClientCompatResponse{
			TestName: name,
			Result:   &conformancev1.ClientCompatResponse_Error{Error: &conformancev1.ClientErrorResult{Message: "t:" + name}},
		})
		return b.Bytes()
	}
	answered := 0
	var last string
	var held []string
	flush := func() (bool, error) {
		c.rng.Shuffle(len(held), func(i, j int) { held[i], held[j] = held[j], held[i] })
		for _, n := range held {
			if c.failKind != 0 && answered >= c.failAt {
				switch c.failKind {
				case 1:
					return true, nil
				case 2:
					return true, errVerifC10Exit
				case 3:
					write(respBytes("nobody-asked"))
				case 4:
					if last == "" {
						return true, nil
					}
					write(respBytes(last))
				case 5:
					write([]byte{0x7f, 0xff, 0xff, 0xff, 1, 2})
				case 6:
					write([]byte{0, 0, 0, 3, 10, 5, 97})
				case 7:
					b := respBytes(n)
					write(b[:1+c.rng.Intn(len(b)-1)])
					return true, nil
				case 8:
					_ = out.Close()
					for range reqs {
					}
					return true, nil
				}
				<-ctx.Done() // the runner aborts a client that misbehaved
				return true, nil
			}
			if !write(respBytes(n)) {
				return true, nil
			}
			answered++
			last = n
		}
		held = held[:0]
		return false, nil
	}
	for {
		select {
		case n, ok := <-reqs:
			if !ok {
				if stop, err := flush(); stop {
					return err
				}
				return nil
			}
			held = append(held, n)
			if len(held) >= c.batch {
				if stop, err := flush(); stop {
					return err
				}
			}
		case <-ctx.Done():
			return nil
		}
	}
}

func TestVerifC10Race(t *testing.T) {
	out := os.Getenv("VERIF_OUT")
	if out == "" {
		t.Skip("VERIF_OUT not set")
	}
	rounds, _ := strconv.Atoi(os.Getenv("VERIF_C10_ROUNDS"))
	if rounds <= 0 {
		rounds = 100
	}
	seed, _ := strconv.ParseInt(os.Getenv("VERIF_SEED"), 10, 64)
	rng := rand.New(rand.NewSource(seed*7919 + 10))
	problem := ""
	total, accepted, refused, failedRounds := 0, 0, 0, 0
	for round := 0; round < rounds && problem == ""; round++ {
		nSenders := 1 + rng.Intn(8)
		perSender := 1 + rng.Intn(12)
		client := &verifC10Loose{rng: rand.New(rand.NewSource(rng.Int63())), failKind: rng.Intn(9), batch: 1 + rng.Intn(6)}
		if rng.Intn(3) == 0 {
			client.failKind = 0
		}
		client.failAt = rng.Intn(nSenders*perSender + 1)
		runner, err := runClient(context.Background(), runInProcess([]string{"verif-c10-race"}, client.run))
		if err != nil {
			problem = "problem: runClient: " + err.Error()
			break
		}
		type call struct {
			name  string
			ret   error
			fires atomic.Int64
			bad   atomic.Bool
			kept  atomic.Pointer[conformancev1.ClientCompatResponse]
		}
		var mu sync.Mutex
		var calls []*call
		var wg sync.WaitGroup
		for s := 0; s < nSenders; s++ {
			wg.Add(1)
			go func(s int, dupes bool) {
				defer wg.Done()
				for k := 0; k < perSender; k++ {
					name := fmt.Sprintf("S%d/case%d", s, k)
					if dupes && k%3 == 2 {
						name = fmt.Sprintf("shared/case%d", k)
					}
					c := &call{name: name}
					c.ret = runner.sendRequest(&conformancev1.ClientCompatRequest{TestName: name},
						func(n string, resp *conformancev1.ClientCompatResponse, err error) {
							c.fires.Add(1)
							if n != name || (resp == nil) == (err == nil) {
								c.bad.Store(true)
							}
							if resp != nil && (resp.TestName != name || resp.GetError().GetMessage() != "t:"+name) {
								c.bad.Store(true)
							}
							c.kept.Store(resp) // looked at again when the round is over
						})
					mu.Lock()
					calls = append(calls, c)
					mu.Unlock()
				}
			}(s, rng.Intn(2) == 0)
		}
		sent := make(chan struct{})
		go func() { wg.Wait(); close(sent) }()
		select {
		case <-sent:
		case <-time.After(40 * time.Second):
			problem = fmt.Sprintf("problem: round %d: a sendRequest call never returned (client kind %d)", round, client.failKind)
			continue
		}
		runner.closeSend()
		waited := make(chan error, 1)
		go func() { waited <- runner.waitForResponses() }()
		select {
		case <-waited:
		case <-time.After(40 * time.Second):
			problem = fmt.Sprintf("problem: round %d: waitForResponses did not return (client kind %d)", round, client.failKind)
			continue
		}
		if !verifC10Until(func() bool { return !runner.isRunning() }) {
			problem = fmt.Sprintf("problem: round %d: isRunning() still true after the client ended and waitForResponses returned (client kind %d)", round, client.failKind)
			continue
		}
		if err := runner.sendRequest(&conformancev1.ClientCompatRequest{TestName: "after-the-end"}, func(string, *conformancev1.ClientCompatResponse, error) {}); err == nil {
			problem = fmt.Sprintf("problem: round %d: a request sent after the end was accepted", round)
			continue
		}
		anyRefused := false
		for _, c := range calls {
			total++
			n := c.fires.Load()
			kept := c.kept.Load()
			switch {
			case kept != nil && (kept.GetTestName() != c.name || kept.GetError().GetMessage() != "t:"+c.name):
				problem = fmt.Sprintf("problem: round %d: the response handed to the callback of %q reads as %q's after later responses were read", round, c.name, kept.GetTestName())
			case c.bad.Load():
				problem = fmt.Sprintf("problem: round %d: callback of %q got another test's response, or neither/both of response and error", round, c.name)
			case c.ret == nil && n != 1:
				problem = fmt.Sprintf("problem: round %d: request %q was accepted but its callback fired %d times (client kind %d)", round, c.name, n, client.failKind)
			case c.ret != nil && n != 0:
				problem = fmt.Sprintf("problem: round %d: request %q was refused but its callback fired %d times", round, c.name, n)
			}
			if c.ret == nil {
				accepted++
			} else {
				refused++
				anyRefused = true
			}
		}
		if anyRefused {
			failedRounds++
		}
	}
	if problem == "" {
		problem = fmt.Sprintf("ok rounds=%d requests=%d accepted=%d refused=%d rounds_with_refusals=%d", rounds, total, accepted, refused, failedRounds)
	}
	if err := os.WriteFile(out, []byte(problem+"\n"), 0o644); err != nil {
		t.Fatal(err)
	}
}

var _ = sort.Strings
