//go:build verif

package connectconformance

import (
	"io"
	"strings"

	"connectrpc.com/conformance/internal"
	conformancev1 "connectrpc.com/conformance/internal/gen/proto/go/connectrpc/conformance/v1"
)

func init() {
	verifKinds["c08.trie"] = verifC08Trie
	verifKinds["c08.accept"] = verifC08Accept
	verifKinds["c08.checks"] = verifC08Checks
	verifKinds["c08.checks2"] = verifC08Checks2
}

// (patterns) (names) -> ((match bools) (unmatched, sorted) matchCount)
// bools through matchPattern on one trie; unmatched set and count through
// tryMatchPatterns on a fresh trie (the function run() uses to validate patterns).
func verifC08Trie(args []vsx) vsx {
	patterns, names := args[0].strs(), args[1].strs()
	trie := parsePatterns(patterns)
	if trie == nil {
		trie = &testTrie{}
	}
	res := make([]vsx, len(names))
	cases := make([]*conformancev1.TestCase, len(names))
	for i, n := range names {
		res[i] = vBool(trie.matchPattern(n))
		cases[i] = &conformancev1.TestCase{Request: &conformancev1.ClientCompatRequest{TestName: n}}
	}
	trie2 := parsePatterns(patterns)
	if trie2 == nil {
		trie2 = &testTrie{}
	}
	count, err := tryMatchPatterns("x", trie2, cases)
	un := []string{}
	if err != nil {
		lines := strings.Split(err.Error(), "\n")
		un = lines[1:]
	}
	sortStrings(un)
	// allUnmatched on the first trie must agree with what tryMatchPatterns reported
	direct := trie.allUnmatched()
	if len(direct) != len(un) {
		return vErr("tryMatchPatterns-disagrees-with-allUnmatched")
	}
	for _, u := range un {
		if _, ok := direct[u]; !ok {
			return vErr("tryMatchPatterns-disagrees-with-allUnmatched")
		}
	}
	return vL(vL(res...), vStrs(un), vInt(count))
}

func sortStrings(s []string) {
	for i := 1; i < len(s); i++ {
		for j := i; j > 0 && s[j] < s[j-1]; j-- {
			s[j], s[j-1] = s[j-1], s[j]
		}
	}
}

// (run) (skip) (names) -> (accept bools), through newFilter/accept
func verifC08Accept(args []vsx) vsx {
	filter := newFilter(parsePatterns(args[0].strs()), parsePatterns(args[1].strs()))
	names := args[2].strs()
	res := make([]vsx, len(names))
	for i, n := range names {
		tc := &conformancev1.TestCase{Request: &conformancev1.ClientCompatRequest{TestName: n}}
		res[i] = vBool(filter.accept(tc))
		// apply must agree with accept
		if got := len(filter.apply([]*conformancev1.TestCase{tc})) == 1; got != filter.accept(tc) {
			return vErr("apply-disagrees-with-accept")
		}
	}
	return vL(res...)
}

// (failing) (flaky) (run) (skip) (names) -> error kind of the validation block
// of run().  Every name has the shape <suite>/TLS:false/<rest>; suites are
// built so that the library produces exactly these names.  A final "**" skip
// pattern is added by the generator (and seen by the model too) so that no
// server is ever started.
func verifC08Checks(args []vsx) vsx {
	failing, flaky, runP, skipP, names := args[0].strs(), args[1].strs(), args[2].strs(), args[3].strs(), args[4].strs()
	suites := map[string]*conformancev1.TestSuite{}
	for _, n := range names {
		parts := strings.SplitN(n, "/", 3)
		if len(parts) != 3 || parts[1] != "TLS:false" {
			return vL(vS("bad-case"))
		}
		file := parts[0] + ".yaml"
		suite := suites[file]
		if suite == nil {
			suite = &conformancev1.TestSuite{
				Name:                 parts[0],
				RelevantProtocols:    []conformancev1.Protocol{conformancev1.Protocol_PROTOCOL_CONNECT},
				RelevantHttpVersions: []conformancev1.HTTPVersion{conformancev1.HTTPVersion_HTTP_VERSION_1},
				RelevantCodecs:       []conformancev1.Codec{conformancev1.Codec_CODEC_PROTO},
				RelevantCompressions: []conformancev1.Compression{conformancev1.Compression_COMPRESSION_IDENTITY},
			}
			suites[file] = suite
		}
		suite.TestCases = append(suite.TestCases, &conformancev1.TestCase{
			Request: &conformancev1.ClientCompatRequest{
				TestName:   parts[2],
				StreamType: conformancev1.StreamType_STREAM_TYPE_UNARY,
			},
			ExpectedResponse: &conformancev1.ClientResponseResult{},
		})
	}
	bySuiteFile := suites
	cfg := []configCase{{
		Version:     conformancev1.HTTPVersion_HTTP_VERSION_1,
		Protocol:    conformancev1.Protocol_PROTOCOL_CONNECT,
		Codec:       conformancev1.Codec_CODEC_PROTO,
		Compression: conformancev1.Compression_COMPRESSION_IDENTITY,
		StreamType:  conformancev1.StreamType_STREAM_TYPE_UNARY,
	}}
	knownFailing := parsePatterns(failing)
	if knownFailing == nil {
		knownFailing = &testTrie{}
	}
	knownFlaky := parsePatterns(flaky)
	if knownFlaky == nil {
		knownFlaky = &testTrie{}
	}
	pr := internal.NewPrinter(io.Discard)
	_, err := run(cfg, knownFailing, knownFlaky, parsePatterns(runP), parsePatterns(skipP), bySuiteFile, pr, pr,
		&Flags{MaxServers: 1, Parallelism: 1})
	switch {
	case err == nil:
		return vS("ok")
	case strings.HasPrefix(err.Error(), "known failing: unmatched"):
		return vS("unmatched-failing")
	case strings.HasPrefix(err.Error(), "known flaky: unmatched"):
		return vS("unmatched-flaky")
	case strings.HasPrefix(err.Error(), "run patterns: unmatched"):
		return vS("unmatched-run")
	case strings.HasPrefix(err.Error(), "no-run patterns: unmatched"):
		return vS("unmatched-skip")
	case strings.Contains(err.Error(), "ambiguous"):
		return vS("ambiguous")
	default:
		return vL(vS("bad-case"), vS(err.Error())) // not an error of the validation block: ill-formed scenario
	}
}

// (failing) (flaky) (run) (skip) ((suite proto (simple names)) ...) refClient refServer
// -> error kind of the validation block of run(), with gRPC-peer permutations in the library:
// proto 1 = Connect over HTTP/1.1, 2 = gRPC over h2c, 3 = gRPC-Web over h2c.  refClient=0 /
// refServer=0 put a (non-existent) command under test on that side, so that run() derives the
// mode and the set of extra permutations the way the CLI does.  The generator's final "**" skip
// pattern keeps every server from starting; a run that gets past the validation block either
// returns results or fails to start the client under test - both mean "validation passed".
func verifC08Checks2(args []vsx) vsx {
	failing, flaky, runP, skipP := args[0].strs(), args[1].strs(), args[2].strs(), args[3].strs()
	refClient, refServer := args[5].i != 0, args[6].i != 0
	suites := map[string]*conformancev1.TestSuite{}
	cfgSet := map[configCase]struct{}{}
	for _, sd := range args[4].l {
		name, proto := sd.l[0].str(), sd.l[1].i
		suite := &conformancev1.TestSuite{
			Name:                 name,
			RelevantCodecs:       []conformancev1.Codec{conformancev1.Codec_CODEC_PROTO},
			RelevantCompressions: []conformancev1.Compression{conformancev1.Compression_COMPRESSION_IDENTITY},
		}
		cfg := configCase{
			Codec:       conformancev1.Codec_CODEC_PROTO,
			Compression: conformancev1.Compression_COMPRESSION_IDENTITY,
			StreamType:  conformancev1.StreamType_STREAM_TYPE_UNARY,
		}
		switch proto {
		case 1:
			cfg.Protocol, cfg.Version = conformancev1.Protocol_PROTOCOL_CONNECT, conformancev1.HTTPVersion_HTTP_VERSION_1
		case 2:
			cfg.Protocol, cfg.Version = conformancev1.Protocol_PROTOCOL_GRPC, conformancev1.HTTPVersion_HTTP_VERSION_2
		case 3:
			cfg.Protocol, cfg.Version = conformancev1.Protocol_PROTOCOL_GRPC_WEB, conformancev1.HTTPVersion_HTTP_VERSION_2
		default:
			return vL(vS("bad-case"))
		}
		suite.RelevantProtocols = []conformancev1.Protocol{cfg.Protocol}
		suite.RelevantHttpVersions = []conformancev1.HTTPVersion{cfg.Version}
		cfgSet[cfg] = struct{}{}
		for _, n := range sd.l[2].strs() {
			suite.TestCases = append(suite.TestCases, &conformancev1.TestCase{
				Request: &conformancev1.ClientCompatRequest{
					TestName:   n,
					StreamType: conformancev1.StreamType_STREAM_TYPE_UNARY,
				},
				ExpectedResponse: &conformancev1.ClientResponseResult{},
			})
		}
		if _, dup := suites[name+".yaml"]; dup {
			return vL(vS("bad-case"))
		}
		suites[name+".yaml"] = suite
	}
	cfg := make([]configCase, 0, len(cfgSet))
	for c := range cfgSet {
		cfg = append(cfg, c)
	}
	knownFailing := parsePatterns(failing)
	if knownFailing == nil {
		knownFailing = &testTrie{}
	}
	knownFlaky := parsePatterns(flaky)
	if knownFlaky == nil {
		knownFlaky = &testTrie{}
	}
	flags := &Flags{MaxServers: 1, Parallelism: 1}
	if !refClient {
		flags.ClientCommand = []string{"/nonexistent/verif-c08-client-under-test"}
	}
	if !refServer {
		flags.ServerCommand = []string{"/nonexistent/verif-c08-server-under-test"}
	}
	pr := internal.NewPrinter(io.Discard)
	_, err := run(cfg, knownFailing, knownFlaky, parsePatterns(runP), parsePatterns(skipP), suites, pr, pr, flags)
	switch {
	case err == nil:
		return vS("ok")
	case strings.HasPrefix(err.Error(), "error starting client"):
		return vS("ok")
	case strings.HasPrefix(err.Error(), "known failing: unmatched"):
		return vS("unmatched-failing")
	case strings.HasPrefix(err.Error(), "known flaky: unmatched"):
		return vS("unmatched-flaky")
	case strings.HasPrefix(err.Error(), "run patterns: unmatched"):
		return vS("unmatched-run")
	case strings.HasPrefix(err.Error(), "no-run patterns: unmatched"):
		return vS("unmatched-skip")
	case strings.Contains(err.Error(), "ambiguous"):
		return vS("ambiguous")
	default:
		return vL(vS("bad-case"), vS(err.Error()))
	}
}
