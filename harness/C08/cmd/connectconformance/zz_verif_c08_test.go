//go:build verif

package main

import (
	"fmt"
	"os"
	"path/filepath"
)

func init() {
	verifKinds["c08.args"] = verifC08Args
	verifKinds["c08.file"] = verifC08File
}

var verifC08Dir string

// ((0 literal) | (1 file-contents) ...) -> patterns, through argsToPatterns
func verifC08Args(args []vsx) vsx {
	if verifC08Dir == "" {
		d, err := os.MkdirTemp("", "verifc08")
		if err != nil {
			panic(err)
		}
		verifC08Dir = d
	}
	var argv []string
	for i, a := range args[0].l {
		if a.l[0].i == 0 {
			argv = append(argv, a.l[1].str())
			continue
		}
		fn := filepath.Join(verifC08Dir, fmt.Sprintf("f%d.txt", i))
		if err := os.WriteFile(fn, a.l[1].b, 0o600); err != nil {
			panic(err)
		}
		argv = append(argv, "@"+fn)
	}
	pats, err := argsToPatterns(argv)
	if err != nil {
		return vErr("args")
	}
	return vStrs(pats)
}

func verifC08File(args []vsx) vsx {
	return vStrs(parsePatternFile(args[0].b))
}
