//go:build verif

package internal

import (
	"encoding/json"
	"errors"
	"net/http"
	"sort"
	"strings"

	conformancev1 "connectrpc.com/conformance/internal/gen/proto/go/connectrpc/conformance/v1"
	"connectrpc.com/connect"
	"google.golang.org/protobuf/encoding/protojson"
	"google.golang.org/protobuf/encoding/protowire"
	"google.golang.org/protobuf/proto"
	"google.golang.org/protobuf/reflect/protoreflect"
	"google.golang.org/protobuf/types/known/anypb"
)

func init() {
	verifKinds["c18.err_connect"] = verifC18ErrConnect
	verifKinds["c18.err_go"] = verifC18ErrGo
	verifKinds["c18.http"] = verifC18HTTP
	verifKinds["c18.codec_rt"] = verifC18CodecRT
	verifKinds["c18.codec_unknown"] = verifC18CodecUnknown
}

// (code (msg)? ((url value)...)) -> *conformancev1.Error
func verifC18Perr(v vsx) *conformancev1.Error {
	e := &conformancev1.Error{Code: conformancev1.Code(int32(v.l[0].i))}
	if len(v.l[1].l) > 0 {
		e.Message = proto.String(v.l[1].l[0].str())
	}
	for _, d := range v.l[2].l {
		e.Details = append(e.Details, &anypb.Any{TypeUrl: d.l[0].str(), Value: append([]byte{}, d.l[1].b...)})
	}
	return e
}

func verifC18PerrOut(e *conformancev1.Error) vsx {
	msg := vL()
	if e.Message != nil {
		msg = vL(vS(*e.Message))
	}
	ds := make([]vsx, 0, len(e.Details))
	for _, d := range e.Details {
		ds = append(ds, vL(vS(d.GetTypeUrl()), vB(d.GetValue())))
	}
	return vL(vI(int64(int32(e.Code))), msg, vL(ds...))
}

// what an observer of a *connect.Error sees
func verifC18CerrOut(e *connect.Error) vsx {
	ds := make([]vsx, 0, len(e.Details()))
	for _, d := range e.Details() {
		ds = append(ds, vL(vS(d.Type()), vB(d.Bytes())))
	}
	return vL(vI(int64(uint32(e.Code()))), vS(e.Message()), vL(ds...))
}

func verifC18ErrConnect(args []vsx) vsx {
	perr := verifC18Perr(args[0])
	cerr := ConvertProtoToConnectError(perr)
	back := ConvertConnectToProtoError(cerr)
	return vL(verifC18CerrOut(cerr), verifC18PerrOut(back))
}

type verifC18Wrapper struct {
	text  string
	inner error
}

func (w *verifC18Wrapper) Error() string { return w.text }
func (w *verifC18Wrapper) Unwrap() error { return w.inner }

func verifC18ErrGo(args []vsx) vsx {
	kind, text := args[0].i, args[1].str()
	cerr := ConvertProtoToConnectError(verifC18Perr(args[2]))
	var err error
	switch kind {
	case 0:
		err = errors.New(text)
	case 1:
		err = cerr
	default:
		err = &verifC18Wrapper{text: text, inner: cerr}
	}
	return vL(verifC18CerrOut(ConvertErrorToConnectError(err)), verifC18PerrOut(ConvertErrorToProtoError(err)))
}

func verifC18Headers(v vsx) []*conformancev1.Header {
	out := make([]*conformancev1.Header, 0, len(v.l))
	for _, h := range v.l {
		out = append(out, &conformancev1.Header{Name: h.l[0].str(), Value: h.l[1].strs()})
	}
	return out
}

func verifC18HeadersOut(hs []*conformancev1.Header) vsx {
	sort.SliceStable(hs, func(i, j int) bool { return hs[i].Name < hs[j].Name })
	out := make([]vsx, 0, len(hs))
	for _, h := range hs {
		out = append(out, vL(vS(h.Name), vStrs(h.Value)))
	}
	return vL(out...)
}

func verifC18HTTP(args []vsx) vsx {
	dest := http.Header{}
	if args[0].i == 0 {
		AddHeaders(verifC18Headers(args[1]), dest)
	} else {
		AddTrailers(verifC18Headers(args[1]), dest)
	}
	return verifC18HeadersOut(ConvertToProtoHeader(dest))
}

// ---- codecs -------------------------------------------------------------
// The message tree (known unknown (subs...)) is laid over real conformance messages:
//   depth 0 ClientCompatRequest{test_name=known; subs[0] -> raw_request, subs[1:] -> request_headers}
//   depth 1 RawHTTPRequest{verb=known; subs[0] -> stream, subs[1:] -> headers}   (Header{name=known})
//   depth 2 StreamContents{subs -> items}
//   depth 3 StreamItem{subs[0] -> payload}
//   depth 4 MessageContents{text=known, or subs[0] -> binary_message}
//   depth 5 Any{type_url=known}
// "unknown" are well-formed unknown-field bytes stored with SetUnknown (binary codec) or,
// for the JSON codec, a marker meaning "an unrecognised key at this object".
type verifC18Tree struct {
	known   string
	unknown []byte
	subs    []verifC18Tree
}

func verifC18ParseTree(v vsx) verifC18Tree {
	t := verifC18Tree{known: v.l[0].str(), unknown: v.l[1].b}
	for _, s := range v.l[2].l {
		t.subs = append(t.subs, verifC18ParseTree(s))
	}
	return t
}

func verifC18SetUnknown(m proto.Message, t verifC18Tree, withUnknown bool) {
	if withUnknown && len(t.unknown) > 0 {
		m.ProtoReflect().SetUnknown(protoreflect.RawFields(t.unknown))
	}
}

func verifC18Header(t verifC18Tree, u bool) *conformancev1.Header {
	h := &conformancev1.Header{Name: t.known}
	verifC18SetUnknown(h, t, u)
	return h
}

func verifC18Build(t verifC18Tree, u bool, allowAny bool) *conformancev1.ClientCompatRequest {
	ccr := &conformancev1.ClientCompatRequest{TestName: t.known}
	verifC18SetUnknown(ccr, t, u)
	for i, s := range t.subs {
		if i > 0 {
			ccr.RequestHeaders = append(ccr.RequestHeaders, verifC18Header(s, u))
			continue
		}
		raw := &conformancev1.RawHTTPRequest{Verb: s.known}
		verifC18SetUnknown(raw, s, u)
		ccr.RawRequest = raw
		for j, s2 := range s.subs {
			if j > 0 {
				raw.Headers = append(raw.Headers, verifC18Header(s2, u))
				continue
			}
			stream := &conformancev1.StreamContents{}
			verifC18SetUnknown(stream, s2, u)
			raw.Body = &conformancev1.RawHTTPRequest_Stream{Stream: stream}
			for _, s3 := range s2.subs {
				item := &conformancev1.StreamContents_StreamItem{}
				verifC18SetUnknown(item, s3, u)
				stream.Items = append(stream.Items, item)
				if len(s3.subs) == 0 {
					continue
				}
				s4 := s3.subs[0]
				mc := &conformancev1.MessageContents{}
				verifC18SetUnknown(mc, s4, u)
				item.Payload = mc
				if len(s4.subs) > 0 && allowAny {
					s5 := s4.subs[0]
					a := &anypb.Any{TypeUrl: s5.known}
					verifC18SetUnknown(a, s5, u)
					mc.Data = &conformancev1.MessageContents_BinaryMessage{BinaryMessage: a}
				} else {
					mc.Data = &conformancev1.MessageContents_Text{Text: s4.known}
				}
			}
		}
	}
	return ccr
}

// the same walk over the generic JSON form: add an unrecognised key where the tree has unknown bytes
func verifC18InjectJSON(obj map[string]any, t verifC18Tree, depth int) {
	if len(t.unknown) > 0 {
		obj["verifUnrecognised"] = 1
	}
	child := func(key string) map[string]any {
		m, _ := obj[key].(map[string]any)
		if m == nil {
			m = map[string]any{}
			obj[key] = m
		}
		return m
	}
	list := func(key string, n int) []any {
		l, _ := obj[key].([]any)
		for len(l) < n {
			l = append(l, map[string]any{})
		}
		obj[key] = l
		return l
	}
	switch depth {
	case 0, 1:
		first, rest := "rawRequest", "requestHeaders"
		if depth == 1 {
			first, rest = "stream", "headers"
		}
		if len(t.subs) > 0 {
			verifC18InjectJSON(child(first), t.subs[0], depth+1)
		}
		if len(t.subs) > 1 {
			l := list(rest, len(t.subs)-1)
			for i, s := range t.subs[1:] {
				verifC18InjectJSON(l[i].(map[string]any), s, 9)
			}
		}
	case 2:
		l := list("items", len(t.subs))
		for i, s := range t.subs {
			verifC18InjectJSON(l[i].(map[string]any), s, 3)
		}
	case 3:
		if len(t.subs) > 0 {
			verifC18InjectJSON(child("payload"), t.subs[0], 4)
		}
	}
}

func verifC18HasUnknown(m protoreflect.Message) bool {
	if len(m.GetUnknown()) > 0 {
		return true
	}
	found := false
	m.Range(func(fd protoreflect.FieldDescriptor, v protoreflect.Value) bool {
		switch {
		case fd.IsMap():
			if fd.MapValue().Message() != nil {
				v.Map().Range(func(_ protoreflect.MapKey, mv protoreflect.Value) bool {
					found = found || verifC18HasUnknown(mv.Message())
					return !found
				})
			}
		case fd.IsList():
			if fd.Message() != nil {
				for i := 0; i < v.List().Len(); i++ {
					found = found || verifC18HasUnknown(v.List().Get(i).Message())
				}
			}
		case fd.Message() != nil:
			found = found || verifC18HasUnknown(v.Message())
		}
		return !found
	})
	return found
}

func verifC18CodecResult(err error, got, want proto.Message) vsx {
	switch {
	case err != nil:
		return vS("err")
	case verifC18HasUnknown(got.ProtoReflect()):
		return vS("ok-with-unknown")
	case want != nil && !proto.Equal(got, want):
		return vS("ok-differs")
	default:
		return vS("ok")
	}
}

func verifC18Codec(c int64) connect.Codec {
	if c == 0 {
		return StrictProtoCodec{}
	}
	return StrictJSONCodec{}
}

func verifC18CodecRT(args []vsx) vsx {
	codec := verifC18Codec(args[0].i)
	msg := verifC18Build(verifC18ParseTree(args[1]), false, args[0].i == 0)
	data, err := codec.Marshal(msg)
	if err != nil {
		return vErr("marshal")
	}
	format := int64(2)
	var probe conformancev1.ClientCompatRequest
	if protojson.Unmarshal(data, &probe) == nil && proto.Equal(&probe, msg) {
		format = 1
	} else {
		probe.Reset()
		if proto.Unmarshal(data, &probe) == nil && proto.Equal(&probe, msg) {
			format = 0
		}
	}
	var got conformancev1.ClientCompatRequest
	err = codec.Unmarshal(data, &got)
	return vL(vI(format), verifC18CodecResult(err, &got, msg))
}

// the "unknown" bytes of a tree must be a sequence of well-formed fields with numbers no
// conformance message uses; anything else is outside the case format (the shrinker skips it)
func verifC18WellFormed(t verifC18Tree) bool {
	b := t.unknown
	for len(b) > 0 {
		num, _, n := protowire.ConsumeField(b)
		if n < 0 || num < 100 {
			return false
		}
		b = b[n:]
	}
	for _, s := range t.subs {
		if !verifC18WellFormed(s) {
			return false
		}
	}
	return true
}

func verifC18CodecUnknown(args []vsx) vsx {
	codec := verifC18Codec(args[0].i)
	tree := verifC18ParseTree(args[1])
	if args[0].i == 0 && !verifC18WellFormed(tree) {
		return vL(vS("bad-case"))
	}
	var data []byte
	var err error
	if args[0].i == 0 {
		data, err = proto.Marshal(verifC18Build(tree, true, true))
		if err != nil {
			return vErr("setup-marshal")
		}
	} else {
		clean, err := protojson.Marshal(verifC18Build(tree, false, false))
		if err != nil {
			return vErr("setup-marshal")
		}
		obj := map[string]any{}
		if err := json.Unmarshal(clean, &obj); err != nil {
			return vErr("setup-json")
		}
		verifC18InjectJSON(obj, tree, 0)
		if data, err = json.Marshal(obj); err != nil {
			return vErr("setup-json")
		}
	}
	var got conformancev1.ClientCompatRequest
	err = codec.Unmarshal(data, &got)
	if err != nil && !strings.Contains(err.Error(), "nrecognized field") && !strings.Contains(err.Error(), "unknown field") {
		return vS("err-other")
	}
	return verifC18CodecResult(err, &got, nil)
}
