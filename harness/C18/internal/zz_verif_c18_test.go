//go:build verif

package internal

import (
	"bytes"
	"encoding/json"
	"errors"
	"fmt"
	"net/http"
	"sort"
	"strings"

	conformancev1 "connectrpc.com/conformance/internal/gen/proto/go/connectrpc/conformance/v1"
	"connectrpc.com/connect"
	"google.golang.org/protobuf/encoding/protojson"
	"google.golang.org/protobuf/encoding/protowire"
	"google.golang.org/protobuf/proto"
	"google.golang.org/protobuf/reflect/protoreflect"
	"google.golang.org/protobuf/types/known/anypb"
	"google.golang.org/protobuf/types/known/structpb"

	// link the message types the detail generator uses, so that they resolve (a conversion that
	// decodes and re-encodes a detail of a registered type would canonicalise its bytes)
	_ "google.golang.org/genproto/googleapis/rpc/errdetails"
	_ "google.golang.org/protobuf/types/known/durationpb"
	_ "google.golang.org/protobuf/types/known/wrapperspb"
)

func init() {
	verifKinds["c18.err_connect"] = verifC18ErrConnect
	verifKinds["c18.err_go"] = verifC18ErrGo
	verifKinds["c18.http"] = verifC18HTTP
	verifKinds["c18.codec_rt"] = verifC18CodecRT
	verifKinds["c18.codec_unknown"] = verifC18CodecUnknown
	verifKinds["c18.codec_hist"] = verifC18CodecHist
	verifKinds["c18.codec_keep"] = verifC18CodecKeep
	verifKinds["c18.alias_http"] = verifC18AliasHTTP
}

// (code (msg)? ((url value)...)) -> *conformancev1.Error
func verifC18Perr(v vsx) *conformancev1.Error {
	e := &conformancev1.Error{Code: conformancev1.Code(int32(v.l[0].i))}
	if len(v.l[1].l) > 0 {
		e.Message = proto.String(v.l[1].l[0].str())
	}
	for _, d := range v.l[2].l {
		e.Details = append(e.Details, &anypb.Any{TypeUrl: d.l[0].str(), Value: append([]byte{}, d.l[1].b...)})
	}
	return e
}

func verifC18PerrOut(e *conformancev1.Error) vsx {
	msg := vL()
	if e.Message != nil {
		msg = vL(vS(*e.Message))
	}
	ds := make([]vsx, 0, len(e.Details))
	for _, d := range e.Details {
		ds = append(ds, vL(vS(d.GetTypeUrl()), vB(d.GetValue())))
	}
	return vL(vI(int64(int32(e.Code))), msg, vL(ds...))
}

// what an observer of a *connect.Error sees
func verifC18CerrOut(e *connect.Error) vsx {
	ds := make([]vsx, 0, len(e.Details()))
	for _, d := range e.Details() {
		ds = append(ds, vL(vS(d.Type()), vB(d.Bytes())))
	}
	return vL(vI(int64(uint32(e.Code()))), vS(e.Message()), vL(ds...))
}

// the source of a conversion is re-used: detail bytes overwritten in place, a detail appended
func verifC18ScribbleErr(e *conformancev1.Error) {
	if e == nil {
		return
	}
	for _, d := range e.Details {
		for i := range d.Value {
			d.Value[i] ^= 0xff
		}
		d.Value = append(d.Value, '#')
	}
	e.Details = append(e.Details, &anypb.Any{TypeUrl: "scribbled", Value: []byte("#")})
}

func verifC18ErrConnect(args []vsx) vsx {
	perr := verifC18Perr(args[0])
	cerr := ConvertProtoToConnectError(perr)
	// (a Connect error keeps the Any messages it was made of - connect.NewErrorDetail - so it is
	// looked at and converted before its source is re-used)
	view := verifC18CerrOut(cerr)
	back := ConvertConnectToProtoError(cerr)
	sibling := ConvertConnectToProtoError(cerr)
	verifC18ScribbleErr(sibling)
	verifC18ScribbleErr(perr)
	return vL(view, verifC18PerrOut(back))
}

type verifC18Wrapper struct {
	text  string
	inner error
}

func (w *verifC18Wrapper) Error() string { return w.text }
func (w *verifC18Wrapper) Unwrap() error { return w.inner }

func verifC18ErrGo(args []vsx) vsx {
	kind, text := args[0].i, args[1].str()
	cerr := ConvertProtoToConnectError(verifC18Perr(args[2]))
	var err error
	switch kind {
	case 0:
		err = errors.New(text)
	case 1:
		err = cerr
	default:
		err = &verifC18Wrapper{text: text, inner: cerr}
	}
	view := verifC18CerrOut(ConvertErrorToConnectError(err))
	back := ConvertErrorToProtoError(err)
	verifC18ScribbleErr(ConvertErrorToProtoError(err))
	return vL(view, verifC18PerrOut(back))
}

func verifC18Headers(v vsx) []*conformancev1.Header {
	out := make([]*conformancev1.Header, 0, len(v.l))
	for _, h := range v.l {
		out = append(out, &conformancev1.Header{Name: h.l[0].str(), Value: h.l[1].strs()})
	}
	return out
}

func verifC18HeadersOut(hs []*conformancev1.Header) vsx {
	sort.SliceStable(hs, func(i, j int) bool { return hs[i].Name < hs[j].Name })
	out := make([]vsx, 0, len(hs))
	for _, h := range hs {
		out = append(out, vL(vS(h.Name), vStrs(h.Value)))
	}
	return vL(out...)
}

func verifC18HTTP(args []vsx) vsx {
	dest := http.Header{}
	if args[0].i == 0 {
		AddHeaders(verifC18Headers(args[1]), dest)
	} else {
		AddTrailers(verifC18Headers(args[1]), dest)
	}
	return verifC18HeadersOut(ConvertToProtoHeader(dest))
}

// ---- codecs -------------------------------------------------------------
// The message tree (known unknown (subs...)) is laid over real conformance messages:
//   depth 0 ClientCompatRequest{test_name=known; subs[0] -> raw_request, subs[1:] -> request_headers}
//   depth 1 RawHTTPRequest{verb=known; subs[0] -> stream, subs[1:] -> headers}   (Header{name=known})
//   depth 2 StreamContents{subs -> items}
//   depth 3 StreamItem{subs[0] -> payload}
//   depth 4 MessageContents{text=known, or subs[0] -> binary_message}
//   depth 5 Any{type_url=known}
// "unknown" are well-formed unknown-field bytes stored with SetUnknown (binary codec) or,
// for the JSON codec, a marker meaning "an unrecognised key at this object".
type verifC18Tree struct {
	known   string
	unknown []byte
	subs    []verifC18Tree
}

func verifC18ParseTree(v vsx) verifC18Tree {
	t := verifC18Tree{known: v.l[0].str(), unknown: v.l[1].b}
	for _, s := range v.l[2].l {
		t.subs = append(t.subs, verifC18ParseTree(s))
	}
	return t
}

func verifC18SetUnknown(m proto.Message, t verifC18Tree, withUnknown bool) {
	if withUnknown && len(t.unknown) > 0 {
		m.ProtoReflect().SetUnknown(protoreflect.RawFields(t.unknown))
	}
}

func verifC18Header(t verifC18Tree, u bool) *conformancev1.Header {
	h := &conformancev1.Header{Name: t.known}
	verifC18SetUnknown(h, t, u)
	return h
}

func verifC18Build(t verifC18Tree, u bool, allowAny bool) *conformancev1.ClientCompatRequest {
	ccr := &conformancev1.ClientCompatRequest{TestName: t.known}
	verifC18SetUnknown(ccr, t, u)
	for i, s := range t.subs {
		if i > 0 {
			ccr.RequestHeaders = append(ccr.RequestHeaders, verifC18Header(s, u))
			continue
		}
		raw := &conformancev1.RawHTTPRequest{Verb: s.known}
		verifC18SetUnknown(raw, s, u)
		ccr.RawRequest = raw
		for j, s2 := range s.subs {
			if j > 0 {
				raw.Headers = append(raw.Headers, verifC18Header(s2, u))
				continue
			}
			stream := &conformancev1.StreamContents{}
			verifC18SetUnknown(stream, s2, u)
			raw.Body = &conformancev1.RawHTTPRequest_Stream{Stream: stream}
			for _, s3 := range s2.subs {
				item := &conformancev1.StreamContents_StreamItem{}
				verifC18SetUnknown(item, s3, u)
				stream.Items = append(stream.Items, item)
				if len(s3.subs) == 0 {
					continue
				}
				s4 := s3.subs[0]
				mc := &conformancev1.MessageContents{}
				verifC18SetUnknown(mc, s4, u)
				item.Payload = mc
				if len(s4.subs) > 0 && allowAny {
					s5 := s4.subs[0]
					a := &anypb.Any{TypeUrl: s5.known}
					verifC18SetUnknown(a, s5, u)
					mc.Data = &conformancev1.MessageContents_BinaryMessage{BinaryMessage: a}
				} else {
					mc.Data = &conformancev1.MessageContents_Text{Text: s4.known}
				}
			}
		}
	}
	return ccr
}

// the same walk over the generic JSON form: add an unrecognised key where the tree has unknown bytes
func verifC18InjectJSON(obj map[string]any, t verifC18Tree, depth int) {
	if len(t.unknown) > 0 {
		obj["verifUnrecognised"] = 1
	}
	child := func(key string) map[string]any {
		m, _ := obj[key].(map[string]any)
		if m == nil {
			m = map[string]any{}
			obj[key] = m
		}
		return m
	}
	list := func(key string, n int) []any {
		l, _ := obj[key].([]any)
		for len(l) < n {
			l = append(l, map[string]any{})
		}
		obj[key] = l
		return l
	}
	switch depth {
	case 0, 1:
		first, rest := "rawRequest", "requestHeaders"
		if depth == 1 {
			first, rest = "stream", "headers"
		}
		if len(t.subs) > 0 {
			verifC18InjectJSON(child(first), t.subs[0], depth+1)
		}
		if len(t.subs) > 1 {
			l := list(rest, len(t.subs)-1)
			for i, s := range t.subs[1:] {
				verifC18InjectJSON(l[i].(map[string]any), s, 9)
			}
		}
	case 2:
		l := list("items", len(t.subs))
		for i, s := range t.subs {
			verifC18InjectJSON(l[i].(map[string]any), s, 3)
		}
	case 3:
		if len(t.subs) > 0 {
			verifC18InjectJSON(child("payload"), t.subs[0], 4)
		}
	}
}

func verifC18HasUnknown(m protoreflect.Message) bool {
	if len(m.GetUnknown()) > 0 {
		return true
	}
	found := false
	m.Range(func(fd protoreflect.FieldDescriptor, v protoreflect.Value) bool {
		switch {
		case fd.IsMap():
			if fd.MapValue().Message() != nil {
				v.Map().Range(func(_ protoreflect.MapKey, mv protoreflect.Value) bool {
					found = found || verifC18HasUnknown(mv.Message())
					return !found
				})
			}
		case fd.IsList():
			if fd.Message() != nil {
				for i := 0; i < v.List().Len(); i++ {
					found = found || verifC18HasUnknown(v.List().Get(i).Message())
				}
			}
		case fd.Message() != nil:
			found = found || verifC18HasUnknown(v.Message())
		}
		return !found
	})
	return found
}

func verifC18CodecResult(err error, got, want proto.Message) vsx {
	switch {
	case err != nil:
		return vS("err")
	case verifC18HasUnknown(got.ProtoReflect()):
		return vS("ok-with-unknown")
	case want != nil && !proto.Equal(got, want):
		return vS("ok-differs")
	default:
		return vS("ok")
	}
}

func verifC18Codec(c int64) connect.Codec {
	if c == 0 {
		return StrictProtoCodec{}
	}
	return StrictJSONCodec{}
}

func verifC18CodecRT(args []vsx) vsx {
	codec := verifC18Codec(args[0].i)
	msg := verifC18Build(verifC18ParseTree(args[1]), false, args[0].i == 0)
	data, err := codec.Marshal(msg)
	if err != nil {
		return vErr("marshal")
	}
	format := int64(2)
	var probe conformancev1.ClientCompatRequest
	if protojson.Unmarshal(data, &probe) == nil && proto.Equal(&probe, msg) {
		format = 1
	} else {
		probe.Reset()
		if proto.Unmarshal(data, &probe) == nil && proto.Equal(&probe, msg) {
			format = 0
		}
	}
	var got conformancev1.ClientCompatRequest
	err = codec.Unmarshal(data, &got)
	return vL(vI(format), verifC18CodecResult(err, &got, msg))
}

// the "unknown" bytes of a tree must be a sequence of well-formed fields with numbers no
// conformance message uses; anything else is outside the case format (the shrinker skips it)
func verifC18WellFormed(t verifC18Tree) bool {
	b := t.unknown
	for len(b) > 0 {
		num, _, n := protowire.ConsumeField(b)
		if n < 0 || num < 100 {
			return false
		}
		b = b[n:]
	}
	for _, s := range t.subs {
		if !verifC18WellFormed(s) {
			return false
		}
	}
	return true
}

func verifC18CodecUnknown(args []vsx) vsx {
	codec := verifC18Codec(args[0].i)
	tree := verifC18ParseTree(args[1])
	if args[0].i == 0 && !verifC18WellFormed(tree) {
		return vL(vS("bad-case"))
	}
	var data []byte
	var err error
	if args[0].i == 0 {
		data, err = proto.Marshal(verifC18Build(tree, true, true))
		if err != nil {
			return vErr("setup-marshal")
		}
	} else {
		clean, err := protojson.Marshal(verifC18Build(tree, false, false))
		if err != nil {
			return vErr("setup-marshal")
		}
		obj := map[string]any{}
		if err := json.Unmarshal(clean, &obj); err != nil {
			return vErr("setup-json")
		}
		verifC18InjectJSON(obj, tree, 0)
		if data, err = json.Marshal(obj); err != nil {
			return vErr("setup-json")
		}
	}
	var got conformancev1.ClientCompatRequest
	err = codec.Unmarshal(data, &got)
	if err != nil && !strings.Contains(err.Error(), "nrecognized field") && !strings.Contains(err.Error(), "unknown field") {
		return vS("err-other")
	}
	return verifC18CodecResult(err, &got, nil)
}

// ---- histories: the converted structures are used further ---------------------------------

// header values in slices with spare capacity: an append() to such a slice - or to anything
// that shares its array - writes in place
func verifC18Spare(vals []string) []string {
	out := make([]string, len(vals), len(vals)+4)
	copy(out, vals)
	return out
}

func verifC18MapOut(m map[string][]string) vsx {
	keys := make([]string, 0, len(m))
	for k := range m {
		keys = append(keys, k)
	}
	sort.Strings(keys)
	out := make([]vsx, 0, len(m))
	for _, k := range keys {
		out = append(out, vL(vS(k), vStrs(m[k])))
	}
	return vL(out...)
}

func verifC18AppendAll(m map[string][]string, x string) {
	keys := make([]string, 0, len(m))
	for k := range m {
		keys = append(keys, k)
	}
	sort.Strings(keys)
	for _, k := range keys {
		m[k] = append(m[k], x)
	}
}

// fn headers x1 x2 -> (A after the conversion, A at the end, B at the end): A and B are filled
// from the SAME source; x1 is appended to every value list of A, x2 to every value list of B,
// then the source's arrays are scribbled over and its slices appended to
func verifC18AliasHTTP(args []vsx) vsx {
	fn, x1, x2 := args[0].i, args[2].str(), args[3].str()
	switch fn {
	case 0, 1:
		conv := AddHeaders
		if fn == 1 {
			conv = AddTrailers
		}
		src := verifC18Headers(args[1])
		for _, h := range src {
			h.Value = verifC18Spare(h.Value)
		}
		a, b := http.Header{}, http.Header{}
		conv(src, a)
		img0 := verifC18MapOut(a)
		conv(src, b)
		verifC18AppendAll(a, x1)
		verifC18AppendAll(b, x2)
		for _, h := range src {
			for i := range h.Value {
				h.Value[i] = "#"
			}
			h.Value = append(h.Value, "#")
		}
		return vL(img0, verifC18MapOut(a), verifC18MapOut(b))
	case 2:
		src := map[string][]string{}
		for _, h := range verifC18Headers(args[1]) {
			src[h.Name] = verifC18Spare(h.Value)
		}
		a := ConvertToProtoHeader(src)
		img0 := verifC18HeadersOut(a)
		b := ConvertToProtoHeader(src)
		sort.SliceStable(b, func(i, j int) bool { return b[i].Name < b[j].Name })
		for _, h := range a {
			h.Value = append(h.Value, x1)
		}
		for _, h := range b {
			h.Value = append(h.Value, x2)
		}
		for k, vs := range src {
			for i := range vs {
				vs[i] = "#"
			}
			src[k] = append(vs, "#")
		}
		return vL(img0, verifC18HeadersOut(a), verifC18HeadersOut(b))
	}
	return vL(vS("bad-case"))
}

// ---- codec histories: ONE message object is changed in place (nested messages, list elements,
// map values keep their identity wherever possible) and encoded again and again ----------------

func verifC18SyncHeaders(hs []*conformancev1.Header, ts []verifC18Tree) []*conformancev1.Header {
	if len(hs) > len(ts) {
		hs = hs[:len(ts)]
	}
	for i, t := range ts {
		if i < len(hs) {
			hs[i].Name = t.known
		} else {
			hs = append(hs, &conformancev1.Header{Name: t.known})
		}
	}
	return hs
}

// the in-place counterpart of verifC18Build(t, false, allowAny)
func verifC18Sync(ccr *conformancev1.ClientCompatRequest, t verifC18Tree, allowAny bool) {
	ccr.TestName = t.known
	if len(t.subs) == 0 {
		ccr.RawRequest, ccr.RequestHeaders = nil, nil
		return
	}
	ccr.RequestHeaders = verifC18SyncHeaders(ccr.RequestHeaders, t.subs[1:])
	if ccr.RawRequest == nil {
		ccr.RawRequest = &conformancev1.RawHTTPRequest{}
	}
	raw, s := ccr.RawRequest, t.subs[0]
	raw.Verb = s.known
	if len(s.subs) == 0 {
		raw.Body, raw.Headers = nil, nil
		return
	}
	raw.Headers = verifC18SyncHeaders(raw.Headers, s.subs[1:])
	body, _ := raw.Body.(*conformancev1.RawHTTPRequest_Stream)
	if body == nil || body.Stream == nil {
		body = &conformancev1.RawHTTPRequest_Stream{Stream: &conformancev1.StreamContents{}}
		raw.Body = body
	}
	stream, s2 := body.Stream, s.subs[0]
	items := stream.Items
	if len(items) > len(s2.subs) {
		items = items[:len(s2.subs)]
	}
	for i, s3 := range s2.subs {
		if i >= len(items) {
			items = append(items, &conformancev1.StreamContents_StreamItem{})
		}
		item := items[i]
		if len(s3.subs) == 0 {
			item.Payload = nil
			continue
		}
		if item.Payload == nil {
			item.Payload = &conformancev1.MessageContents{}
		}
		payload, s4 := item.Payload, s3.subs[0]
		if len(s4.subs) > 0 && allowAny {
			bin, _ := payload.Data.(*conformancev1.MessageContents_BinaryMessage)
			if bin == nil || bin.BinaryMessage == nil {
				bin = &conformancev1.MessageContents_BinaryMessage{BinaryMessage: &anypb.Any{}}
				payload.Data = bin
			}
			bin.BinaryMessage.TypeUrl = s4.subs[0].known
		} else {
			payload.Data = &conformancev1.MessageContents_Text{Text: s4.known}
		}
	}
	stream.Items = items
}

// the tree laid over google.protobuf.Struct: fields["s"] = known, fields["m<i>"] = struct of subs[i]
// (map values of message type)
func verifC18SyncStruct(st *structpb.Struct, t verifC18Tree) {
	if st.Fields == nil {
		st.Fields = map[string]*structpb.Value{}
	}
	if v := st.Fields["s"]; v != nil {
		v.Kind = &structpb.Value_StringValue{StringValue: t.known}
	} else {
		st.Fields["s"] = structpb.NewStringValue(t.known)
	}
	for i, s := range t.subs {
		key := fmt.Sprintf("m%d", i)
		v := st.Fields[key]
		if v == nil {
			v = &structpb.Value{}
			st.Fields[key] = v
		}
		sv, _ := v.Kind.(*structpb.Value_StructValue)
		if sv == nil || sv.StructValue == nil {
			sv = &structpb.Value_StructValue{StructValue: &structpb.Struct{}}
			v.Kind = sv
		}
		verifC18SyncStruct(sv.StructValue, s)
	}
	for i := len(t.subs); ; i++ {
		key := fmt.Sprintf("m%d", i)
		if _, ok := st.Fields[key]; !ok {
			break
		}
		delete(st.Fields, key)
	}
}

// codec family ((k tree)...) -> the result of every Marshal
func verifC18CodecHist(args []vsx) vsx {
	codec := verifC18Codec(args[0].i)
	family, allowAny := args[1].i, args[0].i == 0
	var obj proto.Message
	fresh := func(t verifC18Tree) proto.Message {
		if family == 1 {
			st := &structpb.Struct{}
			verifC18SyncStruct(st, t)
			return st
		}
		return verifC18Build(t, false, allowAny)
	}
	if family == 1 {
		obj = &structpb.Struct{}
	} else {
		obj = &conformancev1.ClientCompatRequest{}
	}
	decode := func(data []byte, want proto.Message) vsx {
		got := obj.ProtoReflect().New().Interface()
		err := codec.Unmarshal(data, got)
		res := verifC18CodecResult(err, got, obj)
		if err == nil && !proto.Equal(got, want) {
			return vS("ok-differs")
		}
		return res
	}
	out := []vsx{}
	for _, step := range args[2].l {
		k, t := step.l[0].i, verifC18ParseTree(step.l[1])
		if family == 1 {
			verifC18SyncStruct(obj.(*structpb.Struct), t)
		} else {
			verifC18Sync(obj.(*conformancev1.ClientCompatRequest), t, allowAny)
		}
		want := fresh(t)
		if !proto.Equal(obj, want) {
			return vErr("harness-sync") // the in-place update must give the value a fresh build gives
		}
		if k >= 1 {
			proto.Size(obj)
		}
		if k == 2 {
			continue
		}
		data, err := codec.Marshal(obj)
		if err != nil {
			out = append(out, vS("marshal-err"))
			continue
		}
		res := decode(data, want)
		// the other two entry points encode the same value
		type appender interface {
			MarshalAppend([]byte, any) ([]byte, error)
			MarshalStable(any) ([]byte, error)
		}
		if app, ok := codec.(appender); ok && res.b != nil && string(res.b) == "ok" {
			prefix := []byte("prefix")
			appended, err := app.MarshalAppend(prefix, obj)
			if err != nil || !bytes.HasPrefix(appended, prefix) {
				res = vS("marshal-err")
			} else if r2 := decode(appended[len(prefix):], want); string(r2.b) != "ok" {
				res = r2
			} else if stable, err := app.MarshalStable(obj); err != nil {
				res = vS("marshal-err")
			} else if r3 := decode(stable, want); string(r3.b) != "ok" {
				res = r3
			}
		}
		out = append(out, res)
	}
	return vL(out...)
}

// c18.codec_keep: the history of c18.codec_hist, but EVERY output (Marshal, MarshalAppend into a
// buffer of the call's own, MarshalStable) is kept and decoded only after the last call of the
// history: a returned byte slice must not be a view of memory that a later call writes.
func verifC18CodecKeep(args []vsx) vsx {
	codec := verifC18Codec(args[0].i)
	family, allowAny := args[1].i, args[0].i == 0
	var obj proto.Message
	fresh := func(t verifC18Tree) proto.Message {
		if family == 1 {
			st := &structpb.Struct{}
			verifC18SyncStruct(st, t)
			return st
		}
		return verifC18Build(t, false, allowAny)
	}
	if family == 1 {
		obj = &structpb.Struct{}
	} else {
		obj = &conformancev1.ClientCompatRequest{}
	}
	type appender interface {
		MarshalAppend([]byte, any) ([]byte, error)
		MarshalStable(any) ([]byte, error)
	}
	type kept struct {
		want    proto.Message
		failed  bool
		outs    [][]byte // views exactly as returned
		prefixN int
	}
	var keep []kept
	prefix := []byte("prefix")
	for i, step := range args[2].l {
		k, t := step.l[0].i, verifC18ParseTree(step.l[1])
		if family == 1 {
			verifC18SyncStruct(obj.(*structpb.Struct), t)
		} else {
			verifC18Sync(obj.(*conformancev1.ClientCompatRequest), t, allowAny)
		}
		want := fresh(t)
		if !proto.Equal(obj, want) {
			return vErr("harness-sync")
		}
		if k >= 1 {
			proto.Size(obj)
		}
		if k == 2 {
			continue
		}
		entry := kept{want: want, prefixN: len(prefix)}
		data, err := codec.Marshal(obj)
		if err != nil {
			entry.failed = true
			keep = append(keep, entry)
			continue
		}
		entry.outs = append(entry.outs, data)
		if app, ok := codec.(appender); ok {
			// the destination is the call's own: no spare capacity (odd steps) or plenty (even steps)
			dst := make([]byte, len(prefix), len(prefix)+(i%2)*4096)
			copy(dst, prefix)
			appended, err := app.MarshalAppend(dst, obj)
			if err != nil || !bytes.HasPrefix(appended, prefix) {
				entry.failed = true
			} else {
				entry.outs = append(entry.outs, appended)
			}
			stable, err := app.MarshalStable(obj)
			if err != nil {
				entry.failed = true
			} else {
				entry.outs = append(entry.outs, stable)
			}
		}
		keep = append(keep, entry)
	}
	// only now: read every output again
	out := []vsx{}
	for _, entry := range keep {
		if entry.failed {
			out = append(out, vS("marshal-err"))
			continue
		}
		res := vS("ok")
		for j, data := range entry.outs {
			if j == 1 {
				if !bytes.HasPrefix(data, prefix) {
					res = vS("ok-differs")
					break
				}
				data = data[entry.prefixN:]
			}
			got := obj.ProtoReflect().New().Interface()
			err := codec.Unmarshal(data, got)
			r := verifC18CodecResult(err, got, entry.want)
			if string(r.b) != "ok" {
				res = r
				break
			}
		}
		out = append(out, res)
	}
	return vL(out...)
}
