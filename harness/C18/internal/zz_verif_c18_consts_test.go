//go:build verif

package internal

import (
	"fmt"
	"go/ast"
	"go/parser"
	"go/token"
	"os"
	"path/filepath"
	"sort"
	"strconv"
	"strings"
	"testing"
)

// TestVerifConsts regenerates coq/theories/C18_Consts.v: which peer installs which strict codec
// (C18_Wiring.v), read from the sources of the four reference peers.  One entry per mention of
// internal.StrictJSONCodec / internal.StrictProtoCodec in non-test code, in source order:
// (peer, codec, guards) with peer 1 = referenceserver, 2 = referenceclient, 3 = grpcserver,
// 4 = grpcclient; codec 1 = StrictJSONCodec, 2 = StrictProtoCodec; guards = the number of if
// statements and case clauses of the enclosing function the mention sits in (0 = installed on
// every path through the set-up code).
func TestVerifConsts(t *testing.T) {
	out := os.Getenv("VERIF_OUT")
	if out == "" {
		t.Skip("VERIF_OUT not set")
	}
	var entries []string
	for i, dir := range []string{"app/referenceserver", "app/referenceclient", "app/grpcserver", "app/grpcclient"} {
		found, err := verifC18StrictCodecMentions(dir)
		if err != nil {
			t.Fatal(err)
		}
		for _, f := range found {
			entries = append(entries, fmt.Sprintf("(%d, %d, %d)", i+1, f[0], f[1]))
		}
	}
	text := fmt.Sprintf("Definition c18_codec_registrations : list (Z * Z * Z) := [%s]%%Z.\n", strings.Join(entries, "; "))
	if err := os.WriteFile(out, []byte(text), 0o644); err != nil {
		t.Fatal(err)
	}
}

func verifC18StrictCodecMentions(dir string) ([][2]int, error) {
	files, err := filepath.Glob(filepath.Join(dir, "*.go"))
	if err != nil {
		return nil, err
	}
	sort.Strings(files)
	var found [][2]int
	fset := token.NewFileSet()
	for _, file := range files {
		if strings.HasSuffix(file, "_test.go") {
			continue
		}
		parsed, err := parser.ParseFile(fset, file, nil, 0)
		if err != nil {
			return nil, err
		}
		internalName := ""
		for _, imp := range parsed.Imports {
			if path, _ := strconv.Unquote(imp.Path.Value); path == "connectrpc.com/conformance/internal" {
				internalName = "internal"
				if imp.Name != nil {
					internalName = imp.Name.Name
				}
			}
		}
		if internalName == "" {
			continue
		}
		var stack []ast.Node
		ast.Inspect(parsed, func(node ast.Node) bool {
			if node == nil {
				stack = stack[:len(stack)-1]
				return true
			}
			stack = append(stack, node)
			sel, ok := node.(*ast.SelectorExpr)
			if !ok {
				return true
			}
			pkg, ok := sel.X.(*ast.Ident)
			if !ok || pkg.Name != internalName {
				return true
			}
			codec := map[string]int{"StrictJSONCodec": 1, "StrictProtoCodec": 2}[sel.Sel.Name]
			if codec == 0 {
				return true
			}
			guards := 0
			for i := len(stack) - 1; i >= 0; i-- {
				switch stack[i].(type) {
				case *ast.IfStmt, *ast.CaseClause, *ast.CommClause:
					guards++
				case *ast.FuncDecl:
					i = 0
				}
			}
			found = append(found, [2]int{codec, guards})
			return true
		})
	}
	return found, nil
}
