//go:build verif

package grpcutil

import (
	"context"
	"errors"
	"net/url"
	"sort"

	conformancev1 "connectrpc.com/conformance/internal/gen/proto/go/connectrpc/conformance/v1"
	"connectrpc.com/connect"
	"google.golang.org/grpc/metadata"
	"google.golang.org/grpc/status"
	"google.golang.org/protobuf/proto"
	"google.golang.org/protobuf/types/known/anypb"

	// link the message types the detail generator uses, so that they resolve (a conversion that
	// decodes and re-encodes a detail of a registered type would canonicalise its bytes)
	_ "google.golang.org/genproto/googleapis/rpc/errdetails"
	_ "google.golang.org/protobuf/types/known/durationpb"
	_ "google.golang.org/protobuf/types/known/structpb"
	_ "google.golang.org/protobuf/types/known/wrapperspb"
)

func init() {
	verifKinds["c18.err_grpc"] = verifC18ErrGrpc
	verifKinds["c18.md"] = verifC18MD
	verifKinds["c18.md_back"] = verifC18MDBack
	verifKinds["c18.outgoing"] = verifC18Outgoing
	verifKinds["c18.escape"] = verifC18Escape
	verifKinds["c18.percent"] = verifC18Percent
	verifKinds["c18.unpercent"] = verifC18Unpercent
	verifKinds["c18.b64"] = verifC18B64
	verifKinds["c18.alias_md"] = verifC18AliasMD
}

func verifC18Perr(v vsx) *conformancev1.Error {
	e := &conformancev1.Error{Code: conformancev1.Code(int32(v.l[0].i))}
	if len(v.l[1].l) > 0 {
		e.Message = proto.String(v.l[1].l[0].str())
	}
	for _, d := range v.l[2].l {
		e.Details = append(e.Details, &anypb.Any{TypeUrl: d.l[0].str(), Value: append([]byte{}, d.l[1].b...)})
	}
	return e
}

func verifC18Anys(as []*anypb.Any) vsx {
	ds := make([]vsx, 0, len(as))
	for _, d := range as {
		ds = append(ds, vL(vS(d.GetTypeUrl()), vB(d.GetValue())))
	}
	return vL(ds...)
}

func verifC18PerrOut(e *conformancev1.Error) vsx {
	msg := vL()
	if e.Message != nil {
		msg = vL(vS(*e.Message))
	}
	return vL(vI(int64(int32(e.Code))), msg, verifC18Anys(e.Details))
}

// the source of a conversion is re-used: detail bytes overwritten in place, a detail appended
func verifC18ScribbleErr(e *conformancev1.Error) {
	if e == nil {
		return
	}
	for _, d := range e.Details {
		for i := range d.Value {
			d.Value[i] ^= 0xff
		}
		d.Value = append(d.Value, '#')
	}
	e.Details = append(e.Details, &anypb.Any{TypeUrl: "scribbled", Value: []byte("#")})
}

type verifC18Wrapper struct {
	text  string
	inner error
}

func (w *verifC18Wrapper) Error() string { return w.text }
func (w *verifC18Wrapper) Unwrap() error { return w.inner }

// kind text perr -> ((status view)? (proto again)?)
func verifC18ErrGrpc(args []vsx) vsx {
	kind, text := args[0].i, args[1].str()
	perr := verifC18Perr(args[2])
	gerr := ConvertProtoToGrpcError(perr)
	verifC18ScribbleErr(perr) // the source is re-used: the status must hold details of its own
	view := vL()
	if gerr != nil {
		st, ok := status.FromError(gerr)
		if !ok {
			return vErr("not-a-status")
		}
		p := st.Proto()
		view = vL(vL(vI(int64(p.GetCode())), vS(p.GetMessage()), verifC18Anys(p.GetDetails())))
	}
	var err error
	switch {
	case kind == 1:
		err = errors.New(text)
	case gerr == nil:
		err = nil
	case kind == 0:
		err = gerr
	default:
		err = &verifC18Wrapper{text: text, inner: gerr}
	}
	back := ConvertGrpcToProtoError(err)
	verifC18ScribbleErr(ConvertGrpcToProtoError(err)) // so is a sibling result
	if back == nil {
		return vL(view, vL())
	}
	return vL(view, vL(verifC18PerrOut(back)))
}

func verifC18Headers(v vsx) []*conformancev1.Header {
	out := make([]*conformancev1.Header, 0, len(v.l))
	for _, h := range v.l {
		out = append(out, &conformancev1.Header{Name: h.l[0].str(), Value: h.l[1].strs()})
	}
	return out
}

func verifC18HeadersOut(hs []*conformancev1.Header) vsx {
	sort.SliceStable(hs, func(i, j int) bool { return hs[i].Name < hs[j].Name })
	out := make([]vsx, 0, len(hs))
	for _, h := range hs {
		out = append(out, vL(vS(h.Name), vStrs(h.Value)))
	}
	return vL(out...)
}

func verifC18MDOut(md metadata.MD) vsx {
	keys := make([]string, 0, len(md))
	for k := range md {
		keys = append(keys, k)
	}
	sort.Strings(keys)
	out := make([]vsx, 0, len(md))
	for _, k := range keys {
		out = append(out, vL(vS(k), vStrs(md[k])))
	}
	return vL(out...)
}

// headers -> (metadata, headers again)
func verifC18MD(args []vsx) vsx {
	md := ConvertProtoHeaderToMetadata(verifC18Headers(args[0]))
	mdOut := verifC18MDOut(md) // printed before the conversion back, which encodes in place
	return vL(mdOut, verifC18HeadersOut(ConvertMetadataToProtoHeader(md)))
}

// metadata (unique keys, as given) -> headers
func verifC18MDBack(args []vsx) vsx {
	md := metadata.MD{}
	for _, h := range args[0].l {
		md[h.l[0].str()] = h.l[1].strs()
	}
	return verifC18HeadersOut(ConvertMetadataToProtoHeader(md))
}

// headers -> (outgoing metadata as grpc-go will send it, what the peer's conversion reports)
func verifC18Outgoing(args []vsx) vsx {
	ctx := AppendToOutgoingContext(context.Background(), verifC18Headers(args[0]))
	md, _ := metadata.FromOutgoingContext(ctx)
	mdOut := verifC18MDOut(md)
	return vL(mdOut, verifC18HeadersOut(ConvertMetadataToProtoHeader(md)))
}

func verifC18Escape(args []vsx) vsx {
	return vBool(ShouldEscapeByteInMessage(byte(args[0].i)))
}

func verifC18Unescaped(s string) vsx {
	// the decoder the repository pairs the encoder with (referenceclient/wire_details.go)
	dec, err := url.PathUnescape(s)
	if err != nil {
		return vL()
	}
	return vL(vS(dec))
}

func verifC18Percent(args []vsx) vsx {
	enc := PercentEncodeMessage(args[0].str())
	return vL(vS(enc), verifC18Unescaped(enc))
}

func verifC18Unpercent(args []vsx) vsx {
	return verifC18Unescaped(args[0].str())
}

func verifC18B64(args []vsx) vsx {
	dec := vL()
	if d, err := connect.DecodeBinaryHeader(args[0].str()); err == nil {
		dec = vL(vB(d))
	}
	return vL(dec, vS(connect.EncodeBinaryHeader(args[0].b)))
}

// ---- histories: the converted structures are used further ---------------------------------
func verifC18Spare(vals []string) []string {
	out := make([]string, len(vals), len(vals)+4)
	copy(out, vals)
	return out
}

func verifC18AppendAll(m map[string][]string, x string) {
	keys := make([]string, 0, len(m))
	for k := range m {
		keys = append(keys, k)
	}
	sort.Strings(keys)
	for _, k := range keys {
		m[k] = append(m[k], x)
	}
}

// fn headers x1 x2 -> (A after the conversion, A at the end, B at the end): A and B come from
// the SAME source; x1 is appended to every value list of A, x2 to every value list of B, then
// the source's arrays are scribbled over and its slices appended to
func verifC18AliasMD(args []vsx) vsx {
	fn, x1, x2 := args[0].i, args[2].str(), args[3].str()
	switch fn {
	case 3:
		src := verifC18Headers(args[1])
		for _, h := range src {
			h.Value = verifC18Spare(h.Value)
		}
		a := ConvertProtoHeaderToMetadata(src)
		img0 := verifC18MDOut(a)
		b := ConvertProtoHeaderToMetadata(src)
		verifC18AppendAll(a, x1)
		verifC18AppendAll(b, x2)
		for _, h := range src {
			for i := range h.Value {
				h.Value[i] = "#"
			}
			h.Value = append(h.Value, "#")
		}
		return vL(img0, verifC18MDOut(a), verifC18MDOut(b))
	case 4:
		src := metadata.MD{}
		for _, h := range verifC18Headers(args[1]) {
			src[h.Name] = verifC18Spare(h.Value)
		}
		a := ConvertMetadataToProtoHeader(src)
		img0 := verifC18HeadersOut(a)
		b := ConvertMetadataToProtoHeader(src) // the same metadata converted once more
		sort.SliceStable(b, func(i, j int) bool { return b[i].Name < b[j].Name })
		for _, h := range a {
			h.Value = append(h.Value, x1)
		}
		for _, h := range b {
			h.Value = append(h.Value, x2)
		}
		for k, vs := range src {
			for i := range vs {
				vs[i] = "#"
			}
			src[k] = append(vs, "#")
		}
		return vL(img0, verifC18HeadersOut(a), verifC18HeadersOut(b))
	}
	return vL(vS("bad-case"))
}
