//go:build verif

package connectconformance

import (
	"errors"
	"fmt"
	"strings"
	"sync"

	conformancev1 "connectrpc.com/conformance/internal/gen/proto/go/connectrpc/conformance/v1"
)

func init() {
	verifKinds["c04.results"] = verifC04Results
}

// c04Printer records every formatted message (one element per Printf call).
type c04Printer struct {
	mu   sync.Mutex
	msgs []string
	hook func(msg string) // called outside the lock, before recording
}

func (p *c04Printer) Printf(msg string, args ...any) {
	s := fmt.Sprintf(msg, args...)
	if p.hook != nil {
		p.hook(s)
	}
	p.mu.Lock()
	p.msgs = append(p.msgs, s)
	p.mu.Unlock()
}

func (p *c04Printer) PrefixPrintf(prefix, msg string, args ...any) {
	p.Printf(prefix+": "+msg, args...)
}

func (p *c04Printer) take() []string {
	p.mu.Lock()
	defer p.mu.Unlock()
	out := p.msgs
	p.msgs = nil
	return out
}

// c04ParseReport projects the printed report onto names and numbers only:
// (ok total passed failed notrun expected (FAILED names) (INFO names)).
func c04ParseReport(ok bool, msgs []string) vsx {
	total, passed, failed, notrun, expected := -1, -1, -1, 0, 0
	failedNames, infoNames := []string{}, []string{}
	for _, m := range msgs {
		switch {
		case strings.HasPrefix(m, "FAILED: "):
			rest := strings.TrimPrefix(m, "FAILED: ")
			if strings.HasSuffix(rest, " was expected to fail but did not") {
				failedNames = append(failedNames, strings.TrimSuffix(rest, " was expected to fail but did not"))
			} else if i := strings.Index(rest, ":\n"); i >= 0 {
				failedNames = append(failedNames, rest[:i])
			} else {
				return vErr("unparsed-FAILED-line")
			}
		case strings.HasPrefix(m, "INFO: "):
			rest := strings.TrimPrefix(m, "INFO: ")
			i := strings.Index(rest, " failed (as expected):")
			if i < 0 {
				return vErr("unparsed-INFO-line")
			}
			infoNames = append(infoNames, rest[:i])
		case strings.HasPrefix(m, "Total cases: "):
			if n, err := fmt.Sscanf(m, "Total cases: %d\n%d passed, %d failed", &total, &passed, &failed); n != 3 || err != nil {
				return vErr("unparsed-totals")
			}
		case strings.HasPrefix(m, "Another "):
			if n, err := fmt.Sscanf(m, "Another %d could not be run", &notrun); n != 1 || err != nil {
				return vErr("unparsed-notrun")
			}
		case strings.HasPrefix(m, "(Another "):
			if n, err := fmt.Sscanf(m, "(Another %d failed as expected", &expected); n != 1 || err != nil {
				return vErr("unparsed-expected")
			}
		}
	}
	if total < 0 {
		return vErr("no-totals-line")
	}
	return vL(vBool(ok), vInt(total), vInt(passed), vInt(failed), vInt(notrun), vInt(expected),
		vStrs(failedNames), vStrs(infoNames))
}

func c04Err(kind int64) error {
	switch kind {
	case 0:
		return errors.New("assertion failure")
	case 1:
		return errors.New("client error")
	case 2:
		return errors.New("error starting server: boom")
	case 3:
		return &couldNotRunError{errClosed}
	case 4:
		return &failedToGetResultError{errNoOutcome}
	case 5:
		return errors.New("feedback")
	case 6:
		return errors.New("client returned a response with neither an error nor result")
	case 7:
		return fmt.Errorf("wrapped: %w", &couldNotRunError{errClosed})
	}
	panic("verif: bad error kind")
}

func c04Trie(names []string) *testTrie {
	t := parsePatterns(names)
	if t == nil {
		t = &testTrie{}
	}
	return t
}

func c04Cases(names []string) []*conformancev1.TestCase {
	out := make([]*conformancev1.TestCase, len(names))
	for i, n := range names {
		out[i] = c04Case(n)
	}
	return out
}

// a definition whose expectation is one payload "x"
func c04Case(name string) *conformancev1.TestCase {
	return &conformancev1.TestCase{
		Request: &conformancev1.ClientCompatRequest{
			TestName:   name,
			StreamType: conformancev1.StreamType_STREAM_TYPE_UNARY,
		},
		ExpectedResponse: &conformancev1.ClientResponseResult{
			Payloads: []*conformancev1.ConformancePayload{{Data: []byte("x")}},
		},
	}
}

func c04Actual(ok bool) *conformancev1.ClientResponseResult {
	data := []byte("x")
	if !ok {
		data = []byte("y")
	}
	return &conformancev1.ClientResponseResult{
		Payloads: []*conformancev1.ConformancePayload{{Data: data}},
	}
}

// total (kf names) (kfl names) (ops) -> (report, report again)
// drives the real testResults with the scripted history, then the real report() twice.
func verifC04Results(args []vsx) vsx {
	total := int(args[0].i)
	results := newResults(total, c04Trie(args[1].strs()), c04Trie(args[2].strs()), nil)
	for _, o := range args[3].l {
		switch o.l[0].i {
		case 0:
			name, r := o.l[1].str(), o.l[2]
			if len(r.l) == 0 {
				results.setOutcome(name, false, nil)
			} else {
				results.setOutcome(name, r.l[0].i != 0, c04Err(r.l[1].i))
			}
		case 1:
			results.failed(o.l[1].str(), &conformancev1.ClientErrorResult{Message: "client says no"})
		case 2:
			name := o.l[1].str()
			results.assert(name, c04Case(name), c04Actual(o.l[2].i != 0))
		case 3:
			results.failedToStart(c04Cases(o.l[1].strs()), c04Err(o.l[2].i))
		case 4:
			results.failRemaining(c04Cases(o.l[1].strs()), c04Err(o.l[2].i))
		case 5:
			results.recordSideband(o.l[1].str(), "peer did not like this")
		default:
			return vL(vS("bad-case"))
		}
	}
	pr := &c04Printer{}
	ok1 := results.report(pr)
	first := c04ParseReport(ok1, pr.take())
	ok2 := results.report(pr)
	second := c04ParseReport(ok2, pr.take())
	return vL(first, second)
}
