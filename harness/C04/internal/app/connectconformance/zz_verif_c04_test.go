//go:build verif

package connectconformance

import (
	"bytes"
	"context"
	"errors"
	"fmt"
	"io"
	"net/http"
	"os"
	"os/signal"
	"path/filepath"
	"strings"
	"syscall"
	"sync"
	"sync/atomic"
	"testing"
	"time"

	"connectrpc.com/conformance/internal"
	conformancev1 "connectrpc.com/conformance/internal/gen/proto/go/connectrpc/conformance/v1"
	"google.golang.org/protobuf/encoding/protojson"
	"google.golang.org/protobuf/proto"
)

func init() {
	verifKinds["c04.results"] = verifC04Results
	verifKinds["c04.flow"] = verifC04Flow
	verifKinds["c04.run"] = verifC04Run
	verifKinds["c04.srvexit"] = verifC04SrvExit
	verifKinds["c04.peer"] = verifC04Peer
}

// c04Printer records every formatted message (one element per Printf call).
type c04Printer struct {
	mu   sync.Mutex
	msgs []string
	hook func(msg string) // called outside the lock, before recording
}

func (p *c04Printer) Printf(msg string, args ...any) {
	s := fmt.Sprintf(msg, args...)
	if p.hook != nil {
		p.hook(s)
	}
	p.mu.Lock()
	p.msgs = append(p.msgs, s)
	p.mu.Unlock()
}

func (p *c04Printer) PrefixPrintf(prefix, msg string, args ...any) {
	p.Printf(prefix+": "+msg, args...)
}

func (p *c04Printer) take() []string {
	p.mu.Lock()
	defer p.mu.Unlock()
	out := p.msgs
	p.msgs = nil
	return out
}

// c04ParseReport projects the printed report onto names and numbers only:
// (ok total passed failed notrun expected (FAILED names) (INFO names)).
func c04ParseReport(ok bool, msgs []string) vsx {
	total, passed, failed, notrun, expected := -1, -1, -1, 0, 0
	failedNames, infoNames := []string{}, []string{}
	for _, m := range msgs {
		switch {
		case strings.HasPrefix(m, "FAILED: "):
			rest := strings.TrimPrefix(m, "FAILED: ")
			if strings.HasSuffix(rest, " was expected to fail but did not") {
				failedNames = append(failedNames, strings.TrimSuffix(rest, " was expected to fail but did not"))
			} else if i := strings.Index(rest, ":\n"); i >= 0 {
				failedNames = append(failedNames, rest[:i])
			} else {
				return vErr("unparsed-FAILED-line")
			}
		case strings.HasPrefix(m, "INFO: "):
			rest := strings.TrimPrefix(m, "INFO: ")
			i := strings.Index(rest, " failed (as expected):")
			if i < 0 {
				return vErr("unparsed-INFO-line")
			}
			infoNames = append(infoNames, rest[:i])
		case strings.HasPrefix(m, "Total cases: "):
			if n, err := fmt.Sscanf(m, "Total cases: %d\n%d passed, %d failed", &total, &passed, &failed); n != 3 || err != nil {
				return vErr("unparsed-totals")
			}
		case strings.HasPrefix(m, "Another "):
			if n, err := fmt.Sscanf(m, "Another %d could not be run", &notrun); n != 1 || err != nil {
				return vErr("unparsed-notrun")
			}
		case strings.HasPrefix(m, "(Another "):
			if n, err := fmt.Sscanf(m, "(Another %d failed as expected", &expected); n != 1 || err != nil {
				return vErr("unparsed-expected")
			}
		}
	}
	if total < 0 {
		return vErr("no-totals-line")
	}
	return vL(vBool(ok), vInt(total), vInt(passed), vInt(failed), vInt(notrun), vInt(expected),
		vStrs(failedNames), vStrs(infoNames))
}

func c04Err(kind int64) error {
	switch kind {
	case 0:
		return errors.New("assertion failure")
	case 1:
		return errors.New("client error")
	case 2:
		return errors.New("error starting server: boom")
	case 3:
		return &couldNotRunError{errClosed}
	case 4:
		return &failedToGetResultError{errNoOutcome}
	case 5:
		return errors.New("feedback")
	case 6:
		return errors.New("client returned a response with neither an error nor result")
	case 7:
		return fmt.Errorf("wrapped: %w", &couldNotRunError{errClosed})
	}
	panic("verif: bad error kind")
}

func c04Trie(names []string) *testTrie {
	t := parsePatterns(names)
	if t == nil {
		t = &testTrie{}
	}
	return t
}

func c04Cases(names []string) []*conformancev1.TestCase {
	out := make([]*conformancev1.TestCase, len(names))
	for i, n := range names {
		out[i] = c04Case(n)
	}
	return out
}

// a definition whose expectation is one payload "x"
func c04Case(name string) *conformancev1.TestCase {
	return &conformancev1.TestCase{
		Request: &conformancev1.ClientCompatRequest{
			TestName:   name,
			StreamType: conformancev1.StreamType_STREAM_TYPE_UNARY,
		},
		ExpectedResponse: &conformancev1.ClientResponseResult{
			Payloads: []*conformancev1.ConformancePayload{{Data: []byte("x")}},
		},
	}
}

func c04Actual(ok bool) *conformancev1.ClientResponseResult {
	data := []byte("x")
	if !ok {
		data = []byte("y")
	}
	return &conformancev1.ClientResponseResult{
		Payloads: []*conformancev1.ConformancePayload{{Data: data}},
	}
}

// total (kf names) (kfl names) (ops) -> (report, report again)
// drives the real testResults with the scripted history, then the real report() twice.
func verifC04Results(args []vsx) vsx {
	total := int(args[0].i)
	results := newResults(total, c04Trie(args[1].strs()), c04Trie(args[2].strs()), nil)
	for _, o := range args[3].l {
		switch o.l[0].i {
		case 0:
			name, r := o.l[1].str(), o.l[2]
			if len(r.l) == 0 {
				results.setOutcome(name, false, nil)
			} else {
				results.setOutcome(name, r.l[0].i != 0, c04Err(r.l[1].i))
			}
		case 1:
			results.failed(o.l[1].str(), &conformancev1.ClientErrorResult{Message: "client says no"})
		case 2:
			name := o.l[1].str()
			results.assert(name, c04Case(name), c04Actual(o.l[2].i != 0))
		case 3:
			results.failedToStart(c04Cases(o.l[1].strs()), c04Err(o.l[2].i))
		case 4:
			results.failRemaining(c04Cases(o.l[1].strs()), c04Err(o.l[2].i))
		case 5:
			results.recordSideband(o.l[1].str(), "peer did not like this")
		default:
			return vL(vS("bad-case"))
		}
	}
	pr := &c04Printer{}
	ok1 := results.report(pr)
	first := c04ParseReport(ok1, pr.take())
	ok2 := results.report(pr)
	second := c04ParseReport(ok2, pr.take())
	return vL(first, second)
}

// ---------------------------------------------------------------------------
// c04.flow: the real runClient / clientProcessRunner, the real
// runTestCasesForServer and the real report(), with client and servers running
// as in-process "processes" (runInProcess, the starter the runner itself uses for
// the reference implementations).  The loop of run() is repeated here (batches in
// order, isRunning check, closeSend, waitForResponses) and the verdict is composed
// as Run does.  The send loop is held in lock-step with the scripted client through
// the "Sending request for ..." log line, so the client's exit point is exact.
// ---------------------------------------------------------------------------

type c04Scenario struct {
	kf, kfl   []string
	batches   [][]string // names per batch
	serverOK  []bool
	replies   map[string]int64
	exitAfter int
	exitErr   bool
}

func c04ParseScenario(args []vsx) c04Scenario {
	s := c04Scenario{kf: args[0].strs(), kfl: args[1].strs(), replies: map[string]int64{},
		exitAfter: int(args[3].i), exitErr: args[4].i != 0}
	for _, b := range args[2].l {
		var names []string
		for _, c := range b.l[1].l {
			names = append(names, c.l[0].str())
			s.replies[c.l[0].str()] = c.l[1].i
		}
		s.batches = append(s.batches, names)
		s.serverOK = append(s.serverOK, b.l[0].i != 0)
	}
	return s
}

func c04Reply(name string, reply int64) *conformancev1.ClientCompatResponse {
	resp := &conformancev1.ClientCompatResponse{TestName: name}
	switch reply {
	case 0:
		resp.Result = &conformancev1.ClientCompatResponse_Response{Response: c04Actual(true)}
	case 1:
		resp.Result = &conformancev1.ClientCompatResponse_Response{Response: c04Actual(false)}
	case 2:
		resp.Result = &conformancev1.ClientCompatResponse_Error{Error: &conformancev1.ClientErrorResult{Message: "nope"}}
	case 3:
		// neither
	default:
		return nil // silent
	}
	return resp
}

func verifC04Flow(args []vsx) vsx {
	sc := c04ParseScenario(args)
	if sc.exitAfter == 0 {
		// a client that is gone before the first batch: what run() does then depends on
		// isRunning() after a clean exit, which belongs to C10
		return vL(vS("bad-case"))
	}
	var handled, sentOK atomic.Int64
	var exited atomic.Bool
	var exitResult error
	if sc.exitErr {
		exitResult = errors.New("exit status 1")
	}
	if sc.exitAfter == 0 {
		exited.Store(true)
	}
	clientImpl := func(_ context.Context, _ []string, in io.ReadCloser, out, _ io.WriteCloser) error {
		if sc.exitAfter == 0 {
			return exitResult
		}
		got := 0
		for {
			var req conformancev1.ClientCompatRequest
			if err := internal.ReadDelimitedMessage(in, &req, "runner", time.Hour, 1<<20); err != nil {
				return exitResult // end of input
			}
			got++
			if resp := c04Reply(req.TestName, sc.replies[req.TestName]); resp != nil {
				if err := internal.WriteDelimitedMessage(out, resp); err != nil {
					return err
				}
			}
			if got == sc.exitAfter {
				exited.Store(true)
			}
			handled.Add(1)
			if got == sc.exitAfter {
				return exitResult
			}
		}
	}
	serverImpl := func(ok bool) processStarter {
		return runInProcess([]string{"fake-server"}, func(ctx context.Context, _ []string, in io.ReadCloser, out, _ io.WriteCloser) error {
			if !ok {
				return errors.New("cannot start")
			}
			var req conformancev1.ServerCompatRequest
			if err := internal.ReadDelimitedMessage(in, &req, "runner", time.Hour, 1<<20); err != nil {
				return err
			}
			if err := internal.WriteDelimitedMessage(out, &conformancev1.ServerCompatResponse{Host: "127.0.0.1", Port: 9}); err != nil {
				return err
			}
			<-ctx.Done()
			return nil
		})
	}

	total := 0
	for _, b := range sc.batches {
		total += len(b)
	}
	results := newResults(total, c04Trie(sc.kf), c04Trie(sc.kfl), nil)
	ctx, cancel := context.WithCancel(context.Background())
	defer cancel()
	client, err := runClient(ctx, runInProcess([]string{"fake-client"}, clientImpl))
	if err != nil {
		return vErr("client-did-not-start")
	}
	defer client.stop()
	cpr, _ := client.(*clientProcessRunner)
	if cpr == nil {
		return vErr("unexpected-client-runner-type")
	}
	logPr := &c04Printer{hook: func(msg string) {
		if !strings.HasPrefix(msg, "Sending request for ") {
			return
		}
		// everything sent so far has been dealt with by the client
		for handled.Load() < sentOK.Load() {
			time.Sleep(20 * time.Microsecond)
		}
		if exited.Load() {
			<-cpr.done // its output has been drained and the send side is closed
			return
		}
		sentOK.Add(1)
	}}
	errPr := &c04Printer{}
	var runErr error
	for i, names := range sc.batches {
		// as run(): double-check that client is still running before spawning a server process
		if !client.isRunning() {
			runErr = client.waitForResponses()
			if runErr == nil {
				runErr = errors.New("client process unexpectedly stopped")
			}
			break
		}
		runTestCasesForServer(ctx, false, false, serverInstance{}, c04Cases(names), nil, nil,
			serverImpl(sc.serverOK[i]), logPr, errPr, results, client, nil, true)
	}
	if runErr == nil {
		client.closeSend()
		runErr = client.waitForResponses()
	}
	logPr.take()
	repRet := results.report(logPr)
	ok := repRet && runErr == nil // Run: results.report(logPrinter) && err == nil
	status := 0
	if !ok {
		status = 1 // main: os.Exit(1)
	}
	return vL(vBool(ok), vInt(status), c04ParseReport(repRet, logPr.take()))
}

// ---------------------------------------------------------------------------
// c04.run: the real Run() — flags, config file, suite files, known-failing /
// known-flaky patterns, client and server as separate OS processes (this test
// binary re-executed, see TestVerifC04Child) — and its (ok, err) result, i.e. the
// real `results.report(logPrinter) && err == nil`.  Batches are server instances
// (HTTP version x protocol, in the sorted order Verbose gives); the model name of
// a case is <suite>/<case>, suite B<i> being relevant to the i-th instance only.
// ---------------------------------------------------------------------------

var c04Instances = []struct {
	version  conformancev1.HTTPVersion
	protocol conformancev1.Protocol
}{
	{conformancev1.HTTPVersion_HTTP_VERSION_1, conformancev1.Protocol_PROTOCOL_CONNECT},
	{conformancev1.HTTPVersion_HTTP_VERSION_1, conformancev1.Protocol_PROTOCOL_GRPC_WEB},
	{conformancev1.HTTPVersion_HTTP_VERSION_2, conformancev1.Protocol_PROTOCOL_CONNECT},
	{conformancev1.HTTPVersion_HTTP_VERSION_2, conformancev1.Protocol_PROTOCOL_GRPC_WEB},
}

// full permutation name -> <suite>/<case>
func c04ModelName(full string) string {
	i := strings.Index(full, "/")
	j := strings.Index(full, "/TLS:false/")
	if i < 0 || j < 0 {
		return full
	}
	return full[:i] + "/" + full[j+len("/TLS:false/"):]
}

func c04Pattern(model string) string {
	i := strings.Index(model, "/")
	return model[:i] + "/**/" + model[i+1:]
}

func verifC04Run(args []vsx) vsx { return c04RunInner(args, -1) }

// c04.srvexit: (known-failing) (known-flaky) ((name reply) ...) k — one batch through the real Run()
// in server mode with the server under test as a real OS process (cmdProcess of process.go) that
// exits with STATUS 0 while the runner is about to send the request with index k.  The schedule is
// forced through the runner's own "Sending request for ..." log line (VeryVerbose): the printer blocks
// there, tells the server child to exit, waits until the process has been reaped and one more second
// for the runner's whenDone callback.  The check of the server's fate precedes that log line, so the
// requests 0..k are sent; every later case must end as a set-up error.
func verifC04SrvExit(args []vsx) vsx {
	if len(args) != 4 || args[3].i < 0 || int(args[3].i) >= len(args[2].l) {
		return vL(vS("bad-case"))
	}
	inList := func(l []string, n string) bool {
		for _, x := range l {
			if x == n {
				return true
			}
		}
		return false
	}
	for _, c := range args[2].l {
		if len(c.l) != 2 || c.l[1].i < 0 || c.l[1].i > 3 {
			return vL(vS("bad-case"))
		}
		// all cases alike (reply and marking): which of them come after the exit is map order
		first := args[2].l[0]
		if c.l[1].i != first.l[1].i || inList(args[0].strs(), c.l[0].str()) != inList(args[0].strs(), first.l[0].str()) ||
			inList(args[1].strs(), c.l[0].str()) != inList(args[1].strs(), first.l[0].str()) {
			return vL(vS("bad-case"))
		}
	}
	return c04RunInner([]vsx{args[0], args[1], vL(vL(vI(1), args[2])), vI(-1), vI(0)}, int(args[3].i))
}

func c04RunInner(args []vsx, srvExitAt int) vsx {
	sc := c04ParseScenario(args)
	if len(sc.batches) == 0 || len(sc.batches) > len(c04Instances) {
		return vL(vS("bad-case")) // outside what this kind drives (no suites would mean the embedded ones)
	}
	// A client that ends early is driven here only in the one shape that is deterministic with real OS
	// processes and independent of the order of the server instances (so that it can run WITHOUT
	// Verbose, i.e. in map order): it exits with status 1 right after answering the last request of a
	// batch, all batches have the same size, every reply passes, nothing is marked.  The servers then
	// take 500 ms to stop, so the runner has seen the exit before it would start the next server: the
	// remaining batches are never started and their cases never get an outcome.
	boundary := false
	if sc.exitAfter >= 0 {
		n := len(sc.batches[0])
		ok := sc.exitErr && len(sc.kf) == 0 && len(sc.kfl) == 0 && n > 0 && sc.exitAfter > 0 &&
			sc.exitAfter%n == 0 && sc.exitAfter < n*len(sc.batches)
		for i, names := range sc.batches {
			ok = ok && len(names) == n && sc.serverOK[i]
			for _, nm := range names {
				ok = ok && sc.replies[nm] == 0
			}
		}
		if !ok {
			return vL(vS("bad-case"))
		}
		boundary = true
	}
	// without an early exit the order of the batches does not show in the result: half of the runs
	// (by the number of cases) go without Verbose, as most unattended runs do
	verbose := !boundary && len(sc.replies)%2 == 0
	for _, names := range sc.batches {
		if len(names) == 0 {
			return vL(vS("bad-case")) // run() skips empty batches
		}
	}
	for _, n := range append(append([]string{}, sc.kf...), sc.kfl...) {
		if _, known := sc.replies[n]; !known {
			return vL(vS("bad-case")) // a pattern that matches nothing is rejected by run() (C08)
		}
	}
	dir, err := os.MkdirTemp("", "verif-c04-")
	if err != nil {
		panic(err)
	}
	defer os.RemoveAll(dir)
	var script strings.Builder
	var files []string
	for i, names := range sc.batches {
		inst := c04Instances[i]
		suiteName := fmt.Sprintf("B%d", i)
		suite := &conformancev1.TestSuite{
			Name:                 suiteName,
			RelevantProtocols:    []conformancev1.Protocol{inst.protocol},
			RelevantHttpVersions: []conformancev1.HTTPVersion{inst.version},
			RelevantCodecs:       []conformancev1.Codec{conformancev1.Codec_CODEC_PROTO},
			RelevantCompressions: []conformancev1.Compression{conformancev1.Compression_COMPRESSION_IDENTITY},
		}
		for _, n := range names {
			if !strings.HasPrefix(n, suiteName+"/") || len(n) == len(suiteName)+1 || strings.ContainsAny(n[len(suiteName)+1:], "/ :*") {
				return vL(vS("bad-case"))
			}
			tc := c04Case(strings.TrimPrefix(n, suiteName+"/"))
			suite.TestCases = append(suite.TestCases, tc)
			fmt.Fprintf(&script, "reply %s %d\n", n, sc.replies[n])
		}
		ok := 0
		if sc.serverOK[i] {
			ok = 1
		}
		fmt.Fprintf(&script, "server %d %d %d\n", inst.version, inst.protocol, ok)
		data, err := protojson.Marshal(suite)
		if err != nil {
			panic(err)
		}
		file := filepath.Join(dir, suiteName+".yaml")
		if err := os.WriteFile(file, data, 0o600); err != nil {
			panic(err)
		}
		files = append(files, file)
	}
	exitCode := 0
	if sc.exitErr {
		exitCode = 1
	}
	fmt.Fprintf(&script, "exit %d\n", exitCode)
	if boundary {
		fmt.Fprintf(&script, "exitafter %d\n", sc.exitAfter)
	}
	srvExitFile := filepath.Join(dir, "srvexit")
	if srvExitAt >= 0 {
		fmt.Fprintf(&script, "srvexitfile %s\n", srvExitFile)
	}
	scriptFile := filepath.Join(dir, "script")
	if err := os.WriteFile(scriptFile, []byte(script.String()), 0o600); err != nil {
		panic(err)
	}
	config := &conformancev1.Config{Features: &conformancev1.Features{
		Versions:                    []conformancev1.HTTPVersion{conformancev1.HTTPVersion_HTTP_VERSION_1, conformancev1.HTTPVersion_HTTP_VERSION_2},
		Protocols:                   []conformancev1.Protocol{conformancev1.Protocol_PROTOCOL_CONNECT, conformancev1.Protocol_PROTOCOL_GRPC_WEB},
		Codecs:                      []conformancev1.Codec{conformancev1.Codec_CODEC_PROTO},
		Compressions:                []conformancev1.Compression{conformancev1.Compression_COMPRESSION_IDENTITY},
		StreamTypes:                 []conformancev1.StreamType{conformancev1.StreamType_STREAM_TYPE_UNARY},
		SupportsH2C:                 proto.Bool(true),
		SupportsTls:                 proto.Bool(false),
		SupportsConnectGet:          proto.Bool(false),
		SupportsMessageReceiveLimit: proto.Bool(false),
	}}
	cfgData, err := protojson.Marshal(config)
	if err != nil {
		panic(err)
	}
	cfgFile := filepath.Join(dir, "config.yaml")
	if err := os.WriteFile(cfgFile, cfgData, 0o600); err != nil {
		panic(err)
	}
	patterns := func(names []string) []string {
		out := make([]string, len(names))
		for i, n := range names {
			out[i] = c04Pattern(n)
		}
		return out
	}
	child := func(role string) []string {
		return []string{os.Args[0], "-test.run=^TestVerifC04Child$", "c04:" + role, scriptFile}
	}
	logPr, errPr := &c04Printer{}, &c04Printer{}
	if srvExitAt >= 0 {
		var sends atomic.Int64
		logPr.hook = func(msg string) {
			if !strings.HasPrefix(msg, "Sending request for ") || int(sends.Add(1)) != srvExitAt+1 {
				return
			}
			_ = os.WriteFile(srvExitFile, nil, 0o600)
			deadline := time.Now().Add(10 * time.Second)
			for time.Now().Before(deadline) {
				var pid int
				if data, err := os.ReadFile(srvExitFile + ".pid"); err == nil {
					_, _ = fmt.Sscanf(string(data), "%d", &pid)
				}
				if pid > 0 && syscall.Kill(pid, 0) != nil {
					break // exited and reaped by the runner
				}
				time.Sleep(5 * time.Millisecond)
			}
			time.Sleep(time.Second)
		}
	}
	ok, err := Run(&Flags{
		ConfigFile:           cfgFile,
		TestFiles:            files,
		KnownFailingPatterns: patterns(sc.kf),
		KnownFlakyPatterns:   patterns(sc.kfl),
		VeryVerbose:          srvExitAt >= 0,
		Verbose:              verbose || srvExitAt >= 0, // true: server instances in sorted order
		ClientCommand:        child("client"),
		ServerCommand:        child("server"),
		MaxServers:           1,
		Parallelism:          1,
	}, logPr, errPr)
	if err != nil {
		// Run refused the scenario before running anything.  Never equal to a model result, so it
		// shows up as a disagreement in a check, but is skipped as ill-formed while shrinking.
		return vL(vS("bad-case"), vS("run-returned-error"), vS(err.Error()))
	}
	msgs := logPr.take()
	if os.Getenv("VERIF_DEBUG") != "" {
		fmt.Fprintf(os.Stderr, "c04.run log: %q\nerr: %q\n", msgs, errPr.take())
	}
	for i, m := range msgs {
		// project the names in FAILED / INFO lines onto model names
		for _, pfx := range []string{"FAILED: ", "INFO: "} {
			if strings.HasPrefix(m, pfx) {
				rest := strings.TrimPrefix(m, pfx)
				end := strings.IndexAny(rest, " :") // case names here have neither
				if j := strings.Index(rest, "/TLS:false/"); j >= 0 {
					k := j + len("/TLS:false/")
					end = k + strings.IndexAny(rest[k:], " :")
				}
				msgs[i] = pfx + c04ModelName(rest[:end]) + rest[end:]
			}
		}
	}
	status := 0
	if !ok {
		status = 1
	}
	rep := c04ParseReport(ok, msgs)
	if len(rep.l) != 8 {
		return rep
	}
	if boundary {
		// "Total cases" is the number of outcomes recorded; whether the batch after the client's exit was
		// still entered (its cases then get a could-not-run outcome) or not (no outcome at all) shows in
		// that number only.  What the property speaks of is that the printed counts account for every
		// selected case exactly once: the sum of the four counts takes its place (the model's total is
		// the number of selected cases).
		rep.l[1] = vI(rep.l[2].i + rep.l[3].i + rep.l[4].i + rep.l[5].i)
	}
	if srvExitAt >= 0 {
		// the order of the cases inside a batch is map order: names by number only (the cases are alike)
		rep.l[6], rep.l[7] = vInt(len(rep.l[6].l)), vInt(len(rep.l[7].l))
	}
	// Run does not expose report()'s own return value: the first field of the report part
	// carries the verdict on both sides.
	return vL(vBool(ok), vInt(status), rep)
}

// TestVerifC04Child is the scripted client / server process of c04.run.
func TestVerifC04Child(t *testing.T) {
	var role, scriptFile string
	for i, a := range os.Args {
		if strings.HasPrefix(a, "c04:") && i+1 < len(os.Args) {
			role, scriptFile = strings.TrimPrefix(a, "c04:"), os.Args[i+1]
		}
	}
	if role == "" {
		t.Skip("not a c04 child")
	}
	data, err := os.ReadFile(scriptFile)
	if err != nil {
		os.Exit(3)
	}
	replies := map[string]int64{}
	servers := map[[2]int]bool{}
	exitCode, exitAfter := 0, -1
	srvExitFile := ""
	for _, line := range strings.Split(string(data), "\n") {
		var name string
		var a, b, c int
		if n, _ := fmt.Sscanf(line, "reply %s %d", &name, &a); n == 2 {
			replies[name] = int64(a)
		} else if n, _ := fmt.Sscanf(line, "server %d %d %d", &a, &b, &c); n == 3 {
			servers[[2]int{a, b}] = c != 0
		} else if n, _ := fmt.Sscanf(line, "srvexitfile %s", &name); n == 1 {
			srvExitFile = name
		} else if n, _ := fmt.Sscanf(line, "exitafter %d", &a); n == 1 {
			exitAfter = a
		} else if n, _ := fmt.Sscanf(line, "exit %d", &a); n == 1 {
			exitCode = a
		}
	}
	if role == "peerclient" {
		c04PeerClient(string(data))
	}
	switch role {
	case "server":
		var req conformancev1.ServerCompatRequest
		if err := internal.ReadDelimitedMessage(os.Stdin, &req, "runner", time.Minute, 1<<20); err != nil {
			os.Exit(3)
		}
		if !servers[[2]int{int(req.HttpVersion), int(req.Protocol)}] {
			os.Exit(1) // fails to start
		}
		if err := internal.WriteDelimitedMessage(os.Stdout, &conformancev1.ServerCompatResponse{Host: "127.0.0.1", Port: 9}); err != nil {
			os.Exit(3)
		}
		if srvExitFile != "" {
			// exits with status 0 when told (see verifC04SrvExit)
			_ = os.WriteFile(srvExitFile+".pid", []byte(fmt.Sprintf("%d\n", os.Getpid())), 0o600)
			for i := 0; i < 12000; i++ {
				if _, err := os.Stat(srvExitFile); err == nil {
					os.Exit(0)
				}
				time.Sleep(5 * time.Millisecond)
			}
			os.Exit(0)
		}
		if exitAfter >= 0 {
			// slow to stop (see verifC04Run)
			term := make(chan os.Signal, 1)
			signal.Notify(term, syscall.SIGTERM)
			select {
			case <-term:
				time.Sleep(500 * time.Millisecond)
			case <-time.After(time.Minute):
			}
			os.Exit(0)
		}
		time.Sleep(time.Minute) // until the runner terminates it
		os.Exit(0)
	case "client":
		answered := 0
		for {
			var req conformancev1.ClientCompatRequest
			if err := internal.ReadDelimitedMessage(os.Stdin, &req, "runner", time.Minute, 1<<20); err != nil {
				os.Exit(exitCode) // end of input
			}
			if resp := c04Reply(req.TestName, replies[c04ModelName(req.TestName)]); resp != nil {
				if err := internal.WriteDelimitedMessage(os.Stdout, resp); err != nil {
					os.Exit(3)
				}
			}
			answered++
			if answered == exitAfter {
				os.Exit(exitCode)
			}
		}
	}
	os.Exit(3)
}

// ---------------------------------------------------------------------------
// c04.peer: the real Run() in CLIENT mode: the client under test is this test
// binary re-executed (role peerclient), the servers are the runner's own in-process
// reference servers, started by run() through runInProcess with the pipes of
// process.go.  The client reports whatever the script says (so its result may match
// the expectation) and separately puts a request on the wire that is as the case
// demands, or differs in a way only the server can see (codec, a second request,
// compression header).  Config: HTTP/1.1, Connect and gRPC-Web, proto, identity.
// Batches (the order run() uses with Verbose): reference server x {B0 = Connect,
// B1 = gRPC-Web}, then the gRPC reference server x {B1 under marked names}.
// ---------------------------------------------------------------------------

const c04GRPCServerMarked = "/(grpc server impl)/"

func verifC04Peer(args []vsx) vsx {
	bad := vL(vS("bad-case"))
	if len(args) != 4 {
		return bad
	}
	kf, kfl := args[0].strs(), args[1].strs()
	type pcase struct {
		name          string
		reply, defect int64
	}
	type pbatch struct {
		ref   bool
		suite string
		cases []pcase
	}
	var batches []pbatch
	known := map[string]bool{}
	for _, b := range args[2].l {
		pb := pbatch{ref: b.l[0].i != 0}
		for _, c := range b.l[1].l {
			pc := pcase{name: c.l[0].str(), reply: c.l[1].i, defect: c.l[2].i}
			if pc.reply < 0 || pc.reply > 3 || pc.defect < 0 || pc.defect > 3 || known[pc.name] {
				return bad
			}
			known[pc.name] = true
			i := strings.Index(pc.name, "/")
			if i < 0 {
				return bad
			}
			if pb.suite == "" {
				pb.suite = pc.name[:i]
			} else if pb.suite != pc.name[:i] {
				return bad
			}
			pb.cases = append(pb.cases, pc)
		}
		if len(pb.cases) == 0 {
			return bad
		}
		batches = append(batches, pb)
	}
	// shape: [ref B0]? [ref B1 [grpc B1]]?  (at least one)
	var refB0, refB1, grpcB1 *pbatch
	idx := 0
	if idx < len(batches) && batches[idx].ref && batches[idx].suite == "B0" {
		refB0 = &batches[idx]
		idx++
	}
	if idx < len(batches) && batches[idx].ref && batches[idx].suite == "B1" {
		refB1 = &batches[idx]
		idx++
		if idx < len(batches) && !batches[idx].ref && batches[idx].suite == "B1" {
			grpcB1 = &batches[idx]
			idx++
		}
	}
	if idx != len(batches) || len(batches) == 0 || (refB1 != nil) != (grpcB1 != nil) {
		return bad
	}
	simple := func(pb *pbatch, marked bool) ([]string, bool) {
		var out []string
		for _, c := range pb.cases {
			rest := strings.TrimPrefix(c.name, pb.suite+"/")
			if marked {
				if !strings.HasPrefix("/"+rest, c04GRPCServerMarked) {
					return nil, false
				}
				rest = strings.TrimPrefix("/"+rest, c04GRPCServerMarked)
			}
			if rest == "" || strings.ContainsAny(rest, "/ :*()") {
				return nil, false
			}
			out = append(out, rest)
		}
		return out, true
	}
	mark := func(n string) int {
		for _, k := range kf {
			if k == n {
				return 1
			}
		}
		for _, k := range kfl {
			if k == n {
				return 2
			}
		}
		return 0
	}
	for _, n := range append(append([]string{}, kf...), kfl...) {
		if !known[n] {
			return bad
		}
	}
	if refB1 != nil {
		a, ok1 := simple(refB1, false)
		b, ok2 := simple(grpcB1, true)
		if !ok1 || !ok2 || len(a) != len(b) {
			return bad
		}
		for i := range a {
			// the same template under both servers, and (patterns are <suite>/**/<case>) marked alike
			if a[i] != b[i] || mark(refB1.cases[i].name) != mark(grpcB1.cases[i].name) {
				return bad
			}
		}
	}
	dir, err := os.MkdirTemp("", "verif-c04p-")
	if err != nil {
		panic(err)
	}
	defer os.RemoveAll(dir)
	var script strings.Builder
	var files []string
	for _, pb := range []*pbatch{refB0, refB1} {
		if pb == nil {
			continue
		}
		names, ok := simple(pb, false)
		if !ok {
			return bad
		}
		protocol := conformancev1.Protocol_PROTOCOL_CONNECT
		if pb.suite == "B1" {
			protocol = conformancev1.Protocol_PROTOCOL_GRPC_WEB
		}
		suite := &conformancev1.TestSuite{
			Name:                 pb.suite,
			RelevantProtocols:    []conformancev1.Protocol{protocol},
			RelevantHttpVersions: []conformancev1.HTTPVersion{conformancev1.HTTPVersion_HTTP_VERSION_1},
			RelevantCodecs:       []conformancev1.Codec{conformancev1.Codec_CODEC_PROTO},
			RelevantCompressions: []conformancev1.Compression{conformancev1.Compression_COMPRESSION_IDENTITY},
		}
		for _, n := range names {
			suite.TestCases = append(suite.TestCases, c04Case(n))
		}
		data, err := protojson.Marshal(suite)
		if err != nil {
			panic(err)
		}
		file := filepath.Join(dir, pb.suite+".yaml")
		if err := os.WriteFile(file, data, 0o600); err != nil {
			panic(err)
		}
		files = append(files, file)
	}
	for _, pb := range batches {
		for _, c := range pb.cases {
			fmt.Fprintf(&script, "peer\t%s\t%d\t%d\n", c.name, c.reply, c.defect)
		}
	}
	exitCode := 0
	if args[3].i != 0 {
		exitCode = 1
	}
	fmt.Fprintf(&script, "exit %d\n", exitCode)
	scriptFile := filepath.Join(dir, "script")
	if err := os.WriteFile(scriptFile, []byte(script.String()), 0o600); err != nil {
		panic(err)
	}
	config := &conformancev1.Config{Features: &conformancev1.Features{
		Versions:                    []conformancev1.HTTPVersion{conformancev1.HTTPVersion_HTTP_VERSION_1},
		Protocols:                   []conformancev1.Protocol{conformancev1.Protocol_PROTOCOL_CONNECT, conformancev1.Protocol_PROTOCOL_GRPC_WEB},
		Codecs:                      []conformancev1.Codec{conformancev1.Codec_CODEC_PROTO},
		Compressions:                []conformancev1.Compression{conformancev1.Compression_COMPRESSION_IDENTITY},
		StreamTypes:                 []conformancev1.StreamType{conformancev1.StreamType_STREAM_TYPE_UNARY},
		SupportsH2C:                 proto.Bool(false),
		SupportsTls:                 proto.Bool(false),
		SupportsConnectGet:          proto.Bool(false),
		SupportsMessageReceiveLimit: proto.Bool(false),
	}}
	cfgData, err := protojson.Marshal(config)
	if err != nil {
		panic(err)
	}
	cfgFile := filepath.Join(dir, "config.yaml")
	if err := os.WriteFile(cfgFile, cfgData, 0o600); err != nil {
		panic(err)
	}
	patterns := func(names []string) []string {
		var out []string
		seen := map[string]bool{}
		for _, n := range names {
			// the marked twin is covered by the pattern of the plain name
			p := c04Pattern(strings.Replace(n, c04GRPCServerMarked, "/", 1))
			if !seen[p] {
				seen[p] = true
				out = append(out, p)
			}
		}
		return out
	}
	logPr, errPr := &c04Printer{}, &c04Printer{}
	ok, err := Run(&Flags{
		ConfigFile:           cfgFile,
		TestFiles:            files,
		KnownFailingPatterns: patterns(kf),
		KnownFlakyPatterns:   patterns(kfl),
		Verbose:              true, // server instances in sorted order
		ClientCommand:        []string{os.Args[0], "-test.run=^TestVerifC04Child$", "c04:peerclient", scriptFile},
		MaxServers:           1,
		Parallelism:          1,
		ServerBind:           "127.0.0.1",
	}, logPr, errPr)
	if err != nil {
		return vL(vS("bad-case"), vS("run-returned-error"), vS(err.Error()))
	}
	rep := c04ParseReport(ok, logPr.take())
	if len(rep.l) != 8 {
		return rep
	}
	for _, i := range []int{6, 7} {
		full := rep.l[i].strs()
		for j := range full {
			full[j] = c04ModelName(full[j])
		}
		rep.l[i] = vStrs(full)
	}
	status := 0
	if !ok {
		status = 1
	}
	return vL(vBool(ok), vInt(status), rep)
}

// c04PeerClient is the client under test of c04.peer (a child process).
func c04PeerClient(script string) {
	type entry struct{ reply, defect int64 }
	entries := map[string]entry{}
	exitCode := 0
	for _, line := range strings.Split(script, "\n") {
		f := strings.Split(line, "\t")
		if len(f) == 4 && f[0] == "peer" {
			var e entry
			fmt.Sscanf(f[2], "%d", &e.reply)
			fmt.Sscanf(f[3], "%d", &e.defect)
			entries[f[1]] = e
		} else if n, _ := fmt.Sscanf(line, "exit %d", &exitCode); n == 1 {
			continue
		}
	}
	httpClient := &http.Client{Timeout: 10 * time.Second, Transport: &http.Transport{DisableKeepAlives: true}}
	for {
		var req conformancev1.ClientCompatRequest
		if err := internal.ReadDelimitedMessage(os.Stdin, &req, "runner", time.Minute, 1<<20); err != nil {
			os.Exit(exitCode) // end of input
		}
		e, known := entries[c04ModelName(req.TestName)]
		if !known {
			os.Exit(4)
		}
		times := 1
		if e.defect == 2 {
			times = 2 // a second request for the same case
		}
		for k := 0; k < times; k++ {
			contentType, body := "application/proto", []byte{}
			if e.defect == 1 {
				contentType, body = "application/json", []byte("{}")
			}
			encodingHeader := "Content-Encoding"
			if req.Protocol == conformancev1.Protocol_PROTOCOL_GRPC_WEB {
				contentType = "application/grpc-web+proto"
				if e.defect == 1 {
					contentType = "application/grpc-web+json"
				}
				body = append([]byte{0, 0, 0, 0, byte(len(body))}, body...)
				encodingHeader = "Grpc-Encoding"
			}
			url := fmt.Sprintf("http://%s:%d/connectrpc.conformance.v1.ConformanceService/Unary", req.Host, req.Port)
			httpReq, err := http.NewRequest(http.MethodPost, url, bytes.NewReader(body))
			if err != nil {
				os.Exit(5)
			}
			for _, hdr := range req.RequestHeaders {
				for _, val := range hdr.Value {
					httpReq.Header.Add(hdr.Name, val)
				}
			}
			httpReq.Header.Set("Content-Type", contentType)
			if req.Protocol == conformancev1.Protocol_PROTOCOL_CONNECT {
				httpReq.Header.Set("Connect-Protocol-Version", "1")
			}
			if e.defect == 3 {
				httpReq.Header.Set(encodingHeader, "gzip")
			}
			if httpResp, err := httpClient.Do(httpReq); err == nil {
				_, _ = io.Copy(io.Discard, httpResp.Body)
				_ = httpResp.Body.Close()
			}
		}
		if resp := c04Reply(req.TestName, e.reply); resp != nil {
			if err := internal.WriteDelimitedMessage(os.Stdout, resp); err != nil {
				os.Exit(3)
			}
		}
	}
}
