//go:build verif

package connectconformance

// C11, the glue around runTestCasesForServer:
//
// c11.limit   - which size limit the read of the server's response gets.  The scripted server
//               announces `size` bytes in the prefix and then delivers a valid response of exactly
//               that size (built only when somebody asks for it) or nothing.  Observed: the outcome
//               of every case, and whether stdout was read BEYOND the four prefix bytes - a
//               response above the server limit must be refused at the prefix.
// c11.printer - the REAL internal.NewPrinter (safePrinter.PrefixPrintf) in front of the REAL stderr
//               parser: free-running goroutines print feedback lines "<test name>: <message>" through
//               one printer into a synchronous pipe that is the reference server's stderr; the
//               runner's own error printer is the real printer as well.  Observed: the side-band
//               record of every case, and the lines passed through (as a sorted list).  Whatever the
//               interleaving, every line must be one of the submitted ones (model: any schedule).
//               The underlying writer sleeps 1.5 ms per write while the mutex is held, which puts
//               sync.Mutex into its hand-off mode: a printer that lets go of the mutex inside a
//               line then interleaves almost surely; an atomic one is not affected.

import (
	"bytes"
	"context"
	"io"
	"os"
	"path/filepath"
	"sort"
	"strings"
	"sync"
	"sync/atomic"
	"time"

	"connectrpc.com/conformance/internal"
	conformancev1 "connectrpc.com/conformance/internal/gen/proto/go/connectrpc/conformance/v1"
	"google.golang.org/protobuf/proto"
)

func init() {
	verifKinds["c11.limit"] = verifC11Limit
	verifKinds["c11.printer"] = verifC11PrinterKind
}

// ---- c11.limit ----

// a valid ServerCompatResponse (with certificate) whose encoding has exactly `size` bytes
func verifC11SizedResponse(size int) []byte {
	base := &conformancev1.ServerCompatResponse{Host: "127.0.0.1", Port: 12345}
	b0, err := proto.Marshal(base)
	if err != nil {
		panic(err)
	}
	for k := 1; k <= 5; k++ {
		l := size - len(b0) - 1 - k
		if l < 1 {
			return nil
		}
		base.PemCert = bytes.Repeat([]byte{'c'}, l)
		b, err := proto.Marshal(base)
		if err != nil {
			panic(err)
		}
		if len(b) == size {
			return b
		}
	}
	return nil
}

type verifC11LimitStdout struct {
	mu     sync.Mutex
	prefix []byte
	pos    int
	size   int
	body   bool
	data   []byte // the body, built when first asked for
	bpos   int
	beyond atomic.Int32
}

func (r *verifC11LimitStdout) Read(p []byte) (int, error) {
	r.mu.Lock()
	defer r.mu.Unlock()
	if r.pos < len(r.prefix) {
		n := copy(p, r.prefix[r.pos:])
		r.pos += n
		return n, nil
	}
	r.beyond.Store(1)
	if !r.body {
		return 0, io.EOF
	}
	if r.data == nil {
		r.data = verifC11SizedResponse(r.size)
		if r.data == nil {
			r.data = []byte{}
		}
	}
	if r.bpos >= len(r.data) {
		return 0, io.EOF
	}
	n := copy(p, r.data[r.bpos:])
	r.bpos += n
	return n, nil
}

func verifC11Plain(n int) ([]verifC11Script, []*conformancev1.TestCase, *conformancev1.ClientResponseResult) {
	expected := &conformancev1.ClientResponseResult{
		Payloads: []*conformancev1.ConformancePayload{{Data: []byte("data")}},
	}
	var scripts []verifC11Script
	var testCases []*conformancev1.TestCase
	for i := 0; i < n; i++ {
		name := "P/" + string(rune('0'+i))
		scripts = append(scripts, verifC11Script{name: name, sendOK: true, report: name})
		testCases = append(testCases, &conformancev1.TestCase{
			Request:          &conformancev1.ClientCompatRequest{TestName: name},
			ExpectedResponse: expected,
		})
	}
	return scripts, testCases, expected
}

func verifC11Kind(o testOutcome, ok bool) int {
	switch {
	case !ok:
		return 0
	case o.actualFailure == nil:
		return 1
	case !o.setupError:
		return 2
	}
	return 3
}

// size body n tls -> ((kind count)... returned beyond)
func verifC11Limit(args []vsx) vsx {
	if strings.HasPrefix(filepath.Base(os.Getenv("VERIF_CASES")), "shrink") {
		return vL(vS("bad-case"))
	}
	verifC11Prefetch()
	size, body, n, tls := args[0].i, args[1].boolean(), int(args[2].i), args[3].boolean()
	if size < 1 || size > 1<<26 || n < 0 || n > 9 {
		return vL(vS("bad-case"))
	}
	if body && size < 64 {
		return vL(vS("bad-case"))
	}
	scripts, testCases, expected := verifC11Plain(n)
	counter := &testTrie{}
	for _, sc := range scripts {
		counter.addPattern(sc.name)
	}
	results := newResults(len(testCases), &testTrie{}, counter, nil)
	u := uint32(size)
	stdout := &verifC11LimitStdout{prefix: []byte{byte(u >> 24), byte(u >> 16), byte(u >> 8), byte(u)}, size: int(size), body: body}
	var stdinBuf bytes.Buffer
	starter := newFakeProcess(&stdinBuf, stdout, bytes.NewReader(nil))
	client := &verifC11Client{script: scripts, deadAfter: -1, expected: expected, exit: func() {}}
	done := make(chan struct{})
	go func() {
		defer close(done)
		runTestCasesForServer(context.Background(), false, false,
			serverInstance{protocol: conformancev1.Protocol_PROTOCOL_CONNECT, httpVersion: conformancev1.HTTPVersion_HTTP_VERSION_1, useTLS: tls},
			testCases,
			&conformancev1.TLSCreds{Cert: []byte("server cert"), Key: []byte("server key")},
			&conformancev1.TLSCreds{Cert: []byte("client cert"), Key: []byte("client key")},
			starter, discardPrinter{}, discardPrinter{}, results, client, nil, false)
	}()
	select {
	case <-done:
	case <-time.After(verifC11Patience + serverResponseTimeout):
		return vL(vL(), vBool(false), vBool(stdout.beyond.Load() == 1))
	}
	per := make([]vsx, len(scripts))
	results.mu.Lock()
	for i, sc := range scripts {
		o, ok := results.outcomes[sc.name]
		per[i] = vL(vInt(verifC11Kind(o, ok)), vInt(verifC11TrieCount(counter, sc.name)))
	}
	results.mu.Unlock()
	return vL(vL(per...), vBool(true), vBool(stdout.beyond.Load() == 1))
}

// ---- c11.printer ----

type verifC11SlowWriter struct {
	w     io.Writer
	delay time.Duration
}

func (s *verifC11SlowWriter) Write(p []byte) (int, error) {
	n, err := s.w.Write(p)
	if s.delay > 0 {
		time.Sleep(s.delay) // the caller holds the printer's mutex meanwhile
	}
	return n, err
}

type verifC11LockedBuf struct {
	mu sync.Mutex
	b  bytes.Buffer
}

func (l *verifC11LockedBuf) Write(p []byte) (int, error) {
	l.mu.Lock()
	defer l.mu.Unlock()
	return l.b.Write(p)
}

type verifC11Call struct{ prefix, msg string }

func verifC11PrinterRound(names []string, progs [][]verifC11Call, mode int64) vsx {
	var scripts []verifC11Script
	var testCases []*conformancev1.TestCase
	expected := &conformancev1.ClientResponseResult{
		Payloads: []*conformancev1.ConformancePayload{{Data: []byte("data")}},
	}
	for _, name := range names {
		scripts = append(scripts, verifC11Script{name: name, sendOK: true, report: name})
		testCases = append(testCases, &conformancev1.TestCase{
			Request:          &conformancev1.ClientCompatRequest{TestName: name},
			ExpectedResponse: expected,
		})
	}
	results := newResults(len(testCases), &testTrie{}, &testTrie{}, nil)

	// the reference server's side: one printer, as server.go makes it over os.Stderr, written to by
	// one goroutine per request being handled
	pr, pw := io.Pipe()
	delay := 1500 * time.Microsecond
	if mode >= 2 {
		delay = 0
	}
	serverPrinter := internal.NewPrinter(&verifC11SlowWriter{w: pw, delay: delay})
	start := make(chan struct{})
	var wg sync.WaitGroup
	for _, prog := range progs {
		wg.Add(1)
		go func(prog []verifC11Call) {
			defer wg.Done()
			<-start
			for _, c := range prog {
				if mode%2 == 1 && !strings.Contains(c.msg, "%") {
					serverPrinter.PrefixPrintf(c.prefix, c.msg) // the message is the format, no arguments
				} else {
					serverPrinter.PrefixPrintf(c.prefix, "%s", c.msg)
				}
			}
		}(prog)
	}
	go func() {
		wg.Wait()
		_ = pw.Close()
	}()

	data, _ := verifC11Response(1, 0)
	stdout := &verifC11Stdout{data: data, release: make(chan struct{})}
	var stdinBuf bytes.Buffer
	starter := newFakeProcess(&stdinBuf, stdout, pr)
	client := &verifC11Client{script: scripts, deadAfter: -1, expected: expected, exit: func() {}}
	errBuf := &verifC11LockedBuf{}
	errPrinter := internal.NewPrinter(errBuf) // the runner's own printer is the real one too

	done := make(chan struct{})
	go func() {
		defer close(done)
		close(start)
		runTestCasesForServer(context.Background(), false, true,
			serverInstance{protocol: conformancev1.Protocol_PROTOCOL_CONNECT, httpVersion: conformancev1.HTTPVersion_HTTP_VERSION_1},
			testCases, nil, nil, starter, discardPrinter{}, errPrinter, results, client, nil, false)
	}()
	select {
	case <-done:
	case <-time.After(verifC11Patience):
		_ = pr.CloseWithError(io.ErrClosedPipe) // let everybody go
		return vErr("hang")
	}
	results.mu.Lock()
	side := make([]vsx, len(names))
	for i, n := range names {
		if msg, ok := results.serverSideband[n]; ok {
			side[i] = vL(vS(msg))
		} else {
			side[i] = vL()
		}
	}
	results.mu.Unlock()
	errBuf.mu.Lock()
	out := errBuf.b.String()
	errBuf.mu.Unlock()
	var fwd []string
	for _, l := range strings.SplitAfter(out, "\n") {
		if l == "" {
			continue
		}
		fwd = append(fwd, strings.TrimPrefix(l, "referenceserver: "))
	}
	sort.Strings(fwd)
	return vL(vL(side...), vStrs(fwd))
}

// (names) ((goroutine: (prefix msg)...)...) rounds mode -> per round ((side-band per name) (passed through, sorted))
func verifC11PrinterKind(args []vsx) vsx {
	if strings.HasPrefix(filepath.Base(os.Getenv("VERIF_CASES")), "shrink") {
		return vL(vS("bad-case")) // schedule-dependent under a faulty printer: not shrunk
	}
	verifC11Prefetch()
	names := args[0].strs()
	rounds, mode := args[2].i, args[3].i
	if rounds < 1 || rounds > 4 || mode < 0 || mode > 3 {
		return vL(vS("bad-case"))
	}
	inBatch := map[string]bool{}
	for _, n := range names {
		if inBatch[n] {
			return vL(vS("bad-case"))
		}
		inBatch[n] = true
	}
	used := map[string]bool{}
	var progs [][]verifC11Call
	for _, g := range args[1].l {
		var prog []verifC11Call
		for _, c := range g.l {
			if len(c.l) != 2 {
				return vL(vS("bad-case"))
			}
			call := verifC11Call{prefix: c.l[0].str(), msg: c.l[1].str()}
			// the precondition under which the observation does not depend on the schedule: clean calls,
			// no two lines for the same case
			if strings.ContainsAny(call.prefix+call.msg, "\n\r") || strings.Contains(call.prefix, ": ") ||
				strings.TrimSpace(call.prefix) != call.prefix || call.prefix == "" {
				return vL(vS("bad-case"))
			}
			if inBatch[call.prefix] {
				if used[call.prefix] {
					return vL(vS("bad-case"))
				}
				used[call.prefix] = true
			}
			prog = append(prog, call)
		}
		progs = append(progs, prog)
	}
	res := make([]vsx, 0, rounds)
	for r := int64(0); r < rounds; r++ {
		res = append(res, verifC11PrinterRound(names, progs, mode))
	}
	return vL(res...)
}
