//go:build verif

package connectconformance

// C11, process.go: stopping the server process in bounded time.
//
//	mode 0  the REAL cmdProcess made by runCommand, around this test binary re-executed as a
//	        scripted child process (exits at once on SIGTERM with status 0 / non-zero, default
//	        disposition, exits a second later, ignores SIGTERM, leaves a descendant that keeps
//	        the stdout pipe open, had exited before the abort)
//	mode 1  the methods of cmdProcess (abort, result, whenDone, markDone) over a SCRIPTED
//	        operating system: cancel / forceClose are hooks, the child's end is what the
//	        cmd.Wait goroutine of runCommand does (store the result, markDone).  This reaches
//	        what no real child can be made to do on demand: survive SIGKILL and closed pipes.
//	mode 2  the REAL localProcess made by runInProcess around a scripted function
//	mode 3  runTestCasesForServer over a mode-1 process, mode 4 over a mode-2 process
//	mode 5  the REAL runTestCasesForServer over the REAL runCommand around this test binary re-executed as
//	        a child that is scripted in what it does with its STDIN: exits at once without reading / after
//	        reading k bytes / after a delay, closes its stdin and stays, keeps it open unread, or reads the
//	        request and answers; with a request of a few bytes or of 256 KiB (far beyond what the OS pipe
//	        takes unread, so the write really blocks) and a starter that hands the process over at once or
//	        a second later.  Observed: returned within the patience, child gone, passes, setup errors.
//
// Observed: did abort();result() (resp. the function) return within the patience of 3 x the two
// waits of abort's goroutine; the class of the error; is the child gone at that moment (kill(pid, 0)
// for real ones); forced closes; passes recorded.  Every scripted delay is >= 1 s away from every
// other event of the same script, so the ORDER of events (all that decides an observable) is the
// scripted one under any plausible load.  All process cases of a run are started together when the
// first case of the run is evaluated, and collected when their turn comes.

import (
	"bufio"
	"bytes"
	"context"
	"errors"
	"fmt"
	"io"
	"os"
	"os/exec"
	"os/signal"
	"path/filepath"
	"strconv"
	"strings"
	"sync"
	"sync/atomic"
	"syscall"
	"testing"
	"time"

	conformancev1 "connectrpc.com/conformance/internal/gen/proto/go/connectrpc/conformance/v1"
)

const (
	verifC11ChildArg  = "verif-c11-child"
	verifC11HolderArg = "verif-c11-holder"
	verifC11StdinArg  = "verif-c11-stdin-child"
	// nobody is left behind: every child and holder ends by itself after this long
	verifC11ChildLife = 75 * time.Second
	// for a child to report that it is ready / for its exit to be seen: decides nothing
	verifC11StartPatience = 30 * time.Second
)

// three times the two waits of abort's goroutine: a correct implementation needs at most one third
func verifC11StopPatience() time.Duration { return 3 * 2 * gracefulShutdownPeriod }

var (
	errVerifC11Signal = errors.New("verif: scripted child ended by a signal")
	errVerifC11Local  = errors.New("verif: scripted in-process error")
)

// ---- the child side ----

func verifC11ChildMain() {
	if len(os.Args) < 2 || (os.Args[1] != verifC11ChildArg && os.Args[1] != verifC11HolderArg && os.Args[1] != verifC11StdinArg && os.Args[1] != verifC11LiveArg) {
		return
	}
	time.AfterFunc(verifC11ChildLife, func() { os.Exit(99) })
	if os.Args[1] == verifC11LiveArg {
		verifC11LiveChild()
	}
	if os.Args[1] == verifC11StdinArg {
		verifC11StdinChild()
	}
	if os.Args[1] == verifC11HolderArg {
		signal.Ignore(syscall.SIGTERM, syscall.SIGPIPE, syscall.SIGHUP)
		time.Sleep(verifC11ChildLife)
		os.Exit(0)
	}
	num := func(i int) int {
		n, err := strconv.Atoi(os.Args[i])
		if err != nil {
			os.Exit(98)
		}
		return n
	}
	pre, code, tmode, td, holds := num(2), num(3), num(4), num(5), num(6)
	gpid := 0
	if holds != 0 {
		self, err := os.Executable()
		if err != nil {
			os.Exit(97)
		}
		h := exec.Command(self, verifC11HolderArg) //nolint:gosec
		h.Stdout = os.Stdout                        // the descendant keeps the pipe open
		if err := h.Start(); err != nil {
			os.Exit(96)
		}
		gpid = h.Process.Pid
	}
	term := make(chan os.Signal, 1)
	switch tmode {
	case 0:
		signal.Notify(term, syscall.SIGTERM)
	case 1: // default disposition
	default:
		signal.Ignore(syscall.SIGTERM)
	}
	fmt.Fprintf(os.Stdout, "ready %d %d\n", os.Getpid(), gpid)
	if pre != 0 {
		os.Exit(code)
	}
	if tmode == 0 {
		<-term
		time.Sleep(time.Duration(td) * time.Millisecond)
		os.Exit(code)
	}
	time.Sleep(verifC11ChildLife)
	os.Exit(95)
}

// the child of mode 5: all answers delay reads release code
func verifC11StdinChild() {
	num := func(i int) int {
		n, err := strconv.Atoi(os.Args[i])
		if err != nil {
			os.Exit(98)
		}
		return n
	}
	all, answers, delay, reads, release, code := num(2), num(3), num(4), num(5), num(6), num(7)
	term := make(chan os.Signal, 1)
	signal.Notify(term, syscall.SIGTERM)
	stay := func() {
		<-term
		os.Exit(0)
	}
	time.Sleep(time.Duration(delay) * time.Millisecond)
	if all != 0 {
		_, _ = io.Copy(io.Discard, os.Stdin)
		if answers != 0 {
			response, _ := verifC11Response(0, 0)
			_, _ = os.Stdout.Write(response)
		}
		stay()
	}
	if reads > 0 {
		_, _ = io.ReadFull(os.Stdin, make([]byte, reads))
	}
	switch release {
	case 1:
		os.Exit(code)
	case 2:
		_ = os.Stdin.Close()
	}
	stay()
}

// ---- constants of the compiled code ----

// TestVerifConsts prints the durations process.go uses: the period of both waits of abort's goroutine
// and the WaitDelay runCommand really sets on the exec.Cmd of a started process.
func TestVerifConsts(t *testing.T) {
	out := os.Getenv("VERIF_OUT")
	if out == "" {
		t.Skip("VERIF_OUT not set")
	}
	self, err := os.Executable()
	if err != nil {
		t.Fatal(err)
	}
	proc, err := runCommand([]string{self, verifC11ChildArg, "1", "0", "0", "0", "0"})(context.Background(), true)
	if err != nil {
		t.Fatal(err)
	}
	cp, ok := proc.processController.(*cmdProcess)
	if !ok {
		t.Fatalf("runCommand made a %T", proc.processController)
	}
	waitDelay := cp.cmd.WaitDelay
	go func() { _, _ = io.Copy(io.Discard, proc.stdout) }()
	go func() { _, _ = io.Copy(io.Discard, proc.stderr) }()
	_ = proc.stdin.Close()
	proc.abort()
	_ = proc.result()
	body := fmt.Sprintf("Definition c11_grace_ms : N := %d%%N.\nDefinition c11_grace2_ms : N := %d%%N.\nDefinition c11_wait_delay_ms : N := %d%%N.\n"+
		"Definition c11_response_timeout_ms : N := %d%%N.\n"+
		"Definition c11_max_client_response : N := %d%%N.\nDefinition c11_max_server_response : N := %d%%N.\n",
		gracefulShutdownPeriod.Milliseconds(), gracefulShutdownPeriod.Milliseconds(), waitDelay.Milliseconds(),
		serverResponseTimeout.Milliseconds(), maxClientResponseSize, maxServerResponseSize)
	if err := os.WriteFile(out, []byte(body), 0o644); err != nil {
		t.Fatal(err)
	}
}

// ---- all process cases of a run at once ----

type verifC11Future struct {
	done chan struct{}
	res  vsx
}

var (
	verifC11PrefetchOnce sync.Once
	verifC11Futures      = map[string]*verifC11Future{}
)

func verifC11Key(args []vsx) string {
	var sb strings.Builder
	vL(args...).print(&sb)
	return sb.String()
}

func verifC11Shrinking() bool {
	return strings.HasPrefix(filepath.Base(os.Getenv("VERIF_CASES")), "shrink")
}

func verifC11Prefetch() {
	verifC11PrefetchOnce.Do(func() {
		if verifC11Shrinking() {
			return
		}
		f, err := os.Open(os.Getenv("VERIF_CASES"))
		if err != nil {
			return
		}
		defer f.Close()
		sc := bufio.NewScanner(f)
		sc.Buffer(make([]byte, 1<<20), 1<<30)
		for sc.Scan() {
			line := sc.Text()
			if !strings.HasPrefix(line, `("c11.proc"`) {
				continue
			}
			p := &vparser{s: line}
			c := p.item()
			if c.k != 'l' || len(c.l) < 2 {
				continue
			}
			args := c.l[2:]
			key := verifC11Key(args)
			if _, dup := verifC11Futures[key]; dup {
				continue
			}
			fut := &verifC11Future{done: make(chan struct{})}
			verifC11Futures[key] = fut
			go func() {
				defer close(fut.done)
				fut.res = verifEvalOne(verifC11ProcRun, args)
			}()
		}
	})
}

// mode aborts (pre code tmode td cmode cd killable holds wd n) -> (in-time class gone forced passes)
func verifC11Proc(args []vsx) vsx {
	if verifC11Shrinking() {
		// one process per case: there is nothing to shrink, and candidates would cost seconds each
		return vL(vS("bad-case"), vS("process-cases-are-not-shrunk"))
	}
	verifC11Prefetch()
	if fut, ok := verifC11Futures[verifC11Key(args)]; ok {
		<-fut.done
		return fut.res
	}
	return verifC11ProcRun(args)
}

type verifC11PScript struct {
	pre, code, tmode, td, cmode, cd, killable, holds, wd, n int64
}

func verifC11ProcRun(args []vsx) vsx {
	bad := vL(vS("bad-case"))
	if len(args) == 3 && args[0].k == 'i' && args[0].i == 6 && args[1].k == 'i' && args[1].i == 1 && args[2].k == 'l' {
		return verifC11LiveRun(args[2].l)
	}
	if len(args) != 3 || args[0].k != 'i' || args[1].k != 'i' || args[2].k != 'l' || len(args[2].l) != 10 {
		return bad
	}
	mode, aborts := args[0].i, args[1].i
	if mode == 5 {
		if aborts != 1 {
			return bad
		}
		return verifC11StartRun(args[2].l)
	}
	var f [10]int64
	for i, v := range args[2].l {
		if v.k != 'i' || v.g != nil || v.i < 0 {
			return bad
		}
		f[i] = v.i
	}
	ps := verifC11PScript{f[0], f[1], f[2], f[3], f[4], f[5], f[6], f[7], f[8], f[9]}
	if ps.pre > 1 || ps.tmode > 2 || ps.cmode > 1 || ps.killable > 1 || ps.holds > 1 || ps.n > 8 || aborts < 1 || aborts > 3 ||
		ps.td > 60000 || ps.cd > 60000 || ps.wd > 60000 || ps.code > 125 {
		return bad
	}
	out := func(inTime bool, class int, gone bool, forced, passes int) vsx {
		return vL(vBool(inTime), vInt(class), vBool(gone), vInt(forced), vInt(passes))
	}
	switch mode {
	case 0:
		if ps.wd != 0 || ps.cmode != 0 || ps.killable != 1 || ps.n != 0 || (ps.pre == 1 && ps.holds == 1) {
			return bad
		}
		return verifC11RealChild(ps, int(aborts), out)
	case 1:
		if ps.holds != 0 || ps.n != 0 {
			return bad
		}
		osys := newVerifC11OS(ps)
		inTime, err := verifC11StopAndWait(osys.proc, int(aborts), osys.preExited)
		gone, forced := osys.gone.Load(), int(osys.forces.Load())
		osys.finish(errVerifC11Signal) // lets a stuck result() go
		return out(inTime, verifC11Class(err, inTime), gone, forced, 0)
	case 2, 4:
		if ps.wd != 0 || ps.cmode != 0 || ps.killable != 0 || ps.holds != 0 || ps.tmode == 1 {
			return bad
		}
		if mode == 2 {
			if ps.n != 0 {
				return bad
			}
			return verifC11Local(ps, int(aborts), out)
		}
		if ps.pre != 0 {
			return bad
		}
		return verifC11StopBatch(ps, false, out)
	case 3:
		if ps.holds != 0 || ps.pre != 0 {
			return bad
		}
		return verifC11StopBatch(ps, true, out)
	}
	return bad
}

// nil 0, exited 1, signalled 2, context.Canceled 3, exec.ErrWaitDelay 4, anything else from a cmdProcess
// (it gave up) 5, context.DeadlineExceeded 6, the scripted in-process error 7
func verifC11Class(err error, returned bool) int {
	if !returned {
		return 0
	}
	var ee *exec.ExitError
	switch {
	case err == nil:
		return 0
	case errors.Is(err, errVerifC11Signal):
		return 2
	case errors.Is(err, errVerifC11Local):
		return 7
	case errors.As(err, &ee):
		if ee.ProcessState != nil {
			if ws, ok := ee.ProcessState.Sys().(syscall.WaitStatus); ok && ws.Signaled() {
				return 2
			}
		}
		return 1
	case errors.Is(err, context.Canceled):
		return 3
	case errors.Is(err, exec.ErrWaitDelay):
		return 4
	case errors.Is(err, context.DeadlineExceeded):
		return 6
	}
	return 5
}

// abort() `aborts` times, then result(), with patience
func verifC11StopAndWait(ctl processController, aborts int, exited <-chan struct{}) (bool, error) {
	if exited != nil {
		select {
		case <-exited:
		case <-time.After(verifC11StartPatience):
		}
	}
	for i := 0; i < aborts; i++ {
		ctl.abort()
	}
	res := make(chan error, 1)
	go func() { res <- ctl.result() }()
	select {
	case err := <-res:
		return true, err
	case <-time.After(verifC11StopPatience()):
		return false, nil
	}
}

// ---- mode 0: a real child ----

func verifC11RealChild(ps verifC11PScript, aborts int, out func(bool, int, bool, int, int) vsx) vsx {
	self, err := os.Executable()
	if err != nil {
		return vErr("no-executable")
	}
	itoa := func(n int64) string { return strconv.FormatInt(n, 10) }
	proc, err := runCommand([]string{self, verifC11ChildArg, itoa(ps.pre), itoa(ps.code), itoa(ps.tmode), itoa(ps.td), itoa(ps.holds)})(
		context.Background(), true)
	if err != nil {
		return vErr("child-did-not-start")
	}
	go func() { _, _ = io.Copy(io.Discard, proc.stderr) }()
	type ready struct{ pid, gpid int }
	readyCh := make(chan ready, 1)
	go func() {
		r := bufio.NewReader(proc.stdout)
		line, _ := r.ReadString('\n')
		var rd ready
		if _, err := fmt.Sscanf(line, "ready %d %d", &rd.pid, &rd.gpid); err == nil {
			readyCh <- rd
		}
		_, _ = io.Copy(io.Discard, r)
	}()
	var rd ready
	select {
	case rd = <-readyCh:
	case <-time.After(verifC11StartPatience):
		proc.abort()
		return vErr("child-never-ready")
	}
	defer func() {
		if rd.gpid > 0 {
			_ = syscall.Kill(rd.gpid, syscall.SIGKILL)
		}
	}()
	// like the runner: the request has been written, stdin is closed
	_ = proc.stdin.Close()
	var exited chan struct{}
	if ps.pre != 0 {
		exited = make(chan struct{})
		proc.whenDone(func(error) { close(exited) })
	}
	inTime, resErr := verifC11StopAndWait(proc, aborts, exited)
	gone := errors.Is(syscall.Kill(rd.pid, 0), syscall.ESRCH)
	if !gone {
		_ = syscall.Kill(rd.pid, syscall.SIGKILL)
	}
	return out(inTime, verifC11Class(resErr, inTime), gone, 0, 0)
}

// ---- mode 1: cmdProcess over a scripted operating system ----

type verifC11OS struct {
	ps        verifC11PScript
	proc      *cmdProcess
	endOnce   sync.Once
	gone      atomic.Bool
	forces    atomic.Int32
	cancelled sync.Once
	preExited chan struct{}
}

// the child is gone: what the cmd.Wait goroutine of runCommand does then
func (o *verifC11OS) finish(err error) {
	o.endOnce.Do(func() {
		o.gone.Store(true)
		o.proc.cmdResult.CompareAndSwap(nil, &err)
		o.proc.markDone()
	})
}

func (o *verifC11OS) exitErr() error {
	if o.ps.code == 0 {
		return context.Canceled // os/exec: status 0 after cmd.Cancel succeeded
	}
	return &exec.ExitError{}
}

func newVerifC11OS(ps verifC11PScript) *verifC11OS {
	o := &verifC11OS{ps: ps}
	ms := func(n int64) time.Duration { return time.Duration(n) * time.Millisecond }
	o.proc = &cmdProcess{done: make(chan struct{})}
	o.proc.cancel = func() {
		o.cancelled.Do(func() {
			switch ps.tmode {
			case 0:
				time.AfterFunc(ms(ps.td), func() { o.finish(o.exitErr()) })
			case 1:
				o.finish(errVerifC11Signal)
			}
			if ps.wd > 0 && ps.killable != 0 {
				time.AfterFunc(ms(ps.wd), func() { o.finish(errVerifC11Signal) })
			}
		})
	}
	o.proc.forceClose = func() {
		o.forces.Add(1)
		if ps.cmode != 0 {
			time.AfterFunc(ms(ps.cd), func() { o.finish(context.Canceled) })
		}
	}
	if ps.pre != 0 {
		if ps.code == 0 {
			o.finish(nil)
		} else {
			o.finish(&exec.ExitError{})
		}
		o.preExited = make(chan struct{})
		o.proc.whenDone(func(error) { close(o.preExited) })
	}
	return o
}

// ---- mode 2: a real localProcess ----

type verifC11Func struct {
	ps      verifC11PScript
	gone    atomic.Bool
	release chan struct{}
	respond []byte // written to stdout once stdin is at its end (batch use)
}

func (fn *verifC11Func) run(ctx context.Context, _ []string, in io.ReadCloser, out, _ io.WriteCloser) error {
	defer fn.gone.Store(true)
	var err error
	if fn.ps.code != 0 {
		err = errVerifC11Local
	}
	if fn.respond != nil {
		_, _ = io.Copy(io.Discard, in)
		_, _ = out.Write(fn.respond)
	}
	if fn.ps.pre != 0 {
		return err
	}
	<-ctx.Done()
	if fn.ps.tmode != 0 {
		<-fn.release // never, as far as the code under test can tell
		return err
	}
	select {
	case <-time.After(time.Duration(fn.ps.td) * time.Millisecond):
	case <-fn.release:
	}
	return err
}

func verifC11Local(ps verifC11PScript, aborts int, out func(bool, int, bool, int, int) vsx) vsx {
	fn := &verifC11Func{ps: ps, release: make(chan struct{})}
	defer close(fn.release)
	proc, err := runInProcess(nil, fn.run)(context.Background(), true)
	if err != nil {
		return vErr("in-process-start")
	}
	go func() { _, _ = io.Copy(io.Discard, proc.stdout) }()
	go func() { _, _ = io.Copy(io.Discard, proc.stderr) }()
	_ = proc.stdin.Close()
	var exited chan struct{}
	if ps.pre != 0 {
		exited = make(chan struct{})
		proc.whenDone(func(error) { close(exited) })
	}
	inTime, resErr := verifC11StopAndWait(proc, aborts, exited)
	return out(inTime, verifC11Class(resErr, inTime), fn.gone.Load(), 0, 0)
}

// ---- modes 3, 4: runTestCasesForServer over such a process ----

type verifC11NopWriteCloser struct{ io.Writer }

func (verifC11NopWriteCloser) Close() error { return nil }

func verifC11StopBatch(ps verifC11PScript, scriptedOS bool, out func(bool, int, bool, int, int) vsx) vsx {
	expected := &conformancev1.ClientResponseResult{
		Payloads: []*conformancev1.ConformancePayload{{Data: []byte("data")}},
	}
	var scripts []verifC11Script
	var testCases []*conformancev1.TestCase
	counter := &testTrie{}
	for i := 0; i < int(ps.n); i++ {
		name := "P/" + strconv.Itoa(i)
		scripts = append(scripts, verifC11Script{name: name, sendOK: true, report: name})
		testCases = append(testCases, &conformancev1.TestCase{
			Request:          &conformancev1.ClientCompatRequest{TestName: name},
			ExpectedResponse: expected,
		})
		counter.addPattern(name)
	}
	results := newResults(len(testCases), &testTrie{}, counter, nil)
	response, _ := verifC11Response(1, 0)
	var osys *verifC11OS
	var fn *verifC11Func
	var starter processStarter
	if scriptedOS {
		osys = newVerifC11OS(ps)
		defer osys.finish(errVerifC11Signal)
		starter = func(context.Context, bool) (*process, error) {
			return &process{
				processController: osys.proc,
				stdin:             verifC11NopWriteCloser{io.Discard},
				stdout:            bytes.NewReader(response),
				stderr:            bytes.NewReader(nil),
			}, nil
		}
	} else {
		fn = &verifC11Func{ps: ps, release: make(chan struct{}), respond: response}
		defer close(fn.release)
		starter = runInProcess(nil, fn.run)
	}
	client := &verifC11Client{script: scripts, deadAfter: -1, expected: expected, exit: func() {}}
	var gone bool
	var forced int
	done := make(chan struct{})
	go func() {
		defer close(done)
		runTestCasesForServer(
			context.Background(),
			false,
			false,
			serverInstance{
				protocol:    conformancev1.Protocol_PROTOCOL_CONNECT,
				httpVersion: conformancev1.HTTPVersion_HTTP_VERSION_1,
			},
			testCases,
			nil,
			nil,
			starter,
			discardPrinter{},
			discardPrinter{},
			results,
			client,
			nil,
			false,
		)
		if scriptedOS {
			gone, forced = osys.gone.Load(), int(osys.forces.Load())
		} else {
			gone = fn.gone.Load()
		}
	}()
	inTime := false
	select {
	case <-done:
		inTime = true
	case <-time.After(verifC11StopPatience()):
		if scriptedOS {
			gone, forced = osys.gone.Load(), int(osys.forces.Load())
		}
	}
	passes := 0
	results.mu.Lock()
	for _, sc := range scripts {
		if o, ok := results.outcomes[sc.name]; ok && o.actualFailure == nil && verifC11TrieCount(counter, sc.name) == 1 {
			passes++
		}
	}
	results.mu.Unlock()
	return out(inTime, 0, gone, forced, passes)
}

// ---- mode 5: the start phase over a real child scripted in what it does with its stdin ----

// what the OS pipe of a child's stdin takes unread on Linux (16 pages); the copy goroutine of os/exec may
// hold another 32 KiB: requests are either far below or far above
const verifC11PipeCap = 65536

// (all answers delay reads release code len cap sd n) -> (in-time 0 child-gone 0 passes setups)
func verifC11StartRun(sc []vsx) vsx {
	bad := vL(vS("bad-case"))
	var f [10]int64
	for i, v := range sc {
		if v.k != 'i' || v.g != nil || v.i < 0 {
			return bad
		}
		f[i] = v.i
	}
	all, answers, delay, reads, release, code, reqLen, pipeCap, sd, n := f[0], f[1], f[2], f[3], f[4], f[5], f[6], f[7], f[8], f[9]
	big := reqLen >= 4*verifC11PipeCap
	if all > 1 || answers > 1 || release > 2 || code > 125 || n > 8 || pipeCap != verifC11PipeCap || delay > 5000 || sd > 5000 ||
		reads > verifC11PipeCap || (!big && reqLen > 4096) || reqLen > 1<<20 || (all == 0 && answers != 0) {
		return bad
	}
	// every scripted moment is at least a second away from every other (the racy pair "lets go at once, written at
	// once" is allowed where the order does not matter: a child that exits)
	if delay != sd && ((delay > sd && delay-sd < 1000) || (sd > delay && sd-delay < 1000)) {
		return bad
	}
	if all == 0 && release == 2 && delay == sd && !big {
		return bad
	}
	self, err := os.Executable()
	if err != nil {
		return vErr("no-executable")
	}
	itoa := func(v int64) string { return strconv.FormatInt(v, 10) }
	inner := runCommand([]string{self, verifC11StdinArg, itoa(all), itoa(answers), itoa(delay), itoa(reads), itoa(release), itoa(code)})
	var pid atomic.Int64
	starter := func(ctx context.Context, pipeStderr bool) (*process, error) {
		proc, err := inner(ctx, pipeStderr)
		if err == nil {
			if cp, ok := proc.processController.(*cmdProcess); ok && cp.cmd.Process != nil {
				pid.Store(int64(cp.cmd.Process.Pid))
			}
		}
		time.Sleep(time.Duration(sd) * time.Millisecond) // fixes where the fault lands relative to the writes
		return proc, err
	}
	expected := &conformancev1.ClientResponseResult{
		Payloads: []*conformancev1.ConformancePayload{{Data: []byte("data")}},
	}
	var scripts []verifC11Script
	var testCases []*conformancev1.TestCase
	counter := &testTrie{}
	for i := 0; i < int(n); i++ {
		name := "P/" + strconv.Itoa(i)
		scripts = append(scripts, verifC11Script{name: name, sendOK: true, report: name})
		testCases = append(testCases, &conformancev1.TestCase{
			Request:          &conformancev1.ClientCompatRequest{TestName: name},
			ExpectedResponse: expected,
		})
		counter.addPattern(name)
	}
	results := newResults(len(testCases), &testTrie{}, counter, nil)
	client := &verifC11Client{script: scripts, deadAfter: -1, expected: expected, exit: func() {}}
	// the ServerCompatRequest carries the server's credentials: that is where a large request comes from
	creds := &conformancev1.TLSCreds{Cert: []byte("-----CERT-----"), Key: []byte("-----KEY-----")}
	if big {
		creds.Cert = bytes.Repeat([]byte("C"), int(reqLen))
	}
	done := make(chan struct{})
	go func() {
		defer close(done)
		runTestCasesForServer(
			context.Background(),
			false,
			false,
			serverInstance{
				protocol:    conformancev1.Protocol_PROTOCOL_CONNECT,
				httpVersion: conformancev1.HTTPVersion_HTTP_VERSION_1,
				useTLS:      true,
			},
			testCases,
			creds,
			nil,
			starter,
			discardPrinter{},
			discardPrinter{},
			results,
			client,
			nil,
			false,
		)
	}()
	inTime := false
	select {
	case <-done:
		inTime = true
	case <-time.After(verifC11StopPatience()):
	}
	gone := true
	if p := int(pid.Load()); p > 0 {
		gone = errors.Is(syscall.Kill(p, 0), syscall.ESRCH)
		if !gone {
			_ = syscall.Kill(p, syscall.SIGKILL) // nobody is left behind (this also lets a blocked writer go, if the code closes the pipe then)
		}
	}
	passes, setups := 0, 0
	if inTime {
		results.mu.Lock()
		for _, sc := range scripts {
			o, ok := results.outcomes[sc.name]
			if !ok || verifC11TrieCount(counter, sc.name) != 1 {
				continue
			}
			switch {
			case o.actualFailure == nil:
				passes++
			case o.setupError:
				var cnr *couldNotRunError
				if !errors.As(o.actualFailure, &cnr) {
					setups++
				}
			}
		}
		results.mu.Unlock()
	}
	if !inTime {
		gone = false
	}
	return vL(vBool(inTime), vI(0), vBool(gone), vI(0), vInt(passes), vInt(setups))
}
