//go:build verif

package connectconformance

// C11, mode 6 of c11.proc: the REAL runTestCasesForServer over a REAL server process that gives up by ITSELF
//
//	flavour 0  the real runCommand (cmdProcess, the real whenDone) around this test binary re-executed as a child
//	           that reads the request, answers the handshake and EXITS with the scripted status (0 or not) when k
//	           sendRequest calls have returned (the harness tells it so with SIGUSR1)
//	flavour 1  the real runInProcess (localProcess, the goroutine that prints the returned error and closes the
//	           pipes) around a server function that writes `own` lines to its stderr and then returns - at once
//	           (when 0), after it has read the request (when 1), or after the handshake when k sendRequest calls
//	           have returned (when 2) - nil or an error; isReferenceServer = true, the stderr is parsed
//
// Observed: returned within the patience; passes and setup errors (exactly one outcome each); the lines handed to
// the error printer once the stderr reader has seen the end of the stream (the harness wraps process.stderr to learn
// that; the reader prints a line BEFORE it reads on, so every line has been handed over by then).  After it told
// the server to go, the harness waits until the context given to the starter (procCtx) is cancelled - what the
// whenDone callback of runTestCasesForServer does - for at most verifC11LivePatience: a runner that never notices
// the server's end goes on sending after that and the remaining cases pass instead of being setup errors.

import (
	"context"
	"errors"
	"io"
	"os"
	"os/signal"
	"strconv"
	"sync"
	"sync/atomic"
	"syscall"
	"time"

	conformancev1 "connectrpc.com/conformance/internal/gen/proto/go/connectrpc/conformance/v1"
)

const (
	verifC11LiveArg = "verif-c11-live-child"
	// for procCtx to be cancelled once the server process is gone (microseconds in a correct runner)
	verifC11LivePatience = 5 * time.Second
)

func verifC11OwnLine(i int) string { return "verif: own line " + strconv.Itoa(i) + "\n" }

// the child of flavour 0: code
func verifC11LiveChild() {
	code, err := strconv.Atoi(os.Args[2])
	if err != nil {
		os.Exit(98)
	}
	term := make(chan os.Signal, 1)
	signal.Notify(term, syscall.SIGTERM)
	usr := make(chan os.Signal, 1)
	signal.Notify(usr, syscall.SIGUSR1)
	_, _ = io.Copy(io.Discard, os.Stdin)
	response, _ := verifC11Response(1, 0)
	_, _ = os.Stdout.Write(response)
	select {
	case <-usr:
		os.Exit(code)
	case <-term:
		os.Exit(0)
	}
}

type verifC11EOFReader struct {
	r    io.Reader
	once sync.Once
	eof  chan struct{}
}

func (e *verifC11EOFReader) Read(p []byte) (int, error) {
	n, err := e.r.Read(p)
	if err != nil {
		e.once.Do(func() { close(e.eof) })
	}
	return n, err
}

// (flavour when code k n own) -> (in-time passes setups (forwarded lines))
func verifC11LiveRun(sc []vsx) vsx {
	bad := vL(vS("bad-case"))
	if len(sc) != 6 {
		return bad
	}
	var f [6]int64
	for i, v := range sc {
		if v.k != 'i' || v.g != nil || v.i < 0 {
			return bad
		}
		f[i] = v.i
	}
	flavour, when, code, k, n, own := f[0], f[1], f[2], f[3], f[4], f[5]
	if flavour > 1 || when > 2 || code > 125 || n > 8 || k > 9 || own > 3 || (flavour == 0 && (when != 2 || own != 0)) ||
		(when == 2 && k < 1) || (when != 2 && k != 0) {
		return bad
	}
	scripts, testCases, expected := verifC11Plain(int(n))
	counter := &testTrie{}
	for _, s := range scripts {
		counter.addPattern(s.name)
	}
	results := newResults(len(testCases), &testTrie{}, counter, nil)
	var procCtx atomic.Pointer[context.Context]
	var inner processStarter
	var pid atomic.Int64
	leave := make(chan struct{}) // flavour 1: closed when the server function shall return
	var leaveOnce sync.Once
	release := make(chan struct{}) // nobody is left behind
	defer close(release)
	if flavour == 0 {
		self, err := os.Executable()
		if err != nil {
			return vErr("no-executable")
		}
		inner = runCommand([]string{self, verifC11LiveArg, strconv.FormatInt(code, 10)})
	} else {
		response, _ := verifC11Response(1, 0)
		inner = runInProcess(nil, func(ctx context.Context, _ []string, in io.ReadCloser, out, errOut io.WriteCloser) error {
			var err error
			if code != 0 {
				err = errVerifC11Local
			}
			for i := 0; i < int(own); i++ {
				_, _ = io.WriteString(errOut, verifC11OwnLine(i))
			}
			if when == 0 {
				return err
			}
			_, _ = io.Copy(io.Discard, in)
			if when == 1 {
				return err
			}
			_, _ = out.Write(response)
			select {
			case <-leave:
			case <-ctx.Done():
			case <-release:
			}
			return err
		})
	}
	eof := make(chan struct{})
	starter := func(ctx context.Context, pipeStderr bool) (*process, error) {
		procCtx.Store(&ctx)
		proc, err := inner(ctx, pipeStderr)
		if err != nil {
			return proc, err
		}
		if cp, ok := proc.processController.(*cmdProcess); ok && cp.cmd.Process != nil {
			pid.Store(int64(cp.cmd.Process.Pid))
		}
		if pipeStderr {
			proc.stderr = &verifC11EOFReader{r: proc.stderr, eof: eof}
		}
		return proc, nil
	}
	client := &verifC11Client{script: scripts, deadAfter: -1, expected: expected, exit: func() {}}
	if when == 2 {
		client.deadAfter = k
		client.exit = func() {
			if flavour == 0 {
				if p := int(pid.Load()); p > 0 {
					_ = syscall.Kill(p, syscall.SIGUSR1)
				}
			} else {
				leaveOnce.Do(func() { close(leave) })
			}
			if c := procCtx.Load(); c != nil {
				select {
				case <-(*c).Done():
				case <-time.After(verifC11LivePatience):
				}
			}
		}
	}
	printer := &verifC11Printer{}
	done := make(chan struct{})
	go func() {
		defer close(done)
		runTestCasesForServer(
			context.Background(),
			false,
			flavour == 1,
			serverInstance{
				protocol:    conformancev1.Protocol_PROTOCOL_CONNECT,
				httpVersion: conformancev1.HTTPVersion_HTTP_VERSION_1,
			},
			testCases,
			nil,
			nil,
			starter,
			discardPrinter{},
			printer,
			results,
			client,
			nil,
			false,
		)
	}()
	inTime := false
	select {
	case <-done:
		inTime = true
	case <-time.After(verifC11StopPatience()):
	}
	if p := int(pid.Load()); p > 0 && !errors.Is(syscall.Kill(p, 0), syscall.ESRCH) {
		_ = syscall.Kill(p, syscall.SIGKILL)
	}
	if !inTime {
		return vL(vBool(false), vI(0), vI(0), vL())
	}
	if flavour == 1 {
		select {
		case <-eof:
		case <-time.After(verifC11StopPatience()):
			return vL(vBool(false), vI(0), vI(0), vL())
		}
	}
	passes, setups := 0, 0
	results.mu.Lock()
	for _, s := range scripts {
		o, ok := results.outcomes[s.name]
		if !ok || verifC11TrieCount(counter, s.name) != 1 {
			continue
		}
		switch {
		case o.actualFailure == nil:
			passes++
		case o.setupError:
			var cnr *couldNotRunError
			var nores *failedToGetResultError
			if !errors.As(o.actualFailure, &cnr) && !errors.As(o.actualFailure, &nores) {
				setups++
			}
		}
	}
	results.mu.Unlock()
	printer.mu.Lock()
	var fwd []vsx
	for _, l := range printer.lines {
		fwd = append(fwd, vB([]byte(l)))
	}
	printer.mu.Unlock()
	return vL(vBool(inTime), vInt(passes), vInt(setups), vL(fwd...))
}
