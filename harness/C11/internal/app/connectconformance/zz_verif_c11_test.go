//go:build verif

package connectconformance

// C11: drives the real runTestCasesForServer with a scripted server process (the
// package's own fakeProcess / procWriter / procReader, wrapped so that abort calls and
// "process ended" transitions are counted) and a scripted clientRunner.  The script says
// for every case whether sendRequest fails, what the callback receives, WHEN it fires
// (inside which later sendRequest, or only once the function sits in wg.Wait) and under
// which name; for the server: start error, stdin write/close error, every kind of bad
// response, certificate or not, exit after k sends, and the stderr stream.
// Observed AT THE MOMENT THE FUNCTION RETURNS: the outcome map (kind per name), how often an
// outcome was set per name, abort calls, process state, the names handed to the client;
// at quiescence of the stderr reader: side-band records and passed-through lines.
// No sleeps decide anything: callbacks fire inside sendRequest, or when the function's
// goroutine is parked in sync.WaitGroup.Wait (seen in the runtime's goroutine dump), or
// after it returned.  Time-outs are only patience limits that turn a hang into a result.

import (
	"bytes"
	"context"
	"errors"
	"fmt"
	"io"
	"os"
	"path/filepath"
	"runtime"
	"strconv"
	"strings"
	"sync"
	"sync/atomic"
	"time"

	"connectrpc.com/conformance/internal"
	conformancev1 "connectrpc.com/conformance/internal/gen/proto/go/connectrpc/conformance/v1"
	"google.golang.org/protobuf/proto"
)

func init() {
	verifC11ChildMain() // the test binary re-executed as a scripted child process: never returns then
	verifKinds["c11.batch"] = verifC11Batch
	verifKinds["c11.proc"] = verifC11Proc
}

// Watchdogs.  They never decide an outcome of the unchanged code (which needs microseconds, or
// serverResponseTimeout = 10 s in the one "never answers" kind); they turn "does not end" into the
// result `hang`, which contradicts the model's termination.
const (
	verifC11Patience       = 12 * time.Second // for runTestCasesForServer to return
	verifC11ReaderPatience = 6 * time.Second  // for the stderr reader to reach the marker line
)

var (
	verifC11Hangs    int
	verifC11StartErr = errors.New("verif: scripted start error")
	verifC11SendErr  = errors.New("verif: scripted sendRequest error")
	verifC11CbErr    = errors.New("verif: scripted callback error")
	verifC11IOErr    = errors.New("verif: scripted stdin error")
)

// ---- server process ----

type verifC11Ctl struct {
	*fakeProcess
	aborts atomic.Int32
	ends   atomic.Int32
	clean  bool
}

func (c *verifC11Ctl) abort() {
	c.aborts.Add(1)
	c.fakeProcess.abort()
}

// the process ends by itself: with an error, or cleanly (exit status 0: result() is nil)
func (c *verifC11Ctl) exit() {
	if c.clean {
		c.fakeProcess.stop(nil)
		return
	}
	c.fakeProcess.stop(errors.New("verif: process exited"))
}

type verifC11Stdin struct {
	inner    io.WriteCloser
	failAt   int // index of the Write call that fails, -1: none
	closeErr bool
	writes   int
}

func (w *verifC11Stdin) Write(p []byte) (int, error) {
	i := w.writes
	w.writes++
	if i == w.failAt {
		return 0, verifC11IOErr
	}
	return w.inner.Write(p)
}

func (w *verifC11Stdin) Close() error {
	_ = w.inner.Close()
	if w.closeErr {
		return verifC11IOErr
	}
	return nil
}

type verifC11Stdout struct {
	data    []byte
	pos     int
	block   bool          // never answers
	release chan struct{} // closed when the case is over
	atEnd   func()        // runs once, when the last byte / the end has been delivered
}

func (r *verifC11Stdout) end() {
	if r.atEnd != nil {
		f := r.atEnd
		r.atEnd = nil
		f()
	}
}

func (r *verifC11Stdout) Read(p []byte) (int, error) {
	if r.pos < len(r.data) {
		n := copy(p, r.data[r.pos:])
		r.pos += n
		if r.pos == len(r.data) && !r.block {
			r.end()
		}
		return n, nil
	}
	if r.block {
		<-r.release
		return 0, io.EOF
	}
	r.end()
	return 0, io.EOF
}

type verifC11Stderr struct {
	data  []byte
	pos   int
	chunk int
}

func (r *verifC11Stderr) Read(p []byte) (int, error) {
	if r.pos >= len(r.data) {
		return 0, io.EOF
	}
	n := len(r.data) - r.pos
	if r.chunk > 0 && n > r.chunk {
		n = r.chunk
	}
	if n > len(p) {
		n = len(p)
	}
	copy(p, r.data[r.pos:r.pos+n])
	r.pos += n
	return n, nil
}

type verifC11Printer struct {
	mu      sync.Mutex
	lines   []string
	waitFor string
	seen    chan struct{}
	once    sync.Once
}

func (p *verifC11Printer) Printf(_ string, _ ...any) {}

func (p *verifC11Printer) PrefixPrintf(_, format string, args ...any) {
	s := fmt.Sprintf(format, args...)
	p.mu.Lock()
	p.lines = append(p.lines, s)
	p.mu.Unlock()
	if p.waitFor != "" && strings.TrimSpace(s) == p.waitFor {
		p.once.Do(func() { close(p.seen) })
	}
}

// ---- client runner ----

type verifC11Script struct {
	name     string
	sendOK   bool
	ans      int64
	delay    int64
	report   string
	feedback []string
}

type verifC11Pending struct {
	delay int64
	sc    verifC11Script
	cb    func(string, *conformancev1.ClientCompatResponse, error)
}

type verifC11Client struct {
	mu        sync.Mutex
	script    []verifC11Script
	calls     int
	okSends   int64
	deadAfter int64 // the server exits when this many sendRequest calls have returned; <0: never
	exit      func()
	sent      []string
	pending   []*verifC11Pending
	expected  *conformancev1.ClientResponseResult
}

func (p *verifC11Pending) invoke(expected *conformancev1.ClientResponseResult) {
	name := p.sc.report
	switch p.sc.ans {
	case 0, 1:
		res := proto.Clone(expected).(*conformancev1.ClientResponseResult) //nolint:errcheck,forcetypeassert
		if p.sc.ans == 1 {
			res.Payloads = []*conformancev1.ConformancePayload{{Data: []byte("something else")}}
		}
		res.Feedback = p.sc.feedback
		p.cb(name, &conformancev1.ClientCompatResponse{
			TestName: name,
			Result:   &conformancev1.ClientCompatResponse_Response{Response: res},
		}, nil)
	case 2:
		p.cb(name, &conformancev1.ClientCompatResponse{
			TestName: name,
			Result: &conformancev1.ClientCompatResponse_Error{
				Error: &conformancev1.ClientErrorResult{Message: "scripted client error"},
			},
		}, nil)
	case 3:
		p.cb(name, &conformancev1.ClientCompatResponse{TestName: name}, nil)
	case 4:
		p.cb(name, nil, verifC11CbErr)
	default:
		p.cb(name, nil, &failedToGetResultError{errNoOutcome})
	}
}

// callbacks run on a goroutine of their own (as the client runner's reader would), and
// the caller waits for them: the schedule stays the scripted one.
func (c *verifC11Client) fire(ps []*verifC11Pending) {
	if len(ps) == 0 {
		return
	}
	done := make(chan struct{})
	go func() {
		defer close(done)
		for _, p := range ps {
			p.invoke(c.expected)
		}
	}()
	<-done
}

func (c *verifC11Client) sendRequest(req *conformancev1.ClientCompatRequest, whenDone func(string, *conformancev1.ClientCompatResponse, error)) error {
	c.mu.Lock()
	i := c.calls
	c.calls++
	c.sent = append(c.sent, req.TestName)
	if i >= len(c.script) {
		c.mu.Unlock()
		return errors.New("verif: more sendRequest calls than cases")
	}
	sc := c.script[i]
	if !sc.sendOK {
		c.mu.Unlock()
		return verifC11SendErr
	}
	c.pending = append(c.pending, &verifC11Pending{delay: sc.delay, sc: sc, cb: whenDone})
	var due, rest []*verifC11Pending
	for _, p := range c.pending {
		if p.delay == 0 {
			due = append(due, p)
		} else {
			p.delay--
			rest = append(rest, p)
		}
	}
	c.pending = rest
	c.okSends++
	exitNow := c.deadAfter >= 0 && c.okSends == c.deadAfter
	c.mu.Unlock()
	c.fire(due)
	if exitNow {
		c.exit()
	}
	return nil
}

func (c *verifC11Client) takePending() []*verifC11Pending {
	c.mu.Lock()
	defer c.mu.Unlock()
	ps := c.pending
	c.pending = nil
	return ps
}

func (c *verifC11Client) closeSend()              {}
func (c *verifC11Client) waitForResponses() error { return nil }
func (c *verifC11Client) isRunning() bool         { return true }
func (c *verifC11Client) stop()                   {}

// ---- where is the function's goroutine? ----

func verifC11Gid() int64 {
	var buf [64]byte
	n := runtime.Stack(buf[:], false)
	f := strings.Fields(string(buf[:n]))
	if len(f) < 2 {
		return -1
	}
	id, err := strconv.ParseInt(f[1], 10, 64)
	if err != nil {
		return -1
	}
	return id
}

// true iff goroutine gid is blocked (not running / runnable) inside sync.WaitGroup.Wait
func verifC11ParkedInWait(gid int64) bool {
	buf := make([]byte, 1<<16)
	for {
		n := runtime.Stack(buf, true)
		if n < len(buf) {
			buf = buf[:n]
			break
		}
		buf = make([]byte, 2*len(buf))
	}
	hdr := []byte(fmt.Sprintf("goroutine %d [", gid))
	at := 0
	for {
		i := bytes.Index(buf[at:], hdr)
		if i < 0 {
			return false
		}
		i += at
		if i == 0 || buf[i-1] == '\n' {
			at = i
			break
		}
		at = i + 1
	}
	block := buf[at:]
	if e := bytes.Index(block, []byte("\n\n")); e >= 0 {
		block = block[:e]
	}
	state := block[len(hdr):]
	if e := bytes.IndexByte(state, ']'); e >= 0 {
		state = state[:e]
	}
	if bytes.HasPrefix(state, []byte("running")) || bytes.HasPrefix(state, []byte("runnable")) {
		return false
	}
	return bytes.Contains(block, []byte("sync.(*WaitGroup).Wait"))
}

// ---- response bytes ----

func verifC11Response(code, param int64) (data []byte, block bool) {
	enc := func(m *conformancev1.ServerCompatResponse) []byte {
		var b bytes.Buffer
		if err := internal.WriteDelimitedMessage(&b, m); err != nil {
			panic(err)
		}
		return b.Bytes()
	}
	full := enc(&conformancev1.ServerCompatResponse{Host: "127.0.0.1", Port: 12345, PemCert: []byte("-----CERT-----")})
	switch code {
	case 0:
		return full, false
	case 1:
		return enc(&conformancev1.ServerCompatResponse{Host: "127.0.0.1", Port: 12345}), false
	case 2:
		return enc(&conformancev1.ServerCompatResponse{}), false
	case 10:
		return nil, false
	case 11:
		return full[:int(param)%len(full)], false
	case 12:
		n := uint32(maxServerResponseSize + 1 + int(param%1000))
		return []byte{byte(n >> 24), byte(n >> 16), byte(n >> 8), byte(n)}, false
	case 13:
		k := 1 + int(param%16)
		return append([]byte{0, 0, 0, byte(k)}, bytes.Repeat([]byte{0xff}, k)...), false
	default:
		return nil, true
	}
}

func verifC11TrieCount(tt *testTrie, name string) int {
	node := tt
	for _, comp := range strings.Split(name, "/") {
		node = node.children[comp]
		if node == nil {
			return -1
		}
	}
	return int(node.matched.Load())
}

// (refsrv refcli tls [clean]) start wfault (resp) dead stderr chunk wait (cases)
//
//	-> ((per name: kind count sideband) returned started asked alive ends (sent) (forwarded))
func verifC11Batch(args []vsx) vsx {
	// a hang costs a watchdog period: after three of them in the main run the rest is not evaluated;
	// while shrinking, the first hanging candidate is the one that is kept and the rest is skipped
	shrinking := strings.HasPrefix(filepath.Base(os.Getenv("VERIF_CASES")), "shrink")
	if shrinking && verifC11Hangs >= 1 {
		return vL(vS("bad-case"), vS("skipped-after-a-hang"))
	}
	if verifC11Hangs >= 3 {
		return vErr("skipped-after-three-hangs")
	}
	verifC11Prefetch() // the process cases of this run take seconds each: they run meanwhile
	if len(args[0].l) < 3 || len(args[0].l) > 4 {
		return vL(vS("bad-case"))
	}
	refsrv, refcli, tls := args[0].l[0].boolean(), args[0].l[1].boolean(), args[0].l[2].boolean()
	clean := len(args[0].l) == 4 && args[0].l[3].boolean()
	startOK := args[1].boolean()
	wfault := args[2].i
	respCode, respParam := args[3].l[0].i, args[3].l[1].i
	dead := args[4].i
	stderrData := args[5].b
	chunk := int(args[6].i)
	waitFor := args[7].str()

	// ill-formed scripts (the shrinker produces them) are refused at once instead of being waited for
	bad := vL(vS("bad-case"))
	switch respCode {
	case 0, 1, 2, 10, 11, 12, 13, 14:
	default:
		return bad
	}
	if wfault < 0 || wfault > 3 || dead < -1 || chunk < 0 {
		return bad
	}
	if waitFor != "" {
		// the marker must be the last line (terminated) of a stream that somebody reads
		if !refsrv || !startOK || strings.TrimSpace(waitFor) != waitFor || strings.Contains(waitFor, ": ") ||
			!(string(stderrData) == waitFor+"\n" || strings.HasSuffix(string(stderrData), "\n"+waitFor+"\n")) {
			return bad
		}
	}
	for _, c := range args[8].l {
		if len(c.l) != 6 || c.l[2].i < 0 || c.l[2].i > 5 || c.l[3].i < 0 {
			return bad
		}
		for _, n := range []string{c.l[0].str(), c.l[4].str()} {
			for _, comp := range strings.Split(n, "/") {
				if comp == "*" || comp == "**" {
					return bad // the outcome counter stores names as literal trie patterns
				}
			}
		}
	}

	expected := &conformancev1.ClientResponseResult{
		Payloads: []*conformancev1.ConformancePayload{{Data: []byte("data")}},
	}
	var scripts []verifC11Script
	var testCases []*conformancev1.TestCase
	var interest []string
	seen := map[string]bool{}
	for _, c := range args[8].l {
		sc := verifC11Script{
			name: c.l[0].str(), sendOK: c.l[1].boolean(), ans: c.l[2].i, delay: c.l[3].i,
			report: c.l[4].str(), feedback: c.l[5].strs(),
		}
		scripts = append(scripts, sc)
		testCases = append(testCases, &conformancev1.TestCase{
			Request:          &conformancev1.ClientCompatRequest{TestName: sc.name},
			ExpectedResponse: expected,
		})
	}
	for _, sc := range scripts {
		if !seen[sc.name] {
			seen[sc.name] = true
			interest = append(interest, sc.name)
		}
	}
	for _, sc := range scripts {
		if !seen[sc.report] {
			seen[sc.report] = true
			interest = append(interest, sc.report)
		}
	}
	// every setOutcome consults the known-flaky trie: with each name stored as a literal
	// pattern, the node's hit counter is the number of times an outcome was set for it.
	counter := &testTrie{}
	for _, n := range interest {
		counter.addPattern(n)
	}
	results := newResults(len(testCases), &testTrie{}, counter, nil)

	data, block := verifC11Response(respCode, respParam)
	release := make(chan struct{})
	defer close(release)
	stdout := &verifC11Stdout{data: data, block: block, release: release}
	var stdinBuf bytes.Buffer
	base := newFakeProcess(&stdinBuf, stdout, &verifC11Stderr{data: stderrData, chunk: chunk})
	var ctl *verifC11Ctl
	var pipeStderr atomic.Int32
	starter := func(ctx context.Context, pipe bool) (*process, error) {
		if pipe {
			pipeStderr.Store(1)
		}
		if !startOK {
			return nil, verifC11StartErr
		}
		proc, err := base(ctx, pipe)
		if err != nil {
			return nil, err
		}
		fp := proc.processController.(*fakeProcess) //nolint:forcetypeassert
		ctl = &verifC11Ctl{fakeProcess: fp, clean: clean}
		fp.whenDone(func(error) { ctl.ends.Add(1) })
		proc.processController = ctl
		in := &verifC11Stdin{inner: proc.stdin, failAt: -1}
		switch wfault {
		case 1:
			in.failAt = 0
		case 2:
			in.failAt = 1
		case 3:
			in.closeErr = true
		}
		proc.stdin = in
		if dead == 0 {
			stdout.atEnd = ctl.exit
		}
		return proc, nil
	}
	client := &verifC11Client{script: scripts, deadAfter: dead, expected: expected}
	client.exit = func() {
		if ctl != nil {
			ctl.exit()
		}
	}
	errPrinter := &verifC11Printer{waitFor: waitFor, seen: make(chan struct{})}

	type snapshot struct {
		kinds  []int
		counts []int
		alive  bool
		asked  bool
		ends   int
		sent   []string
		bad    string
	}
	var snap snapshot
	takeSnapshot := func() {
		results.mu.Lock()
		for _, n := range interest {
			o, ok := results.outcomes[n]
			var noRun *couldNotRunError
			var noResult *failedToGetResultError
			kind := 3
			switch {
			case !ok:
				kind = 0
			case o.actualFailure == nil:
				kind = 1
			case !o.setupError:
				kind = 2
			case errors.As(o.actualFailure, &noRun):
				kind = 4
			case errors.As(o.actualFailure, &noResult):
				kind = 5
			case errors.Is(o.actualFailure, verifC11CbErr):
				kind = 6
			}
			snap.kinds = append(snap.kinds, kind)
			snap.counts = append(snap.counts, verifC11TrieCount(counter, n))
		}
		for n := range results.outcomes {
			if !seen[n] {
				snap.bad = "outcome-for-foreign-name"
			}
		}
		results.mu.Unlock()
		if ctl != nil {
			done, _ := ctl.tryResult()
			snap.alive = !done
			snap.asked = ctl.aborts.Load() >= 1
			snap.ends = int(ctl.ends.Load())
		}
		client.mu.Lock()
		snap.sent = append([]string(nil), client.sent...)
		client.mu.Unlock()
	}

	done := make(chan struct{})
	gidCh := make(chan int64, 1)
	go func() {
		defer close(done)
		gidCh <- verifC11Gid()
		runTestCasesForServer(
			context.Background(),
			refcli,
			refsrv,
			serverInstance{
				protocol:    conformancev1.Protocol_PROTOCOL_CONNECT,
				httpVersion: conformancev1.HTTPVersion_HTTP_VERSION_1,
				useTLS:      tls,
			},
			testCases,
			&conformancev1.TLSCreds{Cert: []byte("server cert"), Key: []byte("server key")},
			&conformancev1.TLSCreds{Cert: []byte("client cert"), Key: []byte("client key")},
			starter,
			discardPrinter{},
			errPrinter,
			results,
			client,
			nil,
			chunk%2 == 1,
		)
		takeSnapshot()
	}()
	gid := <-gidCh

	returned := false
	patience := verifC11Patience
	if shrinking {
		// candidates of a hanging case mostly hang too; the shrunk case is re-evaluated with the
		// full watchdog afterwards (label "final"), so a short one here cannot produce a false report
		patience = verifC11Patience / 4
	}
	if block {
		patience += serverResponseTimeout
	}
	deadline := time.Now().Add(patience)
	fired := false
	for spins := 0; ; spins++ {
		select {
		case <-done:
			returned = true
		default:
		}
		if returned || time.Now().After(deadline) {
			break
		}
		if !fired && verifC11ParkedInWait(gid) {
			// the function waits for the outstanding callbacks: the client runner delivers them
			client.fire(client.takePending())
			fired = true
		}
		if fired {
			select {
			case <-done:
				returned = true
			case <-time.After(time.Until(deadline)):
			}
			break
		}
		if spins < 200 {
			runtime.Gosched()
		} else {
			time.Sleep(50 * time.Microsecond) // back-off of the poll, decides nothing
		}
	}
	if !returned {
		verifC11Hangs++
		if os.Getenv("VERIF_DEBUG") != "" {
			buf := make([]byte, 1<<20)
			fmt.Fprintf(os.Stderr, "verif: runTestCasesForServer did not return; goroutines:\n%s\n", buf[:runtime.Stack(buf, true)])
		}
		// let the stuck function go, then report the hang
		client.fire(client.takePending())
		client.exit()
		return vL(vL(), vBool(false), vBool(startOK), vBool(false), vBool(false), vInt(0), vL(), vL())
	}
	if snap.bad != "" {
		return vErr(snap.bad)
	}
	if pipeStderr.Load() == 1 != refsrv {
		return vErr("stderr-pipe-flag")
	}
	if waitFor != "" {
		select {
		case <-errPrinter.seen:
		case <-time.After(verifC11ReaderPatience):
			verifC11Hangs++
			return vErr("stderr-reader-never-finished")
		}
	}
	results.mu.Lock()
	sideband := make([]vsx, len(interest))
	for i, n := range interest {
		if msg, ok := results.serverSideband[n]; ok {
			sideband[i] = vL(vS(msg))
		} else {
			sideband[i] = vL()
		}
	}
	foreign := false
	for n := range results.serverSideband {
		if !seen[n] {
			foreign = true
		}
	}
	results.mu.Unlock()
	if foreign {
		return vErr("sideband-for-foreign-name")
	}
	errPrinter.mu.Lock()
	forwarded := append([]string(nil), errPrinter.lines...)
	errPrinter.mu.Unlock()
	// callbacks the function did not wait for (they would come from the client's final drain)
	client.fire(client.takePending())

	per := make([]vsx, len(interest))
	for i := range interest {
		per[i] = vL(vInt(snap.kinds[i]), vInt(snap.counts[i]), sideband[i])
	}
	return vL(vL(per...), vBool(true), vBool(ctl != nil), vBool(snap.asked), vBool(snap.alive),
		vInt(snap.ends), vStrs(snap.sent), vStrs(forwarded))
}
