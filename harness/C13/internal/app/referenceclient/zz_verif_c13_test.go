//go:build verif

package referenceclient

import (
	"bytes"
	"context"
	"crypto/sha1"
	"encoding/base64"
	"encoding/hex"
	"encoding/json"
	"errors"
	"fmt"
	"net/http"
	"net/url"
	"os"
	"sort"
	"strconv"
	"strings"
	"testing"

	"connectrpc.com/conformance/internal"
	conformancev1 "connectrpc.com/conformance/internal/gen/proto/go/connectrpc/conformance/v1"
	"connectrpc.com/conformance/internal/grpcutil"
	"connectrpc.com/conformance/internal/tracer"
	"connectrpc.com/connect"
	"google.golang.org/genproto/googleapis/rpc/status"
	"google.golang.org/protobuf/proto"
)

func init() {
	verifKinds["c13.eos"] = verifC13Eos
	verifKinds["c13.status"] = verifC13Status
	verifKinds["c13.binmeta"] = verifC13BinMeta
	verifKinds["c13.percent"] = verifC13Percent
	verifKinds["c13.classes"] = verifC13Classes
	verifKinds["c13.webrt"] = verifC13WebRT
	verifKinds["c13.grpcrt"] = verifC13GrpcRT
	verifKinds["c13.cerr"] = verifC13Cerr
	verifKinds["c13.ces"] = verifC13Ces
	verifKinds["c13.cerrrt"] = verifC13CerrRT
	verifKinds["c13.cesrt"] = verifC13CesRT
	verifKinds["c13.wire"] = verifC13Wire
	verifKinds["c13.nocrash"] = verifC13NoCrash
	// oracles (library behaviour handed to the model as data)
	verifKinds["c13.o.json"] = verifC13OJSON
	verifKinds["c13.o.unstatus"] = verifC13OUnstatus
	verifKinds["c13.o.webstatus"] = verifC13OWebstatus
}

// ---------------------------------------------------------------------------
// recording printer: keeps format string and arguments; messages are mapped to
// a small set of class tags by stable substrings of the FORMAT string.
// ---------------------------------------------------------------------------
type verifC13Msg struct {
	format string
	args   []any
}

type verifC13Printer struct{ msgs []verifC13Msg }

func (p *verifC13Printer) Printf(msg string, args ...any) {
	p.msgs = append(p.msgs, verifC13Msg{msg, args})
}

func (p *verifC13Printer) PrefixPrintf(prefix, msg string, args ...any) {
	p.msgs = append(p.msgs, verifC13Msg{prefix + ": " + msg, args})
}

var _ internal.Printer = (*verifC13Printer)(nil)

func verifC13JSONCtx(prefix string) string {
	switch {
	case strings.HasPrefix(prefix, "connect error JSON: details["):
		return "cd"
	case strings.HasPrefix(prefix, "connect error JSON"):
		return "ce"
	case strings.HasPrefix(prefix, "connect end stream JSON"):
		return "es"
	}
	return "??"
}

func verifC13NonASCII(s string) bool {
	for i := 0; i < len(s); i++ {
		if s[i] >= 0x80 {
			return true
		}
	}
	return false
}

// "" = projected away
func verifC13Classify(m verifC13Msg, strict bool) string {
	f := m.format
	has := func(s string) bool { return strings.Contains(f, s) }
	arg0 := ""
	if len(m.args) > 0 {
		if s, ok := m.args[0].(string); ok {
			arg0 = s
		}
	}
	switch {
	// examineJSON
	case f == "%s: %v":
		ctx := verifC13JSONCtx(arg0)
		text := fmt.Sprint(m.args[1])
		switch {
		case strings.Contains(text, "contains duplicate key"):
			return ctx + "-dup"
		case strings.Contains(text, "cannot unmarshal"):
			return ctx + "-type"
		}
		return ctx + "-syntax"
	case has("expecting an object but got <nil>"):
		return verifC13JSONCtx(arg0) + "-null"
	// examineGRPCEndStream
	case has("invalid field (missing colon)"):
		return "eos-nocolon"
	case has("name contains invalid characters"):
		return "eos-name"
	case has("non-lower-case field key"):
		if verifC13NonASCII(arg0) {
			return "" // strings.ToLower is Unicode-aware; observed for ASCII keys only
		}
		return "eos-upper"
	case has("value contains invalid characters"):
		return "eos-value"
	case has("obsolete line-folding"):
		return "eos-obsfold"
	case has("ends in extra blank line"):
		return "eos-blank-end"
	case has("include blank lines"):
		return "eos-blank"
	case has("LF line ending instead of CRLF"):
		return "eos-lf"
	case has("should end with CRLF"):
		return "eos-nocrlf"
	// checkGRPCStatus
	case has("multiple 'grpc-status' keys"):
		return "st-multi"
	case has("did not include 'grpc-status'"):
		return "st-missing"
	case has("invalid 'grpc-status' value %q"):
		return "st-parse"
	case has("invalid 'grpc-status' value %d"):
		return "st-range"
	case has("multiple 'grpc-message' keys"):
		return "msg-multi"
	case has("should be hexadecimal digit"):
		return "msg-hex"
	case has("should be percent-encoded"):
		return "msg-raw"
	case has("incomplete percent-encoded"):
		return "msg-incomplete"
	case has("non-empty 'grpc-message' value with zero/okay"):
		return "msg-with-ok"
	case has("multiple 'grpc-status-details-bin' keys"):
		return "det-multi"
	case has("trailers include incorrectly-encoded 'grpc-status-details-bin'"):
		return "det-b64"
	case has("trailers include 'grpc-status-details-bin' value with padding"):
		return "det-padded"
	case has("un-parseable 'grpc-status-details-bin'"):
		return "det-proto"
	case has("disagrees with 'grpc-status' value"):
		return "det-code"
	case has("zero/okay 'grpc-status' and non-empty details"):
		return "det-okdetails"
	case has("disagrees with 'grpc-message' value"):
		return "det-msg"
	// checkBinaryMetadata
	case has("%s include incorrectly-encoded '%s' value"):
		return "bin-b64"
	case has("%s include '%s' value with padding"):
		return "bin-padded"
	// examineWireDetails
	case has("HTTP trailers but should not have any"):
		return "http-trailers"
	// examineConnectErrorDetail: comparison of debug data (protojson / registry; projected away)
	case has("could not check debug data"), has("could not unmarshal message"),
		has("debug data indicates type"), has("debug data does not match value"):
		if strict {
			return "cd-debug"
		}
		return ""
	// examineConnectErrorDetail
	case has(`%s: value for key "type" is a %T`):
		return "cd-type-kind"
	case has("is not a valid type name"):
		return "cd-type-name"
	case has(`%s: value for key "value" is a %T`):
		return "cd-value-kind"
	case has("is not valid unpadded base64"):
		return "cd-value-b64"
	case has("%s: invalid key %q"):
		return "cd-key"
	case has(`details[%d]: missing required key "type"`):
		return "cd-notype"
	case has(`details[%d]: missing required key "value"`):
		return "cd-novalue"
	// examineConnectError
	case has(`connect error JSON: value for key "code" is a %T`):
		return "ce-code-kind"
	case has("not a recognized error code name"):
		return "ce-code-name"
	case has(`connect error JSON: value for key "message" is a %T`):
		return "ce-message-kind"
	case has(`connect error JSON: value for key "details" is a %T`):
		return "ce-details-kind"
	case has("connect error JSON: invalid key"):
		return "ce-key"
	case has(`connect error JSON: missing required key "code"`):
		return "ce-nocode"
	// examineConnectEndStream
	case has(`value for key "error" is a %T`):
		return "es-error-kind"
	case has(`value for key "metadata" is a %T`):
		return "es-meta-kind"
	case has("entry key is not a valid HTTP field name"):
		return "es-meta-name"
	case has("instead of an array of strings"):
		return "es-meta-val-kind"
	case has("is a %T instead of a string"):
		return "es-meta-elem-kind"
	case has("is not a valid HTTP field value"):
		return "es-meta-value"
	case has("connect end stream JSON: invalid key"):
		return "es-key"
	}
	return "unclassified:" + f
}

// the multiset of feedback classes, sorted
func (p *verifC13Printer) tags(strict bool) vsx {
	var tags []string
	for _, m := range p.msgs {
		if t := verifC13Classify(m, strict); t != "" {
			tags = append(tags, t)
		}
	}
	sort.Strings(tags)
	return vStrs(tags)
}

func verifC13BadCase() vsx { return vL(vS("bad-case")) }

// ---------------------------------------------------------------------------
// helpers
// ---------------------------------------------------------------------------
func verifC13HeaderMap(v vsx) http.Header {
	h := http.Header{}
	for _, e := range v.l {
		vals := e.l[1].strs() // non-nil also when empty; the generator keeps names unique
		h[e.l[0].str()] = vals
	}
	return h
}

func verifC13SortedMap(h http.Header) vsx {
	keys := make([]string, 0, len(h))
	for k := range h {
		keys = append(keys, k)
	}
	sort.Strings(keys)
	out := make([]vsx, len(keys))
	for i, k := range keys {
		out[i] = vL(vS(k), vStrs(h[k]))
	}
	return vL(out...)
}

func verifC13Headers(v vsx) []*conformancev1.Header {
	out := make([]*conformancev1.Header, len(v.l))
	for i, e := range v.l {
		out[i] = &conformancev1.Header{Name: e.l[0].str(), Value: e.l[1].strs()}
	}
	return out
}

// proto.Unmarshal of google.rpc.Status as the check sees it: () or (code message len(details))
func verifC13Unstatus(data []byte) vsx {
	var st status.Status
	if err := proto.Unmarshal(data, &st); err != nil {
		return vL()
	}
	return vL(vI(int64(st.GetCode())), vS(st.GetMessage()), vInt(len(st.GetDetails())))
}

func verifC13DecodeB64(s string) ([]byte, bool) {
	data, err := base64.RawStdEncoding.DecodeString(s)
	if err != nil {
		data, err = base64.StdEncoding.DecodeString(s)
		if err != nil {
			return nil, false
		}
	}
	return data, true
}

// the oracle table the case carries must be what the library answers now
func verifC13TableOK(tbl vsx) bool {
	for _, e := range tbl.l {
		var sb1, sb2 strings.Builder
		e.l[1].print(&sb1)
		verifC13Unstatus(e.l[0].b).print(&sb2)
		if sb1.String() != sb2.String() {
			return false
		}
	}
	return true
}

// ... and it must answer for every grpc-status-details-bin value the examiner can ask about
func verifC13TableCovers(tbl vsx, hs ...http.Header) bool {
	for _, h := range hs {
		vals := h.Values("Grpc-Status-Details-Bin")
		if len(vals) == 0 {
			continue
		}
		data, ok := verifC13DecodeB64(vals[0])
		if !ok {
			continue
		}
		found := false
		for _, e := range tbl.l {
			if bytes.Equal(e.l[0].b, data) {
				found = true
			}
		}
		if !found {
			return false
		}
	}
	return true
}

// encoding/json's view of a text: the value tree with duplicate keys and key order kept
// (json.Decoder tokens), or not-ok when json.Unmarshal would report a syntax error.
func verifC13JSONTree(text []byte) (vsx, bool) {
	if !json.Valid(text) {
		return vsx{}, false
	}
	dec := json.NewDecoder(bytes.NewReader(text))
	dec.UseNumber()
	var build func() (vsx, error)
	build = func() (vsx, error) {
		tok, err := dec.Token()
		if err != nil {
			return vsx{}, err
		}
		switch t := tok.(type) {
		case nil:
			return vL(vI(0)), nil
		case bool:
			return vL(vI(1), vBool(t)), nil
		case json.Number:
			_, ferr := strconv.ParseFloat(string(t), 64)
			return vL(vI(2), vBool(ferr == nil)), nil
		case string:
			return vL(vI(3), vS(t)), nil
		case json.Delim:
			if t == '[' {
				elems := []vsx{}
				for dec.More() {
					e, err := build()
					if err != nil {
						return vsx{}, err
					}
					elems = append(elems, e)
				}
				if _, err := dec.Token(); err != nil {
					return vsx{}, err
				}
				return vL(vI(4), vL(elems...)), nil
			}
			if t == '{' {
				members := []vsx{}
				for dec.More() {
					k, err := dec.Token()
					if err != nil {
						return vsx{}, err
					}
					ks, ok := k.(string)
					if !ok {
						return vsx{}, errors.New("key is not a string")
					}
					v, err := build()
					if err != nil {
						return vsx{}, err
					}
					members = append(members, vL(vS(ks), v))
				}
				if _, err := dec.Token(); err != nil {
					return vsx{}, err
				}
				return vL(vI(5), vL(members...)), nil
			}
		}
		return vsx{}, errors.New("unexpected token")
	}
	tree, err := build()
	if err != nil {
		return vsx{}, false
	}
	return tree, true
}

func verifC13TreeOpt(text []byte) vsx {
	tree, ok := verifC13JSONTree(text)
	if !ok {
		return vL()
	}
	return vL(tree)
}

func verifC13SameSx(a, b vsx) bool {
	var sa, sb strings.Builder
	a.print(&sa)
	b.print(&sb)
	return sa.String() == sb.String()
}

// the last argument is the SHA-1 of the canonical print of the others: the encoder output a
// round-trip case carries belongs to the structured input it carries (a shrunk or edited
// case is ill-formed, not a disagreement)
func verifC13DigestOK(args []vsx) bool {
	var sb strings.Builder
	vL(args[:len(args)-1]...).print(&sb)
	sum := sha1.Sum([]byte(sb.String()))
	return hex.EncodeToString(sum[:]) == args[len(args)-1].str()
}

// ---------------------------------------------------------------------------
// oracle kinds
// ---------------------------------------------------------------------------
func verifC13OJSON(args []vsx) vsx { return verifC13TreeOpt(args[0].b) }

// b64 text -> () | (data result)
func verifC13OUnstatus(args []vsx) vsx {
	data, ok := verifC13DecodeB64(args[0].str())
	if !ok {
		return vL()
	}
	return vL(vB(data), verifC13Unstatus(data))
}

// gRPC-Web block -> () | (data result) for the grpc-status-details-bin value the real parser finds
func verifC13OWebstatus(args []vsx) vsx {
	hs := examineGRPCEndStream(args[0].str(), &verifC13Printer{})
	vals := hs.Values("Grpc-Status-Details-Bin")
	if len(vals) == 0 {
		return vL()
	}
	data, ok := verifC13DecodeB64(vals[0])
	if !ok {
		return vL()
	}
	return vL(vB(data), verifC13Unstatus(data))
}

// ---------------------------------------------------------------------------
// examiner kinds
// ---------------------------------------------------------------------------
func verifC13Eos(args []vsx) vsx {
	if !verifC13TableOK(args[1]) {
		return verifC13BadCase()
	}
	p1 := &verifC13Printer{}
	hs := examineGRPCEndStream(args[0].str(), p1)
	if !verifC13TableCovers(args[1], hs) {
		return verifC13BadCase()
	}
	p2 := &verifC13Printer{}
	snapshot := verifC13SortedMap(hs)
	checkGRPCStatus(hs, p2)
	return vL(p1.tags(false), snapshot, p2.tags(false))
}

func verifC13Status(args []vsx) vsx {
	if !verifC13TableOK(args[1]) {
		return verifC13BadCase()
	}
	if !verifC13TableCovers(args[1], verifC13HeaderMap(args[0])) {
		return verifC13BadCase()
	}
	p := &verifC13Printer{}
	checkGRPCStatus(verifC13HeaderMap(args[0]), p)
	return p.tags(false)
}

func verifC13BinMeta(args []vsx) vsx {
	p := &verifC13Printer{}
	checkBinaryMetadata("headers", verifC13Headers(args[0]), p)
	return p.tags(false)
}

// message -> (PercentEncodeMessage(m), scanner feedback on it, url.PathUnescape of it)
func verifC13Percent(args []vsx) vsx {
	enc := grpcutil.PercentEncodeMessage(args[0].str())
	p := &verifC13Printer{}
	checkGRPCStatus(http.Header{"Grpc-Status": {"2"}, "Grpc-Message": {enc}}, p)
	dec := vL()
	if d, err := url.PathUnescape(enc); err == nil {
		dec = vL(vS(d))
	}
	return vL(vS(enc), p.tags(false), dec)
}

func verifC13Classes(args []vsx) vsx {
	c := byte(args[0].i)
	s := string([]byte{c})
	return vL(vBool(grpcutil.ShouldEscapeByteInMessage(c)), vBool(isValidHTTPFieldName(s)), vBool(isValidHTTPFieldValue(s)))
}

// code msg details trailers marshal-oracle table block(from the real encoder) -> (block, feedback, feedback)
func verifC13WebRT(args []vsx) vsx {
	if len(args) != 8 || !verifC13DigestOK(args) || !verifC13TableOK(args[5]) {
		return verifC13BadCase()
	}
	block := args[6].str()
	p1 := &verifC13Printer{}
	hs := examineGRPCEndStream(block, p1)
	p2 := &verifC13Printer{}
	checkGRPCStatus(hs, p2)
	return vL(vS(block), p1.tags(false), p2.tags(false))
}

// code msg details marshal-oracle table status-trailers(from the real encoder) -> (map, feedback)
func verifC13GrpcRT(args []vsx) vsx {
	if len(args) != 7 || !verifC13DigestOK(args) || !verifC13TableOK(args[4]) {
		return verifC13BadCase()
	}
	h := http.Header{}
	for _, e := range args[5].l {
		for _, v := range e.l[1].strs() {
			h.Add(e.l[0].str(), v) // what the reference server does with raw trailers
		}
	}
	p := &verifC13Printer{}
	snapshot := verifC13SortedMap(h)
	checkGRPCStatus(h, p)
	return vL(snapshot, p.tags(false))
}

func verifC13Cerr(args []vsx) vsx {
	if !verifC13SameSx(verifC13TreeOpt(args[0].b), args[1]) {
		return verifC13BadCase()
	}
	p := &verifC13Printer{}
	examineConnectError(args[0].b, p)
	return p.tags(args[2].boolean())
}

func verifC13Ces(args []vsx) vsx {
	if !verifC13SameSx(verifC13TreeOpt(args[0].b), args[1]) {
		return verifC13BadCase()
	}
	p := &verifC13Printer{}
	examineConnectEndStream(args[0].b, p)
	return p.tags(args[2].boolean())
}

// code msg details text(the reference server's real unary error body) digest -> (tree, feedback incl. debug-data complaints)
func verifC13CerrRT(args []vsx) vsx {
	if len(args) != 5 || !verifC13DigestOK(args) {
		return verifC13BadCase()
	}
	tree, ok := verifC13JSONTree(args[3].b)
	if !ok {
		return vErr("rendering-is-not-json")
	}
	p := &verifC13Printer{}
	examineConnectError(args[3].b, p)
	return vL(tree, p.tags(true))
}

// has-error code msg details trailers text(the reference server's real end-of-stream message) digest -> (tree, feedback)
func verifC13CesRT(args []vsx) vsx {
	if len(args) != 7 || !verifC13DigestOK(args) {
		return verifC13BadCase()
	}
	tree, ok := verifC13JSONTree(args[5].b)
	if !ok {
		return vErr("rendering-is-not-json")
	}
	p := &verifC13Printer{}
	examineConnectEndStream(args[5].b, p)
	return vL(tree, p.tags(true))
}

// ctype status body body-tree eos(opt) eos-tree headers trailers hasData err table
func verifC13Wire(args []vsx) vsx {
	ct, statusCode, body := args[0].str(), int(args[1].i), args[2].b
	if !verifC13SameSx(verifC13TreeOpt(body), args[3]) {
		return verifC13BadCase()
	}
	var events []tracer.Event
	if args[8].boolean() {
		events = append(events, &tracer.ResponseBodyData{})
	}
	if len(args[4].l) == 1 {
		eos := args[4].l[0].b
		if !verifC13SameSx(verifC13TreeOpt(eos), args[5]) {
			return verifC13BadCase()
		}
		events = append(events, &tracer.ResponseBodyEndStream{Content: string(eos)})
	} else if len(args[5].l) != 0 {
		return verifC13BadCase()
	}
	if !verifC13TableOK(args[10]) {
		return verifC13BadCase()
	}
	hdr := verifC13HeaderMap(args[6])
	covered := []http.Header{hdr, verifC13HeaderMap(args[7])}
	if len(args[4].l) == 1 {
		covered = append(covered, examineGRPCEndStream(args[4].l[0].str(), &verifC13Printer{}))
	}
	if !verifC13TableCovers(args[10], covered...) {
		return verifC13BadCase()
	}
	hdr["Content-Type"] = []string{ct}
	resp := &http.Response{StatusCode: statusCode, Header: hdr, Trailer: verifC13HeaderMap(args[7])}
	var terr error
	if args[9].boolean() {
		terr = errors.New("verif: transport error")
	}
	ctx := withWireCapture(context.Background())
	wrapper, _ := ctx.Value(wireCtxKey{}).(*wireWrapper)
	wrapper.buf.Write(body)
	setWireTrace(ctx, tracer.Trace{Response: resp, Err: terr, Events: events})
	p := &verifC13Printer{}
	gotStatus, ok := examineWireDetails(ctx, p)
	if !ok || gotStatus != statusCode {
		return vErr("examineWireDetails-did-not-run")
	}
	return p.tags(false)
}

// arbitrary bytes through every examiner; a panic becomes (crash) in verifEvalOne
func verifC13NoCrash(args []vsx) vsx {
	b := args[0].b
	s := string(b)
	p := &verifC13Printer{}
	hs := examineGRPCEndStream(s, p)
	checkGRPCStatus(hs, p)
	checkGRPCStatus(http.Header{"Grpc-Status": {s}, "Grpc-Message": {s}, "Grpc-Status-Details-Bin": {s}}, p)
	checkGRPCStatus(http.Header{"Grpc-Status": {"0"}, "Grpc-Message": {s, s}, "Grpc-Status-Details-Bin": {base64.RawStdEncoding.EncodeToString(b)}}, p)
	checkBinaryMetadata(s, []*conformancev1.Header{{Name: s, Value: []string{s}}, {Name: s + "-bin", Value: []string{s, s}}}, p)
	examineConnectError(b, p)
	examineConnectErrorDetail(0, b, p)
	examineConnectEndStream(b, p)
	wrapped := append(append([]byte(`{"code":"unknown","details":[`), b...), []byte(`]}`)...)
	examineConnectError(wrapped, p)
	examineConnectEndStream(append(append([]byte(`{"error":`), b...), '}'), p)
	_ = grpcutil.PercentEncodeMessage(s)
	_ = isValidHTTPFieldName(s)
	_ = isValidHTTPFieldValue(s)
	return vS("ok")
}

// ---------------------------------------------------------------------------
// constants the model is checked against: the code names the examiner recognises and the
// Any type-URL prefix the encoder uses
// ---------------------------------------------------------------------------
func verifC13Bytes(s string) string {
	parts := make([]string, len(s))
	for i := 0; i < len(s); i++ {
		parts[i] = strconv.Itoa(int(s[i]))
	}
	if len(parts) == 0 {
		return "[]"
	}
	return "[" + strings.Join(parts, "; ") + "]%N"
}

func TestVerifConsts(t *testing.T) {
	out := os.Getenv("VERIF_OUT")
	if out == "" {
		t.Skip("VERIF_OUT not set")
	}
	var sb strings.Builder
	// the names of the 16 error codes as the linked connect-go prints them (what the examiner's loop
	// compares against).  They are NOT probed through the examiner: which strings the examiner accepts
	// is the differential run's business (a wider or narrower examiner must disagree with the model on
	// a concrete input, not merely change a constant).
	var names []string
	for code := connect.Code(1); code <= 16; code++ {
		names = append(names, verifC13Bytes(code.String()))
	}
	sb.WriteString("Definition c13_code_names : list (list N) := [" + strings.Join(names, "; ") + "].\n")
	sb.WriteString("Definition c13_any_prefix : list N := " + verifC13Bytes(internal.DefaultAnyResolverPrefix) + ".\n")
	if err := os.WriteFile(out, []byte(sb.String()), 0o644); err != nil {
		t.Fatal(err)
	}
}
