//go:build verif

package referenceclient

// c13.invoke: the glue between a server's on-the-wire response and the examiners.  The REAL invoke()
// (client.go: transport set-up, newWireCaptureTransport, the real TracingRoundTripper and dataTracer,
// connect-go, the call sites in impl.go: doUnary / serverStream / clientStream / bidiStream,
// invoker.examineWireDetails) runs against a scripted HTTP server (HTTP/1.1 and h2c on one listener)
// that writes exactly the status, headers, body and HTTP trailers the case describes.  Observables: the
// http_status_code and the feedback field of the ClientResponseResult (feedback classified from the
// rendered text), and - when the case names one - the error code the client reported.

import (
	"context"
	"io"
	"net"
	"net/http"
	"net/http/httptest"
	"sort"
	"strconv"
	"strings"
	"sync"
	"sync/atomic"
	"time"

	conformancev1 "connectrpc.com/conformance/internal/gen/proto/go/connectrpc/conformance/v1"
	"golang.org/x/net/http2"
	"golang.org/x/net/http2/h2c"
	"google.golang.org/protobuf/proto"
	"google.golang.org/protobuf/types/known/anypb"
)

func init() {
	verifKinds["c13.invoke"] = verifC13Invoke
}

type verifC13Script struct {
	status   int
	ctype    string
	headers  []vsx // (name (values))
	body     []byte
	trailers []vsx
}

var (
	verifC13SrvOnce sync.Once
	verifC13Srv     *httptest.Server
	verifC13Cur     atomic.Pointer[verifC13Script]
	verifC13Host    string
	verifC13Port    uint32
)

func verifC13Server() {
	verifC13SrvOnce.Do(func() {
		handler := http.HandlerFunc(func(respWriter http.ResponseWriter, req *http.Request) {
			_, _ = io.Copy(io.Discard, req.Body)
			script := verifC13Cur.Load()
			hdr := respWriter.Header()
			if script.ctype != "" {
				hdr["Content-Type"] = []string{script.ctype}
			}
			for _, e := range script.headers {
				hdr[e.l[0].str()] = e.l[1].strs()
			}
			if req.ProtoMajor == 1 {
				hdr.Set("Connection", "close")
			}
			respWriter.WriteHeader(script.status)
			if len(script.body) > 0 {
				_, _ = respWriter.Write(script.body)
			}
			if len(script.trailers) > 0 {
				if fl, ok := respWriter.(http.Flusher); ok {
					fl.Flush()
				}
				for _, e := range script.trailers {
					hdr[http.TrailerPrefix+e.l[0].str()] = e.l[1].strs()
				}
			}
		})
		verifC13Srv = httptest.NewServer(h2c.NewHandler(handler, &http2.Server{}))
		host, portStr, _ := net.SplitHostPort(strings.TrimPrefix(verifC13Srv.URL, "http://"))
		port, _ := strconv.Atoi(portStr)
		verifC13Host, verifC13Port = host, uint32(port)
	})
}

// the first end-stream content the tracer would report for a body of complete envelopes
func verifC13FirstEOS(parts []vsx) ([]byte, bool) {
	for _, p := range parts {
		if p.l[0].i == 1 && p.l[1].i&0x82 != 0 && len(p.l[2].b) > 0 {
			return p.l[2].b, true
		}
	}
	return nil, false
}

// refmode proto method status ctype headers parts trailers ended body-tree eos-tree table digest
func verifC13Invoke(args []vsx) vsx {
	if len(args) != 13 || !verifC13DigestOK(args) || !verifC13TableOK(args[11]) {
		return verifC13BadCase()
	}
	refMode, protoSel, method := args[0].boolean(), int(args[1].i), int(args[2].i)
	script := &verifC13Script{status: int(args[3].i), ctype: args[4].str(), headers: args[5].l, trailers: args[7].l}
	var raw []byte
	for _, p := range args[6].l {
		switch {
		case len(p.l) == 2 && p.l[0].i == 0:
			raw = append(raw, p.l[1].b...)
			script.body = append(script.body, p.l[1].b...)
		case len(p.l) == 3 && p.l[0].i == 1 && p.l[1].i >= 0 && p.l[1].i < 256:
			payload := p.l[2].b
			script.body = append(script.body, byte(p.l[1].i), byte(len(payload)>>24), byte(len(payload)>>16), byte(len(payload)>>8), byte(len(payload)))
			script.body = append(script.body, payload...)
		default:
			return verifC13BadCase()
		}
	}
	// the oracle answers the case carries must be what the libraries answer now
	if !verifC13SameSx(verifC13TreeOpt(raw), args[9]) {
		return verifC13BadCase()
	}
	covered := []http.Header{verifC13HeaderMap(args[5]), verifC13HeaderMap(args[7])}
	if eos, ok := verifC13FirstEOS(args[6].l); ok {
		if !verifC13SameSx(verifC13TreeOpt(eos), args[10]) {
			return verifC13BadCase()
		}
		covered = append(covered, examineGRPCEndStream(string(eos), &verifC13Printer{}))
	} else if len(args[10].l) != 0 {
		return verifC13BadCase()
	}
	if !verifC13TableCovers(args[11], covered...) {
		return verifC13BadCase()
	}

	verifC13Server()
	verifC13Cur.Store(script)
	defer verifC13Srv.CloseClientConnections()

	req := &conformancev1.ClientCompatRequest{
		TestName:    "verif/c13.invoke",
		Codec:       conformancev1.Codec_CODEC_PROTO,
		Compression: conformancev1.Compression_COMPRESSION_IDENTITY,
		Host:        verifC13Host,
		Port:        verifC13Port,
		Service:     proto.String("connectrpc.conformance.v1.ConformanceService"),
		RequestHeaders: []*conformancev1.Header{
			{Name: "x-test-case-name", Value: []string{"verif/c13.invoke"}},
		},
	}
	switch protoSel {
	case 0:
		req.Protocol, req.HttpVersion = conformancev1.Protocol_PROTOCOL_CONNECT, conformancev1.HTTPVersion_HTTP_VERSION_1
	case 1:
		req.Protocol, req.HttpVersion = conformancev1.Protocol_PROTOCOL_GRPC, conformancev1.HTTPVersion_HTTP_VERSION_2
	case 2:
		req.Protocol, req.HttpVersion = conformancev1.Protocol_PROTOCOL_GRPC_WEB, conformancev1.HTTPVersion_HTTP_VERSION_1
	case 3:
		req.Protocol, req.HttpVersion = conformancev1.Protocol_PROTOCOL_CONNECT, conformancev1.HTTPVersion_HTTP_VERSION_2
	case 4:
		req.Protocol, req.HttpVersion = conformancev1.Protocol_PROTOCOL_GRPC_WEB, conformancev1.HTTPVersion_HTTP_VERSION_2
	default:
		return verifC13BadCase()
	}
	var msg proto.Message
	switch method {
	case 0:
		req.Method, req.StreamType, msg = proto.String("Unary"), conformancev1.StreamType_STREAM_TYPE_UNARY, &conformancev1.UnaryRequest{}
	case 1:
		req.Method, req.StreamType, msg = proto.String("ServerStream"), conformancev1.StreamType_STREAM_TYPE_SERVER_STREAM, &conformancev1.ServerStreamRequest{}
	case 2:
		req.Method, req.StreamType, msg = proto.String("Unimplemented"), conformancev1.StreamType_STREAM_TYPE_UNARY, &conformancev1.UnimplementedRequest{}
	case 3:
		req.Method, req.StreamType, msg = proto.String("ClientStream"), conformancev1.StreamType_STREAM_TYPE_CLIENT_STREAM, &conformancev1.ClientStreamRequest{}
	case 4:
		req.Method, req.StreamType, msg = proto.String("IdempotentUnary"), conformancev1.StreamType_STREAM_TYPE_UNARY, &conformancev1.IdempotentUnaryRequest{}
	case 5:
		req.Method, req.StreamType, msg = proto.String("BidiStream"), conformancev1.StreamType_STREAM_TYPE_HALF_DUPLEX_BIDI_STREAM, &conformancev1.BidiStreamRequest{}
	default:
		return verifC13BadCase()
	}
	reqMsg, err := anypb.New(msg)
	if err != nil {
		return vErr("anypb")
	}
	req.RequestMessages = []*anypb.Any{reqMsg}

	ctx, cancel := context.WithTimeout(context.Background(), 20*time.Second)
	defer cancel()
	result, err := invoke(ctx, req, refMode, nil)
	if err != nil {
		return vErr("invoke-failed")
	}
	status := int64(-1)
	if result.HttpStatusCode != nil {
		status = int64(*result.HttpStatusCode)
	}
	ended := args[8].i
	if ended >= 0 {
		ended = 0
		if result.Error != nil {
			ended = int64(result.Error.Code)
		}
	}
	var tags []string
	for _, line := range result.Feedback {
		if t := verifC13ClassifyText(line); t != "" {
			tags = append(tags, t)
		}
	}
	sort.Strings(tags)
	return vL(vI(status), vI(ended), vStrs(tags))
}

// The feedback field holds rendered messages: class by the fixed text of each Printf site
// ("" = projected away: debug-data comparison, checkBinaryMetadata, non-ASCII upper-case keys).
func verifC13ClassifyText(line string) string {
	s := strings.TrimSuffix(line, "\n")
	pre := func(x string) bool { return strings.HasPrefix(s, x) }
	suf := func(x string) bool { return strings.HasSuffix(s, x) }
	jsonClass := func(ctx, rest string) string {
		has := func(x string) bool { return strings.Contains(rest, x) }
		switch {
		case strings.HasPrefix(rest, "expecting an object but got <nil>"):
			return ctx + "-null"
		case ctx == "cd" && strings.HasPrefix(rest, `value for key "type" is a `):
			return "cd-type-kind"
		case ctx == "cd" && strings.HasPrefix(rest, `value for key "type", `) && has("is not a valid type name"):
			return "cd-type-name"
		case ctx == "cd" && strings.HasPrefix(rest, `value for key "value" is a `):
			return "cd-value-kind"
		case ctx == "cd" && strings.HasPrefix(rest, `value for key "value", `) && has("is not valid unpadded base64-encoding"):
			return "cd-value-b64"
		case ctx == "cd" && rest == `missing required key "type"`:
			return "cd-notype"
		case ctx == "cd" && rest == `missing required key "value"`:
			return "cd-novalue"
		case ctx == "cd" && (strings.HasPrefix(rest, "could not check debug data") || strings.HasPrefix(rest, "could not unmarshal message") ||
			strings.HasPrefix(rest, "debug data indicates type") || strings.HasPrefix(rest, "debug data does not match value")):
			return ""
		case ctx == "ce" && strings.HasPrefix(rest, `value for key "code" is a `):
			return "ce-code-kind"
		case ctx == "ce" && strings.HasPrefix(rest, `value for key "code" is not a recognized error code name`):
			return "ce-code-name"
		case ctx == "ce" && strings.HasPrefix(rest, `value for key "message" is a `):
			return "ce-message-kind"
		case ctx == "ce" && strings.HasPrefix(rest, `value for key "details" is a `):
			return "ce-details-kind"
		case ctx == "ce" && rest == `missing required key "code"`:
			return "ce-nocode"
		case ctx == "es" && strings.HasPrefix(rest, `value for key "error" is a `):
			return "es-error-kind"
		case ctx == "es" && strings.HasPrefix(rest, `value for key "metadata" is a `):
			return "es-meta-kind"
		case ctx == "es" && strings.HasPrefix(rest, "metadata[") && has("entry key is not a valid HTTP field name"):
			return "es-meta-name"
		case ctx == "es" && strings.HasPrefix(rest, "metadata[") && has("instead of an array of strings"):
			return "es-meta-val-kind"
		case ctx == "es" && strings.HasPrefix(rest, "metadata[") && has("instead of a string"):
			return "es-meta-elem-kind"
		case ctx == "es" && strings.HasPrefix(rest, "metadata[") && has("is not a valid HTTP field value"):
			return "es-meta-value"
		case strings.HasPrefix(rest, "invalid key "):
			return ctx + "-key"
		case has("contains duplicate key"):
			return ctx + "-dup"
		case has("cannot unmarshal"):
			return ctx + "-type"
		}
		return ctx + "-syntax"
	}
	switch {
	case pre("unable to examine wire details"):
		return "unable"
	// checkNoDuplicateKeys runs over the whole document first (every depth), under the top-level prefix;
	// its message names the path ("details[0].type: contains duplicate key ...")
	case pre("connect error JSON: ") && strings.Contains(s, "contains duplicate key "):
		return "ce-dup"
	case pre("connect end stream JSON: ") && strings.Contains(s, "contains duplicate key "):
		return "es-dup"
	case pre("response included ") && suf(" HTTP trailers but should not have any"):
		return "http-trailers"
	case pre("grpc-web trailers "):
		rest := s[len("grpc-web trailers "):]
		switch {
		case strings.HasPrefix(rest, "include invalid field (missing colon)"):
			return "eos-nocolon"
		case strings.HasPrefix(rest, "include invalid field; name contains invalid characters"):
			return "eos-name"
		case strings.HasPrefix(rest, "include non-lower-case field key: "):
			key, err := strconv.Unquote(rest[len("include non-lower-case field key: "):])
			if err != nil || verifC13NonASCII(key) {
				return "" // strings.ToLower is Unicode-aware; observed for ASCII keys only
			}
			return "eos-upper"
		case strings.HasPrefix(rest, "include invalid field; value contains invalid characters"):
			return "eos-value"
		case rest == "use obsolete line-folding":
			return "eos-obsfold"
		case rest == "ends in extra blank line":
			return "eos-blank-end"
		case rest == "include blank lines":
			return "eos-blank"
		case rest == "have lines with LF line ending instead of CRLF":
			return "eos-lf"
		case rest == "should end with CRLF but does not":
			return "eos-nocrlf"
		}
	case pre("trailers include multiple 'grpc-status' keys ("):
		return "st-multi"
	case s == "trailers did not include 'grpc-status' key":
		return "st-missing"
	case pre("trailers include invalid 'grpc-status' value "):
		if strings.HasPrefix(s[len("trailers include invalid 'grpc-status' value "):], `"`) {
			return "st-parse"
		}
		return "st-range"
	case pre("trailers include multiple 'grpc-message' keys ("):
		return "msg-multi"
	case pre("trailers include incorrectly-encoded 'grpc-message' value "):
		switch {
		case suf(") should be hexadecimal digit"):
			return "msg-hex"
		case suf(") should be percent-encoded"):
			return "msg-raw"
		case suf(": incomplete percent-encoded character at the end"):
			return "msg-incomplete"
		}
	case s == "trailers include a non-empty 'grpc-message' value with zero/okay 'grpc-status'":
		return "msg-with-ok"
	case pre("trailers include multiple 'grpc-status-details-bin' keys ("):
		return "det-multi"
	case pre("trailers include incorrectly-encoded 'grpc-status-details-bin' value: "),
		pre("trailers include 'grpc-status-details-bin' value with padding but servers should emit unpadded: "):
		// the same text comes from checkBinaryMetadata("trailers", ...): the generator keeps these out
		return "b64-ambiguous"
	case pre("trailers include un-parseable 'grpc-status-details-bin' value: "):
		return "det-proto"
	case pre("trailers include 'grpc-status-details-bin' value that disagrees with 'grpc-status' value: "):
		return "det-code"
	case s == "trailers include 'grpc-status-details-bin' value with zero/okay 'grpc-status' and non-empty details":
		return "det-okdetails"
	case pre("trailers include 'grpc-status-details-bin' value that disagrees with 'grpc-message' value: "):
		return "det-msg"
	case pre("headers include "), pre("trailers include "), pre("metadata include "):
		if strings.Contains(s, " include incorrectly-encoded '") || strings.Contains(s, "' value with padding but servers should emit unpadded: ") {
			return "" // checkBinaryMetadata on what connect-go decoded: projected away here (c13.binmeta)
		}
	case pre("connect error JSON: details["):
		rest := s[len("connect error JSON: details["):]
		if i := strings.Index(rest, "]: "); i >= 0 {
			return jsonClass("cd", rest[i+3:])
		}
	case pre("connect error JSON: "):
		return jsonClass("ce", s[len("connect error JSON: "):])
	case pre("connect end stream JSON: "):
		return jsonClass("es", s[len("connect end stream JSON: "):])
	}
	if len(s) > 120 {
		s = s[:120]
	}
	return "unclassified:" + s
}
