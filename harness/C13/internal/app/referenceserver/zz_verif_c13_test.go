//go:build verif

package referenceserver

import (
	"encoding/base64"
	"errors"
	"strings"

	conformancev1 "connectrpc.com/conformance/internal/gen/proto/go/connectrpc/conformance/v1"
	"connectrpc.com/connect"
	"google.golang.org/genproto/googleapis/rpc/status"
	"google.golang.org/protobuf/proto"
	"google.golang.org/protobuf/types/known/anypb"
)

func init() {
	verifKinds["c13.enc"] = verifC13Enc
	verifKinds["c13.o.render"] = verifC13ORender
}

// a *connect.Error with the given code, message bytes and details (type name, value bytes)
func verifC13Error(code int64, msg string, details vsx) (*connect.Error, bool) {
	cerr := connect.NewError(connect.Code(uint32(code)), errors.New(msg))
	for _, d := range details.l {
		det, err := connect.NewErrorDetail(&anypb.Any{TypeUrl: "type.googleapis.com/" + d.l[0].str(), Value: d.l[1].b})
		if err != nil {
			return nil, false
		}
		if det.Type() != d.l[0].str() {
			return nil, false // the type name does not survive connect.NewErrorDetail (contains '/')
		}
		cerr.AddDetail(det)
	}
	return cerr, true
}

func verifC13Headers(v vsx) []*conformancev1.Header {
	out := make([]*conformancev1.Header, len(v.l))
	for i, e := range v.l {
		out[i] = &conformancev1.Header{Name: e.l[0].str(), Value: e.l[1].strs()}
	}
	return out
}

func verifC13HeadersSx(hs []*conformancev1.Header) vsx {
	out := make([]vsx, len(hs))
	for i, h := range hs {
		out[i] = vL(vS(h.GetName()), vStrs(h.GetValue()))
	}
	return vL(out...)
}

// what proto.Marshal produced inside grpcStatusTrailers, read back from its output:
// () when no grpc-status-details-bin trailer was emitted, (data) otherwise
func verifC13MarshalOracle(st []*conformancev1.Header) (vsx, []byte) {
	for _, h := range st {
		if h.GetName() == "grpc-status-details-bin" && len(h.GetValue()) == 1 {
			if data, err := base64.RawStdEncoding.DecodeString(h.GetValue()[0]); err == nil {
				return vL(vB(data)), data
			}
		}
	}
	return vL(), nil
}

// code msg details trailers marshal-oracle -> (grpcStatusTrailers, grpcWebStatusEndStream)
func verifC13Enc(args []vsx) vsx {
	cerr, ok := verifC13Error(args[0].i, args[1].str(), args[2])
	if !ok {
		return vL(vS("bad-case"))
	}
	st := grpcStatusTrailers(cerr)
	mo, _ := verifC13MarshalOracle(st)
	var sa, sb strings.Builder
	mo.print(&sa)
	args[4].print(&sb)
	if sa.String() != sb.String() {
		return vL(vS("bad-case"))
	}
	block := grpcWebStatusEndStream(cerr, verifC13Headers(args[3]))
	return vL(verifC13HeadersSx(st), vS(block))
}

// oracle: code msg details trailers -> (marshal-oracle, status trailers, block, unmarshal table) | ()
func verifC13ORender(args []vsx) vsx {
	cerr, ok := verifC13Error(args[0].i, args[1].str(), args[2])
	if !ok {
		return vL()
	}
	st := grpcStatusTrailers(cerr)
	mo, data := verifC13MarshalOracle(st)
	tbl := vL()
	if data != nil {
		res := vL()
		var sp status.Status
		if err := proto.Unmarshal(data, &sp); err == nil {
			res = vL(vI(int64(sp.GetCode())), vS(sp.GetMessage()), vInt(len(sp.GetDetails())))
		}
		tbl = vL(vL(vB(data), res))
	}
	block := grpcWebStatusEndStream(cerr, verifC13Headers(args[3]))
	return vL(mo, verifC13HeadersSx(st), vS(block), tbl)
}
