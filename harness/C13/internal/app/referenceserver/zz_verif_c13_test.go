//go:build verif

package referenceserver

import (
	"bytes"
	"encoding/base64"
	"encoding/binary"
	"errors"
	"net/http"
	"net/http/httptest"
	"strings"
	"sync"
	"unicode/utf8"

	"connectrpc.com/conformance/internal"
	conformancev1 "connectrpc.com/conformance/internal/gen/proto/go/connectrpc/conformance/v1"
	"connectrpc.com/conformance/internal/gen/proto/go/connectrpc/conformance/v1/conformancev1connect"
	"connectrpc.com/connect"
	"google.golang.org/genproto/googleapis/rpc/status"
	"google.golang.org/protobuf/proto"
	"google.golang.org/protobuf/types/known/anypb"
)

func init() {
	verifKinds["c13.enc"] = verifC13Enc
	verifKinds["c13.o.render"] = verifC13ORender
	verifKinds["c13.o.cerrrender"] = verifC13OCerrRender
	verifKinds["c13.o.cesrender"] = verifC13OCesRender
}

// a *connect.Error with the given code, message bytes and details (type name, value bytes)
func verifC13Error(code int64, msg string, details vsx) (*connect.Error, bool) {
	cerr := connect.NewError(connect.Code(uint32(code)), errors.New(msg))
	for _, d := range details.l {
		det, err := connect.NewErrorDetail(&anypb.Any{TypeUrl: "type.googleapis.com/" + d.l[0].str(), Value: d.l[1].b})
		if err != nil {
			return nil, false
		}
		if det.Type() != d.l[0].str() {
			return nil, false // the type name does not survive connect.NewErrorDetail (contains '/')
		}
		cerr.AddDetail(det)
	}
	return cerr, true
}

func verifC13Headers(v vsx) []*conformancev1.Header {
	out := make([]*conformancev1.Header, len(v.l))
	for i, e := range v.l {
		out[i] = &conformancev1.Header{Name: e.l[0].str(), Value: e.l[1].strs()}
	}
	return out
}

func verifC13HeadersSx(hs []*conformancev1.Header) vsx {
	out := make([]vsx, len(hs))
	for i, h := range hs {
		out[i] = vL(vS(h.GetName()), vStrs(h.GetValue()))
	}
	return vL(out...)
}

// what proto.Marshal produced inside grpcStatusTrailers, read back from its output:
// () when no grpc-status-details-bin trailer was emitted, (data) otherwise
func verifC13MarshalOracle(st []*conformancev1.Header) (vsx, []byte) {
	for _, h := range st {
		if h.GetName() == "grpc-status-details-bin" && len(h.GetValue()) == 1 {
			if data, err := base64.RawStdEncoding.DecodeString(h.GetValue()[0]); err == nil {
				return vL(vB(data)), data
			}
		}
	}
	return vL(), nil
}

// code msg details trailers marshal-oracle -> (grpcStatusTrailers, grpcWebStatusEndStream)
func verifC13Enc(args []vsx) vsx {
	cerr, ok := verifC13Error(args[0].i, args[1].str(), args[2])
	if !ok {
		return vL(vS("bad-case"))
	}
	st := grpcStatusTrailers(cerr)
	mo, _ := verifC13MarshalOracle(st)
	var sa, sb strings.Builder
	mo.print(&sa)
	args[4].print(&sb)
	if sa.String() != sb.String() {
		return vL(vS("bad-case"))
	}
	block := grpcWebStatusEndStream(cerr, verifC13Headers(args[3]))
	return vL(verifC13HeadersSx(st), vS(block))
}

// oracle: code msg details trailers -> (marshal-oracle, status trailers, block, unmarshal table) | ()
func verifC13ORender(args []vsx) vsx {
	cerr, ok := verifC13Error(args[0].i, args[1].str(), args[2])
	if !ok {
		return vL()
	}
	st := grpcStatusTrailers(cerr)
	mo, data := verifC13MarshalOracle(st)
	tbl := vL()
	if data != nil {
		res := vL()
		var sp status.Status
		if err := proto.Unmarshal(data, &sp); err == nil {
			res = vL(vI(int64(sp.GetCode())), vS(sp.GetMessage()), vInt(len(sp.GetDetails())))
		}
		tbl = vL(vL(vB(data), res))
	}
	block := grpcWebStatusEndStream(cerr, verifC13Headers(args[3]))
	return vL(mo, verifC13HeadersSx(st), vS(block), tbl)
}

// ---------------------------------------------------------------------------
// the Connect protocol: what the reference server (its handlers + connect-go) puts on the wire
// for an error.  The real conformanceServer behind the real connect handler, driven in-process.
// ---------------------------------------------------------------------------
var (
	verifC13HandlerOnce sync.Once
	verifC13Handler     http.Handler
)

func verifC13Server() http.Handler {
	verifC13HandlerOnce.Do(func() {
		mux := http.NewServeMux()
		mux.Handle(conformancev1connect.NewConformanceServiceHandler(
			&conformanceServer{referenceMode: false},
			connect.WithCodec(internal.StrictJSONCodec{}),
			connect.WithInterceptors(serverNameHandlerInterceptor{}),
		))
		verifC13Handler = mux
	})
	return verifC13Handler
}

func verifC13ProtoError(code int64, msg string, details vsx) (*conformancev1.Error, bool) {
	if !utf8.ValidString(msg) {
		return nil, false // a proto3 string: cannot reach the server
	}
	perr := &conformancev1.Error{Code: conformancev1.Code(int32(code)), Message: &msg}
	for _, d := range details.l {
		if strings.Contains(d.l[0].str(), "/") || !utf8.ValidString(d.l[0].str()) {
			return nil, false
		}
		perr.Details = append(perr.Details, &anypb.Any{TypeUrl: "type.googleapis.com/" + d.l[0].str(), Value: d.l[1].b})
	}
	return perr, true
}

// oracle: code msg details -> (text of the unary Connect error body) | ()
func verifC13OCerrRender(args []vsx) vsx {
	perr, ok := verifC13ProtoError(args[0].i, args[1].str(), args[2])
	if !ok {
		return vL()
	}
	body, err := proto.Marshal(&conformancev1.UnaryRequest{
		ResponseDefinition: &conformancev1.UnaryResponseDefinition{
			Response: &conformancev1.UnaryResponseDefinition_Error{Error: perr},
		},
	})
	if err != nil {
		return vL()
	}
	req := httptest.NewRequest(http.MethodPost, conformancev1connect.ConformanceServiceUnaryProcedure, bytes.NewReader(body))
	req.Header.Set("Content-Type", "application/proto")
	req.Header.Set("Connect-Protocol-Version", "1")
	rec := httptest.NewRecorder()
	verifC13Server().ServeHTTP(rec, req)
	if rec.Code == http.StatusOK || !strings.HasPrefix(rec.Header().Get("Content-Type"), "application/json") {
		return vL()
	}
	return vL(vB(rec.Body.Bytes()))
}

// oracle: has-error code msg details trailers n-responses -> (text of the end-of-stream message) | ()
func verifC13OCesRender(args []vsx) vsx {
	def := &conformancev1.StreamResponseDefinition{ResponseTrailers: verifC13Headers(args[4])}
	if args[0].i != 0 {
		perr, ok := verifC13ProtoError(args[1].i, args[2].str(), args[3])
		if !ok {
			return vL()
		}
		def.Error = perr
	}
	for _, h := range def.ResponseTrailers {
		if !utf8.ValidString(h.GetName()) {
			return vL()
		}
		for _, v := range h.GetValue() {
			if !utf8.ValidString(v) {
				return vL()
			}
		}
	}
	for i := int64(0); i < args[5].i; i++ {
		def.ResponseData = append(def.ResponseData, []byte{byte(i)})
	}
	msg, err := proto.Marshal(&conformancev1.ServerStreamRequest{ResponseDefinition: def})
	if err != nil {
		return vL()
	}
	var body bytes.Buffer
	body.WriteByte(0)
	var ln [4]byte
	binary.BigEndian.PutUint32(ln[:], uint32(len(msg)))
	body.Write(ln[:])
	body.Write(msg)
	req := httptest.NewRequest(http.MethodPost, conformancev1connect.ConformanceServiceServerStreamProcedure, &body)
	req.Header.Set("Content-Type", "application/connect+proto")
	rec := httptest.NewRecorder()
	verifC13Server().ServeHTTP(rec, req)
	if rec.Code != http.StatusOK {
		return vL()
	}
	// the envelopes of the response body; the one flagged 0x02 is the end-of-stream message
	data := rec.Body.Bytes()
	for len(data) >= 5 {
		n := int(binary.BigEndian.Uint32(data[1:5]))
		if len(data) < 5+n {
			return vL()
		}
		if data[0]&2 != 0 {
			return vL(vB(data[5 : 5+n]))
		}
		data = data[5+n:]
	}
	return vL()
}
