//go:build verif

package internal

import (
	"bytes"
	"encoding/json"
	"errors"
	"fmt"
	"io"
	"os"
	"runtime"
	"strings"
	"sync"
	"testing"
	"time"

	"google.golang.org/protobuf/encoding/protojson"
	"google.golang.org/protobuf/proto"
	"google.golang.org/protobuf/types/known/emptypb"
	"google.golang.org/protobuf/types/known/structpb"
)

func init() {
	verifKinds["c09.raw"] = func(a []vsx) vsx { return verifC09Read(a, true) }
	verifKinds["c09.read"] = func(a []vsx) vsx { return verifC09Read(a, false) }
	verifKinds["c09.stalls"] = verifC09Stalls
	verifKinds["c09.dec"] = verifC09Dec
	verifKinds["c09.write"] = verifC09Write
	verifKinds["c09.json"] = verifC09JSON
	verifKinds["c09.jsonrt"] = verifC09JSONRoundTrip
	verifKinds["c09.wsink"] = verifC09WSink
	verifKinds["c09.pipe"] = verifC09Pipe
	verifKinds["c09.jsonwrite"] = verifC09JSONWrite
}

var errVerifIO = errors.New("verif: scripted I/O error")
var errVerifUnblocked = errors.New("verif: blocked read released at end of case")

const (
	verifNoTimeout    = 60 * time.Second
	verifStallTimeout = 300 * time.Millisecond
)

// verifSrc is the scripted io.Reader: the same source as C09_Model.src_read.
type verifSrc struct {
	data    []byte
	pos     int
	sched   []int
	si      int
	eager   bool
	tail    int // 0 EOF, 1 block for ever, 2 other error
	unblock chan struct{}
	blocked chan struct{} // closed when a Read starts blocking
	once    sync.Once
	maxReq  int
}

func newVerifSrc(d, sch, eg, tl vsx) *verifSrc {
	s := &verifSrc{data: d.b, eager: eg.boolean(), tail: int(tl.i), unblock: make(chan struct{}), blocked: make(chan struct{})}
	for _, k := range sch.l {
		s.sched = append(s.sched, int(k.i))
	}
	return s
}

func (s *verifSrc) tailErr() error {
	switch s.tail {
	case 0:
		return io.EOF
	case 2:
		return errVerifIO
	}
	return nil
}

func (s *verifSrc) Read(p []byte) (int, error) {
	if len(p) > s.maxReq {
		s.maxReq = len(p)
	}
	if len(p) == 0 {
		return 0, nil
	}
	rem := len(s.data) - s.pos
	if rem == 0 {
		if err := s.tailErr(); err != nil {
			return 0, err
		}
		s.once.Do(func() { close(s.blocked) })
		<-s.unblock
		return 0, errVerifUnblocked
	}
	k := rem
	if s.si < len(s.sched) {
		if s.sched[s.si] < k {
			k = s.sched[s.si]
		}
	}
	s.si++
	if len(p) < k {
		k = len(p)
	}
	copy(p, s.data[s.pos:s.pos+k])
	s.pos += k
	var err error
	if s.pos == len(s.data) && s.eager {
		err = s.tailErr()
	}
	return k, err
}

func (s *verifSrc) release() { close(s.unblock) }

func verifC09ErrKind(err error) string {
	switch {
	case err == io.EOF:
		return "eof"
	case errors.Is(err, io.EOF):
		return "wrapped-eof"
	case errors.Is(err, io.ErrUnexpectedEOF):
		return "unexpected-eof"
	case errors.Is(err, errVerifIO):
		return "io-error"
	case strings.Contains(err.Error(), "but should not exceed"):
		return "oversize"
	case strings.Contains(err.Error(), "failed to unmarshal"):
		return "unmarshal"
	}
	return ""
}

func verifC09Final(err error, src *verifSrc) vsx {
	if k := verifC09ErrKind(err); k != "" {
		return vL(vS(k), vInt(len(src.data)-src.pos))
	}
	msg := err.Error()
	const pfx = "timed out waiting for result from peer"
	if msg == pfx {
		return vL(vS("timeout-nothing"))
	}
	if strings.HasPrefix(msg, pfx) {
		var nread, expecting int
		var what string
		if n, _ := fmt.Sscanf(msg, pfx+": read %d/%d bytes of %s", &nread, &expecting, &what); n == 3 {
			return vL(vS("timeout"), vBool(what == "message"), vInt(nread), vInt(expecting))
		}
	}
	return vL(vS("other-error"), vS(msg))
}

// one stream through readDelimitedMessageRaw (raw) or ReadDelimitedMessage (typed), until the first error
func verifC09ReadStream(maxSize int, src *verifSrc, raw bool, timeout time.Duration) vsx {
	var msgs []vsx
	var final vsx
	for {
		var data []byte
		var err error
		if raw {
			reader := timeoutDelimitedReader{in: src, source: "peer", timeout: timeout, maxSize: maxSize, readDone: make(chan struct{})}
			data, err = reader.readDelimitedMessageRaw()
		} else {
			msg := &emptypb.Empty{}
			err = ReadDelimitedMessage(src, msg, "peer", timeout, maxSize)
			data = append([]byte{}, msg.ProtoReflect().GetUnknown()...)
		}
		if err != nil {
			final = verifC09Final(err, src)
			break
		}
		msgs = append(msgs, vB(data))
	}
	limit := maxSize
	if limit < 4 {
		limit = 4
	}
	// third component: every buffer handed to Read stayed within max(4, limit)  (= C09_Model.bufs_within)
	return vL(vL(msgs...), final, vBool(src.maxReq <= limit))
}

// (max data sched eager tail)
func verifC09Read(args []vsx, raw bool) vsx {
	maxSize := int(args[0].i)
	src := newVerifSrc(args[1], args[2], args[3], args[4])
	defer src.release()
	timeout := verifNoTimeout
	if src.tail == 1 {
		timeout = verifStallTimeout
	}
	// Allocation probe for "a length above the limit is rejected before allocating it".
	// It is evaluated ONLY for a stream whose first invalid frame announces a length ABOVE the
	// limit (verifC09FirstOversize, computed from the case data alone, not from what the code
	// returned): a length equal to or below the limit may be allocated up front by the code
	// (read() does make([]byte, numBytes)), the property does not forbid that.  Every frame in
	// front of the oversize one is complete, so everything legitimately allocated is bounded by
	// a small multiple of the bytes received.  MemStats.TotalAlloc is the cumulative number of
	// heap bytes allocated (monotone, exact after ReadMemStats, not changed by GC cycles), no
	// other goroutine of the test binary is running during a c09.raw/c09.read case, and the
	// probe only fires when the announced length itself exceeds budget + 1 MiB, so that GC
	// timing or runtime bookkeeping cannot raise it.
	over, announced := verifC09FirstOversize(src.data, maxSize)
	budget := uint64(8*len(src.data) + (1 << 20))
	measure := over && uint64(announced) > budget+(1<<20)
	var before runtime.MemStats
	if measure {
		runtime.ReadMemStats(&before)
	}
	res := verifC09ReadStream(maxSize, src, raw, timeout)
	if measure {
		var after runtime.MemStats
		runtime.ReadMemStats(&after)
		if after.TotalAlloc-before.TotalAlloc > budget {
			return vErr("oversize-length-allocated-before-rejected")
		}
	}
	return res
}

// verifC09FirstOversize walks the frames of data: true (and the announced length) iff the walk
// reaches, through complete frames whose length is within the limit, a complete 4-byte prefix
// announcing more than the limit.
func verifC09FirstOversize(data []byte, maxSize int) (bool, int) {
	for len(data) >= 4 {
		size := int(data[0])<<24 | int(data[1])<<16 | int(data[2])<<8 | int(data[3])
		if size > maxSize {
			return true, size
		}
		if len(data)-4 < size {
			return false, 0
		}
		data = data[4+size:]
	}
	return false, 0
}

// ((max data sched eager) ...): stalled peers, evaluated concurrently so that a generous timeout costs nothing
func verifC09Stalls(args []vsx) vsx {
	out := make([]vsx, len(args[0].l))
	var wg sync.WaitGroup
	for i, c := range args[0].l {
		wg.Add(1)
		go func(i int, c vsx) {
			defer wg.Done()
			src := newVerifSrc(c.l[1], c.l[2], c.l[3], vI(1))
			defer src.release()
			start := time.Now()
			res := verifC09ReadStream(int(c.l[0].i), src, i%2 == 0, verifStallTimeout)
			select {
			case <-src.blocked:
			default:
				res = vErr("harness: source never reached its stall point")
			}
			if el := time.Since(start); el > 20*verifStallTimeout {
				res = vErr("timeout-far-later-than-configured")
			}
			out[i] = res
		}(i, c)
	}
	wg.Wait()
	return vL(out...)
}

func verifC09Watch(blocking bool, f func() error) (error, bool) {
	if !blocking {
		return f(), false
	}
	done := make(chan error, 1)
	go func() { done <- f() }()
	select {
	case err := <-done:
		return err, false
	case <-time.After(verifStallTimeout):
		return nil, true
	}
}

// (data sched eager tail) through codec.NewDecoder(r).DecodeNext
func verifC09Dec(args []vsx) vsx {
	src := newVerifSrc(args[0], args[1], args[2], args[3])
	defer src.release()
	dec := NewCodec(false).NewDecoder(src)
	var msgs []vsx
	for {
		msg := &emptypb.Empty{}
		err, blocked := verifC09Watch(src.tail == 1, func() error { return dec.DecodeNext(msg) })
		if blocked {
			return vL(vL(msgs...), vL(vS("blocked")))
		}
		if err != nil {
			return vL(vL(msgs...), verifC09Final(err, src))
		}
		msgs = append(msgs, vB(append([]byte{}, msg.ProtoReflect().GetUnknown()...)))
	}
}

// (messages) -> stream bytes; the three writers must agree
func verifC09Write(args []vsx) vsx {
	var rawOut, typedOut, encOut bytes.Buffer
	enc := NewCodec(false).NewEncoder(&encOut)
	typed := true
	for _, m := range args[0].l {
		if err := writeDelimitedMessageRaw(&rawOut, m.b); err != nil {
			return vErr("write")
		}
		msg := &emptypb.Empty{}
		if err := proto.Unmarshal(m.b, msg); err != nil {
			typed = false
			continue
		}
		if err := WriteDelimitedMessage(&typedOut, msg); err != nil {
			return vErr("write")
		}
		if err := enc.Encode(msg); err != nil {
			return vErr("write")
		}
	}
	if typed && (!bytes.Equal(rawOut.Bytes(), typedOut.Bytes()) || !bytes.Equal(rawOut.Bytes(), encOut.Bytes())) {
		return vErr("writers-disagree")
	}
	return vB(rawOut.Bytes())
}

func verifC09JSONStream(src *verifSrc) vsx {
	dec := NewCodec(true).NewDecoder(src)
	var vals []vsx
	for {
		msg := &structpb.Value{}
		err, blocked := verifC09Watch(src.tail == 1, func() error { return dec.DecodeNext(msg) })
		if blocked {
			return vL(vL(vals...), vL(vS("blocked")))
		}
		if err != nil {
			k := verifC09ErrKind(err)
			if k == "" && strings.HasPrefix(err.Error(), "failed to decode JSON message") {
				k = "syntax"
			}
			if k == "" {
				return vL(vL(vals...), vL(vS("other-error"), vS(err.Error())))
			}
			return vL(vL(vals...), vL(vS(k)))
		}
		canon, err := json.Marshal(msg.AsInterface())
		if err != nil {
			return vErr("harness: canonical form")
		}
		vals = append(vals, vB(canon))
	}
}

// (data sched eager tail)
func verifC09JSON(args []vsx) vsx {
	src := newVerifSrc(args[0], args[1], args[2], args[3])
	defer src.release()
	return verifC09JSONStream(src)
}

// (values sched eager): written by the JSON encoder, read back by the JSON decoder
func verifC09JSONRoundTrip(args []vsx) vsx {
	var out bytes.Buffer
	enc := NewCodec(true).NewEncoder(&out)
	for _, v := range args[0].l {
		msg := &structpb.Value{}
		if err := protojson.Unmarshal(v.b, msg); err != nil {
			return vL(vS("bad-case"))
		}
		if err := enc.Encode(msg); err != nil {
			return vErr("encode")
		}
	}
	src := newVerifSrc(vB(out.Bytes()), args[1], args[2], vI(0))
	defer src.release()
	return verifC09JSONStream(src)
}

// verifSink is the scripted io.Writer: the same sink as C09_Model.sink_write (room < 0: never fails).
type verifSink struct {
	out  []byte
	room int
}

var errVerifSink = errors.New("verif: scripted writer is closed")

func (k *verifSink) Write(p []byte) (int, error) {
	if k.room < 0 {
		k.out = append(k.out, p...)
		return len(p), nil
	}
	if len(p) <= k.room {
		k.out = append(k.out, p...)
		k.room -= len(p)
		return len(p), nil
	}
	n := k.room
	k.out = append(k.out, p[:n]...)
	k.room = 0
	return n, errVerifSink
}

// writes the messages with writer number w (0 writeDelimitedMessageRaw, 1 WriteDelimitedMessage,
// 2 protoEncoder.Encode) until the first error
func verifC09WriteAll(w int, msgs []vsx, room int) (*verifSink, int, bool, bool) {
	sink := &verifSink{room: room}
	enc := NewCodec(false).NewEncoder(sink)
	n := 0
	for _, m := range msgs {
		var err error
		if w == 0 {
			err = writeDelimitedMessageRaw(sink, m.b)
		} else {
			msg := &emptypb.Empty{}
			if proto.Unmarshal(m.b, msg) != nil {
				return nil, 0, false, false
			}
			if w == 1 {
				err = WriteDelimitedMessage(sink, msg)
			} else {
				err = enc.Encode(msg)
			}
		}
		if err != nil {
			return sink, n, true, true
		}
		n++
	}
	return sink, n, false, true
}

// (messages room): the three writers on a writer that fails after room bytes; they must agree
func verifC09WSink(args []vsx) vsx {
	room := int(args[1].i)
	sink, n, failed, _ := verifC09WriteAll(0, args[0].l, room)
	res := vL(vB(sink.out), vInt(n), vBool(failed))
	for w := 1; w <= 2; w++ {
		s2, n2, f2, valid := verifC09WriteAll(w, args[0].l, room)
		if !valid {
			break // not wire-format messages: raw writer only
		}
		if !bytes.Equal(s2.out, sink.out) || n2 != n || f2 != failed {
			return vErr("writers-disagree")
		}
	}
	return res
}

// (dir max messages room sched eager): one side encodes until its writer fails, the pipe is then closed,
// the other side decodes what went through
func verifC09Pipe(args []vsx) vsx {
	dir := args[0].boolean()
	w := 1
	if dir {
		w = 2
	}
	sink, n, failed, valid := verifC09WriteAll(w, args[2].l, int(args[3].i))
	if !valid {
		return vL(vS("bad-case"))
	}
	src := newVerifSrc(vB(sink.out), args[4], args[5], vI(0))
	defer src.release()
	var read vsx
	if dir {
		read = verifC09ReadStream(int(args[1].i), src, false, verifNoTimeout)
	} else {
		read = verifC09Dec([]vsx{vB(sink.out), args[4], args[5], vI(0)})
	}
	return vL(vInt(n), vBool(failed), read)
}

// whitespace outside string literals removed (works on truncated text too)
func verifC09Compact(b []byte) []byte {
	var out []byte
	instr, esc := false, false
	for _, c := range b {
		if instr {
			out = append(out, c)
			switch {
			case esc:
				esc = false
			case c == '\\':
				esc = true
			case c == '"':
				instr = false
			}
			continue
		}
		if c == ' ' || c == '\t' || c == '\n' || c == '\r' {
			continue
		}
		out = append(out, c)
		instr = c == '"'
	}
	return out
}

// (values room-class) through jsonEncoder.Encode
func verifC09JSONWrite(args []vsx) vsx {
	var msgs []proto.Message
	total := 0
	var each []vsx
	for _, v := range args[0].l {
		msg := &structpb.Value{}
		if err := protojson.Unmarshal(v.b, msg); err != nil {
			return vL(vS("bad-case"))
		}
		msgs = append(msgs, msg)
		alone := &verifSink{room: -1}
		if err := NewCodec(true).NewEncoder(alone).Encode(msg); err != nil {
			each = append(each, vErr("write"))
			continue
		}
		total += len(alone.out)
		last := 0
		if len(alone.out) > 0 {
			last = int(alone.out[len(alone.out)-1])
		}
		each = append(each, vL(vB(verifC09Compact(alone.out)), vInt(last)))
	}
	room := -1
	switch cls := args[1].i; {
	case cls < 0:
	case cls == 0:
		room = 0
	case cls == 1:
		room = total - 1
	default:
		room = total - 2
	}
	if args[1].i >= 0 && room < 0 {
		room = 0
	}
	sink := &verifSink{room: room}
	enc := NewCodec(true).NewEncoder(sink)
	n, failed := 0, false
	for _, msg := range msgs {
		if err := enc.Encode(msg); err != nil {
			failed = true
			break
		}
		n++
	}
	return vL(vL(each...), vInt(n), vBool(failed), vB(verifC09Compact(sink.out)))
}

// TestVerifConsts prints the framing constants the compiled code uses as Coq definitions.
func TestVerifConsts(t *testing.T) {
	out := os.Getenv("VERIF_OUT")
	if out == "" {
		t.Skip("VERIF_OUT not set")
	}
	var empty, b258 bytes.Buffer
	if err := writeDelimitedMessageRaw(&empty, nil); err != nil {
		t.Fatal(err)
	}
	if err := writeDelimitedMessageRaw(&b258, make([]byte, 258)); err != nil {
		t.Fatal(err)
	}
	n := empty.Len()
	var sb strings.Builder
	fmt.Fprintf(&sb, "Definition c09_prefix_len : N := %d%%N.\n", n)
	sb.WriteString("Definition c09_prefix_of_258 : list N := [")
	for i, c := range b258.Bytes()[:n] {
		if i > 0 {
			sb.WriteString("; ")
		}
		fmt.Fprintf(&sb, "%d%%N", c)
	}
	sb.WriteString("].\n")
	if err := os.WriteFile(out, []byte(sb.String()), 0o644); err != nil {
		t.Fatal(err)
	}
}
