//go:build verif

package internal

import (
	"bufio"
	"bytes"
	"encoding/json"
	"errors"
	"fmt"
	"io"
	"os"
	"path/filepath"
	"runtime"
	"strings"
	"sync"
	"testing"
	"time"

	"google.golang.org/protobuf/encoding/protojson"
	"google.golang.org/protobuf/proto"
	"google.golang.org/protobuf/types/known/emptypb"
	"google.golang.org/protobuf/types/known/structpb"
)

func init() {
	reg := func(kind string, f func(c *verifC09Case, a []vsx) vsx) {
		verifKinds[kind] = func(a []vsx) vsx {
			return verifC09Guarded(verifC09Bound(verifStallTimeout), true, func(c *verifC09Case) vsx { return f(c, a) })
		}
	}
	for kind, raw := range map[string]bool{"c09.raw": true, "c09.read": false} {
		raw := raw
		verifKinds[kind] = func(a []vsx) vsx {
			if len(a) == 5 && a[4].i == 1 {
				// a stalled peer (only shrinker candidates and replays get here; the generator uses c09.stall)
				return verifC09StallEval(int(a[0].i), a[1], a[2], a[3], raw, true)
			}
			return verifC09Guarded(verifC09Bound(verifStallTimeout), true, func(c *verifC09Case) vsx { return verifC09Read(c, a, raw) })
		}
	}
	reg("c09.dec", verifC09Dec)
	reg("c09.write", verifC09Write)
	reg("c09.json", verifC09JSON)
	reg("c09.jsonrt", verifC09JSONRoundTrip)
	reg("c09.wsink", verifC09WSink)
	reg("c09.pipe", verifC09Pipe)
	reg("c09.jsonwrite", verifC09JSONWrite)
	// stalled peers bring their own watchdog (one per attempt, scaled with the attempt's timeout)
	verifKinds["c09.stall"] = verifC09Stall
	verifKinds["c09.stalls"] = verifC09Stalls
}

var errVerifIO = errors.New("verif: scripted I/O error")
var errVerifUnblocked = errors.New("verif: blocked read released at end of case")

const (
	// cases whose source never blocks have no timeout that could fire: this stands for "none"
	verifNoTimeout = 60 * time.Second
	// the configured timeout of a case with a stalled peer (first attempt, see verifC09StallEval)
	verifStallTimeout = 300 * time.Millisecond
)

// ---------------------------------------------------------------------------------------------
// Per-case watchdog.  Every case runs in a goroutine of its own.  A case that has not finished
// after verifC09Bound(configured timeout) = max(50 x timeout, 10 s) is given the outcome (hang):
// its goroutine is abandoned, every scripted source it reads from is released (the blocked Read
// returns an error) so that the goroutine can die, and the evaluation carries on with the next
// case.  The unchanged code needs microseconds to a few milliseconds for a case without a stall
// and timeout + a few milliseconds for one with a stall, so the bound is never met by it, whatever
// the load of the machine.  The model never answers (hang): for a stalled peer the timeout
// outcome is a theorem (stall_reports), so a hang is a disagreement like any other.
// ---------------------------------------------------------------------------------------------
type verifC09Case struct {
	mu       sync.Mutex
	srcs     []*verifSrc
	released bool
}

func (c *verifC09Case) add(s *verifSrc) *verifSrc {
	c.mu.Lock()
	defer c.mu.Unlock()
	c.srcs = append(c.srcs, s)
	if c.released {
		s.release()
	}
	return s
}

func (c *verifC09Case) releaseAll() {
	c.mu.Lock()
	defer c.mu.Unlock()
	c.released = true
	for _, s := range c.srcs {
		s.release()
	}
}

func verifC09Bound(timeout time.Duration) time.Duration {
	factor, floor := time.Duration(50), 10*time.Second
	if verifC09ShrinkRun() {
		// Candidate files of the shrinker: their results only steer the search for a smaller case - the
		// case finally written as replay is evaluated once more in a file of its own ("final.*") with
		// the full bound, and is dropped in favour of the unshrunk case if it does not disagree there.
		// A hanging candidate is met in nearly every round once the failure is a hang, so the full
		// bound would be paid some thirty times per reported case.
		factor, floor = 10, 3*time.Second
	}
	b := factor * timeout
	if b < floor {
		b = floor
	}
	return b
}

func verifC09ShrinkRun() bool {
	return strings.HasPrefix(filepath.Base(os.Getenv("VERIF_CASES")), "shrink.")
}

// Bounded total time: the cases of one file are evaluated one after the other, so every hang costs
// its full bound.  After verifC09HangLimit() hangs in this process the remaining cases are not
// evaluated any more and answer (bad-case hang-budget-exhausted) - in the main run the hangs
// themselves come first in the file and are what is reported; the shrinker skips bad-case
// candidates.  In a shrinker run (case file "shrink.*") the limit is 1: the candidates behind the
// first hanging one cannot be chosen anyway (the first disagreeing candidate wins).
var (
	verifC09HangMu    sync.Mutex
	verifC09HangCount int
)

func verifC09HangLimit() int {
	if verifC09ShrinkRun() {
		return 1
	}
	return 4
}

func verifC09Guarded(bound time.Duration, budgeted bool, f func(c *verifC09Case) vsx) vsx {
	if budgeted {
		verifC09HangMu.Lock()
		spent := verifC09HangCount >= verifC09HangLimit()
		verifC09HangMu.Unlock()
		if spent {
			return vL(vS("bad-case"), vS("hang-budget-exhausted"))
		}
	}
	c := &verifC09Case{}
	done := make(chan vsx, 1)
	go func() {
		defer func() {
			if r := recover(); r != nil {
				if os.Getenv("VERIF_DEBUG") != "" {
					fmt.Fprintf(os.Stderr, "verif: panic: %v\n", r)
				}
				done <- vCrash()
			}
		}()
		done <- f(c)
	}()
	timer := time.NewTimer(bound)
	defer timer.Stop()
	select {
	case res := <-done:
		c.releaseAll()
		return res
	case <-timer.C:
	}
	c.releaseAll() // abandoned: its pipes are closed so that it can die
	if budgeted {
		verifC09HangMu.Lock()
		verifC09HangCount++
		verifC09HangMu.Unlock()
	}
	return vL(vS("hang"))
}

// verifSrc is the scripted io.Reader: the same source as C09_Model.src_read.
type verifSrc struct {
	data    []byte
	pos     int
	sched   []int
	si      int
	eager   bool
	tail    int // 0 EOF, 1 block for ever, 2 other error
	unblock chan struct{}
	blocked chan struct{} // closed when a Read starts blocking
	once    sync.Once
	relOnce sync.Once
	maxReq  int
	// when the source started to block (written before `blocked` is closed)
	blockedAt time.Time
}

func (c *verifC09Case) newSrc(d, sch, eg, tl vsx) *verifSrc { return c.add(newVerifSrc(d, sch, eg, tl)) }

func newVerifSrc(d, sch, eg, tl vsx) *verifSrc {
	s := &verifSrc{data: d.b, eager: eg.boolean(), tail: int(tl.i), unblock: make(chan struct{}), blocked: make(chan struct{})}
	for _, k := range sch.l {
		s.sched = append(s.sched, int(k.i))
	}
	return s
}

func (s *verifSrc) tailErr() error {
	switch s.tail {
	case 0:
		return io.EOF
	case 2:
		return errVerifIO
	}
	return nil
}

func (s *verifSrc) Read(p []byte) (int, error) {
	if len(p) > s.maxReq {
		s.maxReq = len(p)
	}
	if len(p) == 0 {
		return 0, nil
	}
	rem := len(s.data) - s.pos
	if rem == 0 {
		if err := s.tailErr(); err != nil {
			return 0, err
		}
		s.once.Do(func() { s.blockedAt = time.Now(); close(s.blocked) })
		<-s.unblock
		return 0, errVerifUnblocked
	}
	k := rem
	if s.si < len(s.sched) {
		if s.sched[s.si] < k {
			k = s.sched[s.si]
		}
	}
	s.si++
	if len(p) < k {
		k = len(p)
	}
	copy(p, s.data[s.pos:s.pos+k])
	s.pos += k
	var err error
	if s.pos == len(s.data) && s.eager {
		err = s.tailErr()
	}
	return k, err
}

func (s *verifSrc) release() { s.relOnce.Do(func() { close(s.unblock) }) }

func (s *verifSrc) isBlocked() bool {
	select {
	case <-s.blocked:
		return true
	default:
		return false
	}
}

func verifC09ErrKind(err error) string {
	switch {
	case err == io.EOF:
		return "eof"
	case errors.Is(err, io.EOF):
		return "wrapped-eof"
	case errors.Is(err, io.ErrUnexpectedEOF):
		return "unexpected-eof"
	case errors.Is(err, errVerifIO):
		return "io-error"
	case strings.Contains(err.Error(), "but should not exceed"):
		return "oversize"
	case strings.Contains(err.Error(), "failed to unmarshal"):
		return "unmarshal"
	}
	return ""
}

func verifC09Final(err error, src *verifSrc) vsx {
	if k := verifC09ErrKind(err); k != "" {
		return vL(vS(k), vInt(len(src.data)-src.pos))
	}
	msg := err.Error()
	const pfx = "timed out waiting for result from peer"
	if msg == pfx {
		return vL(vS("timeout-nothing"))
	}
	if strings.HasPrefix(msg, pfx) {
		var nread, expecting int
		var what string
		// the progress counts are taken out of the error as numbers (received, expected, and which unit
		// they are counts of); the wording around them is not compared
		if n, _ := fmt.Sscanf(msg, pfx+": read %d/%d bytes of %s", &nread, &expecting, &what); n == 3 && (what == "message" || what == "length") {
			return vL(vS("timeout"), vBool(what == "message"), vInt(nread), vInt(expecting))
		}
	}
	return vL(vS("other-error"), vS(msg))
}

// one stream through readDelimitedMessageRaw (raw) or ReadDelimitedMessage (typed), until the first error.
// The second result says that a timeout outcome cannot be taken at face value because the machine was
// too slow for the configured timeout (see verifC09StallEval).
func verifC09ReadStream(maxSize int, src *verifSrc, raw bool, timeout time.Duration) (vsx, bool) {
	var msgs []vsx
	var final vsx
	late := false
	for {
		var data []byte
		var err error
		callStart := time.Now()
		if raw {
			reader := timeoutDelimitedReader{in: src, source: "peer", timeout: timeout, maxSize: maxSize, readDone: make(chan struct{})}
			data, err = reader.readDelimitedMessageRaw()
		} else {
			msg := &emptypb.Empty{}
			err = ReadDelimitedMessage(src, msg, "peer", timeout, maxSize)
			data = append([]byte{}, msg.ProtoReflect().GetUnknown()...)
		}
		if err != nil {
			if !raw && verifC09ErrKind(err) == "unmarshal" {
				return vL(vS("bad-case")), false // typed entry point: the case must carry wire-format messages
			}
			final = verifC09Final(err, src)
			if tag := final.l[0].str(); tag == "timeout" || tag == "timeout-nothing" {
				switch {
				case !src.isBlocked():
					late = true // the timer fired although the peer had not stalled (yet)
				case src.blockedAt.Sub(callStart) > timeout/2:
					late = true // too close to call: the stall point was reached late in the period
				case time.Since(callStart) > 20*timeout:
					late = true
					final = vErr("timeout-far-later-than-configured")
				}
			}
			break
		}
		msgs = append(msgs, vB(data))
	}
	limit := maxSize
	if limit < 4 {
		limit = 4
	}
	// third component: every buffer handed to Read stayed within max(4, limit)  (= C09_Model.bufs_within)
	return vL(vL(msgs...), final, vBool(src.maxReq <= limit)), late
}

// A peer that stalls after the data (tail = block for ever): the outcome is the timeout error with its
// progress counts.  It is exact provided the timer fires AFTER the source has reached its stall point;
// the scripted source never waits before that point, so this only takes CPU time - but on a heavily
// loaded machine even that may take longer than the timeout.  The harness therefore notes when the
// source began to block: an attempt whose stall point was reached later than half the timeout after
// the start of the call that timed out (or not at all) is repeated with 4 x the timeout, twice at
// most; the last attempt counts as it is.  Each attempt runs under the watchdog with the bound that
// belongs to its timeout.
func verifC09StallEval(maxSize int, d, sch, eg vsx, raw bool, budgeted bool) vsx {
	for attempt := 0; ; attempt++ {
		attempt, timeout := attempt, verifStallTimeout<<(2*attempt) // 300 ms, 1.2 s, 4.8 s
		res := verifC09Guarded(verifC09Bound(timeout), budgeted, func(c *verifC09Case) vsx {
			src := c.newSrc(d, sch, eg, vI(1))
			r, late := verifC09ReadStream(maxSize, src, raw, timeout)
			if late && attempt < 2 {
				return vL(vS("late"))
			}
			return r
		})
		if len(res.l) != 1 || res.l[0].str() != "late" {
			return res
		}
	}
}

// (max data sched eager tail)
func verifC09Read(c *verifC09Case, args []vsx, raw bool) vsx {
	maxSize := int(args[0].i)
	src := c.newSrc(args[1], args[2], args[3], args[4])
	// Allocation probe for "a length above the limit is rejected before allocating it".
	// It is evaluated ONLY for a stream whose first invalid frame announces a length ABOVE the
	// limit (verifC09FirstOversize, computed from the case data alone, not from what the code
	// returned): a length equal to or below the limit may be allocated up front by the code
	// (read() does make([]byte, numBytes)), the property does not forbid that.  Every frame in
	// front of the oversize one is complete, so everything legitimately allocated is bounded by
	// a small multiple of the bytes received.  MemStats.TotalAlloc is the cumulative number of
	// heap bytes allocated (monotone, exact after ReadMemStats, not changed by GC cycles), no
	// other goroutine of the test binary is running during a c09.raw/c09.read case (the
	// evaluation loop only waits for this one), and the probe only fires when the announced
	// length itself exceeds budget + 1 MiB, so that GC timing or runtime bookkeeping cannot
	// raise it.
	over, announced := verifC09FirstOversize(src.data, maxSize)
	budget := uint64(8*len(src.data) + (1 << 20))
	measure := over && uint64(announced) > budget+(1<<20)
	var before runtime.MemStats
	if measure {
		runtime.ReadMemStats(&before)
	}
	res, _ := verifC09ReadStream(maxSize, src, raw, verifNoTimeout)
	if measure {
		var after runtime.MemStats
		runtime.ReadMemStats(&after)
		if after.TotalAlloc-before.TotalAlloc > budget {
			return vErr("oversize-length-allocated-before-rejected")
		}
	}
	return res
}

// verifC09FirstOversize walks the frames of data: true (and the announced length) iff the walk
// reaches, through complete frames whose length is within the limit, a complete 4-byte prefix
// announcing more than the limit.
func verifC09FirstOversize(data []byte, maxSize int) (bool, int) {
	for len(data) >= 4 {
		size := int(data[0])<<24 | int(data[1])<<16 | int(data[2])<<8 | int(data[3])
		if size > maxSize {
			return true, size
		}
		if len(data)-4 < size {
			return false, 0
		}
		data = data[4+size:]
	}
	return false, 0
}

// (max data sched eager typed): one stalled peer.  All c09.stall cases of the case file are evaluated
// CONCURRENTLY the first time one of them is asked for (each of them waits for a timeout, and a hanging
// one for its watchdog: one after the other that would be the sum, together it is the maximum, which
// also bounds the time the shrinker's candidate files take: one watchdog bound per file).
var verifC09Pre struct {
	once sync.Once
	res  map[string]vsx
}

func verifC09Key(a []vsx) string {
	var sb strings.Builder
	vL(a...).print(&sb)
	return sb.String()
}

func verifC09StallOne(a []vsx) vsx {
	return verifC09StallEval(int(a[0].i), a[1], a[2], a[3], !a[4].boolean(), false)
}

func verifC09Prefetch() {
	verifC09Pre.res = map[string]vsx{}
	fin, err := os.Open(os.Getenv("VERIF_CASES"))
	if err != nil {
		return
	}
	defer fin.Close()
	sc := bufio.NewScanner(fin)
	sc.Buffer(make([]byte, 1<<20), 1<<30)
	todo := map[string][]vsx{}
	for sc.Scan() {
		line := sc.Text()
		if !strings.HasPrefix(line, "(\"c09.stall\" ") {
			continue
		}
		c := (&vparser{s: line}).item()
		if c.k != 'l' || len(c.l) != 7 {
			continue
		}
		todo[verifC09Key(c.l[2:])] = c.l[2:]
	}
	var mu sync.Mutex
	var wg sync.WaitGroup
	sem := make(chan struct{}, 128)
	for k, a := range todo {
		wg.Add(1)
		sem <- struct{}{}
		go func(k string, a []vsx) {
			defer wg.Done()
			defer func() { <-sem }()
			res := verifEvalOne(verifC09StallOne, a)
			mu.Lock()
			verifC09Pre.res[k] = res
			mu.Unlock()
		}(k, a)
	}
	wg.Wait()
}

func verifC09Stall(args []vsx) vsx {
	if len(args) != 5 {
		return vL(vS("bad-case"))
	}
	verifC09Pre.once.Do(verifC09Prefetch)
	if res, ok := verifC09Pre.res[verifC09Key(args)]; ok {
		return res
	}
	return verifC09StallOne(args)
}

// ((max data sched eager) ...): a batch of stalled peers, evaluated concurrently; even entries through
// readDelimitedMessageRaw, odd ones through ReadDelimitedMessage
func verifC09Stalls(args []vsx) vsx {
	out := make([]vsx, len(args[0].l))
	var wg sync.WaitGroup
	for i, c := range args[0].l {
		wg.Add(1)
		go func(i int, c vsx) {
			defer wg.Done()
			out[i] = verifEvalOne(func(a []vsx) vsx {
				return verifC09StallEval(int(a[0].i), a[1], a[2], a[3], i%2 == 0, false)
			}, c.l)
		}(i, c)
	}
	wg.Wait()
	return vL(out...)
}

var errVerifPanicked = errors.New("verif: decoder panicked")

// The peers' decoders have no timeout: when the peer stalls, DecodeNext blocks.  That is observed
// exactly, without a clock: the call runs in a goroutine and the scripted source says when a Read
// has begun to block; a synchronous decoder sits in that Read and cannot return any more.
func verifC09Watch(src *verifSrc, f func() error) (error, bool) {
	if src.tail != 1 {
		return f(), false
	}
	done := make(chan error, 1)
	go func() {
		defer func() {
			if r := recover(); r != nil {
				done <- errVerifPanicked
			}
		}()
		done <- f()
	}()
	select {
	case err := <-done:
		if err == errVerifPanicked {
			panic(err)
		}
		return err, false
	case <-src.blocked:
		return nil, true
	}
}

// (data sched eager tail) through codec.NewDecoder(r).DecodeNext
func verifC09Dec(c *verifC09Case, args []vsx) vsx {
	src := c.newSrc(args[0], args[1], args[2], args[3])
	dec := NewCodec(false).NewDecoder(src)
	var msgs []vsx
	for {
		msg := &emptypb.Empty{}
		err, blocked := verifC09Watch(src, func() error { return dec.DecodeNext(msg) })
		if blocked {
			return vL(vL(msgs...), vL(vS("blocked")))
		}
		if err != nil {
			if verifC09ErrKind(err) == "unmarshal" {
				return vL(vS("bad-case"))
			}
			return vL(vL(msgs...), verifC09Final(err, src))
		}
		msgs = append(msgs, vB(append([]byte{}, msg.ProtoReflect().GetUnknown()...)))
	}
}

// (messages) -> stream bytes; the three writers must agree
func verifC09Write(_ *verifC09Case, args []vsx) vsx {
	var rawOut, typedOut, encOut bytes.Buffer
	enc := NewCodec(false).NewEncoder(&encOut)
	typed := true
	for _, m := range args[0].l {
		if err := writeDelimitedMessageRaw(&rawOut, m.b); err != nil {
			return vErr("write")
		}
		msg := &emptypb.Empty{}
		if err := proto.Unmarshal(m.b, msg); err != nil {
			typed = false
			continue
		}
		if err := WriteDelimitedMessage(&typedOut, msg); err != nil {
			return vErr("write")
		}
		if err := enc.Encode(msg); err != nil {
			return vErr("write")
		}
	}
	if typed && (!bytes.Equal(rawOut.Bytes(), typedOut.Bytes()) || !bytes.Equal(rawOut.Bytes(), encOut.Bytes())) {
		return vErr("writers-disagree")
	}
	return vB(rawOut.Bytes())
}

func verifC09JSONStream(src *verifSrc) vsx {
	dec := NewCodec(true).NewDecoder(src)
	var vals []vsx
	for {
		msg := &structpb.Value{}
		err, blocked := verifC09Watch(src, func() error { return dec.DecodeNext(msg) })
		if blocked {
			return vL(vL(vals...), vL(vS("blocked")))
		}
		if err != nil {
			k := verifC09ErrKind(err)
			if k == "" && strings.HasPrefix(err.Error(), "failed to decode JSON message") {
				k = "syntax"
			}
			if k == "" {
				return vL(vL(vals...), vL(vS("other-error"), vS(err.Error())))
			}
			return vL(vL(vals...), vL(vS(k)))
		}
		canon, err := json.Marshal(msg.AsInterface())
		if err != nil {
			return vErr("harness: canonical form")
		}
		vals = append(vals, vB(canon))
	}
}

// (data sched eager tail)
func verifC09JSON(c *verifC09Case, args []vsx) vsx {
	return verifC09JSONStream(c.newSrc(args[0], args[1], args[2], args[3]))
}

// (values sched eager): written by the JSON encoder, read back by the JSON decoder
func verifC09JSONRoundTrip(c *verifC09Case, args []vsx) vsx {
	var out bytes.Buffer
	enc := NewCodec(true).NewEncoder(&out)
	for _, v := range args[0].l {
		msg := &structpb.Value{}
		if err := protojson.Unmarshal(v.b, msg); err != nil {
			return vL(vS("bad-case"))
		}
		if err := enc.Encode(msg); err != nil {
			return vErr("encode")
		}
	}
	return verifC09JSONStream(c.newSrc(vB(out.Bytes()), args[1], args[2], vI(0)))
}

// verifSink is the scripted io.Writer: the same sink as C09_Model.sink_write (room < 0: never fails).
// After its failure it keeps failing (a closed pipe), or - heals - it failed just once and accepts
// everything from then on (a transient error; just as legal an io.Writer).
type verifSink struct {
	out   []byte
	room  int
	heals bool
}

var errVerifSink = errors.New("verif: scripted writer is closed")

func (k *verifSink) Write(p []byte) (int, error) {
	if k.room < 0 {
		k.out = append(k.out, p...)
		return len(p), nil
	}
	if len(p) <= k.room {
		k.out = append(k.out, p...)
		k.room -= len(p)
		return len(p), nil
	}
	n := k.room
	k.out = append(k.out, p[:n]...)
	k.room = 0
	if k.heals {
		k.room = -1
	}
	return n, errVerifSink
}

// writes the messages with writer number w (0 writeDelimitedMessageRaw, 1 WriteDelimitedMessage,
// 2 protoEncoder.Encode) until the first error
func verifC09WriteAll(w int, msgs []vsx, room int, heals bool) (*verifSink, int, bool, bool) {
	sink := &verifSink{room: room, heals: heals}
	enc := NewCodec(false).NewEncoder(sink)
	n := 0
	for _, m := range msgs {
		var err error
		if w == 0 {
			err = writeDelimitedMessageRaw(sink, m.b)
		} else {
			msg := &emptypb.Empty{}
			if proto.Unmarshal(m.b, msg) != nil {
				return nil, 0, false, false
			}
			if w == 1 {
				err = WriteDelimitedMessage(sink, msg)
			} else {
				err = enc.Encode(msg)
			}
		}
		if err != nil {
			return sink, n, true, true
		}
		n++
	}
	return sink, n, false, true
}

// (messages room heals): the three writers on a writer that fails after room bytes (and then keeps
// failing, or heals); they must agree
func verifC09WSink(_ *verifC09Case, args []vsx) vsx {
	if len(args) != 3 {
		return vL(vS("bad-case"))
	}
	room, heals := int(args[1].i), args[2].boolean()
	sink, n, failed, _ := verifC09WriteAll(0, args[0].l, room, heals)
	res := vL(vB(sink.out), vInt(n), vBool(failed))
	for w := 1; w <= 2; w++ {
		s2, n2, f2, valid := verifC09WriteAll(w, args[0].l, room, heals)
		if !valid {
			break // not wire-format messages: raw writer only
		}
		if !bytes.Equal(s2.out, sink.out) || n2 != n || f2 != failed {
			return vErr("writers-disagree")
		}
	}
	return res
}

// (dir max messages room sched eager): one side encodes until its writer fails, the pipe is then closed,
// the other side decodes what went through
func verifC09Pipe(c *verifC09Case, args []vsx) vsx {
	dir := args[0].boolean()
	w := 1
	if dir {
		w = 2
	}
	sink, n, failed, valid := verifC09WriteAll(w, args[2].l, int(args[3].i), false)
	if !valid {
		return vL(vS("bad-case"))
	}
	var read vsx
	if dir {
		read, _ = verifC09ReadStream(int(args[1].i), c.newSrc(vB(sink.out), args[4], args[5], vI(0)), false, verifNoTimeout)
	} else {
		read = verifC09Dec(c, []vsx{vB(sink.out), args[4], args[5], vI(0)})
	}
	if len(read.l) == 1 {
		return read // bad-case
	}
	return vL(vInt(n), vBool(failed), read)
}

// whitespace outside string literals removed (works on truncated text too)
func verifC09Compact(b []byte) []byte {
	var out []byte
	instr, esc := false, false
	for _, c := range b {
		if instr {
			out = append(out, c)
			switch {
			case esc:
				esc = false
			case c == '\\':
				esc = true
			case c == '"':
				instr = false
			}
			continue
		}
		if c == ' ' || c == '\t' || c == '\n' || c == '\r' {
			continue
		}
		out = append(out, c)
		instr = c == '"'
	}
	return out
}

// (values room-class) through jsonEncoder.Encode
func verifC09JSONWrite(_ *verifC09Case, args []vsx) vsx {
	var msgs []proto.Message
	total := 0
	var each []vsx
	for _, v := range args[0].l {
		msg := &structpb.Value{}
		if err := protojson.Unmarshal(v.b, msg); err != nil {
			return vL(vS("bad-case"))
		}
		msgs = append(msgs, msg)
		alone := &verifSink{room: -1}
		if err := NewCodec(true).NewEncoder(alone).Encode(msg); err != nil {
			each = append(each, vErr("write"))
			continue
		}
		total += len(alone.out)
		last := 0
		if len(alone.out) > 0 {
			last = int(alone.out[len(alone.out)-1])
		}
		each = append(each, vL(vB(verifC09Compact(alone.out)), vInt(last)))
	}
	room := -1
	switch cls := args[1].i; {
	case cls < 0:
	case cls == 0:
		room = 0
	case cls == 1:
		room = total - 1
	default:
		room = total - 2
	}
	if args[1].i >= 0 && room < 0 {
		room = 0
	}
	sink := &verifSink{room: room}
	enc := NewCodec(true).NewEncoder(sink)
	n, failed := 0, false
	for _, msg := range msgs {
		if err := enc.Encode(msg); err != nil {
			failed = true
			break
		}
		n++
	}
	return vL(vL(each...), vInt(n), vBool(failed), vB(verifC09Compact(sink.out)))
}

// TestVerifConsts prints the framing constants the compiled code uses as Coq definitions.
func TestVerifConsts(t *testing.T) {
	out := os.Getenv("VERIF_OUT")
	if out == "" {
		t.Skip("VERIF_OUT not set")
	}
	var empty, b258 bytes.Buffer
	if err := writeDelimitedMessageRaw(&empty, nil); err != nil {
		t.Fatal(err)
	}
	if err := writeDelimitedMessageRaw(&b258, make([]byte, 258)); err != nil {
		t.Fatal(err)
	}
	n := empty.Len()
	var sb strings.Builder
	fmt.Fprintf(&sb, "Definition c09_prefix_len : N := %d%%N.\n", n)
	sb.WriteString("Definition c09_prefix_of_258 : list N := [")
	for i, c := range b258.Bytes()[:n] {
		if i > 0 {
			sb.WriteString("; ")
		}
		fmt.Fprintf(&sb, "%d%%N", c)
	}
	sb.WriteString("].\n")
	if err := os.WriteFile(out, []byte(sb.String()), 0o644); err != nil {
		t.Fatal(err)
	}
}
