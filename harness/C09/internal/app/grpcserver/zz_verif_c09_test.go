//go:build verif

package grpcserver

import (
	"bufio"
	"context"
	"encoding/json"
	"errors"
	"io"
	"net"
	"net/http"
	"os"
	"strconv"
	"strings"
	"sync"
	"time"

	"connectrpc.com/conformance/internal"
	conformancev1 "connectrpc.com/conformance/internal/gen/proto/go/connectrpc/conformance/v1"
	"google.golang.org/grpc"
	"google.golang.org/grpc/codes"
	"google.golang.org/grpc/credentials/insecure"
	"google.golang.org/grpc/status"
	"google.golang.org/protobuf/encoding/protojson"
	"google.golang.org/protobuf/proto"
)

// c09.grpcserver drives the REAL main function of the gRPC reference server (Run = what cmd/grpcserver
// calls, or RunWithTrace = what the runner's in-process gRPC server calls) with a scripted stdin carrying
// its one ServerCompatRequest - the same case shape, scripted source and model function
// (C09_Model.run_c09_server: one decoder, one DecodeNext) as c09.server for referenceserver:
//
//	(json ref data sched eager tail table)
//
// json  : 1 = the server is started with --json
// ref   : 1 = RunWithTrace (nil tracer), 0 = Run
// data, sched, eager, tail : the scripted stdin, the same source as C09_Model.src_read (one chunk per
//
//	Read, never more than scripted; tail 0 io.EOF, 2 another error, 1 = the pipe stays open and
//	nothing more comes: a Read behind the data blocks until the case is over)
//
// table : ((message (kind message_receive_limit)) ...) - projects the decoded message to what a probe of
//
//	the started server must see; kind 2 = protocol gRPC (http_version 2: the bare grpc-go server,
//	HTTP/2 only), kind 1 = protocol gRPC-Web (net/http + h2c: HTTP/1.1 answered as well); every
//	entry is checked to be true, and the limit must be > 0 (grpc.MaxRecvMsgSize(0) refuses every
//	non-empty message; not a case).
//
// Result: (serving (http2-only limited)) when the server answered on stdout with a ServerCompatResponse
// naming a port: http2-only = a plain HTTP/1.1 request gets no HTTP answer (kind 2) / gets one (kind 1);
// limited = a gRPC unary request of 300 bytes is refused with ResourceExhausted (limit 1..299) or served.
// (exit kind) when Run returned an error without answering; (exit blocked) when the server waits in a
// Read behind the data.  (hang) when nothing of this happened in time.
func init() {
	verifKinds["c09.grpcserver"] = verifC09Server
}

var errVerifC09IO = errors.New("verif: scripted I/O error")

var errVerifC09Released = errors.New("verif: blocked read released at end of case")

type verifC09Stdin struct {
	data  []byte
	pos   int
	sched []int
	si    int
	eager bool
	tail  int
	// tail 1: the runner keeps the pipe open and sends nothing more - a Read behind the data blocks
	// (until the case is over); `blocked` is closed when the first such Read begins
	blocked   chan struct{}
	unblock   chan struct{}
	blockOnce sync.Once
	relOnce   sync.Once
}

func (s *verifC09Stdin) release() { s.relOnce.Do(func() { close(s.unblock) }) }

func (s *verifC09Stdin) tailErr() error {
	switch s.tail {
	case 2:
		return errVerifC09IO
	case 1:
		return nil
	}
	return io.EOF
}

func (s *verifC09Stdin) Read(p []byte) (int, error) {
	if len(p) == 0 {
		return 0, nil
	}
	rem := len(s.data) - s.pos
	if rem == 0 {
		if err := s.tailErr(); err != nil {
			return 0, err
		}
		s.blockOnce.Do(func() { close(s.blocked) })
		<-s.unblock
		return 0, errVerifC09Released
	}
	k := rem
	if s.si < len(s.sched) && s.sched[s.si] < k {
		k = s.sched[s.si]
	}
	s.si++
	if len(p) < k {
		k = len(p)
	}
	copy(p, s.data[s.pos:s.pos+k])
	s.pos += k
	var err error
	if s.pos == len(s.data) && s.eager {
		err = s.tailErr()
	}
	return k, err
}

func (s *verifC09Stdin) Close() error { return nil }

type verifC09Discard struct{}

func (verifC09Discard) Write(p []byte) (int, error) { return len(p), nil }
func (verifC09Discard) Close() error                { return nil }

func verifC09ExitKind(err error) string {
	var syn *json.SyntaxError
	switch {
	case err == nil:
		return "ok"
	case errors.Is(err, io.ErrUnexpectedEOF):
		return "unexpected-eof"
	case errors.Is(err, io.EOF):
		return "eof"
	case errors.Is(err, errVerifC09IO):
		return "io-error"
	case errors.As(err, &syn):
		return "syntax"
	case errors.Is(err, proto.Error):
		return "unmarshal"
	}
	return "other-error"
}

const (
	verifC09ServerBound = 30 * time.Second
	verifC09ProbeBound  = 10 * time.Second
	verifC09ProbeSize   = 300
)

func verifC09ServerOne(args []vsx) vsx {
	if len(args) != 7 || args[5].i < 0 || args[5].i > 2 {
		return vL(vS("bad-case"))
	}
	useJSON, ref := args[0].boolean(), args[1].boolean()
	// the table must be true: ((message (http_version message_receive_limit)) ...), each message decoded
	// on its own has those fields, plain HTTP/1.1 or HTTP/2 without TLS (otherwise: bad-case)
	for _, e := range args[6].l {
		if e.k != 'l' || len(e.l) != 2 || e.l[1].k != 'l' || len(e.l[1].l) != 2 {
			return vL(vS("bad-case"))
		}
		var req conformancev1.ServerCompatRequest
		var err error
		if useJSON {
			err = protojson.Unmarshal(e.l[0].b, &req)
		} else {
			err = proto.Unmarshal(e.l[0].b, &req)
		}
		ver, limit := e.l[1].l[0].i, e.l[1].l[1].i
		kind := int64(0)
		switch {
		case req.GetProtocol() == conformancev1.Protocol_PROTOCOL_GRPC && req.GetHttpVersion() == conformancev1.HTTPVersion_HTTP_VERSION_2:
			kind = 2
		case req.GetProtocol() == conformancev1.Protocol_PROTOCOL_GRPC_WEB:
			kind = 1
		}
		if err != nil || kind == 0 || kind != ver || int64(req.GetMessageReceiveLimit()) != limit || limit <= 0 || req.GetUseTls() {
			return vL(vS("bad-case"))
		}
	}
	stdin := &verifC09Stdin{data: args[2].b, eager: args[4].boolean(), tail: int(args[5].i),
		blocked: make(chan struct{}), unblock: make(chan struct{})}
	defer stdin.release()
	for _, k := range args[3].l {
		stdin.sched = append(stdin.sched, int(k.i))
	}
	argv := []string{"grpcserver", "-bind", "127.0.0.1", "-port", "0"}
	if useJSON {
		argv = append(argv, "--json")
	}
	ctx, cancel := context.WithCancel(context.Background())
	defer cancel()
	outR, outW := io.Pipe()
	defer outR.Close()
	type outcome struct {
		err      error
		panicked bool
	}
	runDone := make(chan outcome, 1)
	go func() {
		defer outW.Close()
		defer func() {
			if r := recover(); r != nil {
				runDone <- outcome{panicked: true}
			}
		}()
		if ref {
			runDone <- outcome{err: RunWithTrace(ctx, argv, stdin, outW, verifC09Discard{}, nil)}
		} else {
			runDone <- outcome{err: Run(ctx, argv, stdin, outW, verifC09Discard{})}
		}
	}()
	type answer struct {
		resp *conformancev1.ServerCompatResponse
		err  error
	}
	answered := make(chan answer, 1)
	go func() {
		resp := &conformancev1.ServerCompatResponse{}
		err := internal.NewCodec(useJSON).NewDecoder(outR).DecodeNext(resp)
		answered <- answer{resp: resp, err: err}
		_, _ = io.Copy(io.Discard, outR) // the JSON encoder's newline, anything else
	}()
	deadline := time.NewTimer(verifC09ServerBound)
	defer deadline.Stop()
	var ans answer
	select {
	case ans = <-answered:
	case <-stdin.blocked:
		// The server sits in a Read behind the data: it is waiting for more input and cannot go on, so
		// no answer will come.  Exact, no clock involved: a server that has its request does not read
		// stdin again (both decoders return as soon as the message is complete), so this is only ever
		// reached when the request was incomplete - or by code that reads on although it has it all.
		return vL(vS("exit"), vS("blocked"))
	case <-deadline.C:
		return vL(vS("hang"))
	}
	if ans.err != nil {
		// nothing (complete) on stdout: Run has returned, or will at once
		select {
		case res := <-runDone:
			if res.panicked {
				return vCrash()
			}
			kind := verifC09ExitKind(res.err)
			if kind == "unmarshal" {
				return vL(vS("bad-case")) // the stream must carry a ServerCompatRequest
			}
			return vL(vS("exit"), vS(kind))
		case <-deadline.C:
			return vL(vS("hang"))
		}
	}
	if ans.resp.GetPort() == 0 {
		return vErr("response-without-port")
	}
	obs := verifC09Probe(net.JoinHostPort(ans.resp.GetHost(), strconv.Itoa(int(ans.resp.GetPort()))))
	cancel()
	select {
	case res := <-runDone:
		if res.panicked {
			return vCrash()
		}
	case <-deadline.C:
		return vL(vS("hang"))
	}
	return vL(vS("serving"), obs)
}

// what a client sees of the server listening at addr: (http2-only limited), see above
func verifC09Probe(addr string) vsx {
	ctx, cancel := context.WithTimeout(context.Background(), verifC09ProbeBound)
	defer cancel()
	conn, err := grpc.NewClient(addr, grpc.WithTransportCredentials(insecure.NewCredentials()))
	if err != nil {
		return vErr("probe-client")
	}
	defer conn.Close()
	client := conformancev1.NewConformanceServiceClient(conn)
	call := func(size int) error {
		_, err := client.Unary(ctx, &conformancev1.UnaryRequest{RequestData: make([]byte, size)})
		return err
	}
	// the server must be there at all (gRPC over HTTP/2 without TLS is served by both kinds)
	if err := call(1); err != nil {
		return vErr("server-does-not-answer-a-small-request")
	}
	limited := false
	if err := call(verifC09ProbeSize); err != nil {
		if status.Code(err) != codes.ResourceExhausted {
			return vErr("large-request-failed-otherwise")
		}
		limited = true
	}
	// a plain HTTP/1.1 request: answered (with whatever status) by net/http, not by the bare gRPC server
	h1 := &http.Transport{DisableCompression: true, DisableKeepAlives: true}
	defer h1.CloseIdleConnections()
	req, err := http.NewRequestWithContext(ctx, http.MethodGet, "http://"+addr+"/", nil)
	if err != nil {
		return vErr("probe-request")
	}
	answered := false
	if resp, err := h1.RoundTrip(req); err == nil {
		answered = resp.ProtoMajor == 1
		_ = resp.Body.Close()
	}
	return vL(vBool(!answered), vBool(limited))
}

var verifC09Pre struct {
	once sync.Once
	res  map[string]vsx
}

func verifC09Key(a []vsx) string {
	var sb strings.Builder
	vL(a...).print(&sb)
	return sb.String()
}

func verifC09Prefetch() {
	verifC09Pre.res = map[string]vsx{}
	fin, err := os.Open(os.Getenv("VERIF_CASES"))
	if err != nil {
		return
	}
	defer fin.Close()
	sc := bufio.NewScanner(fin)
	sc.Buffer(make([]byte, 1<<20), 1<<30)
	todo := map[string][]vsx{}
	for sc.Scan() {
		line := sc.Text()
		if !strings.HasPrefix(line, "(\"c09.grpcserver\" ") {
			continue
		}
		c := (&vparser{s: line}).item()
		if c.k != 'l' || len(c.l) != 9 {
			continue
		}
		todo[verifC09Key(c.l[2:])] = c.l[2:]
	}
	var mu sync.Mutex
	var wg sync.WaitGroup
	sem := make(chan struct{}, 32)
	for k, a := range todo {
		wg.Add(1)
		sem <- struct{}{}
		go func(k string, a []vsx) {
			defer wg.Done()
			defer func() { <-sem }()
			res := verifEvalOne(verifC09ServerOne, a)
			mu.Lock()
			verifC09Pre.res[k] = res
			mu.Unlock()
		}(k, a)
	}
	wg.Wait()
}

func verifC09Server(args []vsx) vsx {
	verifC09Pre.once.Do(verifC09Prefetch)
	if res, ok := verifC09Pre.res[verifC09Key(args)]; ok {
		return res
	}
	return verifC09ServerOne(args)
}
