//go:build verif

package connectconformance

import (
	"fmt"
	"os"
	"testing"
)

// TestVerifConsts prints the size limits the runner passes to ReadDelimitedMessage.
func TestVerifConsts(t *testing.T) {
	out := os.Getenv("VERIF_OUT")
	if out == "" {
		t.Skip("VERIF_OUT not set")
	}
	body := fmt.Sprintf("Definition c09_max_client_response : N := %d%%N.\nDefinition c09_max_server_response : N := %d%%N.\n",
		maxClientResponseSize, maxServerResponseSize)
	if err := os.WriteFile(out, []byte(body), 0o644); err != nil {
		t.Fatal(err)
	}
}
