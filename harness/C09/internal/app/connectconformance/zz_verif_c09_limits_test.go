//go:build verif

package connectconformance

import (
	"bytes"
	"context"
	"errors"
	"io"
	"sync"
	"sync/atomic"
	"time"

	conformancev1 "connectrpc.com/conformance/internal/gen/proto/go/connectrpc/conformance/v1"
)

// c09.limits drives the runner's REAL glue around ReadDelimitedMessage - which reader gets which size
// limit - with a scripted stdout of the peer process:
//
//	(side size avail sched tail)
//
// side  : 0 = the real runTestCasesForServer reading its server's ServerCompatResponse (documented
//
//	limit: 1 MB), 1 = the real runClient / clientProcessRunner.consumeOutput reading a
//	ClientCompatResponse (16 MB)
//
// size  : the length the 4-byte prefix announces (< 2^32; 1 and 2 are not cases)
// avail : how many bytes of a VALID message of exactly `size` bytes follow the prefix (<= size);
//
//	the body is virtual (a short head, then zero bytes of an unknown field), so a 16 MB body
//	costs nothing unless the code under test reads it
//
// sched : the i-th Read returns at most sched[i] bytes, then everything that fits
// tail  : behind the data 0 = io.EOF, 2 = another error (a stall is not driven here: no time-outs)
//
// Result: (verdict body-bytes-handed-out largest-buffer) where verdict = accepted (the runner went on
// with the message: the test case was sent to the client / the pending callback got the response),
// unexpected-eof, io-error, or oversize = an error that is neither, with NOTHING taken from the
// stream behind the prefix.  "Before allocating" is observed as the largest buffer ever handed to
// Read (4 for a rejected prefix) and the bytes handed out behind the prefix (0).  A watchdog turns
// a run that does not end into (hang).
func init() {
	verifKinds["c09.limits"] = verifC09Limits
}

var errVerifC09LimIO = errors.New("verif: scripted I/O error")

const verifC09LimBound = 15 * time.Second

// ---- the peer's stdout: prefix, then `avail` bytes of head ++ zeros ----
type verifC09LimStdout struct {
	mu      sync.Mutex
	prefix  [4]byte
	head    []byte // the first bytes of the message; zero bytes behind it
	avail   int
	pos     int // 0 .. 4+avail
	sched   []int
	si      int
	tail    int
	maxBuf  int
	gate    chan struct{} // nil or: Reads wait until it is closed
	handed  int           // body bytes handed out
	lateRds int           // Read calls begun after the whole prefix was handed out
}

func (s *verifC09LimStdout) Read(p []byte) (int, error) {
	if s.gate != nil {
		<-s.gate
	}
	s.mu.Lock()
	defer s.mu.Unlock()
	if len(p) > s.maxBuf {
		s.maxBuf = len(p)
	}
	if s.pos >= 4 {
		s.lateRds++
	}
	if len(p) == 0 {
		return 0, nil
	}
	total := 4 + s.avail
	rem := total - s.pos
	if rem == 0 {
		if s.tail == 2 {
			return 0, errVerifC09LimIO
		}
		return 0, io.EOF
	}
	k := rem
	if s.si < len(s.sched) && s.sched[s.si] < k {
		k = s.sched[s.si]
	}
	s.si++
	if len(p) < k {
		k = len(p)
	}
	for i := 0; i < k; i++ {
		at := s.pos + i
		switch {
		case at < 4:
			p[i] = s.prefix[at]
		case at-4 < len(s.head):
			p[i] = s.head[at-4]
		default:
			p[i] = 0
		}
	}
	if s.pos+k > 4 {
		from := s.pos
		if from < 4 {
			from = 4
		}
		s.handed += s.pos + k - from
	}
	s.pos += k
	return k, nil
}

// the head of a valid protobuf message of exactly `size` bytes that both response types accept:
// field 1 (test_name / host) = "t", then unknown fields (15: bytes of zeros; 15 as varint) as padding.
// ok = false when no such message exists (size 1, 2).  name = the string in field 1.
func verifC09LimHead(size int) (head []byte, name string, ok bool) {
	vlen := func(n int) int {
		k := 1
		for n >= 128 {
			n >>= 7
			k++
		}
		return k
	}
	varint := func(n int) []byte {
		var out []byte
		for n >= 128 {
			out = append(out, byte(n&0x7f|0x80))
			n >>= 7
		}
		return append(out, byte(n))
	}
	if size == 0 {
		return nil, "", true
	}
	if size < 3 {
		return nil, "", false
	}
	if size == 4 {
		return []byte{0x0a, 0x02, 't', 't'}, "tt", true
	}
	rem := size - 3
	// k two-byte fillers (varint field 15 = 0), then a bytes field 15 of L zeros with
	// 1 + vlen(L) + L = what is left (no L fits just above a varint boundary: one more filler)
	for k := 0; k <= 4; k++ {
		r := rem - 2*k
		if r < 0 {
			break
		}
		head = []byte{0x0a, 0x01, 't'}
		for i := 0; i < k; i++ {
			head = append(head, 0x78, 0x00)
		}
		if r == 0 {
			return head, "t", true
		}
		for l := r - 2; l >= 0 && l >= r-7; l-- {
			if 1+vlen(l)+l == r {
				head = append(head, 0x7a)
				head = append(head, varint(l)...)
				return head, "t", true
			}
		}
	}
	return nil, "", false
}

// ---- a peer process whose life the harness controls ----
type verifC09LimProc struct {
	once   sync.Once
	done   chan struct{}
	mu     sync.Mutex
	cbs    []func(error)
	aborts atomic.Int32
}

func (p *verifC09LimProc) finish() {
	p.once.Do(func() {
		close(p.done)
		p.mu.Lock()
		cbs := p.cbs
		p.cbs = nil
		p.mu.Unlock()
		for _, cb := range cbs {
			cb(nil)
		}
	})
}
func (p *verifC09LimProc) result() error { <-p.done; return nil }
func (p *verifC09LimProc) abort()        { p.aborts.Add(1); p.finish() }
func (p *verifC09LimProc) whenDone(f func(error)) {
	p.mu.Lock()
	select {
	case <-p.done:
		p.mu.Unlock()
		f(nil)
		return
	default:
	}
	p.cbs = append(p.cbs, f)
	p.mu.Unlock()
}

// the peer's stdin: takes everything; the peer exits when it is closed (as a real client does)
type verifC09LimStdin struct {
	proc      *verifC09LimProc
	exitOnEnd bool
}

func (w *verifC09LimStdin) Write(p []byte) (int, error) { return len(p), nil }
func (w *verifC09LimStdin) Close() error {
	if w.exitOnEnd {
		w.proc.finish()
	}
	return nil
}

type verifC09LimPrinter struct{}

func (verifC09LimPrinter) Printf(string, ...any)               {}
func (verifC09LimPrinter) PrefixPrintf(string, string, ...any) {}

// a client that answers every request at once with an error result
type verifC09LimClient struct {
	sent atomic.Int32
}

func (c *verifC09LimClient) sendRequest(req *conformancev1.ClientCompatRequest, whenDone func(string, *conformancev1.ClientCompatResponse, error)) error {
	c.sent.Add(1)
	whenDone(req.GetTestName(), &conformancev1.ClientCompatResponse{
		TestName: req.GetTestName(),
		Result:   &conformancev1.ClientCompatResponse_Error{Error: &conformancev1.ClientErrorResult{Message: "verif"}},
	}, nil)
	return nil
}
func (c *verifC09LimClient) closeSend()              {}
func (c *verifC09LimClient) waitForResponses() error { return nil }
func (c *verifC09LimClient) isRunning() bool         { return true }
func (c *verifC09LimClient) stop()                   {}

func verifC09LimErrKind(err error) string {
	switch {
	case err == nil:
		return "no-error"
	case errors.Is(err, io.ErrUnexpectedEOF):
		return "unexpected-eof"
	case errors.Is(err, errVerifC09LimIO):
		return "io-error"
	case errors.Is(err, io.EOF):
		return "eof"
	}
	return "other"
}

func verifC09Limits(args []vsx) vsx {
	if len(args) != 5 || args[0].i < 0 || args[0].i > 1 || args[1].i < 0 || args[1].i >= 1<<32 ||
		args[2].i < 0 || args[2].i > args[1].i || (args[4].i != 0 && args[4].i != 2) {
		return vL(vS("bad-case"))
	}
	side, size, avail, tail := int(args[0].i), int(args[1].i), int(args[2].i), int(args[4].i)
	head, name, ok := verifC09LimHead(size)
	if !ok {
		return vL(vS("bad-case"))
	}
	if avail > 64<<20 {
		return vL(vS("bad-case")) // a body the code might legitimately be asked to buffer: not on a shared machine
	}
	stdout := &verifC09LimStdout{head: head, avail: avail, tail: tail}
	stdout.prefix = [4]byte{byte(size >> 24), byte(size >> 16), byte(size >> 8), byte(size)}
	for _, k := range args[3].l {
		if k.i < 0 {
			return vL(vS("bad-case"))
		}
		stdout.sched = append(stdout.sched, int(k.i))
	}
	proc := &verifC09LimProc{done: make(chan struct{})}
	defer proc.finish()
	starter := func(_ context.Context, _ bool) (*process, error) {
		return &process{
			processController: proc,
			stdin:             &verifC09LimStdin{proc: proc, exitOnEnd: side == 1},
			stdout:            stdout,
			stderr:            bytes.NewReader(nil),
		}, nil
	}

	verdict := make(chan string, 1)
	go func() {
		defer func() {
			if r := recover(); r != nil {
				verdict <- "crash"
			}
		}()
		if side == 0 {
			testCases := []*conformancev1.TestCase{{Request: &conformancev1.ClientCompatRequest{TestName: "c09/limits"}}}
			results := newResults(1, &testTrie{}, &testTrie{}, nil)
			client := &verifC09LimClient{}
			runTestCasesForServer(context.Background(), false, false,
				serverInstance{protocol: conformancev1.Protocol_PROTOCOL_CONNECT, httpVersion: conformancev1.HTTPVersion_HTTP_VERSION_1},
				testCases, nil, nil, starter, verifC09LimPrinter{}, verifC09LimPrinter{}, results, client, nil, false)
			if client.sent.Load() > 0 {
				verdict <- "accepted"
				return
			}
			results.mu.Lock()
			out, have := results.outcomes["c09/limits"]
			results.mu.Unlock()
			if !have || !out.setupError {
				verdict <- "no-setup-error"
				return
			}
			verdict <- verifC09LimErrKind(out.actualFailure)
			return
		}
		// client side: the response must find its pending request, so the peer's stdout stays shut
		// until the request has been sent
		stdout.gate = make(chan struct{})
		runner, err := runClient(context.Background(), starter)
		if err != nil {
			close(stdout.gate)
			verdict <- "start-error"
			return
		}
		got := make(chan string, 1)
		err = runner.sendRequest(&conformancev1.ClientCompatRequest{TestName: name},
			func(_ string, resp *conformancev1.ClientCompatResponse, err error) {
				switch {
				case resp != nil && err == nil:
					got <- "accepted"
				default:
					got <- verifC09LimErrKind(err)
				}
			})
		close(stdout.gate)
		if err != nil {
			verdict <- "send-error"
			return
		}
		v := <-got
		_ = runner.waitForResponses()
		verdict <- v
	}()

	timer := time.NewTimer(verifC09LimBound)
	defer timer.Stop()
	var v string
	select {
	case v = <-verdict:
	case <-timer.C:
		return vL(vS("hang"))
	}
	if v == "crash" {
		return vCrash()
	}
	stdout.mu.Lock()
	handed, maxBuf, late := stdout.handed, stdout.maxBuf, stdout.lateRds
	stdout.mu.Unlock()
	if v == "other" {
		// an error that is neither an unexpected end nor the scripted I/O error: the rejection of the
		// announced length - provided the stream was not touched behind the prefix
		if handed == 0 && late == 0 {
			v = "oversize"
		} else {
			v = "other-error-after-reading-on"
		}
	}
	return vL(vS(v), vInt(handed), vInt(maxBuf))
}
