//go:build verif

package grpcclient

import (
	"bytes"
	"context"
	"encoding/json"
	"errors"
	"io"
	"sort"
	"strconv"
	"strings"
	"sync"
	"time"

	"connectrpc.com/conformance/internal"
	conformancev1 "connectrpc.com/conformance/internal/gen/proto/go/connectrpc/conformance/v1"
	"google.golang.org/protobuf/encoding/protojson"
	"google.golang.org/protobuf/proto"
)

// c09.grpcclient drives the REAL main loop of the gRPC reference client (Run = what cmd/grpcclient
// calls, or RunWithTrace = what the runner's in-process gRPC client calls) with a scripted stdin and
// a captured stdout - the same case shape, the same scripted source and the same model function
// (C09_Model.run_c09_client: one decoder per stream) as c09.client for referenceclient:
//
//	(json p ref data sched eager tail table)
//
// json  : 1 = the client is started with --json
// p     : the -p flag.  With -p 1 the loop is serialised by the code under test (the one semaphore
//
//	slot is released by a deferred call that runs after the response was encoded, the loop
//	acquires the slot before it starts the next request): responses compared as a SEQUENCE.
//	With p > 1 as a MULTISET (listed in the order of the case's table).
//
// ref   : 1 = RunWithTrace (nil tracer), 0 = Run
// data, sched, eager, tail : the scripted stdin, the same source as C09_Model.src_read: the i-th
//
//	Read returns at most sched[i] bytes - exactly that chunk when the caller's buffer can
//	hold it, never more -, reads behind the schedule return all that is left; then the tail:
//	0 io.EOF, 2 another error (1, a stalled runner, is not driven: bad-case); eager = the
//	terminal error comes together with the last data bytes.
//
// table : ((message name) ...) - every entry is checked to be true (the message unmarshalled on its
//
//	own has that test name) AND to be answered at once: this client dials for every request
//	and waits up to 5 s for the connection, so every request must name a host that
//	grpc.NewClient refuses on the spot (an invalid URL escape such as "%zz": no resolver, no
//	dial, no timer); a table entry without such a host is bad-case.
//
// Result: ((test names of the ClientCompatResponses on stdout) exit) with exit = ok (nil error) or
// the class of the returned error.  Error texts are never compared.
func init() {
	verifKinds["c09.grpcclient"] = verifC09Client
}

var errVerifC09IO = errors.New("verif: scripted I/O error")

// verifC09Stdin is the scripted stdin (an io.ReadCloser).
type verifC09Stdin struct {
	data  []byte
	pos   int
	sched []int
	si    int
	eager bool
	tail  int
	reads int
}

func (s *verifC09Stdin) tailErr() error {
	if s.tail == 2 {
		return errVerifC09IO
	}
	return io.EOF
}

func (s *verifC09Stdin) Read(p []byte) (int, error) {
	s.reads++
	if len(p) == 0 {
		return 0, nil
	}
	rem := len(s.data) - s.pos
	if rem == 0 {
		return 0, s.tailErr()
	}
	k := rem
	if s.si < len(s.sched) && s.sched[s.si] < k {
		k = s.sched[s.si]
	}
	s.si++
	if len(p) < k {
		k = len(p)
	}
	copy(p, s.data[s.pos:s.pos+k])
	s.pos += k
	var err error
	if s.pos == len(s.data) && s.eager {
		err = s.tailErr()
	}
	return k, err
}

func (s *verifC09Stdin) Close() error { return nil }

func verifC09NewStdin(d, sch, eg, tl vsx) *verifC09Stdin {
	s := &verifC09Stdin{data: d.b, eager: eg.boolean(), tail: int(tl.i)}
	for _, k := range sch.l {
		s.sched = append(s.sched, int(k.i))
	}
	return s
}

// verifC09Stdout captures what the client writes (an io.WriteCloser safe for concurrent use).
type verifC09Stdout struct {
	mu  sync.Mutex
	buf bytes.Buffer
}

func (o *verifC09Stdout) Write(p []byte) (int, error) {
	o.mu.Lock()
	defer o.mu.Unlock()
	return o.buf.Write(p)
}

func (o *verifC09Stdout) Close() error { return nil }

func (o *verifC09Stdout) bytes() []byte {
	o.mu.Lock()
	defer o.mu.Unlock()
	return append([]byte{}, o.buf.Bytes()...)
}

// the class of an error returned by the main loop (nil: ok)
func verifC09ExitKind(err error) string {
	var syn *json.SyntaxError
	switch {
	case err == nil:
		return "ok"
	case errors.Is(err, io.ErrUnexpectedEOF):
		return "unexpected-eof"
	case errors.Is(err, io.EOF):
		return "eof"
	case errors.Is(err, errVerifC09IO):
		return "io-error"
	case errors.As(err, &syn):
		return "syntax"
	case errors.Is(err, proto.Error):
		return "unmarshal"
	}
	return "other-error"
}

const verifC09LoopBound = 20 * time.Second

func verifC09Client(args []vsx) vsx {
	if len(args) != 8 || args[6].i == 1 || args[1].i < 1 || args[1].i > 64 {
		return vL(vS("bad-case"))
	}
	useJSON, par, ref := args[0].boolean(), int(args[1].i), args[2].boolean()
	var order []string
	for _, e := range args[7].l {
		if e.k != 'l' || len(e.l) != 2 {
			return vL(vS("bad-case"))
		}
		// the table must be true: its message, decoded on its own, carries its name (the shrinker moves
		// the parts of a case independently; a case with a false table is no case)
		var req conformancev1.ClientCompatRequest
		var err error
		if useJSON {
			err = protojson.Unmarshal(e.l[0].b, &req)
		} else {
			err = proto.Unmarshal(e.l[0].b, &req)
		}
		if err != nil || req.GetTestName() != e.l[1].str() || !strings.Contains(req.GetHost(), "%z") {
			return vL(vS("bad-case"))
		}
		order = append(order, e.l[1].str())
	}
	stdin := verifC09NewStdin(args[3], args[4], args[5], args[6])
	var stdout, stderr verifC09Stdout
	argv := []string{"grpcclient", "-p", strconv.Itoa(par)}
	if useJSON {
		argv = append(argv, "--json")
	}
	ctx, cancel := context.WithCancel(context.Background())
	defer cancel()
	type outcome struct {
		err      error
		panicked bool
	}
	done := make(chan outcome, 1)
	go func() {
		defer func() {
			if r := recover(); r != nil {
				done <- outcome{panicked: true}
			}
		}()
		if ref {
			done <- outcome{err: RunWithTrace(ctx, argv, stdin, &stdout, &stderr, nil)}
		} else {
			done <- outcome{err: Run(ctx, argv, stdin, &stdout, &stderr)}
		}
	}()
	var res outcome
	timer := time.NewTimer(verifC09LoopBound)
	defer timer.Stop()
	select {
	case res = <-done:
	case <-timer.C:
		return vL(vS("hang"))
	}
	if res.panicked {
		return vCrash()
	}
	exit := verifC09ExitKind(res.err)
	if exit == "unmarshal" {
		return vL(vS("bad-case")) // the stream must carry ClientCompatRequests
	}
	// what the client wrote: ClientCompatResponses in the same wire variant
	dec := internal.NewCodec(useJSON).NewDecoder(bytes.NewReader(stdout.bytes()))
	var names []string
	for {
		var resp conformancev1.ClientCompatResponse
		err := dec.DecodeNext(&resp)
		if errors.Is(err, io.EOF) {
			break
		}
		if err != nil {
			return vErr("stdout-is-not-a-sequence-of-responses")
		}
		if resp.GetResult() == nil {
			return vErr("response-without-result")
		}
		names = append(names, resp.GetTestName())
	}
	if par > 1 {
		rank := map[string]int{}
		for i, n := range order {
			if _, ok := rank[n]; !ok {
				rank[n] = i
			}
		}
		sort.SliceStable(names, func(i, j int) bool {
			ri, iok := rank[names[i]]
			rj, jok := rank[names[j]]
			switch {
			case iok && jok:
				return ri < rj
			case iok != jok:
				return iok
			}
			return names[i] < names[j]
		})
	}
	return vL(vStrs(names), vS(exit))
}
