//go:build verif

package connectconformance

import (
	"bytes"
	"fmt"
	"os"
	"path"
	"sort"
	"strings"
	"testing"

	conformancev1 "connectrpc.com/conformance/internal/gen/proto/go/connectrpc/conformance/v1"
	"google.golang.org/protobuf/encoding/protojson"
	"google.golang.org/protobuf/proto"
	"google.golang.org/protobuf/types/known/anypb"
)

func init() {
	verifKinds["c07.lib"] = verifC07Lib
	verifKinds["c07.filter"] = verifC07Filter
	verifKinds["c07.join"] = verifC07Join
	verifKinds["c07.marker"] = verifC07Marker
	verifKinds["c07.parse"] = verifC07Parse
}

// ---------------------------------------------------------------------------
// constants and tables of the compiled code -> coq/theories/C07_Consts.v
// ---------------------------------------------------------------------------

func verifC07CoqBytes(s string) string {
	parts := make([]string, 0, len(s))
	for i := 0; i < len(s); i++ {
		parts = append(parts, fmt.Sprintf("%d%%N", s[i]))
	}
	return "[" + strings.Join(parts, "; ") + "]"
}

func verifC07CoqNs[T ~int32](vals []T) string {
	parts := make([]string, 0, len(vals))
	for _, v := range vals {
		parts = append(parts, fmt.Sprintf("%d%%N", int32(v)))
	}
	return "[" + strings.Join(parts, "; ") + "]"
}

// the String() of every declared number of an enum (including 0)
func verifC07NameTable(names map[int32]string, str func(int32) string) string {
	keys := make([]int, 0, len(names))
	for k := range names {
		keys = append(keys, int(k))
	}
	sort.Ints(keys)
	parts := make([]string, 0, len(keys))
	for _, k := range keys {
		parts = append(parts, fmt.Sprintf("(%d%%N, %s)", k, verifC07CoqBytes(str(int32(k)))))
	}
	return "[" + strings.Join(parts, ";\n   ") + "]"
}

func TestVerifConsts(t *testing.T) {
	out := os.Getenv("VERIF_OUT")
	if out == "" {
		t.Skip("VERIF_OUT not set")
	}
	var sb strings.Builder
	fmt.Fprintf(&sb, "Definition c07_all_protocols : list N := %s.\n", verifC07CoqNs(allProtocols))
	fmt.Fprintf(&sb, "Definition c07_all_versions : list N := %s.\n", verifC07CoqNs(allHTTPVersions))
	fmt.Fprintf(&sb, "Definition c07_all_codecs : list N := %s.\n", verifC07CoqNs(allCodecs))
	fmt.Fprintf(&sb, "Definition c07_all_compressions : list N := %s.\n", verifC07CoqNs(allCompressions))
	fmt.Fprintf(&sb, "Definition c07_all_streams : list N := %s.\n", verifC07CoqNs(allStreamTypes))
	fmt.Fprintf(&sb, "Definition c07_protocol_names : list (N * list N) :=\n  %s.\n",
		verifC07NameTable(conformancev1.Protocol_name, func(k int32) string { return conformancev1.Protocol(k).String() }))
	fmt.Fprintf(&sb, "Definition c07_codec_names : list (N * list N) :=\n  %s.\n",
		verifC07NameTable(conformancev1.Codec_name, func(k int32) string { return conformancev1.Codec(k).String() }))
	fmt.Fprintf(&sb, "Definition c07_compression_names : list (N * list N) :=\n  %s.\n",
		verifC07NameTable(conformancev1.Compression_name, func(k int32) string { return conformancev1.Compression(k).String() }))
	// default service / method per stream type, as expandCases assigns them
	var methods []string
	service := ""
	for _, st := range allStreamTypes {
		lib := &testCaseLibrary{testCases: map[string]*conformancev1.TestCase{}, testCaseNames: map[string]string{}}
		tc := &conformancev1.TestCase{Request: &conformancev1.ClientCompatRequest{TestName: "t", StreamType: st}}
		if err := lib.expandCases(configCase{StreamType: st}, []string{"", "s"}, []*conformancev1.TestCase{tc}); err != nil {
			t.Fatal(err)
		}
		got := lib.testCases["s/t"]
		if got == nil {
			t.Fatal("default method probe: no permutation")
		}
		if service != "" && service != got.Request.GetService() {
			t.Fatal("default service depends on the stream type")
		}
		service = got.Request.GetService()
		methods = append(methods, fmt.Sprintf("(%d%%N, %s)", int32(st), verifC07CoqBytes(got.Request.GetMethod())))
	}
	fmt.Fprintf(&sb, "Definition c07_default_service : list N := %s.\n", verifC07CoqBytes(service))
	fmt.Fprintf(&sb, "Definition c07_default_methods : list (N * list N) :=\n  [%s].\n", strings.Join(methods, ";\n   "))
	fmt.Fprintf(&sb, "Definition c07_client_receive_limit : N := %d%%N.\n", clientReceiveLimit)
	fmt.Fprintf(&sb, "Definition c07_marker_both : list N := %s.\n", verifC07CoqBytes(grpcImplMarker))
	fmt.Fprintf(&sb, "Definition c07_marker_client : list N := %s.\n", verifC07CoqBytes(grpcClientImplMarker))
	fmt.Fprintf(&sb, "Definition c07_marker_server : list N := %s.\n", verifC07CoqBytes(grpcServerImplMarker))
	if err := os.WriteFile(out, []byte(sb.String()), 0o644); err != nil {
		t.Fatal(err)
	}
}

// ---------------------------------------------------------------------------
// building suites from a case
// ---------------------------------------------------------------------------

func verifC07Enums[T ~int32](v vsx) []T {
	var out []T
	for _, e := range v.l {
		out = append(out, T(e.i))
	}
	return out
}

func verifC07RawResponseMsg(stream int64) *anypb.Any {
	var msg proto.Message
	switch stream {
	case 3, 4, 5:
		msg = &conformancev1.ServerStreamRequest{
			ResponseDefinition: &conformancev1.StreamResponseDefinition{RawResponse: &conformancev1.RawHTTPResponse{StatusCode: 200}},
		}
	default:
		msg = &conformancev1.UnaryRequest{
			ResponseDefinition: &conformancev1.UnaryResponseDefinition{RawResponse: &conformancev1.RawHTTPResponse{StatusCode: 200}},
		}
	}
	a, err := anypb.New(msg)
	if err != nil {
		panic(err)
	}
	return a
}

// tcase: (name stream service method rawreq rawresp junk)
// junk: the request arrives with the runner-owned fields already filled in (a YAML author
// may have written them); expansion has to overwrite every one of them.
func verifC07TestCase(v vsx) *conformancev1.TestCase {
	req := &conformancev1.ClientCompatRequest{
		TestName:   v.l[0].str(),
		StreamType: conformancev1.StreamType(v.l[1].i),
	}
	if len(v.l[2].b) > 0 {
		req.Service = proto.String(v.l[2].str())
	}
	if len(v.l[3].b) > 0 {
		req.Method = proto.String(v.l[3].str())
	}
	tc := &conformancev1.TestCase{Request: req}
	if v.l[4].boolean() {
		req.RawRequest = &conformancev1.RawHTTPRequest{Verb: "POST", Uri: "/x"}
	}
	if v.l[5].boolean() {
		req.RequestMessages = []*anypb.Any{verifC07RawResponseMsg(v.l[1].i)}
		tc.ExpectedResponse = &conformancev1.ClientResponseResult{}
	}
	if v.l[6].boolean() {
		req.HttpVersion = conformancev1.HTTPVersion_HTTP_VERSION_3
		req.Protocol = conformancev1.Protocol_PROTOCOL_GRPC_WEB
		req.Codec = conformancev1.Codec_CODEC_TEXT
		req.Compression = conformancev1.Compression_COMPRESSION_SNAPPY
		req.ServerTlsCert = []byte("JUNK")
		req.ClientTlsCreds = &conformancev1.TLSCreds{Key: []byte("JUNK"), Cert: []byte("JUNK")}
		req.MessageReceiveLimit = 7
	}
	if len(v.l) > 7 {
		verifC07SetExtras(tc, v.l[7])
	}
	return tc
}

// the fields of a TestCase besides the request: ((other allowed codes) (expand sizes) (explicit-expectation mark)?)
const verifC07Mark = "verif:"

func verifC07SetExtras(tc *conformancev1.TestCase, x vsx) {
	for _, c := range x.l[0].l {
		tc.OtherAllowedErrorCodes = append(tc.OtherAllowedErrorCodes, conformancev1.Code(c.i))
	}
	for _, e := range x.l[1].l {
		tc.ExpandRequests = append(tc.ExpandRequests, &conformancev1.TestCase_ExpandedSize{SizeRelativeToLimit: proto.Int32(int32(e.i))})
	}
	if len(x.l[2].l) == 1 {
		tc.ExpectedResponse = &conformancev1.ClientResponseResult{
			Payloads: []*conformancev1.ConformancePayload{{Data: append([]byte(verifC07Mark), x.l[2].l[0].b...)}},
			Error:    &conformancev1.Error{Code: conformancev1.Code_CODE_UNKNOWN},
		}
	}
}

func verifC07ExtrasParts(tc *conformancev1.TestCase) (other, expand []int64, mark []byte, marked bool) {
	for _, c := range tc.OtherAllowedErrorCodes {
		other = append(other, int64(c))
	}
	for _, e := range tc.ExpandRequests {
		expand = append(expand, int64(e.GetSizeRelativeToLimit()))
	}
	if ps := tc.GetExpectedResponse().GetPayloads(); len(ps) > 0 && bytes.HasPrefix(ps[0].Data, []byte(verifC07Mark)) {
		mark, marked = ps[0].Data[len(verifC07Mark):], true
	}
	return other, expand, mark, marked
}

func verifC07Extras(tc *conformancev1.TestCase) vsx {
	other, expand, mark, marked := verifC07ExtrasParts(tc)
	ints := func(l []int64) vsx {
		out := make([]vsx, len(l))
		for i, x := range l {
			out[i] = vI(x)
		}
		return vL(out...)
	}
	m := vL()
	if marked {
		m = vL(vB(mark))
	}
	return vL(ints(other), ints(expand), m)
}

// name 0 #other other... #expand expand... (0 | 1 mark...): the model's perm_key
func verifC07PermKey(tc *conformancev1.TestCase) string {
	other, expand, mark, marked := verifC07ExtrasParts(tc)
	key := []byte(tc.Request.TestName)
	key = append(key, 0, byte(len(other)))
	for _, c := range other {
		key = append(key, byte(c))
	}
	key = append(key, byte(len(expand)))
	for _, e := range expand {
		key = append(key, byte(e))
	}
	if marked {
		key = append(append(key, 1), mark...)
	} else {
		key = append(key, 0)
	}
	return string(key)
}

// suite: (name mode (protocols) (versions) (codecs) (compressions) cvm tls certs get limit (tcases...))
func verifC07Suite(v vsx) *conformancev1.TestSuite {
	s := &conformancev1.TestSuite{
		Name:                        v.l[0].str(),
		Mode:                        conformancev1.TestSuite_TestMode(v.l[1].i),
		RelevantProtocols:           verifC07Enums[conformancev1.Protocol](v.l[2]),
		RelevantHttpVersions:        verifC07Enums[conformancev1.HTTPVersion](v.l[3]),
		RelevantCodecs:              verifC07Enums[conformancev1.Codec](v.l[4]),
		RelevantCompressions:        verifC07Enums[conformancev1.Compression](v.l[5]),
		ConnectVersionMode:          conformancev1.TestSuite_ConnectVersionMode(v.l[6].i),
		ReliesOnTls:                 v.l[7].boolean(),
		ReliesOnTlsClientCerts:      v.l[8].boolean(),
		ReliesOnConnectGet:          v.l[9].boolean(),
		ReliesOnMessageReceiveLimit: v.l[10].boolean(),
	}
	for _, t := range v.l[11].l {
		s.TestCases = append(s.TestCases, verifC07TestCase(t))
	}
	return s
}

func verifC07Suites(v vsx) map[string]*conformancev1.TestSuite {
	m := make(map[string]*conformancev1.TestSuite, len(v.l))
	for i, s := range v.l {
		m[fmt.Sprintf("f%03d.yaml", i)] = verifC07Suite(s)
	}
	return m
}

// case: (version protocol codec compression stream tls certs get limit cvm)
func verifC07Case(v vsx) configCase {
	return configCase{
		Version:                conformancev1.HTTPVersion(v.l[0].i),
		Protocol:               conformancev1.Protocol(v.l[1].i),
		Codec:                  conformancev1.Codec(v.l[2].i),
		Compression:            conformancev1.Compression(v.l[3].i),
		StreamType:             conformancev1.StreamType(v.l[4].i),
		UseTLS:                 v.l[5].boolean(),
		UseTLSClientCerts:      v.l[6].boolean(),
		UseConnectGET:          v.l[7].boolean(),
		UseMessageReceiveLimit: v.l[8].boolean(),
		ConnectVersionMode:     conformancev1.TestSuite_ConnectVersionMode(v.l[9].i),
	}
}

func verifC07SortedKeys(tcs []*conformancev1.TestCase) vsx {
	names := make([]string, 0, len(tcs))
	for _, tc := range tcs {
		names = append(names, verifC07PermKey(tc))
	}
	sort.Strings(names)
	return vStrs(names)
}

// one expansion, projected:
//   (ok ((name simple version protocol codec compression stream tls-cert creds service method limit
//         rawreq rawresp (other-codes expand-sizes expectation-mark) (group: protocol version tls certs)) ... sorted by name)
//       number-of-groups (name+other fields of allPermutations(true,true) as one key each, sorted)
//       len allPermutations(false,false) len (true,false) len (false,true)
//       (serverInstancesSlice(lib, true), in order) names-issued-twice-by-allPermutations(true,true))
func verifC07Once(suites map[string]*conformancev1.TestSuite, cases []configCase, mode conformancev1.TestSuite_TestMode) vsx {
	lib, err := newTestCaseLibrary(suites, cases, mode)
	if err != nil {
		if lib != nil {
			return vErr("error-with-library")
		}
		return vErr("lib")
	}
	// where does each permutation sit in casesByServer?
	groupOf := map[string]serverInstance{}
	total := 0
	for inst, group := range lib.casesByServer {
		if len(group) == 0 {
			return vErr("empty-group")
		}
		for _, tc := range group {
			if _, dup := groupOf[tc.Request.TestName]; dup {
				return vErr("grouped-twice")
			}
			groupOf[tc.Request.TestName] = inst
			total++
		}
	}
	if total != len(lib.testCases) {
		return vErr("group-count")
	}
	names := make([]string, 0, len(lib.testCases))
	for name := range lib.testCases {
		names = append(names, name)
	}
	sort.Strings(names)
	perms := make([]vsx, 0, len(names))
	for _, name := range names {
		tc := lib.testCases[name]
		req := tc.Request
		if req.TestName != name {
			return vErr("key-differs-from-test-name")
		}
		simple, ok := lib.testCaseNames[name]
		if !ok {
			return vErr("no-simple-name")
		}
		inst, ok := groupOf[name]
		if !ok {
			return vErr("not-grouped")
		}
		if tc.ExpectedResponse == nil {
			return vErr("no-expected-response")
		}
		perms = append(perms, vL(
			vS(name), vS(simple),
			vI(int64(req.HttpVersion)), vI(int64(req.Protocol)), vI(int64(req.Codec)), vI(int64(req.Compression)),
			vI(int64(req.StreamType)),
			vB(req.ServerTlsCert), verifC07Creds(req.ClientTlsCreds),
			vS(req.GetService()), vS(req.GetMethod()), vI(int64(req.MessageReceiveLimit)),
			vBool(req.RawRequest != nil), vBool(hasRawResponse(req.RequestMessages)), verifC07Extras(tc),
			vL(vI(int64(inst.protocol)), vI(int64(inst.httpVersion)), vBool(inst.useTLS), vBool(inst.useTLSClientCerts)),
		))
	}
	// serverInstancesSlice(lib, true): the one place where the code sorts - compared IN ORDER;
	// the unsorted slice must hold the same instances (each key of casesByServer once)
	sortedInsts := serverInstancesSlice(lib, true)
	unsorted := serverInstancesSlice(lib, false)
	if len(sortedInsts) != len(lib.casesByServer) || len(unsorted) != len(lib.casesByServer) {
		return vErr("instances-count")
	}
	seenInst := map[serverInstance]bool{}
	for _, inst := range unsorted {
		if _, ok := lib.casesByServer[inst]; !ok || seenInst[inst] {
			return vErr("instances-unsorted")
		}
		seenInst[inst] = true
	}
	insts := make([]vsx, 0, len(sortedInsts))
	for _, inst := range sortedInsts {
		if !seenInst[inst] {
			return vErr("instances-sorted")
		}
		insts = append(insts, vL(vI(int64(inst.protocol)), vI(int64(inst.httpVersion)), vBool(inst.useTLS), vBool(inst.useTLSClientCerts)))
	}
	// names issued more than once by allPermutations(true, true): 0 unless a name segment is a gRPC marker
	all := lib.allPermutations(true, true)
	distinct := map[string]struct{}{}
	for _, tc := range all {
		distinct[tc.Request.TestName] = struct{}{}
	}
	// (the ORDER of allPermutations and of the members of a group follows the map iteration order and is
	// not compared: all_permutations_stable / groups_stable say only the multiset is fixed)
	return vL(vS("ok"), vL(perms...), vInt(len(lib.casesByServer)),
		verifC07SortedKeys(all),
		vInt(len(lib.allPermutations(false, false))),
		vInt(len(lib.allPermutations(true, false))),
		vInt(len(lib.allPermutations(false, true))),
		vL(insts...),
		vInt(len(all)-len(distinct)))
}

func verifC07Creds(c *conformancev1.TLSCreds) vsx {
	if c == nil {
		return vL()
	}
	return vL(vB(c.Key), vB(c.Cert))
}

// ("c07.lib" id mode (suites) (cases)).  The library is built on freshly built suites, then
// three more times on one and the same suite objects (expandCases writes default service/method
// into them) - Go randomises the map iteration order on every range, so the runs cross different
// suite orders; all runs must print the same thing.
func verifC07Lib(args []vsx) vsx {
	mode := conformancev1.TestSuite_TestMode(args[0].i)
	var cases []configCase
	for _, c := range args[2].l {
		cases = append(cases, verifC07Case(c))
	}
	print1 := func(v vsx) string {
		var sb strings.Builder
		v.print(&sb)
		return sb.String()
	}
	first := verifC07Once(verifC07Suites(args[1]), cases, mode)
	want := print1(first)
	shared := verifC07Suites(args[1])
	for i := 0; i < 3; i++ {
		if got := print1(verifC07Once(shared, cases, mode)); got != want {
			return vErr("unstable-across-runs")
		}
	}
	// the order of the config cases is immaterial too
	if len(cases) > 1 {
		rev := make([]configCase, len(cases))
		for i, c := range cases {
			rev[len(cases)-1-i] = c
		}
		if got := print1(verifC07Once(verifC07Suites(args[1]), rev, mode)); got != want {
			return vErr("unstable-across-case-order")
		}
	}
	return first
}

// ("c07.filter" id client-is-grpc server-is-grpc ((name simple protocol version codec compression tls-cert rawreq rawresp)...))
//   -> (name (other-codes expand-sizes expectation-mark)) of filterGRPCImplTestCases, in order; an optional tenth
//      element of a permutation gives those other fields of its TestCase
func verifC07Filter(args []vsx) vsx {
	lib := &testCaseLibrary{testCases: map[string]*conformancev1.TestCase{}, testCaseNames: map[string]string{}}
	var tcs []*conformancev1.TestCase
	for _, p := range args[2].l {
		req := &conformancev1.ClientCompatRequest{
			TestName:    p.l[0].str(),
			Protocol:    conformancev1.Protocol(p.l[2].i),
			HttpVersion: conformancev1.HTTPVersion(p.l[3].i),
			Codec:       conformancev1.Codec(p.l[4].i),
			Compression: conformancev1.Compression(p.l[5].i),
			StreamType:  conformancev1.StreamType_STREAM_TYPE_UNARY,
		}
		if p.l[6].boolean() {
			req.ServerTlsCert = []byte("PLACEHOLDER")
		}
		if p.l[7].boolean() {
			req.RawRequest = &conformancev1.RawHTTPRequest{Verb: "POST"}
		}
		if p.l[8].boolean() {
			req.RequestMessages = []*anypb.Any{verifC07RawResponseMsg(1)}
		}
		if _, dup := lib.testCaseNames[req.TestName]; dup {
			return vL(vS("bad-case"))
		}
		lib.testCaseNames[req.TestName] = p.l[1].str()
		tc := &conformancev1.TestCase{Request: req}
		if len(p.l) > 9 {
			verifC07SetExtras(tc, p.l[9])
		}
		lib.testCases[req.TestName] = tc
		tcs = append(tcs, tc)
	}
	before := make([]*conformancev1.TestCase, len(tcs))
	for i, tc := range tcs {
		before[i] = proto.Clone(tc).(*conformancev1.TestCase) //nolint:errcheck,forcetypeassert
	}
	out := lib.filterGRPCImplTestCases(tcs, args[0].boolean(), args[1].boolean())
	names := make([]vsx, 0, len(out))
	next := 0
	for _, tc := range out {
		names = append(names, vL(vS(tc.Request.TestName), verifC07Extras(tc)))
		// the whole message: each output is, in order, one of the inputs under another name
		// (same_but_name over every field, also those the model does not look at)
		found := false
		for ; next < len(before) && !found; next++ {
			want := proto.Clone(before[next]).(*conformancev1.TestCase) //nolint:errcheck,forcetypeassert
			want.Request.TestName = tc.Request.TestName
			found = proto.Equal(want, tc)
		}
		if !found && (args[0].boolean() || args[1].boolean()) {
			return vErr("variant-differs-beyond-name")
		}
	}
	// the input must be left alone
	for i, p := range args[2].l {
		if tcs[i].Request.TestName != p.l[0].str() {
			return vErr("input-renamed")
		}
		if (args[0].boolean() || args[1].boolean()) && !proto.Equal(tcs[i], before[i]) {
			return vErr("input-altered")
		}
	}
	return vL(names...)
}

// ("c07.join" id (elem...)) -> path.Join
func verifC07Join(args []vsx) vsx {
	return vS(path.Join(args[0].strs()...))
}

// ("c07.marker" id full simple client server) -> addGRPCMarkerToName
func verifC07Marker(args []vsx) vsx {
	return vS(addGRPCMarkerToName(args[0].str(), args[1].str(), args[2].boolean(), args[3].boolean()))
}

// ("c07.parse" id suite has-explicit-expectation) -> ok | (err parse): the mode-specific payload
// restrictions of parseTestSuites (raw request only in server mode, raw response only in client
// mode and only with an explicit expected response).  The suite is rendered with protojson
// (valid YAML) and handed to the real parseTestSuites.
func verifC07Parse(args []vsx) vsx {
	s := verifC07Suite(args[0])
	if !args[1].boolean() {
		for _, tc := range s.TestCases {
			tc.ExpectedResponse = nil
		}
	}
	data, err := protojson.Marshal(s)
	if err != nil {
		return vErr("harness-marshal")
	}
	suites, err := parseTestSuites(map[string][]byte{"verif.yaml": data})
	if err != nil {
		return vErr("parse")
	}
	if len(suites) != 1 || !proto.Equal(suites["verif.yaml"], s) {
		return vErr("harness-roundtrip")
	}
	return vL(vS("ok"))
}
